From PBK Require Import Base Bits Frame MdQuery.
Theorem C17_placeholder : md_parse [37; 97]%N = Ok (None, [97]%N).
Proof. vm_compute. reflexivity. Qed.
Print Assumptions C17_placeholder.
