(* C17 — Metadata queries and metadata-only decoding agree with the full decode.
   Statements only; every proof is [exact <lemma of MdQueryProofs>].
   MdQuery.v models mdquery.py; the decoding side is Frame.v's decode_message
   (info_only = true / false) and scan_info (generate_bufr_message, info_only). *)
From PBK Require Import Base Bits BitsProofs Frame FrameProofs MdQuery MdQueryProofs MdInfoContent.

(* the expression syntax, as coded *)
Theorem C17_md_parse_spec :
  (forall ws1 ws2 name,
     all_space ws1 = true -> all_space ws2 = true -> no_dot name = true -> ends_clean name = true ->
     md_parse (ws1 ++ (37%N :: name) ++ ws2) = Ok (None, name)) /\
  (forall ws1 ws2 ds name,
     all_space ws1 = true -> all_space ws2 = true -> ds <> [] -> forallb is_digit ds = true ->
     no_dot name = true -> ends_clean name = true ->
     md_parse (ws1 ++ (37%N :: ds ++ 46%N :: name) ++ ws2) = Ok (Some (Z.of_N (numeral_value ds)), name)) /\
  (forall e c rest, strip e = c :: rest -> c <> 37%N -> md_parse e = Err EMetadataExpr) /\
  (forall e rest a b, strip e = 37%N :: rest -> split_dot rest = [a; b] -> py_int a = None ->
     md_parse e = Err EMetadataExpr) /\
  (forall e rest a b c l, strip e = 37%N :: rest -> split_dot rest = a :: b :: c :: l ->
     md_parse e = Err EValue) /\
  (forall e, strip e = [] -> md_parse e = Err EIndex).
Proof. exact md_parse_spec. Qed.
Print Assumptions C17_md_parse_spec.

(* '%name': the value held by the first section (in section order) that has the
   parameter; '%k.name': the first among the sections numbered k; None otherwise *)
Theorem C17_md_first_match : forall idx n secs,
  md_lookup idx (name_str n) secs =
  first_some (map (fun s => prop_get n (sec_values s)) (filter (index_matches idx) secs)).
Proof. exact md_first_match. Qed.
Print Assumptions C17_md_first_match.

Theorem C17_md_lookup_some_iff : forall idx n secs v,
  md_lookup idx (name_str n) secs = Some v <->
  exists s1 s s2, filter (index_matches idx) secs = s1 ++ s :: s2 /\
                  Forall (fun x => prop_get n (sec_values x) = None) s1 /\
                  prop_get n (sec_values s) = Some v.
Proof. exact md_lookup_some_iff. Qed.
Print Assumptions C17_md_lookup_some_iff.

(* a name that is not the spelling of any parameter of the bundled definitions *)
Theorem C17_md_lookup_unknown_name : forall idx name secs,
  (forall n, name_str n <> name) -> md_lookup idx name secs = None.
Proof. exact md_lookup_unknown_name. Qed.
Print Assumptions C17_md_lookup_unknown_name.

(* over any message whose sections carry the parameters of a list of layouts
   (in particular message_layout ed has2 for editions 2-4 with/without section 2):
   '%name' is answered by the first layout that has the name, and is answered *)
Theorem C17_md_first_match_layouts : forall secs layout n,
  conforms secs layout ->
  md_lookup None (name_str n) secs =
  match find (fun sc => has_param n (s_params (snd sc))) (combine secs layout) with
  | Some (s, _) => prop_get n (sec_values s)
  | None => None
  end /\
  (forall s c, find (fun sc => has_param n (s_params (snd sc))) (combine secs layout) = Some (s, c) ->
     prop_get n (sec_values s) <> None).
Proof. exact md_first_match_layouts. Qed.
Print Assumptions C17_md_first_match_layouts.

(* metadata-only decoding: same sections 0-3 as the full decode, for every input
   on which the full decode succeeds; section 4 reduced to length + reserved bits *)
Theorem C17_info_equals_full_on_sections_0_3 :
  forall (decode_data : list (pname * pvalue) -> reader -> result (bits * reader)),
  (forall p r b r', decode_data p r = Ok (b, r') -> r = b ++ r') ->
  (forall p r b r' s, decode_data p r = Ok (b, r') -> decode_data p (r ++ s) = Ok (b, r' ++ s)) ->
  forall sig ign s m,
  decode_message decode_data sig false ign s = Ok m ->
  exists m',
    decode_message decode_data sig true ign s = Ok m' /\
    filter lt4 (m_sections m') = filter lt4 (m_sections m) /\
    (forall s4, In s4 (m_sections m) -> sec_index s4 = 4%N ->
       exists s4', In s4' (m_sections m') /\ sec_index s4' = 4%N /\
                   sec_values s4' = firstn 2 (sec_values s4) /\ sec_nbits s4' = sec_nbits s4).
Proof. exact info_equals_full_on_sections_0_3. Qed.
Print Assumptions C17_info_equals_full_on_sections_0_3.

(* it never reads the data section: (1) the result does not depend on the
   template decoder at all (so it is the same when the data are undecodable) *)
Theorem C17_info_does_not_interpret_data : forall dd1 dd2 sig ign s,
  decode_message dd1 sig true ign s = decode_message dd2 sig true ign s.
Proof. exact info_independent_of_template_decoder. Qed.
Print Assumptions C17_info_does_not_interpret_data.

(* (2) of section 4 it reads the 4-octet header h and skips the declared rest:
   replacing the content bits c by any c' of the same length changes nothing *)
Theorem C17_info_skips_data_content : forall dd props h c c' rest sec props' r',
  length h = 32%nat -> length c = length c' ->
  decode_section dd info4 props (h ++ c ++ rest) = Ok (sec, props', r') ->
  exists r'', decode_section dd info4 props (h ++ c' ++ rest) = Ok (sec, props', r'') /\
              length r'' = length r' /\
              (length r' <= length rest -> r'' = r').
Proof. exact info_skips_data_content. Qed.
Print Assumptions C17_info_skips_data_content.

(* (3) whole messages: replace any bytes c lying after the 4-octet header of
   section 4 (a = everything up to there, idx = where the signature was found)
   by other bytes of the same number: same sections, same attributes — for any
   template decoder, no hypothesis on it *)
Theorem C17_info_independent_of_data_content :
  forall (dd : list (pname * pvalue) -> reader -> result (bits * reader)) sig ign a c c' z m idx,
  length c = length c' ->
  decode_message dd sig true ign (a ++ c ++ z) = Ok m ->
  match sig with Some g => find_sig g a = Some idx | None => idx = 0%nat end ->
  (sections_nbits (filter lt4 (m_sections m)) + 32 <= 8 * (length a - idx))%nat ->
  exists m', decode_message dd sig true ign (a ++ c' ++ z) = Ok m' /\
             m_sections m' = m_sections m /\ m_props m' = m_props m.
Proof. exact info_independent_of_data_content. Qed.
Print Assumptions C17_info_independent_of_data_content.

(* scanning in metadata-only mode: every message's bytes come from its declared
   total length, and the scan resumes right after them *)
Theorem C17_info_scan_uses_declared_length : forall dd fuel s ms e,
  scan_info dd fuel s = (ms, e) -> scan_spec dd s ms.
Proof. exact info_scan_uses_declared_length. Qed.
Print Assumptions C17_info_scan_uses_declared_length.
