(* C09 — the hierarchical view contains every decoded value exactly once, in an
   arrangement from which the flat order is recovered.

   Modelled: templatedata.py TemplateData.wire (Wire.v), renderer.py
   NestedJsonRenderer as a tree of indices (Nested.v), and utils.py
   template_data_nested_json_to_flat_json (Nested.nested_to_flat).
   The text renderings (flat text, nested text) and their parsers
   (utils.flat_text_to_flat_json / nested_text_to_flat_json) are modelled in
   TextFmt.v; their round-trip theorems are appended at the end of this file
   (Python's repr and ast.literal_eval are universally quantified there). *)
From PBK Require Import Base Descr Walk Wire Nested WireProofs NestedProofs.

(* 1. the wired tree, read members-in-order with associated fields before their
      owner and a replication factor before the repetitions, is 0, 1, ..., n-1 *)
Theorem C09_wire_flat_order :
  forall ndesc vals links T nodes s,
    wire ndesc vals links T = Ok (nodes, s) ->
    flat_nodes (x_attrs s) nodes = span 0 (x_next s).
Proof. exact wire_flat_order. Qed.
Print Assumptions C09_wire_flat_order.

(* 2. hence every flat index occurs exactly once in the hierarchical view *)
Theorem C09_each_index_once :
  forall ndesc vals links T nodes s,
    wire ndesc vals links T = Ok (nodes, s) ->
    NoDup (flat_nodes (x_attrs s) nodes) /\
    forall i, In i (flat_nodes (x_attrs s) nodes) <-> (i < x_next s)%N.
Proof. exact wire_each_index_once. Qed.
Print Assumptions C09_each_index_once.

(* 3. replication nodes hold whole repetitions: the member list has
      n_members * n_repeats entries, so cutting it into repetitions loses nothing *)
Theorem C09_whole_repetitions :
  forall ndesc vals links T nodes s,
    wire ndesc vals links T = Ok (nodes, s) -> wf_nodes vals nodes.
Proof.
  intros ndesc vals links T nodes s E. unfold wire in E.
  destruct (proj2 (wire_wf ndesc vals links) T _ _ _ _ E) as (new & -> & _ & W). exact W.
Qed.
Print Assumptions C09_whole_repetitions.

(* 4. nested JSON -> flat: NestedJsonRenderer's image of the wired tree,
      converted by template_data_nested_json_to_flat_json, lists 0..n-1 in order.
      The hypothesis ties the labels to the wiring: an attribute was attached as
      an associated field iff its decoded descriptor is an AssociatedDescriptor
      (this is compared against the real renderer's 'virtual' flags by the check). *)
Theorem C09_nested_json_to_flat :
  forall ndesc vals links T nodes s is_assoc_label k,
    wire ndesc vals links T = Ok (nodes, s) ->
    (forall o a b, In (o, a, b) (x_attrs s) -> is_assoc_label a = b) ->
    nested_to_flat (render_nodes (x_attrs s) is_assoc_label vals (S k) nodes) = span 0 (x_next s).
Proof. exact nested_to_flat_render. Qed.
Print Assumptions C09_nested_json_to_flat.

(* non-vacuity: 204008 (associated field) around an element, a delayed
   replication with two repetitions, a quality element: wiring succeeds and the
   hypotheses of (4) hold *)
Definition ex_elem (id : N) : desc := DElem (mkElem id [] 0 0 8).
Definition ex_T : descs :=
  DCons (DOper 204008) (DCons (ex_elem 31021) (DCons (ex_elem 12001) (DCons (DOper 204000)
  (DCons (DDelayed 101000 (ex_elem 31001) (DCons (ex_elem 12001) DNil))
  (DCons (DFixed 102002 (DCons (ex_elem 1001) (DCons (ex_elem 1002) DNil))) DNil))))).
Definition ex_vals : list value :=
  [VInt 1; VInt 3; VInt 280; VInt 2; VInt 10; VInt 11; VInt 1; VInt 2; VInt 3; VInt 4].
Example C09_nonvacuous :
  exists nodes s,
    wire 10 ex_vals [] ex_T = Ok (nodes, s) /\ x_next s = 10%N /\
    (forall o a b, In (o, a, b) (x_attrs s) -> N.eqb 1 a = b) /\
    nested_to_flat (render_nodes (x_attrs s) (N.eqb 1) ex_vals 3 nodes) = [0;1;2;3;4;5;6;7;8;9]%N.
Proof.
  eexists; eexists. split; [vm_compute; reflexivity|]. split; [reflexivity|]. split.
  - cbn. intros o a b H. repeat (destruct H as [H|H]; [injection H as <- <- <-; reflexivity|]). destruct H.
  - vm_compute. reflexivity.
Qed.

(* ======================= the two TEXT formats ===================================
   Modelled in TextFmt.v: FlatTextRenderer / NestedTextRenderer (message, sections,
   'name = value' lines, template-data lines) and utils.flat_text_to_flat_json /
   nested_text_to_flat_json with section_text_to_flat_json and the two subsets_*
   loops.  EXTERNAL, universally quantified: Python's repr ('{!r}') and
   ast.literal_eval; the side conditions (TextFmtSpec.v, TextFmtFlat.v,
   TextFmtNested.v) say what the parsers need of them. *)
From PBK Require Import TextFmt TextFmtSpec TextFmtFlat TextFmtExamples.

(* 5. flat text: every value starts at column 81 of its line, in both line formats *)
Theorem C09_flat_text_value_column :
  forall (repr : pyv -> str) links idx c,
    exists pre, flat_line repr links idx c = pre ++ repr (fobj c) /\ length pre = 81%nat /\
                exists c0 t, pre = c0 :: t /\ TextFmtStrings.fw_char c0 = true.
Proof. exact flat_line_column. Qed.
Print Assumptions C09_flat_text_value_column.

(* 6. flat text -> flat JSON: for every message (any sections, parameters, subsets, values,
      links, descriptor texts) whose lines hold no line break, whose 'name = value' lines
      split in two at ' = ', whose printed objects literal_eval reads back, and whose
      template data is the last parameter of a section that is followed by another one *)
Theorem C09_flat_text_roundtrip :
  forall (repr : pyv -> str) (leval : str -> result pyv) (m : message (list fsubset)),
    flat_message_ok repr leval m ->
    flat_text_to_flat_json leval (render_flat_text repr m) = Ok (flat_json_of flat_td_values m).
Proof. exact flat_text_roundtrip. Qed.
Print Assumptions C09_flat_text_roundtrip.

(* non-vacuity: four sections; three subsets (the last empty); a flag-table tuple, a bytes
   value containing " b'", a bitmap-linked line, a 100-character descriptor text, None *)
Example C09_flat_text_nonvacuous :
  flat_message_ok toy_repr (toy_leval ex_flat_univ) ex_flat_msg /\
  exists j, flat_text_to_flat_json (toy_leval ex_flat_univ) (render_flat_text toy_repr ex_flat_msg) = Ok j /\
            length j = 4%nat.
Proof. split; [exact ex_flat_ok|]. eexists. split; [exact ex_flat_roundtrip|reflexivity]. Qed.

From PBK Require Import TextFmtNestedTree TextFmtNestedTop TextFmtWire TextFmtC09.

(* 7. the attribute relation the wiring builds: every attribute index is below next_index, and a
      node that carries an associated field is never itself an attribute (so '-> A...' lines occur
      only directly below a member line, where insert(-1, v) puts the value before its owner) *)
Theorem C09_wire_attrs_text :
  forall ndesc vals links T nodes s,
    wire ndesc vals links T = Ok (nodes, s) ->
    attrs_in_range (x_next s) (x_attrs s) = true /\ attrs_depth_ok (x_attrs s) = true.
Proof. exact wire_attrs_text. Qed.
Print Assumptions C09_wire_attrs_text.

(* 8. nested text -> flat JSON, for any tree satisfying the structural conditions
      (nsubset_tree_ok: whole repetitions, flat order 0..n-1, the two facts of (7)) and the text
      conditions (nsubset_text_ok): per flat index str(descriptor) starts with none of
      blank . # 3 < -, the description holds no line break, repr(value) holds no blank unless it is
      b'...' / b"..." without an inner ' b' + quote, literal_eval reads it back; an attribute's
      label starts with 'A' exactly when it is an associated field; every no-value line is one
      the parser passes over.  Any depth of attribute rendering (S k). *)
Theorem C09_nested_text_roundtrip :
  forall (repr : pyv -> str) (leval : str -> result pyv) k (m : message (list nsubset)),
    nested_message_ok repr leval m ->
    nested_text_to_flat_json leval (render_nested_text repr (S k) m) = Ok (flat_json_of nested_td_values m).
Proof. exact nested_text_roundtrip. Qed.
Print Assumptions C09_nested_text_roundtrip.

(* 9. the same for subsets given by TemplateData.wire (any template, values, links): only the
      text conditions remain; the result is the flat JSON, i.e. the decoded values in flat order
      with the associated field before its owner and the replication factor before the repetitions *)
Theorem C09_nested_text_roundtrip_wired :
  forall (repr : pyv -> str) (leval : str -> result pyv) k (m : message (list nsubset)),
    nested_wired_message_ok repr leval m ->
    nested_text_to_flat_json leval (render_nested_text repr (S k) m) = Ok (flat_json_of nested_td_values m).
Proof. exact nested_text_roundtrip_wired. Qed.
Print Assumptions C09_nested_text_roundtrip_wired.

(* non-vacuity of (8) and (9): 204008 031021 012001 204000 / 101000 031001 012001 / 222000 236000
   101002 031031 / 033007 033007 / 001015 with two bitmap links: an associated field, quality values
   attached to a plain element and to a member of the delayed replication, two subsets *)
Example C09_nested_text_nonvacuous :
  exists nodes s,
    wire 13 exn_vals exn_links exn_T = Ok (nodes, s) /\ x_next s = 13%N /\
    x_attrs s = [(1, 0, false); (2, 1, true); (2, 10, false); (4, 11, false)]%N /\
    nested_message_ok toy_repr (toy_leval exn_univ) (exn_msg nodes s) /\
    nested_wired_message_ok toy_repr (toy_leval exn_univ) (exn_msg nodes s) /\
    nested_text_to_flat_json (toy_leval exn_univ) (render_nested_text toy_repr 3 (exn_msg nodes s))
    = Ok (flat_json_of nested_td_values (exn_msg nodes s)).
Proof.
  destruct exn_wire_ok as (nodes & s & E & Hn & Ha). exists nodes, s.
  split; [exact E|]. split; [exact Hn|]. split; [exact Ha|].
  split; [exact (exn_ok nodes s E)|]. split; [exact (exn_wired_ok nodes s E)|].
  apply nested_text_roundtrip. exact (exn_ok nodes s E).
Qed.

(* 10. D21, refuted: an element skipped by 221YYY is printed '<id> <name>' without a value; the
       parser takes the last word of the name for a value.  Witness: 221002 012001 001001 with the
       value [7]; all other side conditions hold, only nv_ok of the line '012001 TEMP' fails, and
       the conversion raises (ValueError from literal_eval). *)
Theorem C09_nested_text_221_refuted :
  exists nodes s,
    wire 1 exd_vals [] exd_T = Ok (nodes, s) /\ x_next s = 1%N /\
    nodes = WCons (WNoValue 221002) (WCons (WNoValue 12001) (WCons (WValue 0) WNil)) /\
    nsubset_tree_ok (exd_sub nodes s) /\
    (forall i, (i < 1)%N -> idx_ok toy_repr (toy_leval [PyV (VInt 7)]) (exd_sub nodes s) i) /\
    nv_ok exn_nvstr 221002 = true /\ nv_ok exn_nvstr 12001 = false /\
    nested_text_to_flat_json (toy_leval [PyV (VInt 7)]) (render_nested_text toy_repr 3 (exd_msg nodes s)) = Err EValue.
Proof. exact exd_refuted. Qed.
Print Assumptions C09_nested_text_221_refuted.

(* 11. refuted: a message without any subset.  Both text renderers add one empty line for the
       template data (''.split('\n') == ['']); section_text_to_flat_json cannot split it at ' = '
       (ValueError), while the flat JSON holds [] for the template data. *)
Theorem C09_text_zero_subsets_refuted :
  sections_shape (m_sections exz_flat) = true /\
  pval_line_ok nm_stop (toy_repr (PyV (VInt 7))) = true /\
  toy_leval [PyV (VInt 7)] (toy_repr (PyV (VInt 7))) = Ok (PyV (VInt 7)) /\
  flat_text_to_flat_json (toy_leval [PyV (VInt 7)]) (render_flat_text toy_repr exz_flat) = Err EValue /\
  nested_text_to_flat_json (toy_leval [PyV (VInt 7)]) (render_nested_text toy_repr 3 exz_nested) = Err EValue /\
  flat_json_of flat_td_values exz_flat = [[ITemplate []]; [IVal (PyV (VInt 7))]].
Proof. exact exz_refuted. Qed.
Print Assumptions C09_text_zero_subsets_refuted.
