(* C09 — placeholder until WireProofs are in: statements follow. *)
From PBK Require Import Base Descr Walk Wire Nested.
Theorem C09_flat_node_value : forall attrs i, flat_node attrs (WValue i) = assoc_attrs_of attrs i ++ [i].
Proof. reflexivity. Qed.
Print Assumptions C09_flat_node_value.
