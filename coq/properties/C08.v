(* C08 — Template compilation preserves behaviour (decode, encode, save/load).
   Statements only.

   FULL STATEMENT (not yet proved in general; kept here so that the partial
   results below are not mistaken for it):

     compile_exec : forall T, scoped T = true ->
       forall P (s : ws (io C)), exec_stmts P true (compile T) s ~ walk_list (io_handlers P) io_add_link T s
       (same values, descriptors, links, bits, or the same error class, the
        operator registers of the compiled run being irrelevant)

   is FALSE of the faithful model for templates with a marker operator while
   204YYY is in force (D14) or after 203000 (D5) — see the _refuted theorems,
   whose witnesses are replayed on the implementation by the check on every run —
   and differs for zero-count bitmap replications (D19).  What is proved:
   cache transparency for every cache size and every order of requests, the
   shape of compiled code for single elements, the two refutations.  The tie
   model/implementation for compile+exec (and compiled vs. interpreted on the
   implementation itself) is checked differentially over generated programs. *)
From PBK Require Import Base Bits Descr Walk Coder Decode Compile CompileRun CompileProofs Cache CacheProofs.

(* for any cache size m and any order of earlier requests ks, get_or_compile
   returns exactly what compiling the key afresh returns *)
Theorem C08_cache_transparent :
  forall (tkey ctemplate : Type) (tkey_eqb : tkey -> tkey -> bool) (compile : tkey -> result ctemplate),
  (forall a b, tkey_eqb a b = true -> a = b) ->
  forall (m : Z) (ks : list tkey) (k : tkey),
  snd (ct_get tkey ctemplate tkey_eqb compile m k (ct_run tkey ctemplate tkey_eqb compile m ks []))
  = compile k.
Proof. exact ct_get_pure. Qed.
Print Assumptions C08_cache_transparent.

Theorem C08_compile_elem_partial : forall e, compile (dl [DElem e]) =
  match kind_of_unit (e_unit e) with
  | KString => Ok (SCons (SString (DDElem e) (e_nbits e / 8)) SNil)
  | KCodeFlag => Ok (SCons (SCodeflag (DDElem e) (e_nbits e) (e_nbits e)) SNil)
  | KNumeric => Ok (SCons (SNumeric (DDElem e) (e_nbits e + 0 + 0) (e_scale e + 0 + 0) (e_refval e * 1)) SNil)
  end.
Proof. exact compile_elem. Qed.
Print Assumptions C08_compile_elem_partial.

Theorem C08_compile_exec_204_marker_refuted :
  exists T n b, Compile.scoped T = true /\
    is_ok (decode_uncompressed T n b) = true /\ is_ok (decode_uncompressed_c T n b) = true /\
    (match decode_uncompressed T n b, decode_uncompressed_c T n b with
     | Ok (_, v1, _), Ok (_, v2, _) => negb (length (concat v1) =? length (concat v2))%nat
     | _, _ => false
     end) = true.
Proof. exact compile_exec_204_marker_refuted. Qed.
Print Assumptions C08_compile_exec_204_marker_refuted.

Theorem C08_compile_exec_203000_marker_refuted :
  exists T n b, Compile.scoped T = true /\
    match decode_uncompressed T n b, decode_uncompressed_c T n b with
    | Ok (_, v1, _), Ok (_, v2, _) => v1 <> v2
    | _, _ => False
    end.
Proof. exact compile_exec_203000_marker_refuted. Qed.
Print Assumptions C08_compile_exec_203000_marker_refuted.
