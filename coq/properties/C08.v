(* C08 — Template compilation preserves behaviour (decode, encode, save/load).
   Statements only.

   FULL STATEMENT:

     compile_exec : forall T, scoped T = true -> ok_c08 T = true ->
       forall P (s0 with initial registers),
       exec_stmts P true (compile T) s0 ~ walk_list (io_handlers P) io_add_link T s0
       (same values, descriptors, links, bits, or the SAME error, the operator
        registers of the compiled run being irrelevant)

   is PROVED below (C08_compile_exec_equiv and the corollaries for the four
   concrete coders) for every template that satisfies the executable side
   condition [ok_c08] (CompileChk.v: the compiler run with checking handlers).
   Without the side condition the statement is FALSE of the faithful model and
   of the implementation: D14 (marker operator while 204YYY is in force), D5
   (marker after 203000), D19 (bitmap defined by a zero-count delayed
   replication) and the four further _refuted witnesses at the end of this file
   (D27 marker while the 222000 status is "processing", D28 zero-count delayed
   replication of class 33, D29 bitmap completed inside a replication body,
   D5-loop 203000 inside a replication body) — all satisfy [Compile.scoped].
   Also proved: cache transparency for every cache size and every order of
   requests; save/load for code without pseudo descriptors (D7 otherwise). *)
From PBK Require Import Base Bits Descr Walk Coder Decode Encode Column DecodeC EncodeC Compile CompileRun CompileProofs Cache CacheProofs
  CompileChk CompileEquivBase CompileEquivInv CompileEquivTop CompileFindings.

(* for any cache size m and any order of earlier requests ks, get_or_compile
   returns exactly what compiling the key afresh returns *)
Theorem C08_cache_transparent :
  forall (tkey ctemplate : Type) (tkey_eqb : tkey -> tkey -> bool) (compile : tkey -> result ctemplate),
  (forall a b, tkey_eqb a b = true -> a = b) ->
  forall (m : Z) (ks : list tkey) (k : tkey),
  snd (ct_get tkey ctemplate tkey_eqb compile m k (ct_run tkey ctemplate tkey_eqb compile m ks []))
  = compile k.
Proof. exact ct_get_pure. Qed.
Print Assumptions C08_cache_transparent.

Theorem C08_compile_elem_partial : forall e, compile (dl [DElem e]) =
  match kind_of_unit (e_unit e) with
  | KString => Ok (SCons (SString (DDElem e) (e_nbits e / 8)) SNil)
  | KCodeFlag => Ok (SCons (SCodeflag (DDElem e) (e_nbits e) (e_nbits e)) SNil)
  | KNumeric => Ok (SCons (SNumeric (DDElem e) (e_nbits e + 0 + 0) (e_scale e + 0 + 0) (e_refval e * 1)) SNil)
  end.
Proof. exact compile_elem. Qed.
Print Assumptions C08_compile_elem_partial.

Theorem C08_compile_exec_204_marker_refuted :
  exists T n b, Compile.scoped T = true /\
    is_ok (decode_uncompressed T n b) = true /\ is_ok (decode_uncompressed_c T n b) = true /\
    (match decode_uncompressed T n b, decode_uncompressed_c T n b with
     | Ok (_, v1, _), Ok (_, v2, _) => negb (length (concat v1) =? length (concat v2))%nat
     | _, _ => false
     end) = true.
Proof. exact compile_exec_204_marker_refuted. Qed.
Print Assumptions C08_compile_exec_204_marker_refuted.

Theorem C08_compile_exec_203000_marker_refuted :
  exists T n b, Compile.scoped T = true /\
    match decode_uncompressed T n b, decode_uncompressed_c T n b with
    | Ok (_, v1, _), Ok (_, v2, _) => v1 <> v2
    | _, _ => False
    end.
Proof. exact compile_exec_203000_marker_refuted. Qed.
Print Assumptions C08_compile_exec_203000_marker_refuted.


(* ======================================================================== *)
(* The general equivalence (CompileEquiv*.v).                                *)
(*                                                                            *)
(* [ok_c08 T] (CompileChk.v) is executable: the template compiler run with   *)
(* checking handlers.  It fails exactly where compiling is not provably       *)
(* transparent: a marker operator while 204YYY is in force (D14), while the   *)
(* 222000 status is "processing" (D27) or "waiting" with a class 33 element    *)
(* among the possible back references, or after a 203000 that cancelled a      *)
(* definition (D5); a replication whose body does not leave the compile-time registers   *)
(* as it found them, unless a second compilation of the body (from the         *)
(* registers left by the first) records the same statements and then leaves    *)
(* the registers alone, and the count is statically >= 1 (D19 for delayed      *)
(* replications: accepted only by [ok_c08_nz], for factors that are never 0).  *)
(* [agree same_io a b]: both runs fail with the SAME error, or both succeed    *)
(* with the same descriptors, links and primitive state (values, bits).         *)
(* ======================================================================== *)

(* start states: initial registers, any primitive state, any decoded descriptors and
   links so far provided no plain class 33 element descriptor is among them (in
   particular the empty lists of a fresh subset) ... *)
Theorem C08_compile_exec_equiv :
  forall (C : Type) (P : prims C) (T : descs),
  Compile.scoped T = true -> ok_c08 T = true ->
  exists code, compile T = Ok code /\
    forall c0 : io C, Forall no33_dd (io_dd c0) ->
      agree same_io (walk_list (io_handlers P) io_add_link T (mkWs regs0 c0))
                    (exec_stmts P true code (mkWs regs0 c0)).
Proof. intros C P T _. exact (compile_exec_equiv P T). Qed.
Print Assumptions C08_compile_exec_equiv.

(* ... and every start state with initial registers, under [ok_c08_any] (which also
   rejects a marker operator while the 222000 status is "waiting") *)
Theorem C08_compile_exec_equiv_any_start :
  forall (C : Type) (P : prims C) (T : descs),
  Compile.scoped T = true -> ok_c08_any T = true ->
  exists code, compile T = Ok code /\
    forall c0 : io C,
      agree same_io (walk_list (io_handlers P) io_add_link T (mkWs regs0 c0))
                    (exec_stmts P true code (mkWs regs0 c0)).
Proof. intros C P T _. exact (compile_exec_equiv_any P T). Qed.
Print Assumptions C08_compile_exec_equiv_any_start.

Example C08_compile_exec_equiv_any_start_nonvacuous :
  Compile.scoped T_ok = true /\ ok_c08_any T_ok = true /\
  ok_c08 T_waiting = true /\ ok_c08_any T_waiting = false.
Proof. vm_compute. repeat split. Qed.

(* the hypotheses hold for a template with operators, nested replication, new
   reference values, a bitmap, class 33 attributes and a marker operator *)
Example C08_compile_exec_equiv_nonvacuous :
  Compile.scoped T_ok = true /\ ok_c08 T_ok = true /\
  is_ok (decode_uncompressed T_ok 2 (repeat false 400)) = true.
Proof. vm_compute. repeat split. Qed.

Theorem C08_compile_exec_equiv_nonzero_factors :
  forall (C : Type) (P : prims C) (T : descs),
  Compile.scoped T = true -> ok_c08_nz T = true ->
  exists code, compile T = Ok code /\
    forall c0 : io C, Forall no33_dd (io_dd c0) ->
      agree same_io (walk_list (io_handlers (nz_prims P)) io_add_link T (mkWs regs0 c0))
                    (exec_stmts (nz_prims P) true code (mkWs regs0 c0)).
Proof. intros C P T _. exact (compile_exec_equiv_nz P T). Qed.
Print Assumptions C08_compile_exec_equiv_nonzero_factors.

Example C08_compile_exec_equiv_nonzero_factors_nonvacuous :
  Compile.scoped T_d19 = true /\ ok_c08 T_d19 = false /\ ok_c08_nz T_d19 = true.
Proof. vm_compute. repeat split. Qed.

Theorem C08_decode_uncompressed_compiled :
  forall T n b, Compile.scoped T = true -> ok_c08 T = true ->
  decode_uncompressed_c T n b = decode_uncompressed T n b.
Proof. intros T n b _. exact (decode_uncompressed_c_eq T n b). Qed.
Print Assumptions C08_decode_uncompressed_compiled.

Theorem C08_decode_compressed_compiled :
  forall T n b, Compile.scoped T = true -> ok_c08 T = true ->
  decode_compressed_c T n b = decode_compressed T n b.
Proof. intros T n b _. exact (decode_compressed_c_eq T n b). Qed.
Print Assumptions C08_decode_compressed_compiled.

Theorem C08_encode_uncompressed_compiled :
  forall T vals, Compile.scoped T = true -> ok_c08 T = true ->
  encode_uncompressed_c T vals = encode_uncompressed T vals.
Proof. intros T vals _. exact (encode_uncompressed_c_eq T vals). Qed.
Print Assumptions C08_encode_uncompressed_compiled.

Theorem C08_encode_compressed_compiled :
  forall T vals, Compile.scoped T = true -> ok_c08 T = true ->
  encode_compressed_c T vals = encode_compressed T vals.
Proof. intros T vals _. exact (encode_compressed_c_eq T vals). Qed.
Print Assumptions C08_encode_compressed_compiled.

(* the side condition rejects the two refuted witnesses above *)
Theorem C08_ok_c08_rejects_findings : ok_c08 T_d14 = false /\ ok_c08 T_d5 = false.
Proof. exact (conj ok_c08_rejects_d14 ok_c08_rejects_d5). Qed.
Print Assumptions C08_ok_c08_rejects_findings.

(* ---- save / load -------------------------------------------------------------------- *)
Theorem C08_decode_loaded_template :
  forall lookup_b T n b, Compile.scoped T = true -> ok_c08 T = true -> reload_ok lookup_b T = true ->
  decode_uncompressed_l lookup_b T n b = decode_uncompressed T n b.
Proof. intros lookup_b T n b _. exact (decode_uncompressed_l_eq lookup_b T n b). Qed.
Print Assumptions C08_decode_loaded_template.

Example C08_decode_loaded_template_nonvacuous :
  Compile.scoped T_reload = true /\ ok_c08 T_reload = true /\ reload_ok lookup_ex T_reload = true.
Proof. vm_compute. repeat split. Qed.

(* ---- outside the side condition: compiled and interpreted differ --------------------- *)
Theorem C08_compile_exec_marker_qa_refuted :
  exists T n b, Compile.scoped T = true /\ ok_c08 T = false /\
    links_vals (decode_uncompressed T n b) = Ok ([[(8, 0); (9, 1)]]%N,
       [[VDec 100 1; VDec 200 1; VDec 300 1; VInt 0; VInt 0; VInt 0; VInt 0; VInt 0; VInt 50; VDec 77 1; VInt 60]]) /\
    links_vals (decode_uncompressed_c T n b) = Ok ([[(8, 0); (9, 1); (10, 2)]]%N,
       [[VDec 100 1; VDec 200 1; VDec 300 1; VInt 0; VInt 0; VInt 0; VInt 0; VInt 0; VInt 50; VDec 77 1; VInt 60]]).
Proof. exact compile_exec_marker_qa_refuted. Qed.
Print Assumptions C08_compile_exec_marker_qa_refuted.

Theorem C08_compile_exec_zero_count_qa_refuted :
  exists T n b, Compile.scoped T = true /\ ok_c08 T = false /\
    links_vals (decode_uncompressed T n b) = Ok ([[(8, 0)]]%N,
       [[VDec 100 1; VDec 200 1; VInt 0; VInt 0; VInt 0; VInt 0; VInt 0; VDec 300 1; VInt 60]]) /\
    links_vals (decode_uncompressed_c T n b) = Ok ([[]],
       [[VDec 100 1; VDec 200 1; VInt 0; VInt 0; VInt 0; VInt 0; VInt 0; VDec 300 1; VInt 60]]).
Proof. exact compile_exec_zero_count_qa_refuted. Qed.
Print Assumptions C08_compile_exec_zero_count_qa_refuted.

Theorem C08_compile_exec_bitmap_in_loop_refuted :
  exists T n b, Compile.scoped T = true /\ ok_c08 T = false /\
    links_vals (decode_uncompressed T n b) = Ok ([[(8, 1)]]%N,
       [[VDec 100 1; VDec 200 1; VInt 0; VInt 0; VInt 0; VDec 300 1; VInt 0; VDec 400 1; VDec 77 1]]) /\
    links_vals (decode_uncompressed_c T n b) = Err ELib.
Proof. exact compile_exec_bitmap_in_loop_refuted. Qed.
Print Assumptions C08_compile_exec_bitmap_in_loop_refuted.

Theorem C08_compile_exec_203000_in_loop_refuted :
  exists T n b, Compile.scoped T = true /\ ok_c08 T = false /\
    links_vals (decode_uncompressed T n b) = Ok ([[]], [[VInt 5; VInt 1005; VInt 7; VInt 600; VInt 7]]) /\
    links_vals (decode_uncompressed_c T n b) = Ok ([[]], [[VInt 5; VInt 1005; VInt 7; VInt 1005; VInt 7]]).
Proof. exact compile_exec_203000_in_loop_refuted. Qed.
Print Assumptions C08_compile_exec_203000_in_loop_refuted.
