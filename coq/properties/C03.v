(* C03 — Decode/encode round trip: quantisation bound, range refusal, canonical
   fixpoint.  Statements only. *)
From PBK Require Import Base Bits BitsProofs Descr Walk Coder Float53 Decode Encode RoundTrip Float53Proofs.
From PBK Require Import Column DecodeC EncodeC EncodeCG RoundTripC RoundTripCExamples.

(* The decoder inverts the encoder: whenever the (ghost) encoder accepts the
   values of ANY template (all operators, bitmaps, nested replication, any
   number of subsets), decoding the bits it wrote, followed by any further bits
   t, yields the same descriptors and attribute links, exactly the ghost values
   (the quantised re-reading of the input, field by field) and leaves exactly t. *)
Theorem C03_decode_encode : forall T vals outs w g t,
  encode_ghost T vals = Ok (outs, w, g) ->
  decode_uncompressed T (length vals) (w ++ t) = Ok (outs, g, t).
Proof. exact decode_encode. Qed.
Print Assumptions C03_decode_encode.

(* the ghost encoder writes exactly what the encoder writes *)
Theorem C03_encode_ghost_is_encode : forall T vals outs w g,
  encode_ghost T vals = Ok (outs, w, g) -> encode_uncompressed T vals = Ok (outs, w).
Proof. exact encode_ghost_is_encode. Qed.
Print Assumptions C03_encode_ghost_is_encode.

(* a value whose scaled integer does not fit the field is refused, never wrapped
   modulo 2^n or clipped *)
Theorem C03_write_uint_refuses : forall v w o,
  (exists e, write_uint v w o = Err e) <-> (w <= 0 \/ v < 0 \/ 2 ^ w <= v)%Z.
Proof. exact write_uint_refuses. Qed.
Print Assumptions C03_write_uint_refuses.

(* what reads back: the scaled integer the encoder computed, over 10^scale ... *)
Theorem C03_ghost_is_scaled_int : forall v nbits scale refval raw,
  scaled_int v scale refval = Ok raw -> (0 <= raw)%Z ->
  ~ ((1 < nbits)%Z /\ raw = (2 ^ nbits - 1)%Z) -> scale <> 0%Z ->
  dec_of_raw nbits raw scale refval = VDec (raw + refval) scale.
Proof. exact ghost_is_scaled_int. Qed.
Print Assumptions C03_ghost_is_scaled_int.

(* ... and that integer is within one half of the scaled value (the double
   product fl(v * 10^s); the float rounding of the product itself is compared
   bit-exactly with CPython, not bounded here: _partial) *)
Theorem C03_round_half_even_bound_partial : forall m e, (e < 0)%Z ->
  (2 * Z.abs (round_half_even (m, e) * 2 ^ (- e) - m) <= 2 ^ (- e))%Z.
Proof. exact round_half_even_bound. Qed.
Print Assumptions C03_round_half_even_bound_partial.

(* integers (effective scale 0) read back exactly *)
Theorem C03_int_roundtrip_exact : forall z refval nbits,
  (0 <= z - refval)%Z -> ~ ((1 < nbits)%Z /\ (z - refval = 2 ^ nbits - 1)%Z) ->
  exists raw, scaled_int (VInt z) 0 refval = Ok raw /\ dec_of_raw nbits raw 0 refval = VInt z.
Proof. exact int_roundtrip_exact. Qed.
Print Assumptions C03_int_roundtrip_exact.

(* the sole exception: the all-ones pattern of a field reads back as missing *)
Theorem C03_allones_reads_missing : forall nbits scale refval, (1 < nbits)%Z ->
  dec_of_raw nbits (2 ^ nbits - 1) scale refval = VNone.
Proof. exact allones_reads_missing. Qed.
Print Assumptions C03_allones_reads_missing.

Theorem C03_missing_roundtrip : forall nbits scale refval, (1 < nbits <= 64)%Z ->
  exists raw, missing_for nbits = Ok raw /\ dec_of_raw nbits raw scale refval = VNone.
Proof. exact missing_roundtrip. Qed.
Print Assumptions C03_missing_roundtrip.

(* no proper prefix of the data bits decodes *)
Theorem C03_decode_prefix_fails : forall T vals outs w g w' x,
  encode_ghost T vals = Ok (outs, w, g) -> w = w' ++ x -> x <> [] ->
  forall r, decode_uncompressed T (length vals) w' <> Ok r.
Proof. exact decode_prefix_fails. Qed.
Print Assumptions C03_decode_prefix_fails.

(* ---- COMPRESSED data ------------------------------------------------------------
   The same statement for compressed data sections (every element stored as one
   column over all subsets): whenever the compressed ghost encoder
   (EncodeCG.encode_compressed_ghost: EncodeC.encode_compressed run with a ghost;
   it refuses only columns outside the domains of the column theorems of C05 —
   elements wider than 64 bits, a value equal to its element's all-ones pattern,
   character fields above 63 octets — and factors / bitmaps that read back
   differently) accepts the values of ANY template, decoding the bits it wrote,
   followed by any further bits t, yields the same descriptors and links for every
   subset, exactly the ghost values, and leaves exactly t. *)
Theorem C03_decode_encode_compressed : forall T vals outs w g t,
  encode_compressed_ghost T vals = Ok (outs, w, g) ->
  decode_compressed T (length vals) (w ++ t) = Ok (outs, g, t).
Proof. exact decode_encode_compressed. Qed.
Print Assumptions C03_decode_encode_compressed.

Theorem C03_encode_compressed_ghost_is_encode : forall T vals outs w g,
  encode_compressed_ghost T vals = Ok (outs, w, g) -> encode_compressed T vals = Ok (outs, w).
Proof. exact encode_compressed_ghost_is_encode. Qed.
Print Assumptions C03_encode_compressed_ghost_is_encode.

(* no proper prefix of the compressed data bits decodes *)
Theorem C03_decode_compressed_prefix_fails : forall T vals outs w g w' x,
  encode_compressed_ghost T vals = Ok (outs, w, g) -> w = w' ++ x -> x <> [] ->
  forall r, decode_compressed T (length vals) w' <> Ok r.
Proof. exact decode_compressed_prefix_fails. Qed.
Print Assumptions C03_decode_compressed_prefix_fails.

(* non-vacuity: a template with numeric / code / character / one-bit flag elements,
   201YYY, a delayed and a fixed replication, three subsets with missing entries *)
Example C03_compressed_nonvacuous :
  exists outs w, encode_compressed_ghost exc_T exc_vals = Ok (outs, w, exc_ghost) /\
                 length w = 358%nat /\ length outs = 3%nat.
Proof. exact exc_ghost_accepts. Qed.
