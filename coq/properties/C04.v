(* C04 — Section framing and length accounting are exact in both directions.
   Statements only; every proof is [exact <lemma of FrameProofs>].
   The model is Frame.v (sections as data, encoder and decoder loops as coded);
   the content of the data section is abstract: the encoder appends the given
   data bits, the decoder calls [decode_data], of which only "reads from the
   front" and "does not look beyond what it consumes" are assumed. *)
From PBK Require Import Base Bits BitsProofs Frame FrameProofs FrameRoundtrip.

(* padding arithmetic of Encoder.process_section, every content length n >= 0,
   every edition: the padded length is a multiple of 16 bits (editions <= 3) or
   8 bits (others) and fewer than 16 / 8 bits are added *)
Theorem C04_pad_spec : forall edition n, (0 <= n)%Z ->
  let p := pad_bits edition n in
  (0 <= p)%Z /\
  (if (edition <=? 3)%Z then (p < 16)%Z /\ ((n + p) mod 16 = 0)%Z
   else (p < 8)%Z /\ ((n + p) mod 8 = 0)%Z).
Proof. exact pad_spec. Qed.
Print Assumptions C04_pad_spec.

(* with the length recomputed (ignore_declared_length, or declared 0), for every
   layout whose first parameter is section_length (all bundled ones), any
   values, any prefix already written: the section's bits e are appended, the
   declared length L is the real extent in octets, and the length field in the
   stream holds L *)
Theorem C04_section_length_exact : forall ign c vs props o o' props' sec pl,
  sl_first (s_params c) = true ->
  find_param Nsection_length (s_params c) = Some pl ->
  (ign = true \/ prop_get Nsection_length (combine (map p_name (s_params c)) vs) = Some (PUint 0)) ->
  encode_section ign c vs props o = Ok (o', props', sec) ->
  exists e L rest,
    o' = o ++ e /\ sec_nbits sec = length e /\
    Z.of_nat (length e) = (8 * L)%Z /\
    prop_get Nsection_length (sec_values sec) = Some (PUint L) /\
    read_uint (p_nbits pl) e = Ok (Z.to_N L, rest).
Proof. exact section_length_exact. Qed.
Print Assumptions C04_section_length_exact.

Theorem C04_bundled_layouts_section_length_first :
  forallb (fun c => sl_first (s_params c)) definitions = true.
Proof. exact definitions_sl_first. Qed.
Print Assumptions C04_bundled_layouts_section_length_first.

(* only zero bits are appended after the parameters' bits (body), the section is
   a whole number of octets, and when the length is recomputed (or there is no
   length field) the fill is exactly the pad of C04_pad_spec *)
Theorem C04_section_zero_padded : forall ign c vs props o o' props' sec body props1 edition,
  sl_first (s_params c) = true ->
  write_params (s_params c) vs props [] = Ok (body, props1) ->
  edition_of props1 = Ok edition ->
  encode_section ign c vs props o = Ok (o', props', sec) ->
  exists body' fill,
    o' = o ++ body' ++ zeros fill /\ length body' = length body /\
    (Z.of_nat (length body + fill) mod 8 = 0)%Z /\
    ((ign = true \/ find_param Nsection_length (s_params c) = None \/
      prop_get Nsection_length (combine (map p_name (s_params c)) vs) = Some (PUint 0)) ->
     Z.of_nat fill = pad_bits edition (Z.of_nat (length body))).
Proof. exact section_zero_padded. Qed.
Print Assumptions C04_section_zero_padded.

(* declared lengths honoured (ignore_declared_length = False, declared <> 0):
   shorter than the padded content => PyBufrKitError; otherwise zero filled
   exactly to the declared extent, the declared value kept *)
Theorem C04_honour_declared : forall c vs props o body props1 edition pl sl,
  write_params (s_params c) vs props [] = Ok (body, props1) ->
  edition_of props1 = Ok edition ->
  find_param Nsection_length (s_params c) = Some pl ->
  prop_get Nsection_length (combine (map p_name (s_params c)) vs) = Some (PUint sl) ->
  sl <> 0%Z ->
  let content := (Z.of_nat (length body) + pad_bits edition (Z.of_nat (length body)))%Z in
  ((sl * 8 < content)%Z -> encode_section false c vs props o = Err ELib) /\
  ((content <= sl * 8)%Z ->
     exists o' sec,
       encode_section false c vs props o = Ok (o', props1, sec) /\
       o' = o ++ body ++ zeros (Z.to_nat (pad_bits edition (Z.of_nat (length body))))
              ++ zeros (Z.to_nat (sl * 8 - content)) /\
       Z.of_nat (length o' - length o) = (sl * 8)%Z /\
       Z.of_nat (sec_nbits sec) = (sl * 8)%Z /\
       prop_get Nsection_length (sec_values sec) = Some (PUint sl)).
Proof. exact honour_declared. Qed.
Print Assumptions C04_honour_declared.

(* whole messages (bundled definitions, any JSON values, recompute or honour):
   the length attribute = the length field of section 0 in the stream = the
   number of octets produced = the sum of the section extents *)
Theorem C04_total_length_exact : forall ign json m,
  encode_message ign json = Ok m ->
  exists len rest sec0 others,
    prop_get Nlength (m_props m) = Some (PUint len) /\
    len = Z.of_nat (length (m_bytes m)) /\
    read_uint 24 (skipn 32 (bits_of_bytes (m_bytes m))) = Ok (Z.to_N len, rest) /\
    m_sections m = sec0 :: others /\ prop_get Nlength (sec_values sec0) = Some (PUint len) /\
    (8 * length (m_bytes m) = sections_nbits (m_sections m))%nat.
Proof. exact total_length_exact. Qed.
Print Assumptions C04_total_length_exact.

(* the first four octets are the start_signature value, the last four the
   stop_signature value: BUFR ... 7777 for the expected values *)
Theorem C04_starts_BUFR_ends_7777 : forall ign json m,
  encode_message ign json = Ok m ->
  exists sec0 mid sec5 l l5,
    m_sections m = sec0 :: mid ++ [sec5] /\
    prop_get Nstart_signature (sec_values sec0) = Some (PBytes l) /\
    prop_get Nstop_signature (sec_values sec5) = Some (PBytes l5) /\
    (forallb is_byte l = true -> firstn 4 (m_bytes m) = pad_bytes l 4) /\
    (forallb is_byte l5 = true ->
       skipn (length (m_bytes m) - 4) (m_bytes m) = pad_bytes l5 4) /\
    (l = sig_BUFR -> firstn 4 (m_bytes m) = sig_BUFR) /\
    (l5 = sig_7777 -> skipn (length (m_bytes m) - 4) (m_bytes m) = sig_7777).
Proof. exact starts_BUFR_ends_7777. Qed.
Print Assumptions C04_starts_BUFR_ends_7777.

(* ---- decoder ---------------------------------------------------------------- *)
(* a decoded section with a declared length has consumed exactly 8 * declared
   bits, a prefix e of the stream *)
Theorem C04_decode_consumes_declared :
  forall (decode_data : list (pname * pvalue) -> reader -> result (bits * reader)),
  (forall p r b r', decode_data p r = Ok (b, r') -> r = b ++ r') ->
  (forall p r b r' s, decode_data p r = Ok (b, r') -> decode_data p (r ++ s) = Ok (b, r' ++ s)) ->
  forall c props r sec props' r',
  has_param Nsection_length (s_params c) = true ->
  decode_section decode_data c props r = Ok (sec, props', r') ->
  exists sl e, prop_get Nsection_length (sec_values sec) = Some (PUint sl) /\
    r = e ++ r' /\ Z.of_nat (length e) = (8 * sl)%Z /\ sec_nbits sec = length e.
Proof. exact decode_consumes_declared. Qed.
Print Assumptions C04_decode_consumes_declared.

(* ... and whenever the parameters were read, declared >= content and the
   stream is long enough, the section decodes and ends at start + 8 * declared
   (surplus octets are skipped) *)
Theorem C04_decode_consumes_declared_fwd :
  forall (decode_data : list (pname * pvalue) -> reader -> result (bits * reader)),
  (forall p r b r', decode_data p r = Ok (b, r') -> r = b ++ r') ->
  (forall p r b r' s, decode_data p r = Ok (b, r') -> decode_data p (r ++ s) = Ok (b, r' ++ s)) ->
  forall c props r env props1 r1 sl,
  decode_params decode_data (s_params c) (s_params c) (length r) [] props r = Ok (env, props1, r1) ->
  declared_length (s_params c) env = Ok sl ->
  (Z.of_nat (length r - length r1) <= sl * 8 <= Z.of_nat (length r))%Z ->
  exists sec r2, decode_section decode_data c props r = Ok (sec, props1, r2) /\
    Z.of_nat (length r - length r2) = (sl * 8)%Z /\ Z.of_nat (sec_nbits sec) = (sl * 8)%Z.
Proof. exact decode_consumes_declared_fwd. Qed.
Print Assumptions C04_decode_consumes_declared_fwd.

(* a declared length shorter than the content is the library error *)
Theorem C04_decode_overrun_error :
  forall (decode_data : list (pname * pvalue) -> reader -> result (bits * reader))
         c props r env props1 r1 sl,
  decode_params decode_data (s_params c) (s_params c) (length r) [] props r = Ok (env, props1, r1) ->
  declared_length (s_params c) env = Ok sl ->
  (sl * 8 < Z.of_nat (length r - length r1))%Z ->
  decode_section decode_data c props r = Err ELib.
Proof. exact decode_overrun_error. Qed.
Print Assumptions C04_decode_overrun_error.

(* the message's bytes are exactly the decoded span — from the signature to the
   end of the last section — and the whole result is independent of anything
   that follows it *)
Theorem C04_decode_span :
  forall (decode_data : list (pname * pvalue) -> reader -> result (bits * reader)),
  (forall p r b r', decode_data p r = Ok (b, r') -> r = b ++ r') ->
  (forall p r b r' s, decode_data p r = Ok (b, r') -> decode_data p (r ++ s) = Ok (b, r' ++ s)) ->
  forall sig info ign s m,
  decode_message decode_data sig info ign s = Ok m ->
  (forall t, decode_message decode_data sig info ign (s ++ t) = Ok m) /\
  exists before after,
    s = before ++ m_bytes m ++ after /\
    (8 * length (m_bytes m) <= sections_nbits (m_sections m) < 8 * length (m_bytes m) + 8)%nat /\
    match sig with
    | Some g => find_sig g s = Some (length before)
    | None => before = []
    end.
Proof. exact decode_span. Qed.
Print Assumptions C04_decode_span.

(* ---- the optional section 2 --------------------------------------------------- *)
Theorem C04_section2_optional : forall props info ign,
  (forall b, prop_get Nis_section2_presents props = Some (PBool b) ->
     configure_section definitions props 2 info ign =
       Ok (if b then Some (transform info ign section2) else None)) /\
  (prop_get Nis_section2_presents props = None ->
     configure_section definitions props 2 info ign = Err EAttr) /\
  (forall i oc, i <> 2%N -> configure_section definitions props i info ign = Ok oc -> oc <> None).
Proof. exact section2_optional. Qed.
Print Assumptions C04_section2_optional.

Theorem C04_section2_absent_skipped :
  forall (decode_data : list (pname * pvalue) -> reader -> result (bits * reader))
         props info ign ign_len idxs json secs o r,
  prop_get Nis_section2_presents props = Some (PBool false) ->
  encode_sections ign_len definitions (2%N :: idxs) json props secs o =
    match json with [] => Err EIndex | _ => encode_sections ign_len definitions idxs json props secs o end /\
  decode_sections decode_data definitions info ign (2%N :: idxs) props secs r =
    decode_sections decode_data definitions info ign idxs props secs r.
Proof. exact section2_absent_skipped. Qed.
Print Assumptions C04_section2_absent_skipped.

Theorem C04_section2_present_processed :
  forall (decode_data : list (pname * pvalue) -> reader -> result (bits * reader))
         props info ign idxs secs r,
  prop_get Nis_section2_presents props = Some (PBool true) ->
  decode_sections decode_data definitions info ign (2%N :: idxs) props secs r =
    let* (sec, props1, r1) := decode_section decode_data (transform info ign section2) props r in
    decode_sections decode_data definitions info ign idxs props1 (secs ++ [sec]) r1.
Proof. exact section2_present_processed. Qed.
Print Assumptions C04_section2_present_processed.

(* ---- round trip ------------------------------------------------------------------ *)
(* decoding an encoded message followed by ANY trailing bytes: same bytes, same
   sections (index, layout, extent), same parameter values incl. every length
   field; a to-the-end-of-section bit string (section 2 local bits) comes back
   with its section's zero fill appended [value_matches].  Every data bit length,
   every value that fits, editions as encoded, section 2 present or absent,
   recomputed or honoured lengths.  Hypotheses: values fit their fields and the
   signatures are the expected ones [sec_fits]; fewer than two surplus octets in
   a section with descriptors [desc_fill_ok]; the template decoder consumes
   exactly the data bits [data_ok]. *)
Theorem C04_frame_roundtrip :
  forall (decode_data : list (pname * pvalue) -> reader -> result (bits * reader))
         ign json m trailing,
  encode_message ign json = Ok m ->
  Forall sec_fits (m_sections m) -> Forall desc_fill_ok (m_sections m) ->
  data_ok decode_data [] (m_sections m) ->
  exists m',
    decode_message decode_data (Some sig_BUFR) false false (m_bytes m ++ trailing) = Ok m' /\
    m_bytes m' = m_bytes m /\
    Forall2 sec_matches (m_sections m) (m_sections m') /\
    m_props m' = props_after (m_sections m) [].
Proof. exact frame_roundtrip. Qed.
Print Assumptions C04_frame_roundtrip.

(* the same for one section of any layout made of fixed-width parameters followed
   by at most one to-the-end parameter (all bundled layouts: config_rt_ok) *)
Theorem C04_section_roundtrip :
  forall (decode_data : list (pname * pvalue) -> reader -> result (bits * reader))
         ign c vs props_e o o' props_e' sec,
  config_rt_ok c = true -> length (s_params c) = length vs ->
  encode_section ign c vs props_e o = Ok (o', props_e', sec) ->
  fits_layout [] (sec_params sec) (map snd (sec_values sec)) = true ->
  desc_fill_ok sec ->
  exists e, o' = o ++ e /\ props_e' = add_props (s_params c) vs props_e /\
    length e = sec_nbits sec /\
    (forall pr, add_props (sec_params sec) (map snd (sec_values sec)) pr = add_props (s_params c) vs pr) /\
    forall props_d t, data_ok_sec decode_data props_d sec ->
      exists sec_d, decode_section decode_data c props_d (e ++ t) =
                      Ok (sec_d, add_props (s_params c) vs props_d, t) /\
                    sec_matches sec sec_d.
Proof. exact section_roundtrip. Qed.
Print Assumptions C04_section_roundtrip.

Theorem C04_bundled_layouts_roundtrip_ok : forallb config_rt_ok definitions = true.
Proof. exact definitions_rt_ok. Qed.
Print Assumptions C04_bundled_layouts_roundtrip_ok.

(* ---- truncated input (framing facts used by C12) ---------------------------------- *)
From PBK Require Import MdQuery MdQueryProofs FrameExamples FramePrefix FramePrefixEnc.

(* every section is an operation that CUTS: on the stream truncated to k bits it
   returns the same section, attributes and (truncated) rest when the bits it
   consumed fit in k, and fails with a library error otherwise *)
Theorem C04_decode_section_cut :
  forall (decode_data : list (pname * pvalue) -> reader -> result (bits * reader)),
  (forall p, cuts (decode_data p)) ->
  forall c props, cuts (decode_section decode_data c props).
Proof. exact decode_section_cut. Qed.
Print Assumptions C04_decode_section_cut.

(* the octets of a truncated input hold the message exactly when the span from
   the signature to the last consumed bit lies within them *)
Theorem C04_message_cut :
  forall (decode_data : list (pname * pvalue) -> reader -> result (bits * reader)),
  (forall p, cuts (decode_data p)) ->
  forall sig info ign s m,
  decode_message decode_data sig info ign s = Ok m ->
  forall k,
    if holds_message sig s m k
    then decode_message decode_data sig info ign (firstn k s) = Ok m
    else lib_fail (decode_message decode_data sig info ign (firstn k s)).
Proof. exact message_cut. Qed.
Print Assumptions C04_message_cut.

(* whenever the full decode succeeds the metadata-only decode succeeds and has
   consumed everything but the 32 bits of section 5 *)
Theorem C04_info_consumes_all_but_section5 :
  forall (decode_data : list (pname * pvalue) -> reader -> result (bits * reader)),
  (forall p r b r', decode_data p r = Ok (b, r') -> r = b ++ r') ->
  (forall p r b r' s, decode_data p r = Ok (b, r') -> decode_data p (r ++ s) = Ok (b, r' ++ s)) ->
  forall sig ign s m,
  decode_message decode_data sig false ign s = Ok m ->
  exists mi, decode_message decode_data sig true ign s = Ok mi /\
    sections_nbits (m_sections m) = (sections_nbits (m_sections mi) + 32)%nat.
Proof. exact info_from_full_nbits. Qed.
Print Assumptions C04_info_consumes_all_but_section5.

Example C04_cut_nonvacuous :
  is_ok (decode_message stub_dd (Some sig_BUFR) false false ex_bytes) = true /\
  lib_failb (decode_message stub_dd (Some sig_BUFR) false false (firstn 40 ex_bytes)) = true /\
  is_ok (decode_message stub_dd (Some sig_BUFR) true false (firstn 52 ex_bytes)) = true.
Proof. repeat split; vm_compute; reflexivity. Qed.
