(* C15 — The path-expression parser accepts exactly the documented grammar.
   Statements only; every proof is [exact <lemma of PathProofs>].

   [parse]    = model of NodePathParser.parse with fixes/C15_end_of_input.diff and
                fixes/C15_strip_whitespace.diff applied (PathParser.v)
   [Query]    = the documented grammar as an inductive relation (PathGrammar.v)
   [grammar]  = an independent recursive-descent recogniser for it
   [strip_ws] = removal of the white space the loop ignores (string.whitespace) *)
From PBK Require Import Base PathParser PathGrammar PathProofs.

(* MAIN: for EVERY string (no length bound): accepted with path p iff the string,
   white space removed, derives p in the grammar *)
Theorem C15_parse_iff_grammar : forall s p, parse s = Ok p <-> Query (strip_ws s) p.
Proof. exact parse_iff_grammar. Qed.
Print Assumptions C15_parse_iff_grammar.

(* the same as an equation with the executable recogniser, rejections included:
   uniform shape  holds (model x)  with  dom = everything *)
Theorem C15_parse_eq_grammar : forall s, parse s = lift (grammar s).
Proof. exact parse_eq_grammar. Qed.
Print Assumptions C15_parse_eq_grammar.

(* the recogniser decides the relation *)
Theorem C15_gparse_iff_query : forall w p, gparse w = Some p <-> Query w p.
Proof. exact gparse_iff_query. Qed.
Print Assumptions C15_gparse_iff_query.

(* every rejection is the path-parsing error; in particular the assert of
   create_slice_object (EAssert) is unreachable *)
Theorem C15_parse_error_class : forall s e, parse s = Err e -> e = EPathExpr.
Proof. exact parse_error_class. Qed.
Print Assumptions C15_parse_error_class.

Theorem C15_parse_rejects_iff : forall s,
  parse s = Err EPathExpr <-> forall p, ~ Query (strip_ws s) p.
Proof. exact parse_rejects_iff. Qed.
Print Assumptions C15_parse_rejects_iff.

(* white space is ignored wherever it stands *)
Theorem C15_parse_ignores_ws : forall s, parse s = parse (strip_ws s).
Proof. exact parse_ignores_ws. Qed.
Print Assumptions C15_parse_ignores_ws.

(* ---- print and re-parse ------------------------------------------------------ *)
From PBK Require Import PathPrintProofs.

(* printing a parsed path and parsing the printout gives the same path — for every
   accepted string, no bound *)
Theorem C15_parse_to_string : forall s p, parse s = Ok p -> parse (to_string p) = Ok p.
Proof. exact parse_to_string. Qed.
Print Assumptions C15_parse_to_string.

(* the parser's range: a subset slice, at least one component, first separator '/'
   or '>', separators / . >, non-empty IDs of ID characters, an int slice is >= 0,
   every integer within int()'s 4300-digit limit ... *)
Theorem C15_parse_range : forall s p, parse s = Ok p -> wf_path p.
Proof. exact parse_range. Qed.
Print Assumptions C15_parse_range.

(* ... and every path of that range is printed to a string that parses back to it *)
Theorem C15_to_string_parses : forall p, wf_path p -> parse (to_string p) = Ok p.
Proof. exact to_string_parses. Qed.
Print Assumptions C15_to_string_parses.

(* ---- slice semantics ----------------------------------------------------------- *)
Theorem C15_slice_semantics_index : forall id t k,
  IdStr id -> id0_start (hd 0%N id) = true -> forallb idchar t = true -> py_int t = Some k ->
  parse (id ++ [ch_lb] ++ t ++ [ch_rb]) =
  Ok (mkPath (Some slice_all)
        [mkComp ch_gt id (if (0 <=? k)%Z then SInt k
                          else if (k =? -1)%Z then SSlice (Some k) None None
                          else SSlice (Some k) (Some (k + 1)%Z) None)]).
Proof. exact slice_semantics_index. Qed.
Print Assumptions C15_slice_semantics_index.

Theorem C15_slice_semantics_range : forall id ta a tb b tc c,
  IdStr id -> id0_start (hd 0%N id) = true -> OInt ta a -> OInt tb b -> OInt tc c ->
  parse (id ++ [ch_lb] ++ ta ++ [ch_colon] ++ tb ++ [ch_rb]) =
    Ok (mkPath (Some slice_all) [mkComp ch_gt id (SSlice a b None)]) /\
  parse (id ++ [ch_lb] ++ ta ++ [ch_colon] ++ tb ++ [ch_colon] ++ tc ++ [ch_rb]) =
    Ok (mkPath (Some slice_all) [mkComp ch_gt id (SSlice a b c)]).
Proof. exact slice_semantics_range. Qed.
Print Assumptions C15_slice_semantics_range.

Theorem C15_slice_semantics_bare : forall id,
  IdStr id -> id0_start (hd 0%N id) = true ->
  parse id = Ok (mkPath (Some slice_all) [mkComp ch_gt id slice_all]).
Proof. exact slice_semantics_bare. Qed.
Print Assumptions C15_slice_semantics_bare.

(* more than three indices are rejected, whatever follows *)
Theorem C15_slice_semantics_four_parts : forall id ta a tb b tc c rest,
  IdStr id -> id0_start (hd 0%N id) = true -> OInt ta a -> OInt tb b -> OInt tc c ->
  parse (id ++ [ch_lb] ++ ta ++ [ch_colon] ++ tb ++ [ch_colon] ++ tc ++ [ch_colon] ++ rest) = Err EPathExpr.
Proof. exact slice_semantics_four_parts. Qed.
Print Assumptions C15_slice_semantics_four_parts.

(* int(str(k)) = k within the digit limit (the lemma behind print-and-reparse) *)
Theorem C15_print_Z_roundtrip : forall k, small k ->
  py_int (print_Z k) = Some k /\ forallb idchar (print_Z k) = true.
Proof. exact print_Z_roundtrip. Qed.
Print Assumptions C15_print_Z_roundtrip.

(* ---- bounded sweeps inside Coq (vm_compute; the bound is in the name) ------------ *)
Theorem C15_parse_iff_grammar_upto5 : forall s, (length s <= 5)%nat ->
  (forall c, In c s -> In c alphabet12) -> agrees s = true.
Proof. exact parse_iff_grammar_upto5. Qed.
Print Assumptions C15_parse_iff_grammar_upto5.

Theorem C15_parse_to_string_upto5 : forall s, (length s <= 5)%nat ->
  (forall c, In c s -> In c alphabet12) -> reparses s = true.
Proof. exact parse_to_string_upto5. Qed.
Print Assumptions C15_parse_to_string_upto5.

From PBK Require Import PathSweep6 PathSweep6b.
Theorem C15_parse_iff_grammar_upto6 : forall s, (length s <= 6)%nat ->
  (forall c, In c s -> In c alphabet12) -> agrees s = true.
Proof. exact parse_iff_grammar_upto6. Qed.
Print Assumptions C15_parse_iff_grammar_upto6.

Theorem C15_parse_to_string_upto6 : forall s, (length s <= 6)%nat ->
  (forall c, In c s -> In c alphabet12) -> reparses s = true.
Proof. exact parse_to_string_upto6. Qed.
Print Assumptions C15_parse_to_string_upto6.

(* ---- the code as found (D11 and the strip() inconsistency): regression statements
        about the model of the ORIGINAL end-of-input rule / str.strip() ------------- *)
Theorem C15_parse_orig_accepts_unterminated_refuted :
  exists s p, parse_orig s = Ok p /\ (forall q, ~ Query (strip_ws s) q) /\
              parse_orig (to_string p) <> Ok p /\ parse s = Err EPathExpr.
Proof. exact parse_orig_accepts_unterminated_refuted. Qed.
Print Assumptions C15_parse_orig_accepts_unterminated_refuted.

Theorem C15_parse_orig_drops_component_refuted :
  exists s p, parse_orig s = Ok p /\ p_comps p = [] /\ (forall q, ~ Query (strip_ws s) q) /\
              parse s = Err EPathExpr.
Proof. exact parse_orig_drops_component_refuted. Qed.
Print Assumptions C15_parse_orig_drops_component_refuted.

Theorem C15_parse_orig_strip_refuted :
  exists s p, parse_orig s = Ok p /\ (forall q, ~ Query (strip_ws s) q) /\ parse s = Err EPathExpr.
Proof. exact parse_orig_strip_refuted. Qed.
Print Assumptions C15_parse_orig_strip_refuted.
