(* C15 — placeholder while the proofs are written *)
From PBK Require Import Base PathParser PathGrammar.
Theorem C15_smoke : parse [65%N] = Ok (mkPath (Some slice_all) [mkComp 62%N [65%N] slice_all]).
Proof. vm_compute. reflexivity. Qed.
Print Assumptions C15_smoke.
