(* C15 — The path-expression parser accepts exactly the documented grammar.
   Statements only; every proof is [exact <lemma of PathProofs>].

   [parse]    = model of NodePathParser.parse with fixes/C15_end_of_input.diff and
                fixes/C15_strip_whitespace.diff applied (PathParser.v)
   [Query]    = the documented grammar as an inductive relation (PathGrammar.v)
   [grammar]  = an independent recursive-descent recogniser for it
   [strip_ws] = removal of the white space the loop ignores (string.whitespace) *)
From PBK Require Import Base PathParser PathGrammar PathProofs.

(* MAIN: for EVERY string (no length bound): accepted with path p iff the string,
   white space removed, derives p in the grammar *)
Theorem C15_parse_iff_grammar : forall s p, parse s = Ok p <-> Query (strip_ws s) p.
Proof. exact parse_iff_grammar. Qed.
Print Assumptions C15_parse_iff_grammar.

(* the same as an equation with the executable recogniser, rejections included:
   uniform shape  holds (model x)  with  dom = everything *)
Theorem C15_parse_eq_grammar : forall s, parse s = lift (grammar s).
Proof. exact parse_eq_grammar. Qed.
Print Assumptions C15_parse_eq_grammar.

(* the recogniser decides the relation *)
Theorem C15_gparse_iff_query : forall w p, gparse w = Some p <-> Query w p.
Proof. exact gparse_iff_query. Qed.
Print Assumptions C15_gparse_iff_query.

(* every rejection is the path-parsing error; in particular the assert of
   create_slice_object (EAssert) is unreachable *)
Theorem C15_parse_error_class : forall s e, parse s = Err e -> e = EPathExpr.
Proof. exact parse_error_class. Qed.
Print Assumptions C15_parse_error_class.

Theorem C15_parse_rejects_iff : forall s,
  parse s = Err EPathExpr <-> forall p, ~ Query (strip_ws s) p.
Proof. exact parse_rejects_iff. Qed.
Print Assumptions C15_parse_rejects_iff.

(* white space is ignored wherever it stands *)
Theorem C15_parse_ignores_ws : forall s, parse s = parse (strip_ws s).
Proof. exact parse_ignores_ws. Qed.
Print Assumptions C15_parse_ignores_ws.
