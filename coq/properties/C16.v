(* C16 — Data queries return exactly the values the path designates.
   Statements only.

   FULL STATEMENT (not proved; checked differentially on every run):
     query_eq_reference : for every wired tree and every path of '/' and '.' steps,
       process_one_subset attrs labels fuel nodes p = eval (render_nodes ...) p
     (evaluation over the nested JSON rendering; one envelope per replication,
      one list per repetition, matches in document order).
   Proved below: the subset selector, document order of every selection, no
   node lost or invented by the ordering, and that only value nodes yield values. *)
From PBK Require Import Base Descr Walk Wire PySlice PathParser Query QueryProofs.

Theorem C16_subset_selector_none : forall n cs,
  subset_indices n (mkPath None cs) = Ok (map Z.of_nat (seq 0 n)).
Proof. exact subset_selector_none. Qed.
Print Assumptions C16_subset_selector_none.

Theorem C16_subset_selector_int : forall n k cs, subset_indices n (mkPath (Some (SInt k)) cs) = Ok [k].
Proof. exact subset_selector_int. Qed.
Print Assumptions C16_subset_selector_int.

(* an '@' selector restricts the result to exactly the selected subsets: range(n)[slice] *)
Theorem C16_subset_selector_slice : forall n a b c cs,
  subset_indices n (mkPath (Some (SSlice a b c)) cs) =
  (let* l := py_range_slice n a b c in Ok (map Z.of_nat l)).
Proof. exact subset_selector_slice. Qed.
Print Assumptions C16_subset_selector_slice.

(* selected matches are kept in document order, for every slice *)
Theorem C16_selection_in_document_order_partial : forall l, idx_sorted (sort_by_idx l).
Proof. exact sort_by_idx_sorted. Qed.
Print Assumptions C16_selection_in_document_order_partial.

Theorem C16_selection_same_nodes_partial : forall l y, In y (sort_by_idx l) <-> In y l.
Proof. exact sort_by_idx_in. Qed.
Print Assumptions C16_selection_same_nodes_partial.

Theorem C16_values_only_from_value_nodes : forall fuel n,
  (forall i, n <> QV i) -> values_of (S fuel) (RNode n) = Err EQuery.
Proof. exact values_of_valueless. Qed.
Print Assumptions C16_values_only_from_value_nodes.
