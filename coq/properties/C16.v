(* C16 — Data queries return exactly the values the path designates.
   Statements only.

   FULL STATEMENT, proved below for every path of child ('/') and attribute ('.') steps:
     C16_query_eq_reference : for every tree produced by wiring, every such path, every
       slice, every fuel >= 2*|path|+1,
       process_one_subset attrs labels fuel nodes p
         = eval_json labels (render_nodes attrs ia vals k nodes) (p_comps p)
     i.e. the query equals the evaluation of the path over the nested JSON rendering
     (QueryRef.eval_json: structurally recursive on the path, no fuel; one envelope per
     replication, one list per repetition, matches in document order, values of value
     nodes only), with the SAME ERROR CLASS when it fails (QueryError: no members / no
     attributes / valueless node; ValueError: zero slice step; IndexError: empty path).
     The proof goes through the reference over the wired tree (C16_query_eq_tree_reference,
     C16_values_directly_eq_nodes_then_values, C16_json_reference_eq_tree_reference).
   Scope of the hypothesis [simple_path]: no component uses the descendant separator '>'
   (an executable predicate on the path).  For paths WITH descendant steps (every separator
   one of / . >: executable [wf_path]) the same equality is proved, a descendant step being
   the structural search of all composite nodes of the rendering, under the executable
   hypothesis that the rendering is saturated: C16_query_eq_reference_all (values directly)
   and C16_query_eq_reference_descendant (nodes first), end of this file.  Fuel monotonicity holds for every
   path (C16_fuel_monotone).
   Also proved: the subset selector; document order of every selection; only value nodes
   yield values. *)
From PBK Require Import Base Descr Walk Wire PySlice PathParser Query QueryProofs QuerySpec.

Theorem C16_subset_selector_none : forall n cs,
  subset_indices n (mkPath None cs) = Ok (map Z.of_nat (seq 0 n)).
Proof. exact subset_selector_none. Qed.
Print Assumptions C16_subset_selector_none.

Theorem C16_subset_selector_int : forall n k cs, subset_indices n (mkPath (Some (SInt k)) cs) = Ok [k].
Proof. exact subset_selector_int. Qed.
Print Assumptions C16_subset_selector_int.

(* an '@' selector restricts the result to exactly the selected subsets: range(n)[slice] *)
Theorem C16_subset_selector_slice : forall n a b c cs,
  subset_indices n (mkPath (Some (SSlice a b c)) cs) =
  (let* l := py_range_slice n a b c in Ok (map Z.of_nat l)).
Proof. exact subset_selector_slice. Qed.
Print Assumptions C16_subset_selector_slice.

(* selected matches are kept in document order, for every slice *)
Theorem C16_selection_in_document_order_partial : forall l, idx_sorted (sort_by_idx l).
Proof. exact sort_by_idx_sorted. Qed.
Print Assumptions C16_selection_in_document_order_partial.

Theorem C16_selection_same_nodes_partial : forall l y, In y (sort_by_idx l) <-> In y l.
Proof. exact sort_by_idx_in. Qed.
Print Assumptions C16_selection_same_nodes_partial.

Theorem C16_values_only_from_value_nodes : forall fuel n,
  (forall i, n <> QV i) -> values_of (S fuel) (RNode n) = Err EQuery.
Proof. exact values_of_valueless. Qed.
Print Assumptions C16_values_only_from_value_nodes.

(* ---- one step of the query ---------------------------------------------------------- *)
(* [k] on a child / attribute step: the k-th node (0-based) whose label is the id, or
   nothing; the implementation's early return does not change the result *)
Theorem C16_step_int : forall attrs labels c k nodes,
  c_slice c = SInt k -> (0 <= k)%Z -> (c_sep c =? SEP_DESCEND)%N = false ->
  filter_for_entities attrs labels nodes c =
  Ok (match nth_error (matched_of attrs labels c nodes) (Z.to_nat k) with Some x => [x] | None => [] end).
Proof. exact ffe_int. Qed.
Print Assumptions C16_step_int.

(* [a:b:c] on any step: Python's slice of the matches, then (descendant step) the
   composite nodes to descend into, sorted by position *)
Theorem C16_step_slice : forall attrs labels c a b st nodes,
  c_slice c = SSlice a b st ->
  filter_for_entities attrs labels nodes c =
  (let* sel := py_slice (matched_of attrs labels c nodes) a b st in
   Ok (sort_by_idx (sel ++ kept_of attrs labels c nodes))).
Proof. exact ffe_slice. Qed.
Print Assumptions C16_step_slice.

(* ... which is the node list itself filtered by "was selected": selected matches are
   kept in DOCUMENT order whatever the direction of the slice *)
Theorem C16_step_slice_document_order : forall attrs labels c a b st nodes sel,
  c_slice c = SSlice a b st -> py_slice (matched_of attrs labels c nodes) a b st = Ok sel ->
  filter_for_entities attrs labels nodes c =
  Ok (filter (fun x => existsb (fun y => (fst y =? fst x)%nat) (sel ++ kept_of attrs labels c nodes)) (enumerate 0 nodes)).
Proof. exact ffe_slice_document_order. Qed.
Print Assumptions C16_step_slice_document_order.

Theorem C16_step_slice_child : forall attrs labels c a b st nodes sel,
  c_slice c = SSlice a b st -> (c_sep c =? SEP_DESCEND)%N = false ->
  py_slice (matched_of attrs labels c nodes) a b st = Ok sel ->
  filter_for_entities attrs labels nodes c =
  Ok (filter (fun x => existsb (fun y => (fst y =? fst x)%nat) sel) (enumerate 0 nodes)).
Proof. exact ffe_slice_child. Qed.
Print Assumptions C16_step_slice_child.

(* a Python slice picks distinct positions of its argument *)
Theorem C16_slice_picks : forall (l sel : list (nat * qn)) a b c,
  py_slice l a b c = Ok sel -> incl sel l /\ (NoDup (map fst l) -> NoDup (map fst sel)).
Proof. exact py_slice_picks. Qed.
Print Assumptions C16_slice_picks.

(* sorting a selection by position = reading the document and keeping the selected *)
Theorem C16_sort_is_document_filter : forall (E l : list (nat * qn)),
  ssorted E -> incl l E -> NoDup (map fst l) ->
  sort_by_idx l = filter (fun x => existsb (fun y => (fst y =? fst x)%nat) l) E.
Proof. exact sort_is_document_filter. Qed.
Print Assumptions C16_sort_is_document_filter.

(* ==== the composition of the steps over the tree ======================================= *)
From PBK Require Import Nested QueryRef QueryRefProofs.

(* a small wired tree: a value, a fixed replication of two repetitions of (002001 002002
   002001), a delayed replication with its factor; the 002001 values carry attributes *)
Definition ex16_nodes : wnodes :=
  WCons (WValue 0)
 (WCons (WFixed 103002 3 2 (WCons (WValue 1) (WCons (WValue 2) (WCons (WValue 3)
                           (WCons (WValue 4) (WCons (WValue 5) (WCons (WValue 6) WNil)))))))
 (WCons (WDelayed 101000 1 7 (WCons (WValue 8) (WCons (WValue 9) WNil))) WNil)).
Definition ex16_labels : list (list char) :=
  map id6 [1001; 2001; 2002; 2001; 2001; 2002; 2001; 31001; 4001; 4001; 33007; 33007]%N.
Definition ex16_attrs : list attr := [(1, 10, false); (1, 11, false); (3, 10, false); (4, 10, false); (6, 11, false)]%N.
(* /103002/002001[::-1].033007[::-1] *)
Definition ex16_path : path :=
  mkPath None [mkComp ch_slash (id6 103002) (SInt 0);
               mkComp ch_slash (id6 2001) (SSlice None None (Some (-1)%Z));
               mkComp ch_dot (id6 33007) (SSlice None None (Some (-1)%Z))].

(* THE QUERY EQUALS THE REFERENCE EVALUATION OVER THE WIRED TREE, for every tree, every
   attribute relation, every path of child and attribute steps (executable hypothesis
   [simple_path]: no descendant step), every slice, every fuel above 2*|path|+1; error
   cases included: both sides give the same error class (QueryError for a missing
   'members' / 'attributes' / value, ValueError for a zero slice step, IndexError for
   an empty path). *)
Theorem C16_query_eq_tree_reference : forall attrs labels fuel nodes p,
  simple_path (p_comps p) = true -> (2 * length (p_comps p) + 1 <= fuel)%nat ->
  process_one_subset attrs labels fuel nodes p = eval_ref_nodes attrs labels nodes (p_comps p).
Proof. exact process_one_subset_ref_nodes. Qed.
Print Assumptions C16_query_eq_tree_reference.

Example C16_query_eq_tree_reference_nonvacuous :
  simple_path (p_comps ex16_path) = true /\
  process_one_subset ex16_attrs ex16_labels 7 ex16_nodes ex16_path =
    Ok [VList [VList [VIdx 10; VIdx 11; VIdx 10]; VList [VIdx 10; VIdx 11]]] /\
  eval_ref_nodes ex16_attrs ex16_labels ex16_nodes (p_comps ex16_path) =
    Ok [VList [VList [VIdx 10; VIdx 11; VIdx 10]; VList [VIdx 10; VIdx 11]]].
Proof. vm_compute. repeat split; reflexivity. Qed.

(* ==== evaluation over the nested JSON rendering ========================================= *)
From PBK Require Import NestedProofs QueryRefValues QueryRefJson.

(* evaluating to values directly (the "only value nodes yield values" check at the path
   end, as the reference over the rendering does) = nodes first, values afterwards (as
   dataquery.py does): same results AND same error classes, for every path *)
Theorem C16_values_directly_eq_nodes_then_values : forall attrs labels nodes cs,
  eval_ref attrs labels nodes cs = eval_ref_nodes attrs labels nodes cs.
Proof. exact eval_ref_fusion. Qed.
Print Assumptions C16_values_directly_eq_nodes_then_values.

(* the reference over the rendering (QueryRef.eval_json: structural recursion on the path
   over Nested.jn, the Coq counterpart of ref_eval in harness/props/C16.py) equals the
   reference over the tree, when replication nodes hold whole repetitions and the
   rendering unfolds attributes of attributes at least |path| levels deep *)
Theorem C16_json_reference_eq_tree_reference : forall attrs ia vals labels k nodes cs,
  wf_nodes vals nodes -> simple_path cs = true -> (length cs <= k)%nat ->
  eval_json labels (render_nodes attrs ia vals k nodes) cs = eval_ref attrs labels nodes cs.
Proof. exact eval_json_tree. Qed.
Print Assumptions C16_json_reference_eq_tree_reference.

(* C16, FULL STATEMENT for child and attribute steps: a query over a wired subset returns
   exactly what evaluating the path over the nested JSON rendering returns: one envelope per
   replication, one list per repetition, matches in document order, values of value nodes
   only; same error class otherwise.  Hypotheses: the tree comes from wiring; no component
   uses the descendant separator (executable: simple_path); enough fuel (explicit bound, the
   depth of the tree does not enter); attributes rendered deep enough. *)
Theorem C16_query_eq_reference : forall ndesc vals links T nodes s ia labels fuel k p,
  wire ndesc vals links T = Ok (nodes, s) -> simple_path (p_comps p) = true ->
  (2 * length (p_comps p) + 1 <= fuel)%nat -> (length (p_comps p) <= k)%nat ->
  process_one_subset (x_attrs s) labels fuel nodes p =
  eval_json labels (render_nodes (x_attrs s) ia vals k nodes) (p_comps p).
Proof. exact query_eq_reference_wired. Qed.
Print Assumptions C16_query_eq_reference.

(* the same for any tree whose replication nodes hold whole repetitions *)
Theorem C16_query_eq_reference_wf : forall attrs ia vals labels fuel k nodes p,
  wf_nodes vals nodes -> simple_path (p_comps p) = true ->
  (2 * length (p_comps p) + 1 <= fuel)%nat -> (length (p_comps p) <= k)%nat ->
  process_one_subset attrs labels fuel nodes p =
  eval_json labels (render_nodes attrs ia vals k nodes) (p_comps p).
Proof. exact query_eq_reference. Qed.
Print Assumptions C16_query_eq_reference_wf.

(* non-vacuity: 204008 031021 102002(012001 012001) 204000 101000 031001 (001001): a fixed
   replication whose members carry associated fields (attributes), a delayed replication;
   /102002/012001[::-1].A12001 and /101000.031001[:] *)
Definition ex16_elem (id : N) : desc := DElem (mkElem id [] 0 0 8).
Definition ex16_T : descs :=
  DCons (DOper 204008) (DCons (ex16_elem 31021)
  (DCons (DFixed 102002 (DCons (ex16_elem 12001) (DCons (ex16_elem 12001) DNil))) (DCons (DOper 204000)
  (DCons (DDelayed 101000 (ex16_elem 31001) (DCons (ex16_elem 1001) DNil)) DNil)))).
Definition ex16_vals : list value :=
  [VInt 1; VInt 3; VInt 280; VInt 3; VInt 281; VInt 3; VInt 282; VInt 3; VInt 283; VInt 2; VInt 10; VInt 11].
Definition ex16_lA : list char := [65; 49; 50; 48; 48; 49]%N.      (* "A12001" *)
Definition ex16_wlabels : list (list char) :=
  [id6 31021; ex16_lA; id6 12001; ex16_lA; id6 12001; ex16_lA; id6 12001; ex16_lA; id6 12001;
   id6 31001; id6 1001; id6 1001].
Definition ex16_p1 : path :=
  mkPath None [mkComp ch_slash (id6 102002) (SInt 0);
               mkComp ch_slash (id6 12001) (SSlice None None (Some (-1)%Z));
               mkComp ch_dot ex16_lA (SInt 0)].
Definition ex16_p2 : path :=
  mkPath None [mkComp ch_slash (id6 101000) (SInt 0); mkComp ch_dot (id6 31001) slice_all].

Example C16_query_eq_reference_nonvacuous :
  exists nodes s,
    wire 12 ex16_vals [] ex16_T = Ok (nodes, s) /\
    simple_path (p_comps ex16_p1) = true /\ simple_path (p_comps ex16_p2) = true /\
    process_one_subset (x_attrs s) ex16_wlabels 7 nodes ex16_p1 =
      Ok [VList [VList [VIdx 1; VIdx 3]; VList [VIdx 5; VIdx 7]]] /\
    eval_json ex16_wlabels (render_nodes (x_attrs s) (fun _ => false) ex16_vals 3 nodes) (p_comps ex16_p1) =
      Ok [VList [VList [VIdx 1; VIdx 3]; VList [VIdx 5; VIdx 7]]] /\
    process_one_subset (x_attrs s) ex16_wlabels 5 nodes ex16_p2 = Ok [VIdx 9] /\
    eval_json ex16_wlabels (render_nodes (x_attrs s) (fun _ => false) ex16_vals 2 nodes) (p_comps ex16_p2) = Ok [VIdx 9].
Proof. eexists; eexists. split; [vm_compute; reflexivity|]. vm_compute. repeat split; reflexivity. Qed.

(* ==== fuel ================================================================================ *)
From PBK Require Import QueryFuel.

(* fuel monotonicity, for EVERY path (descendant steps included): once the model returns
   anything but EFuel — an Ok result or a Python error class — more fuel returns the same *)
Theorem C16_fuel_monotone : forall attrs labels k k' nodes p,
  (k <= k')%nat -> process_one_subset attrs labels k nodes p <> Err EFuel ->
  process_one_subset attrs labels k' nodes p = process_one_subset attrs labels k nodes p.
Proof. exact process_one_subset_fuel_mono. Qed.
Print Assumptions C16_fuel_monotone.

Theorem C16_filter_fuel_monotone : forall attrs labels k k' n cs,
  (k <= k')%nat -> filter_sub attrs labels k n cs <> Err EFuel ->
  filter_sub attrs labels k' n cs = filter_sub attrs labels k n cs.
Proof. exact filter_sub_fuel_mono. Qed.
Print Assumptions C16_filter_fuel_monotone.

(* non-vacuity, on a descendant path: "> 033007" over ex16_nodes needs 7 units of fuel *)
Example C16_fuel_monotone_nonvacuous :
  let p := mkPath None [mkComp ch_gt (id6 33007) slice_all] in
  process_one_subset ex16_attrs ex16_labels 6 ex16_nodes p = Err EFuel /\
  process_one_subset ex16_attrs ex16_labels 7 ex16_nodes p <> Err EFuel /\
  process_one_subset ex16_attrs ex16_labels 7 ex16_nodes p =
    Ok [VList [VList [VIdx 10; VIdx 11; VIdx 10]; VList [VIdx 10; VIdx 11]]].
Proof. vm_compute. repeat split; try reflexivity. discriminate. Qed.

(* ==== paths with descendant steps ========================================================= *)
From PBK Require Import QueryRefDesc.

(* C16 for EVERY path the parser can produce (separators '/', '.', '>': executable hypothesis
   wf_path): the query equals the reference evaluation over the nested JSON rendering, where
   a descendant step is the search of all composite nodes (QueryRef.jdesc: at every level
   the nodes labelled id that the slice selects continue with the rest of the path, the
   composite nodes with another label are searched below; replications are enveloped as in
   a child step and their positions are chosen in the first repetition; members first, then
   factor / attributes).  Nodes first (each path end: its value index if it has one), values
   afterwards — a valueless end node is QueryError.  Hypotheses: the tree comes from wiring;
   the rendering is saturated (executable: no chain of attributes of attributes is cut
   short by the unfolding depth K); enough fuel, explicit bound in the path length and the
   nesting depth of the rendering. *)
Theorem C16_query_eq_reference_descendant : forall ndesc vals links T nodes s ia labels K fuel p,
  wire ndesc vals links T = Ok (nodes, s) -> wf_path (p_comps p) = true -> saturated (x_attrs s) K = true ->
  (2 * jheight (JSeqN 0 (render_nodes (x_attrs s) ia vals K nodes)) + 3 * length (p_comps p) + 2 <= fuel)%nat ->
  process_one_subset (x_attrs s) labels fuel nodes p =
  eval_json_nodes labels (render_nodes (x_attrs s) ia vals K nodes) (p_comps p).
Proof. exact query_desc_eq_reference_wired. Qed.
Print Assumptions C16_query_eq_reference_descendant.

Theorem C16_query_eq_reference_descendant_wf : forall attrs ia vals labels K fuel nodes p,
  wf_nodes vals nodes -> wf_path (p_comps p) = true -> saturated attrs K = true ->
  (2 * jheight (JSeqN 0 (render_nodes attrs ia vals K nodes)) + 3 * length (p_comps p) + 2 <= fuel)%nat ->
  process_one_subset attrs labels fuel nodes p =
  eval_json_nodes labels (render_nodes attrs ia vals K nodes) (p_comps p).
Proof. exact query_desc_eq_reference. Qed.
Print Assumptions C16_query_eq_reference_descendant_wf.

(* over the rendering, values directly = nodes first then values, for EVERY path (descendant
   steps included), error classes included *)
From PBK Require Import QueryRefJsonValues.
Theorem C16_json_values_directly_eq_nodes_first : forall labels nested cs,
  eval_json labels nested cs = eval_json_nodes labels nested cs.
Proof. exact eval_json_fusion. Qed.
Print Assumptions C16_json_values_directly_eq_nodes_first.

(* hence C16 for every path the parser can produce against the values-directly reference *)
Theorem C16_query_eq_reference_all : forall ndesc vals links T nodes s ia labels K fuel p,
  wire ndesc vals links T = Ok (nodes, s) -> wf_path (p_comps p) = true -> saturated (x_attrs s) K = true ->
  (2 * jheight (JSeqN 0 (render_nodes (x_attrs s) ia vals K nodes)) + 3 * length (p_comps p) + 2 <= fuel)%nat ->
  process_one_subset (x_attrs s) labels fuel nodes p =
  eval_json labels (render_nodes (x_attrs s) ia vals K nodes) (p_comps p).
Proof. exact query_eq_reference_all. Qed.
Print Assumptions C16_query_eq_reference_all.

(* ... with the fuel bound stated on the tree: path length and depth of the wired tree
   (wheights: nesting of sequences and replications), plus the unfolding depth K *)
Theorem C16_query_eq_reference_all_tree : forall ndesc vals links T nodes s ia labels K fuel p,
  wire ndesc vals links T = Ok (nodes, s) -> wf_path (p_comps p) = true -> saturated (x_attrs s) K = true ->
  (2 * (wheights nodes + K + 1) + 3 * length (p_comps p) + 2 <= fuel)%nat ->
  process_one_subset (x_attrs s) labels fuel nodes p =
  eval_json labels (render_nodes (x_attrs s) ia vals K nodes) (p_comps p).
Proof. exact query_eq_reference_all_tree. Qed.
Print Assumptions C16_query_eq_reference_all_tree.

(* what one descendant step of the implementation looks at: the selected matches and the
   composite nodes with another label, in document order *)
Theorem C16_step_descendant : forall attrs labels c nodes, (c_sep c =? SEP_DESCEND)%N = true ->
  filter_for_entities attrs labels nodes c =
  (let* cutsel := select (label_of labels) c nodes in
   Ok (filter (fun p => memb (fst p) (map fst cutsel) || is2 attrs labels c p) (enumerate 0 nodes))).
Proof. exact ffe_descend. Qed.
Print Assumptions C16_step_descendant.

(* non-vacuity on the wired example above: > A12001[::-1], > 031021 (found as an attribute of
   attributes inside the replication and as a top-level member), /102002 > 031021[0] *)
Example C16_query_eq_reference_descendant_nonvacuous :
  let p3 := mkPath None [mkComp ch_gt ex16_lA (SSlice None None (Some (-1)%Z))] in
  let p4 := mkPath None [mkComp ch_gt (id6 31021) slice_all] in
  let p5 := mkPath None [mkComp ch_slash (id6 102002) (SInt 0); mkComp ch_gt (id6 31021) (SInt 0)] in
  exists nodes s,
    wire 12 ex16_vals [] ex16_T = Ok (nodes, s) /\
    saturated (x_attrs s) 2 = true /\ saturated (x_attrs s) 1 = false /\
    wf_path (p_comps p3) = true /\ wf_path (p_comps p4) = true /\ wf_path (p_comps p5) = true /\
    simple_path (p_comps p5) = false /\
    (2 * jheight (JSeqN 0 (render_nodes (x_attrs s) (fun _ => false) ex16_vals 2 nodes)) + 3 * 2 + 2 <= 18)%nat /\
    (2 * (wheights nodes + 2 + 1) + 3 * 2 + 2 <= 18)%nat /\
    process_one_subset (x_attrs s) ex16_wlabels 18 nodes p3 = Ok [VList [VList [VIdx 1; VIdx 3]; VList [VIdx 5; VIdx 7]]] /\
    eval_json_nodes ex16_wlabels (render_nodes (x_attrs s) (fun _ => false) ex16_vals 2 nodes) (p_comps p3) =
      Ok [VList [VList [VIdx 1; VIdx 3]; VList [VIdx 5; VIdx 7]]] /\
    process_one_subset (x_attrs s) ex16_wlabels 18 nodes p4 =
      Ok [VIdx 0; VList [VList [VIdx 0; VIdx 0]; VList [VIdx 0; VIdx 0]]] /\
    eval_json_nodes ex16_wlabels (render_nodes (x_attrs s) (fun _ => false) ex16_vals 2 nodes) (p_comps p4) =
      Ok [VIdx 0; VList [VList [VIdx 0; VIdx 0]; VList [VIdx 0; VIdx 0]]] /\
    process_one_subset (x_attrs s) ex16_wlabels 18 nodes p5 = Ok [VList [VList [VIdx 0; VIdx 0]; VList [VIdx 0; VIdx 0]]] /\
    eval_json_nodes ex16_wlabels (render_nodes (x_attrs s) (fun _ => false) ex16_vals 2 nodes) (p_comps p5) =
      Ok [VList [VList [VIdx 0; VIdx 0]; VList [VIdx 0; VIdx 0]]].
Proof.
  cbv zeta. eexists; eexists. split; [vm_compute; reflexivity|].
  repeat (split; [vm_compute; try reflexivity; repeat constructor|]). vm_compute. reflexivity.
Qed.
