(* C06 — Subsets of an uncompressed message are decoded independently of each
   other.  Statements only. *)
From PBK Require Import Base Bits Descr Walk Coder Decode DecodeProofs Encode EncodeSubsets.

(* Joint decode of n+1 subsets = the first subset decoded alone, followed by the
   joint decode of the remaining n from the position where the first stopped:
   same descriptors (labels), same attribute links, same values, position by
   position.  For every template (all operators, bitmaps, nested replication,
   templates ending inside an operator construct), every bit stream, every n. *)
Theorem C06_decode_subsets_split : forall T n b outs vals rest,
  decode_uncompressed T (S n) b = Ok (outs, vals, rest) ->
  exists o1 v1 r1 outs' vals',
    decode_uncompressed T 1 b = Ok ([o1], [v1], r1) /\
    decode_uncompressed T n r1 = Ok (outs', vals', rest) /\
    outs = o1 :: outs' /\ vals = v1 :: vals'.
Proof. exact decode_subsets_split. Qed.
Print Assumptions C06_decode_subsets_split.

(* and conversely: subsets that decode alone decode together to the same results *)
Theorem C06_decode_subsets_join : forall T n b o1 v1 r1 outs' vals' rest,
  decode_uncompressed T 1 b = Ok ([o1], [v1], r1) ->
  decode_uncompressed T n r1 = Ok (outs', vals', rest) ->
  decode_uncompressed T (S n) b = Ok (o1 :: outs', v1 :: vals', rest).
Proof. exact decode_subsets_join. Qed.
Print Assumptions C06_decode_subsets_join.

(* a subset's result does not depend on what follows it (so permuting the
   subsets' bit strings permutes the results: with split/join) *)
Theorem C06_decode_suffix_independent : forall T n b t outs vals rest,
  decode_uncompressed T n b = Ok (outs, vals, rest) ->
  decode_uncompressed T n (b ++ t) = Ok (outs, vals, rest ++ t).
Proof. exact decode_suffix_independent. Qed.
Print Assumptions C06_decode_suffix_independent.

(* ---- the encoder ---------------------------------------------------------------- *)
(* Joint encoding of n+1 subsets = the first subset encoded alone, followed by the
   joint encoding of the others: same descriptors, same links, and the bits are the
   concatenation.  For every template and every list of value lists. *)
Theorem C06_encode_subsets_split : forall T v1 vs outs w,
  encode_uncompressed T (v1 :: vs) = Ok (outs, w) ->
  exists o1 w1 outs' w2,
    encode_uncompressed T [v1] = Ok ([o1], w1) /\
    encode_uncompressed T vs = Ok (outs', w2) /\
    outs = o1 :: outs' /\ w = w1 ++ w2.
Proof. exact encode_subsets_split. Qed.
Print Assumptions C06_encode_subsets_split.

Theorem C06_encode_subsets_join : forall T v1 vs o1 w1 outs' w2,
  encode_uncompressed T [v1] = Ok ([o1], w1) ->
  encode_uncompressed T vs = Ok (outs', w2) ->
  encode_uncompressed T (v1 :: vs) = Ok (o1 :: outs', w1 ++ w2).
Proof. exact encode_subsets_join. Qed.
Print Assumptions C06_encode_subsets_join.

(* position by position: the joint encoding succeeds iff every subset encodes
   alone, and is then the concatenation of the single encodings (hence permuting
   the subsets permutes the pieces) *)
Theorem C06_encode_subsets_each : forall T vs outs w,
  encode_uncompressed T vs = Ok (outs, w) <->
  exists singles : list (subset_out * writer),
    Forall2 (fun v s => encode_uncompressed T [v] = Ok ([fst s], snd s)) vs singles /\
    outs = map fst singles /\ w = concat (map snd singles).
Proof. exact encode_subsets_each. Qed.
Print Assumptions C06_encode_subsets_each.
