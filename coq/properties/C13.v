(* C13 — No hidden state: results do not depend on what was processed before.
   Statements only.  The two caches (Cache.v) are operation-by-operation state
   machines over abstract [load] / [compile] (deterministic functions of their key
   and the extra table entries: the trusted reading of "reading the table files" and
   "compiling a template").  [key_eqb_eq]: keys that compare equal are equal (tuples
   of strings / ints in Python). *)
From PBK Require Import Base Cache CacheProofs.

(* MAIN, table-group cache: after ANY list of operations — lookups at any limits
   (hits, misses, evictions by popitem, failed loads) and invalidations, no
   table-definition message (no add_extra_entries) — a lookup at a limit >= 1 returns
   exactly what loading the key in a fresh process returns. *)
Theorem C13_tg_get_pure :
  forall (key group extras : Type) (key_eqb : key -> key -> bool)
         (load : key -> extras -> result group) (merge : extras -> extras -> extras),
  (forall a b, key_eqb a b = true -> a = b) ->
  forall (ops : list (tg_op key extras)) (e0 : extras) (L : nat) (k : key),
  no_extra key extras ops = true -> 1 <= L ->
  snd (tg_get key group extras key_eqb load L k
         (tg_run key group extras key_eqb load merge ops (tg_init key group extras e0)))
  = load k e0.
Proof. exact tg_get_pure. Qed.
Print Assumptions C13_tg_get_pure.

(* with table definitions, provided every add_extra_entries directly follows an
   invalidate (as dataprocessor does): the load with all extras added so far *)
Theorem C13_tg_get_pure_guarded :
  forall (key group extras : Type) (key_eqb : key -> key -> bool)
         (load : key -> extras -> result group) (merge : extras -> extras -> extras),
  (forall a b, key_eqb a b = true -> a = b) ->
  forall (ops : list (tg_op key extras)) (e0 : extras) (L : nat) (k : key),
  guarded key extras true ops = true -> 1 <= L ->
  snd (tg_get key group extras key_eqb load L k
         (tg_run key group extras key_eqb load merge ops (tg_init key group extras e0)))
  = load k (extras_after key extras merge ops e0).
Proof. exact tg_get_pure_guarded. Qed.
Print Assumptions C13_tg_get_pure_guarded.

(* the invariant behind both, and its preservation by one lookup *)
Theorem C13_inv_step :
  forall (key group extras : Type) (key_eqb : key -> key -> bool)
         (load : key -> extras -> result group),
  (forall a b, key_eqb a b = true -> a = b) ->
  forall L k (c : tg_cache key group extras),
  Inv key group extras load c ->
  Inv key group extras load (fst (tg_get key group extras key_eqb load L k c)) /\
  (1 <= L -> snd (tg_get key group extras key_eqb load L k c) = load k (tg_extras c)).
Proof. exact inv_step. Qed.
Print Assumptions C13_inv_step.

(* the guard is needed: add_extra_entries without invalidate leaves a stale entry *)
Theorem C13_stale_without_invalidate :
  exists (ops : list (tg_op nat nat)),
    guarded nat nat true ops = false /\
    let c := tg_run nat (nat * nat) nat Nat.eqb ex_load Nat.add ops (tg_init nat (nat * nat) nat 0) in
    snd (tg_get nat (nat * nat) nat Nat.eqb ex_load 5 1 c) <> ex_load 1 (tg_extras c).
Proof. exact stale_without_invalidate. Qed.
Print Assumptions C13_stale_without_invalidate.

(* size: with a fixed limit L >= 1 the cache never holds more than L table groups *)
Theorem C13_tg_size_bound :
  forall (key group extras : Type) (key_eqb : key -> key -> bool)
         (load : key -> extras -> result group) (merge : extras -> extras -> extras),
  forall (ops : list (tg_op key extras)) (L : nat) (c : tg_cache key group extras),
  forallb (limit_is key extras L) ops = true -> 1 <= L -> length (tg_groups c) <= L ->
  length (tg_groups (tg_run key group extras key_eqb load merge ops c)) <= L.
Proof. exact tg_size_bound. Qed.
Print Assumptions C13_tg_size_bound.

(* a lowered limit takes effect at the next miss *)
Theorem C13_tg_get_shrinks :
  forall (key group extras : Type) (key_eqb : key -> key -> bool)
         (load : key -> extras -> result group),
  forall L k (c : tg_cache key group extras) v, 1 <= L ->
  tg_lookup key group key_eqb k (tg_groups c) = None -> load k (tg_extras c) = Ok v ->
  length (tg_groups (fst (tg_get key group extras key_eqb load L k c)))
  = Nat.min (S (length (tg_groups c))) L.
Proof. exact tg_get_shrinks. Qed.
Print Assumptions C13_tg_get_shrinks.

(* limit 0, as coded: every miss empties the cache and raises KeyError *)
Theorem C13_tg_limit0 :
  forall (key group extras : Type) (key_eqb : key -> key -> bool)
         (load : key -> extras -> result group),
  forall k (c : tg_cache key group extras),
  tg_lookup key group key_eqb k (tg_groups c) = None ->
  tg_get key group extras key_eqb load 0 k c = (mkTG [] (tg_extras c), Err EKey).
Proof. exact tg_limit0. Qed.
Print Assumptions C13_tg_limit0.

(* MAIN, compiled-template cache: for every cache_max (0, negative, 1, n) and every
   history of requests (hits, misses, evictions, failed compilations)
   get_or_compile returns what compiling afresh returns *)
Theorem C13_ct_get_pure :
  forall (tkey ctemplate : Type) (tkey_eqb : tkey -> tkey -> bool) (compile : tkey -> result ctemplate),
  (forall a b, tkey_eqb a b = true -> a = b) ->
  forall (m : Z) (ks : list tkey) (k : tkey),
  snd (ct_get tkey ctemplate tkey_eqb compile m k (ct_run tkey ctemplate tkey_eqb compile m ks []))
  = compile k.
Proof. exact ct_get_pure. Qed.
Print Assumptions C13_ct_get_pure.

Theorem C13_ct_size_bound :
  forall (tkey ctemplate : Type) (tkey_eqb : tkey -> tkey -> bool) (compile : tkey -> result ctemplate),
  forall (m : Z) (ks : list tkey),
  (Z.of_nat (length (ct_run tkey ctemplate tkey_eqb compile m ks [])) <= Z.max m 0)%Z.
Proof. exact ct_size_bound. Qed.
Print Assumptions C13_ct_size_bound.

Theorem C13_ct_never_cached :
  forall (tkey ctemplate : Type) (tkey_eqb : tkey -> tkey -> bool) (compile : tkey -> result ctemplate),
  forall (m : Z) (ks : list tkey), (m <= 0)%Z ->
  ct_run tkey ctemplate tkey_eqb compile m ks [] = [].
Proof. exact ct_never_cached. Qed.
Print Assumptions C13_ct_never_cached.
