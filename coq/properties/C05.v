(* C05 — Compression is transparent: same data, same decoded result (COLUMN level).
   Statements only; every proof is [exact <lemma of ColumnProofs>].
   Model: coq/theories/Column.v (the per-column bodies of pybufrkit's
   process_*_compressed), over the bit model Bits.v. *)
From PBK Require Import Base Bits BitsProofs Column ColumnProofs.
From PBK Require Import Descr Walk Coder Decode Encode RoundTrip DecodeC EncodeC EncodeCG RoundTripC TransparentC RoundTripCExamples.

(* ---- nbits_for_uint: the width the encoder chooses for the increments ------- *)
(* for x >= 1 it is the least width >= 2 whose all-ones pattern lies above x *)
Theorem C05_nbits_for_uint_spec : forall x,
  (1 <= x)%N ->
  (2 <= nbits_for_uint x /\
   2 ^ (nbits_for_uint x - 1) <= x + 1 /\
   x + 2 <= 2 ^ nbits_for_uint x)%N.
Proof. exact nbits_for_uint_spec. Qed.
Print Assumptions C05_nbits_for_uint_spec.

Theorem C05_nbits_for_uint_least : forall x k,
  (1 <= x)%N -> (2 <= k)%N -> (x + 2 <= 2 ^ k)%N -> (nbits_for_uint x <= k)%N.
Proof. exact nbits_for_uint_least. Qed.
Print Assumptions C05_nbits_for_uint_least.

(* with D = max - min: no difference d <= D is the all-ones pattern *)
Theorem C05_diffs_below_allones : forall D d : N,
  (d <= D)%N -> (d < 2 ^ nbits_for_uint (D + 1) - 1)%N.
Proof. exact diffs_below_allones. Qed.
Print Assumptions C05_diffs_below_allones.

(* the width fits the 6-bit field exactly when max - min + 2 < 2^63 *)
Theorem C05_nbits_for_uint_fits6 : forall D : N,
  (D + 3 <= 2 ^ 63)%N <-> (nbits_for_uint (D + 1) <= 63)%N.
Proof. exact nbits_for_uint_fits6. Qed.
Print Assumptions C05_nbits_for_uint_fits6.

Theorem C05_minmax_spec : forall l mn mx,
  minmax l = Some (mn, mx) ->
  In (Some mn) l /\ In (Some mx) l /\ (forall v, In (Some v) l -> mn <= v <= mx)%Z.
Proof. exact minmax_spec. Qed.
Print Assumptions C05_minmax_spec.

(* ---- round trip: the compressed form written by the encoder is read back by
   the decoder as exactly that column ---------------------------------------------
   col_dom_num w ae raws  =  2 <= w <= 64, raws non-empty over
   {missing} u [0, 2^w - 2], the caller's all_equal flag consistent (true only if
   all entries are equal, false only if some entry is present), and
   max - min + 2 < 2^63 (automatic for w <= 62: spread_ok_small).
   Any prefix o, any suffix t, any number of subsets. *)
Theorem C05_col_roundtrip_num : forall w ae raws o t,
  col_dom_num w ae raws = true ->
  exists e, enc_col_num w ae raws o = Ok (o ++ e) /\
            dec_col_num w (length raws) (e ++ t) = Ok (raw_view raws, t).
Proof. exact col_roundtrip_num. Qed.
Print Assumptions C05_col_roundtrip_num.

Theorem C05_spread_ok_small : forall w raws,
  (w <= 62)%Z -> forallb (col_in_range w) raws = true -> col_spread_ok raws = true.
Proof. exact spread_ok_small. Qed.
Print Assumptions C05_spread_ok_small.

Theorem C05_col_roundtrip_codeflag : forall w ae raws o t,
  col_dom_num w ae raws = true ->
  exists e, enc_col_codeflag w ae raws o = Ok (o ++ e) /\
            dec_col_codeflag w w (length raws) (e ++ t) = Ok (raw_view raws, t).
Proof. exact col_roundtrip_codeflag. Qed.
Print Assumptions C05_col_roundtrip_codeflag.

(* ---- the decoder reads EVERY legal difference width ----------------------------
   any base below the present values (not the element's all-ones pattern), any
   increment width wd in 1..63, every difference below the all-ones pattern of wd
   (for wd = 1: difference 0 only; the increment 1 is missing — the one-bit rule) *)
Theorem C05_dec_col_any_width : forall w wd base raws t,
  (1 <= w <= 64)%Z -> (1 <= wd <= 63)%Z ->
  ((base < 2 ^ Z.to_N w)%N /\ ((1 < w)%Z -> base <> (2 ^ Z.to_N w - 1)%N)) ->
  (forall x, In (Some x) raws -> (base <= x /\ x - base < 2 ^ Z.to_N wd - 1)%N) ->
  dec_col_num w (length raws) (lay_col_num w wd base raws ++ t) = Ok (raws, t).
Proof. exact dec_col_any_width. Qed.
Print Assumptions C05_dec_col_any_width.

Theorem C05_dec_col_any_width_codeflag : forall w dnbits wd base raws t,
  (1 <= w <= 64)%Z -> (dnbits <= 64)%Z -> (1 <= wd <= 63)%Z ->
  ((base < 2 ^ Z.to_N w)%N /\ ((1 < w)%Z -> base <> (2 ^ Z.to_N w - 1)%N)) ->
  (forall x, In (Some x) raws -> (base <= x /\ x - base < 2 ^ Z.to_N wd - 1)%N) ->
  (forall x, In (Some x) raws -> (1 < dnbits)%Z -> x <> (2 ^ Z.to_N dnbits - 1)%N) ->
  dec_col_codeflag w dnbits (length raws) (lay_col_num w wd base raws ++ t) = Ok (raws, t).
Proof. exact dec_col_any_width_codeflag. Qed.
Print Assumptions C05_dec_col_any_width_codeflag.

(* width 0: every subset has the base value; all-ones base: every subset missing;
   all-ones base with a non-zero width is refused *)
Theorem C05_dec_col_width0 : forall w base n t,
  (1 <= w <= 64)%Z ->
  ((base < 2 ^ Z.to_N w)%N /\ ((1 < w)%Z -> base <> (2 ^ Z.to_N w - 1)%N)) ->
  dec_col_num w n (to_bits (Z.to_nat w) base ++ zeros 6 ++ t) = Ok (repeat (Some base) n, t).
Proof. exact dec_col_width0. Qed.
Print Assumptions C05_dec_col_width0.

Theorem C05_dec_col_all_missing : forall w n t,
  (2 <= w <= 64)%Z ->
  dec_col_num w n (lay_col_missing w ++ t) = Ok (repeat None n, t).
Proof. exact dec_col_all_missing. Qed.
Print Assumptions C05_dec_col_all_missing.

Theorem C05_dec_col_missing_base_nonzero_width : forall w wd n t,
  (2 <= w <= 64)%Z -> (1 <= wd <= 63)%Z ->
  dec_col_num w n (ones (Z.to_nat w) ++ to_bits 6 (Z.to_N wd) ++ t) = Err EBadColumn.
Proof. exact dec_col_missing_base_nonzero_width. Qed.
Print Assumptions C05_dec_col_missing_base_nonzero_width.

(* ---- shape of the encoder's output ------------------------------------------------ *)
Theorem C05_width0_iff_all_equal : forall w ae raws o,
  col_dom_num w ae raws = true ->
  exists e, enc_col_num w ae raws o = Ok (o ++ e) /\
    (col_width_field w e = 0%N <-> ae = true) /\
    (col_width_field w e = 0%N -> forall v, In v raws -> v = hd None raws) /\
    (bits_all_ones (col_base_field w e) = true <-> (forall v, In v raws -> v = None)).
Proof. exact width0_iff_all_equal. Qed.
Print Assumptions C05_width0_iff_all_equal.

Theorem C05_allones_iff_missing : forall w raws o,
  col_dom_num w false raws = true ->
  exists (base : N) (nd : Z) (incs : list bits),
    enc_col_num w false raws o =
      Ok (o ++ to_bits (Z.to_nat w) base ++ to_bits 6 (Z.to_N nd) ++ concat incs) /\
    (2 <= nd <= 63)%Z /\
    Forall2 (fun v inc =>
               length inc = Z.to_nat nd /\
               (bits_all_ones inc = true <-> v = None) /\
               (forall x, v = Some x -> (base + of_bits inc)%N = Z.to_N x)) raws incs.
Proof. exact allones_iff_missing. Qed.
Print Assumptions C05_allones_iff_missing.

(* ---- the independent reader (FM 94 reading, written on bits) agrees with the
   implementation's decoder on EVERY stream, element widths 1..64 ---------------- *)
Theorem C05_spec_reader_agrees : forall w n r,
  (1 <= w <= 64)%Z -> spec_dec_col_num w n r = dec_col_num w n r.
Proof. exact spec_reader_agrees. Qed.
Print Assumptions C05_spec_reader_agrees.

Theorem C05_spec_reads_encoder : forall w ae raws o t,
  col_dom_num w ae raws = true ->
  exists e, enc_col_num w ae raws o = Ok (o ++ e) /\
            spec_dec_col_num w (length raws) (e ++ t) = Ok (raw_view raws, t).
Proof. exact spec_reads_encoder. Qed.
Print Assumptions C05_spec_reads_encoder.

(* ---- transparency at column level: both storage forms decode identically -------- *)
Theorem C05_col_transparent_num : forall w ae raws o t,
  col_dom_num w ae raws = true ->
  exists ec eu vs,
    enc_col_num w ae raws o = Ok (o ++ ec) /\
    enc_fields_num w raws o = Ok (o ++ eu) /\
    dec_col_num w (length raws) (ec ++ t) = Ok (vs, t) /\
    dec_fields_num w (length raws) (eu ++ t) = Ok (vs, t) /\
    vs = raw_view raws.
Proof. exact col_transparent_num. Qed.
Print Assumptions C05_col_transparent_num.

(* ---- character columns (decoder after the D13 repair): 0..63 octets, missing /
   equal / different / NUL / 0xFF / short / long entries --------------------------- *)
Theorem C05_col_roundtrip_str : forall nb ae vals o t,
  col_dom_str nb ae vals = true ->
  exists e, enc_col_str nb ae vals o = Ok (o ++ e) /\
            dec_col_str nb (length vals) (e ++ t) = Ok (str_view nb vals, t).
Proof. exact col_roundtrip_str. Qed.
Print Assumptions C05_col_roundtrip_str.

Theorem C05_col_transparent_str : forall nb ae vals o t,
  col_dom_str nb ae vals = true ->
  exists ec eu vs,
    enc_col_str nb ae vals o = Ok (o ++ ec) /\
    enc_fields_str nb vals o = Ok (o ++ eu) /\
    dec_col_str nb (length vals) (ec ++ t) = Ok (vs, t) /\
    dec_fields_str nb (length vals) (eu ++ t) = Ok (vs, t) /\
    vs = str_view nb vals.
Proof. exact col_transparent_str. Qed.
Print Assumptions C05_col_transparent_str.

(* D13 (the decoder BEFORE the repair, kept as a regression statement): an
   all-equal column of NUL strings decoded to empty strings compressed *)
Theorem C05_col_str_nul_refuted :
  exists nb ae vals ec eu vc vu,
    col_dom_str nb ae vals = true /\ is_equal_nul_col nb ae vals = true /\
    enc_col_str nb ae vals [] = Ok ec /\ enc_fields_str nb vals [] = Ok eu /\
    dec_col_str_orig nb (length vals) ec = Ok (vc, []) /\
    dec_fields_str nb (length vals) eu = Ok (vu, []) /\
    vu = str_view nb vals /\ vc <> vu.
Proof. exact col_str_nul_refuted. Qed.
Print Assumptions C05_col_str_nul_refuted.

(* ---- one-bit elements (D18) -------------------------------------------------------- *)
(* values 0/1 without missing round-trip *)
Theorem C05_col_roundtrip_onebit : forall ae raws o t,
  col_dom_onebit ae raws = true ->
  exists e, enc_col_num 1 ae raws o = Ok (o ++ e) /\
            dec_col_num 1 (length raws) (e ++ t) = Ok (raw_view raws, t).
Proof. exact col_roundtrip_onebit. Qed.
Print Assumptions C05_col_roundtrip_onebit.

(* with missing entries the COMPRESSED form still round-trips unless the column
   is missing throughout ... *)
Theorem C05_col_roundtrip_onebit_some_present : forall ae raws o t,
  col_flag_ok ae raws = true ->
  (forall x, In (Some x) raws -> (0 <= x <= 1)%Z) ->
  (exists x, In (Some x) raws) ->
  exists e, enc_col_num 1 ae raws o = Ok (o ++ e) /\
            dec_col_num 1 (length raws) (e ++ t) = Ok (raw_view raws, t).
Proof. exact col_roundtrip_onebit_some_present. Qed.
Print Assumptions C05_col_roundtrip_onebit_some_present.

(* ... but (i) the all-missing one-bit column reads back as 1, and (ii) a partly
   missing one-bit column decodes differently in the two storage forms:
   transparency is FALSE for one-bit columns with a missing entry *)
Theorem C05_onebit_missing_refuted :
  (exists raws ae e vs,
     col_flag_ok ae raws = true /\ forallb (col_in_range 1) raws = true /\
     enc_col_num 1 ae raws [] = Ok e /\ dec_col_num 1 (length raws) e = Ok (vs, []) /\
     vs <> raw_view raws) /\
  (exists raws ae ec eu vc vu,
     col_flag_ok ae raws = true /\ forallb (col_in_range 1) raws = true /\
     enc_col_num 1 ae raws [] = Ok ec /\ enc_fields_num 1 raws [] = Ok eu /\
     dec_col_num 1 (length raws) ec = Ok (vc, []) /\
     dec_fields_num 1 (length raws) eu = Ok (vu, []) /\
     vc = raw_view raws /\ vu <> vc).
Proof. exact onebit_missing_refuted. Qed.
Print Assumptions C05_onebit_missing_refuted.

(* ---- 203YYY new reference values ---------------------------------------------------- *)
Theorem C05_col_roundtrip_refval : forall w v o o' n t,
  enc_col_refval w true (Some v) o = Ok o' ->
  exists e, o' = o ++ e /\ length e = (Z.to_nat w + 6)%nat /\
            dec_col_refval w n (e ++ t) = Ok (v, t).
Proof. exact col_roundtrip_refval. Qed.
Print Assumptions C05_col_roundtrip_refval.

Theorem C05_enc_col_refval_refuses : forall w ae v o,
  (exists o', enc_col_refval w ae v o = Ok o') <->
  ae = true /\ exists x, v = Some x /\ (1 < w)%Z /\ (Z.abs x < 2 ^ (w - 1))%Z.
Proof. exact enc_col_refval_refuses. Qed.
Print Assumptions C05_enc_col_refval_refuses.

(* the decoder BEFORE the repair round-trips exactly the character columns outside
   the D13 guard (everything except all-equal columns of NUL strings): this is the
   statement that holds of the unpatched code *)
Theorem C05_col_roundtrip_str_orig_guarded : forall nb ae vals o t,
  col_dom_str nb ae vals = true ->
  is_equal_nul_col nb ae vals = false ->
  exists e, enc_col_str nb ae vals o = Ok (o ++ e) /\
            dec_col_str_orig nb (length vals) (e ++ t) = Ok (str_view nb vals, t).
Proof. exact col_roundtrip_str_orig_guarded. Qed.
Print Assumptions C05_col_roundtrip_str_orig_guarded.

(* ---- reading a column does not depend on what follows it ------------------------------ *)
Theorem C05_dec_col_num_suffix : forall w n r vs r' t,
  dec_col_num w n r = Ok (vs, r') -> dec_col_num w n (r ++ t) = Ok (vs, r' ++ t).
Proof. exact dec_col_num_suffix. Qed.
Print Assumptions C05_dec_col_num_suffix.

Theorem C05_dec_col_codeflag_suffix : forall w dn n r vs r' t,
  dec_col_codeflag w dn n r = Ok (vs, r') -> dec_col_codeflag w dn n (r ++ t) = Ok (vs, r' ++ t).
Proof. exact dec_col_codeflag_suffix. Qed.
Print Assumptions C05_dec_col_codeflag_suffix.

Theorem C05_dec_col_str_suffix : forall nb n r vs r' t,
  dec_col_str nb n r = Ok (vs, r') -> dec_col_str nb n (r ++ t) = Ok (vs, r' ++ t).
Proof. exact dec_col_str_suffix. Qed.
Print Assumptions C05_dec_col_str_suffix.

(* =====================================================================================
   WHOLE TEMPLATES, compressed data: the compressed walk of the decoder inverts the
   compressed walk of the encoder (the column theorems above, lifted through the
   producer/consumer simulation of the walker to ANY template: every operator,
   bitmaps, nested replication, any number of subsets).
   ===================================================================================== *)

(* one column theorem for every element width 1..64: col_dom_any w = col_dom_num w
   (2 <= w <= 64) or, for w = 1, values 0/1 with missing entries allowed; the view
   is raw_view except for the one-bit column that is missing throughout, which
   reads back as 1 (D18) *)
Theorem C05_col_roundtrip_any : forall w ae raws o t,
  col_dom_any w ae raws = true ->
  exists e, enc_col_num w ae raws o = Ok (o ++ e) /\
            dec_col_num w (length raws) (e ++ t) = Ok (num_view w raws, t).
Proof. exact col_roundtrip_any. Qed.
Print Assumptions C05_col_roundtrip_any.

Example C05_col_dom_any_nonvacuous :
  col_dom_any 12 false [Some 2730; Some 2800; None]%Z = true /\
  col_dom_any 1 false [Some 1; None; Some 0]%Z = true /\
  col_dom_any 1 true [None; None]%Z = true /\
  num_view 1 [None; None] = [Some 1; Some 1]%N /\
  col_dom_any 4 false [Some 15; Some 3]%Z = false.
Proof. exact exc_col_dom. Qed.

(* Whenever the compressed ghost encoder (EncodeCG.v: EncodeC.encode_compressed run
   with a ghost that records, per column, the values a reader obtains; it refuses
   only columns outside col_dom_any / col_dom_str, code/flag values the decoder's
   second look would turn into missing, and replication factors / bitmaps that read
   back differently) accepts the values, decoding the bits it wrote, followed by
   any further bits t, yields the same descriptors and links for every subset,
   exactly the ghost values, and leaves exactly t. *)
Theorem C05_decode_encode_compressed : forall T vals outs w g t,
  encode_compressed_ghost T vals = Ok (outs, w, g) ->
  decode_compressed T (length vals) (w ++ t) = Ok (outs, g, t).
Proof. exact decode_encode_compressed. Qed.
Print Assumptions C05_decode_encode_compressed.

(* the ghost encoder writes exactly what the compressed encoder writes *)
Theorem C05_encode_compressed_ghost_is_encode : forall T vals outs w g,
  encode_compressed_ghost T vals = Ok (outs, w, g) -> encode_compressed T vals = Ok (outs, w).
Proof. exact encode_compressed_ghost_is_encode. Qed.
Print Assumptions C05_encode_compressed_ghost_is_encode.

Example C05_compressed_nonvacuous :
  exists outs w, encode_compressed_ghost exc_T exc_vals = Ok (outs, w, exc_ghost) /\
                 length w = 358%nat /\ length outs = 3%nat.
Proof. exact exc_ghost_accepts. Qed.

(* bits after a compressed data section never influence its decoding *)
Theorem C05_decode_compressed_suffix_independent : forall T n b t outs vals rest,
  decode_compressed T n b = Ok (outs, vals, rest) ->
  decode_compressed T n (b ++ t) = Ok (outs, vals, rest ++ t).
Proof. exact decode_compressed_suffix_independent. Qed.
Print Assumptions C05_decode_compressed_suffix_independent.

Example C05_decode_compressed_nonvacuous :
  exists outs w, encode_compressed exc_T exc_vals = Ok (outs, w) /\
                 decode_compressed exc_T 3 w = Ok (outs, exc_ghost, []).
Proof. exact exc_decode_direct. Qed.

(* =====================================================================================
   TRANSPARENCY for whole templates.  encode_compressed_ghost_strict is the compressed
   ghost encoder refusing in addition (a) a one-bit element missing in some but not all
   subsets (D18), (b) an "all equal" numeric column whose entries are equal as numbers
   but not identical (3 and 3.0: only values[0] is scaled), (c) a bitmap that differs
   between subsets (the compressed coder uses the first subset's).  Whenever it and the
   uncompressed ghost encoder (C03) both accept a value list, for ANY template:
   the encoders write w (compressed) and w' (uncompressed), and decoding either,
   followed by any further bits, yields the same descriptors, links and values.
   ===================================================================================== *)
Theorem C05_strict_ghost_is_ghost : forall T vals r,
  encode_compressed_ghost_strict T vals = Ok r -> encode_compressed_ghost T vals = Ok r.
Proof. exact strict_ghost_is_ghost. Qed.
Print Assumptions C05_strict_ghost_is_ghost.

Theorem C05_ghosts_agree : forall T vals outs w g outs' w' g',
  encode_compressed_ghost_strict T vals = Ok (outs, w, g) ->
  encode_ghost T vals = Ok (outs', w', g') ->
  outs' = outs /\ g' = g.
Proof. exact ghosts_agree. Qed.
Print Assumptions C05_ghosts_agree.

Theorem C05_compression_transparent : forall T vals outs w g outs' w' g' t t',
  encode_compressed_ghost_strict T vals = Ok (outs, w, g) ->
  encode_ghost T vals = Ok (outs', w', g') ->
  encode_compressed T vals = Ok (outs, w) /\
  encode_uncompressed T vals = Ok (outs, w') /\
  decode_compressed T (length vals) (w ++ t) = Ok (outs, g, t) /\
  decode_uncompressed T (length vals) (w' ++ t') = Ok (outs, g, t').
Proof. exact compression_transparent. Qed.
Print Assumptions C05_compression_transparent.

Example C05_transparent_nonvacuous :
  exists outs w w',
    encode_compressed_ghost_strict exc_T exc_vals_t = Ok (outs, w, exc_ghost_t) /\
    encode_ghost exc_T exc_vals_t = Ok (outs, w', exc_ghost_t) /\
    length w = 358%nat /\ length w' = 336%nat.
Proof. exact exc_both_accept. Qed.

(* without restriction (a) the statement is false (D18, whole-template form): both plain
   ghost encoders accept, the readers disagree on the one-bit entry *)
Theorem C05_onebit_template_refuted :
  exists T vals outs w g w' g',
    encode_compressed_ghost T vals = Ok (outs, w, g) /\
    encode_ghost T vals = Ok (outs, w', g') /\ g <> g'.
Proof. exact onebit_template_refuted. Qed.
Print Assumptions C05_onebit_template_refuted.
