From PBK Require Import Base Descr Template.
Theorem C14_stub : True. Proof. exact I. Qed.
Print Assumptions C14_stub.
