(* C14 — Templates are built from descriptor lists exactly as FM-94 prescribes.
   Statements only; every proof is [exact <lemma of TemplateProofs/TemplateExamples>].
   tb : Table B (latest loaded entry first), ls : Table D files (latest first),
   ld : TableD.lookup. *)
From PBK Require Import Base Descr Template TemplateProofs TemplateData TemplateExamples.

(* _descriptors_from_ids_iter, modelled as coded (one shared id stream with the
   nested generate_quiet allowances), IS "a replication descriptor owns the next X
   ids (after its factor), nested ones inside it": build_a is that reading. *)
Theorem C14_build_s_owns : forall tb ld fuel n ids,
  build_s tb ld fuel n ids =
  (let* ds := build_a tb ld fuel (firstn n ids) in Ok (ds, skipn n ids)).
Proof. exact build_s_owns. Qed.
Print Assumptions C14_build_s_owns.

Theorem C14_build_fixed_owns_next_X : forall tb ld id rest,
  is_replication id = true -> (id mod 1000 =? 0)%N = false ->
  build tb ld (id :: rest) =
  (let* ms := build tb ld (firstn (n_items id) rest) in
   let* ds := build tb ld (skipn (n_items id) rest) in
   Ok (DCons (DFixed id ms) ds)).
Proof. exact build_fixed_owns_next_X. Qed.
Print Assumptions C14_build_fixed_owns_next_X.

Theorem C14_build_delayed_owns_next_X : forall tb ld id fid rest,
  is_replication id = true -> (id mod 1000 =? 0)%N = true ->
  build tb ld (id :: fid :: rest) =
  (let* ms := build tb ld (firstn (n_items id) rest) in
   let* ds := build tb ld (skipn (n_items id) rest) in
   Ok (DCons (DDelayed id (lookup_b tb fid) ms) ds)).
Proof. exact build_delayed_owns_next_X. Qed.
Print Assumptions C14_build_delayed_owns_next_X.

(* MAIN: a well-formed list (wf_ids, executable) builds; flattening the tree
   (original_descriptor_ids, the worklist as coded) returns the list; every
   replication node owns exactly X ids.  Any list length, nesting depth, X. *)
Theorem C14_original_ids_build : forall tb ld, ld_shape ld -> ld_total ld ->
  forall ids, wf_ids ids = true ->
  exists t, build tb ld ids = Ok t /\ original_ids t = ids /\ exact_members t = true.
Proof. exact original_ids_build. Qed.
Print Assumptions C14_original_ids_build.

(* for ANY list the builder accepts nothing is lost, skipped or invented *)
Theorem C14_original_ids_build_any : forall tb ld, ld_shape ld ->
  forall ids t, build tb ld ids = Ok t -> original_ids t = ids.
Proof. exact original_ids_build_any. Qed.
Print Assumptions C14_original_ids_build_any.

(* the hypotheses on ld are those of the real lookup *)
Theorem C14_lookup_d_shape : forall tb f ls, ld_shape (expand_seq tb f ls).
Proof. exact expand_seq_shape. Qed.
Print Assumptions C14_lookup_d_shape.

Theorem C14_v33_total : ld_total (lookup_d B33 D33).
Proof. exact v33_total. Qed.
Print Assumptions C14_v33_total.

(* the worklist of original_descriptor_ids computes the structural flattening *)
Theorem C14_original_ids_structural : forall ds, original_ids ds = orig_flat ds.
Proof. exact original_ids_structural. Qed.
Print Assumptions C14_original_ids_structural.

(* ill-formed lists, stated: a too-short tail gives silently fewer members ... *)
Theorem C14_build_short_list : forall tb ld id tail,
  is_replication id = true -> (id mod 1000 =? 0)%N = false -> (length tail <= n_items id)%nat ->
  build tb ld (id :: tail) = (let* ms := build tb ld tail in Ok (DCons (DFixed id ms) DNil)).
Proof. exact build_short_list. Qed.
Print Assumptions C14_build_short_list.

(* ... a delayed replication descriptor without a factor is refused with the library error *)
Theorem C14_build_delayed_at_end : forall tb ld id,
  is_replication id = true -> (id mod 1000 =? 0)%N = true -> build tb ld [id] = Err ELib.
Proof. exact build_delayed_at_end. Qed.
Print Assumptions C14_build_delayed_at_end.

(* Table D: a looked-up sequence flattens to the direct expansion of the table data *)
Theorem C14_expand_flat : forall tb ls id d,
  tabD_factors_ok ls = true -> lookup_d tb ls id = Ok d -> defined_d ls id = true ->
  flat_member_ids d = expand_direct (default_fuel ls) ls id.
Proof. exact expand_flat. Qed.
Print Assumptions C14_expand_flat.

(* the hypotheses (acyclic = the fuel suffices, factors are not sequences) hold for
   the bundled version-33 table, so: EVERY one of its 588 sequences *)
Theorem C14_expand_flat_v33 : forall id, In id (all_ids_d D33) ->
  exists d, lookup_d B33 D33 id = Ok d /\
            flat_member_ids d = expand_direct (default_fuel D33) D33 id /\
            attrs_intact B33 (flat_elems_d d).
Proof. exact expand_flat_v33. Qed.
Print Assumptions C14_expand_flat_v33.

(* more fuel never changes a result *)
Theorem C14_expand_seq_fuel_mono : forall tb f ls id d,
  expand_seq tb f ls id = Ok d -> forall f', (f <= f')%nat -> expand_seq tb f' ls id = Ok d.
Proof. exact expand_seq_fuel_mono. Qed.
Print Assumptions C14_expand_seq_fuel_mono.

(* a sequence that is in no table file is a placeholder *)
Theorem C14_lookup_d_undefined : forall tb ls id,
  defined_d ls id = false -> lookup_d tb ls id = Ok (DUndefSeq id).
Proof. exact lookup_d_undefined. Qed.
Print Assumptions C14_lookup_d_undefined.

(* elements carry exactly their (latest loaded) Table B entry *)
Theorem C14_elements_keep_attributes : forall tb ls ids t,
  build tb (lookup_d tb ls) ids = Ok t ->
  Forall (fun e => find_elem tb (e_id e) = Some e) (flat_elems t).
Proof. exact elements_keep_attributes. Qed.
Print Assumptions C14_elements_keep_attributes.

Theorem C14_sequence_elements_keep_attributes : forall tb ls id d,
  lookup_d tb ls id = Ok d -> Forall (fun e => find_elem tb (e_id e) = Some e) (flat_elems_d d).
Proof. exact sequence_elements_keep_attributes. Qed.
Print Assumptions C14_sequence_elements_keep_attributes.

(* UnknownDescriptor: the member dispatch fails exactly on a reachable placeholder *)
Theorem C14_unknown_descriptor_scan : forall ds,
  (undef_scan ds = Err EUnknownDescriptor <-> reaches_undefined ds = true) /\
  (undef_scan ds = Ok tt <-> reaches_undefined ds = false).
Proof. exact unknown_descriptor_scan. Qed.
Print Assumptions C14_unknown_descriptor_scan.

(* and a descriptor (member position) that is in no table is such a placeholder *)
Theorem C14_unknown_descriptor_reached : forall tb ls ids t id,
  build tb (lookup_d tb ls) ids = Ok t ->
  In id (member_ids t) -> unknown_id tb ls id = true ->
  reaches_undefined t = true /\ undef_scan t = Err EUnknownDescriptor.
Proof. exact unknown_descriptor_reached. Qed.
Print Assumptions C14_unknown_descriptor_reached.

(* version selection *)
Theorem C14_normalize_fallback : forall L number centre subcentre mtv ltv,
  let number' := if isdir_number L number then number else DEFAULT_MASTER_TABLE_NUMBER in
  let r := normalize_tables_sn L number centre subcentre mtv ltv in
  (isdir_sn L (number', (0, 0), mtv)%N = true -> fst r = (number', (0, 0), mtv)%N) /\
  (isdir_sn L (number', (0, 0), mtv)%N = false -> fst r = (number', (0, 0), DEFAULT_MASTER_TABLE_VERSION)%N) /\
  (isdir_sn L (number', (0, 0), DEFAULT_MASTER_TABLE_VERSION)%N = true -> isdir_sn L (fst r) = true) /\
  (forall d, snd r = Some d -> isdir_sn L d = true /\ ltv <> 0%N).
Proof. exact normalize_fallback. Qed.
Print Assumptions C14_normalize_fallback.

Theorem C14_table_group_key_defaults : forall L c s,
  table_group_key L None c s None None = table_group_key L (Some 0%N) c s (Some 0%N) (Some 0%N) /\
  table_group_key L None None None None None =
  normalize_tables_sn L 0 0 0 DEFAULT_MASTER_TABLE_VERSION 0.
Proof. exact table_group_key_defaults. Qed.
Print Assumptions C14_table_group_key_defaults.
