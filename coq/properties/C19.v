(* C19 — Bit-level reading and writing are exact inverses for every width.
   Statements only; every proof is [exact <lemma of BitsProofs>]. *)
From PBK Require Import Base Bits BitsProofs.

(* Any sequence of acceptable typed fields (unsigned, sign-magnitude, boolean,
   binary string, bytes; ANY width >= 1, not only <= 64), written after any
   prefix o and followed by any bits t: the writer appends exactly e, the reader
   returns the same values (bytes space-padded / truncated to the width) and
   stops exactly where the writer stopped. *)
Theorem C19_fields_roundtrip : forall fs o t,
  forallb field_ok fs = true ->
  exists e, write_fields fs o = Ok (o ++ e) /\ length e = fields_width fs /\
            read_fields fs (e ++ t) = Ok (map field_value fs, t).
Proof. exact fields_roundtrip. Qed.
Print Assumptions C19_fields_roundtrip.

(* values that do not fit are refused — never wrapped or clipped *)
Theorem C19_write_uint_refuses : forall v w o,
  (exists e, write_uint v w o = Err e) <-> (w <= 0 \/ v < 0 \/ 2 ^ w <= v)%Z.
Proof. exact write_uint_refuses. Qed.
Print Assumptions C19_write_uint_refuses.

Theorem C19_write_uint_exact : forall v w o o',
  write_uint v w o = Ok o' ->
  o' = o ++ to_bits (Z.to_nat w) (Z.to_N v) /\ (0 <= v < 2 ^ w)%Z /\ (0 < w)%Z.
Proof. exact write_uint_exact. Qed.
Print Assumptions C19_write_uint_exact.

(* an unsigned read of all ones is missing only for widths above 1 *)
Theorem C19_missing_iff : forall w (v : N) t,
  (1 <= w <= 64)%Z -> (v < 2 ^ Z.to_N w)%N ->
  exists x, read_uint_or_none w (to_bits (Z.to_nat w) v ++ t) = Ok (x, t) /\
            (x = None <-> (1 < w)%Z /\ v = (2 ^ Z.to_N w - 1)%N) /\
            (x <> None -> x = Some v).
Proof. exact missing_iff. Qed.
Print Assumptions C19_missing_iff.

(* in-place overwrite changes exactly those bits and nothing else, incl. the length *)
Theorem C19_set_uint_frame : forall v w pos o o',
  (pos + Z.to_nat w <= length o)%nat -> set_uint v w pos o = Ok o' ->
  length o' = length o /\
  firstn pos o' = firstn pos o /\
  skipn (pos + Z.to_nat w) o' = skipn (pos + Z.to_nat w) o /\
  read_uint w (skipn pos o') = Ok (Z.to_N v, skipn (pos + Z.to_nat w) o).
Proof. exact set_uint_frame. Qed.
Print Assumptions C19_set_uint_frame.

(* reading past the end raises the library's bit-read error, for every type *)
Theorem C19_read_past_end_uint : forall w r,
  (0 < w)%Z -> (length r < Z.to_nat w)%nat -> read_uint w r = Err EBitRead.
Proof. exact read_past_end_uint. Qed.
Print Assumptions C19_read_past_end_uint.
Theorem C19_read_past_end_bool : read_bool [] = Err EBitRead.
Proof. exact read_past_end_bool. Qed.
Print Assumptions C19_read_past_end_bool.
Theorem C19_read_past_end_bin : forall w r,
  (0 <= w)%Z -> (length r < Z.to_nat w)%nat -> read_bin w r = Err EBitRead.
Proof. exact read_past_end_bin. Qed.
Print Assumptions C19_read_past_end_bin.
Theorem C19_read_past_end_bytes : forall n r,
  (0 <= n)%Z -> (length r < 8 * Z.to_nat n)%nat -> read_bytes n r = Err EBitRead.
Proof. exact read_past_end_bytes. Qed.
Print Assumptions C19_read_past_end_bytes.
Theorem C19_read_past_end_int : forall w r,
  (1 < w)%Z -> (length r < Z.to_nat w)%nat -> read_int w r = Err EBitRead.
Proof. exact read_past_end_int. Qed.
Print Assumptions C19_read_past_end_int.

(* the defect D1 that was repaired ("fix: set_uint ..."): kept as a regression
   statement about the ORIGINAL code's model *)
Theorem C19_set_uint_orig_refuted :
  exists v w pos o o', (pos + Z.to_nat w <= length o)%nat /\
     set_uint_orig v w pos o = Ok o' /\ length o' <> length o.
Proof. exact set_uint_orig_refuted. Qed.
Print Assumptions C19_set_uint_orig_refuted.
