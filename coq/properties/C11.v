(* C11 — A byte stream is split into exactly the messages it contains.
   (Also the stream-level half of C12: scan_continue_skips and friends.)
   Statements only; every proof is [exact <lemma of StreamProofs>].

   Vocabulary (Stream.v):
     generate process process_info filt hook info_only continue_on_error use_filter s
        = ([m.serialized_bytes for m in generate_bufr_message(...)], exception or None)
     process / process_info : the decoder applied to the suffix of the stream that
        starts at a found signature (full / metadata-only); abstract, universally
        quantified in every theorem below.
     full_ok m  : forall t, process (m ++ t) = Ok mi, mi_consumed mi = length m, hook mi = Ok tt
     info_ok m  : forall t, process_info (m ++ t) = Ok mi, mi_declared mi = length m
     valid_msg io m = if io then info_ok m else full_ok m
     stream_ok P l : every (m, sep) of l has m = 'BUFR' ++ _, P m, and 'BUFR' does not occur in sep
     assemble [(m1,sep1); ...; (mn,sepn)] = m1 ++ sep1 ++ ... ++ mn ++ sepn *)
From PBK Require Import Base Stream StreamProofs.

(* bytes.find as modelled is a correct leftmost search from the start offset *)
Theorem C11_find_spec : forall sub s start j,
  find sub s start = Some j ->
  start <= j <= length s /\ prefixb sub (skipn j s) = true /\
  forall k, start <= k < j -> prefixb sub (skipn k s) = false.
Proof. exact find_spec. Qed.
Print Assumptions C11_find_spec.

(* A separator not containing 'BUFR' (it may end in 'B', 'BU', 'BUF') followed by a
   message: the first match is the message start — no match inside the separator
   and none straddling the boundary. *)
Theorem C11_find_boundary : forall sep m rest,
  nosig sep -> starts_sig m -> find sig (sep ++ m ++ rest) 0 = Some (length sep).
Proof. exact find_boundary. Qed.
Print Assumptions C11_find_boundary.

(* Exactly the messages, in order, with their exact bytes; data sections decoded
   (io = false) or metadata only (io = true); any number of messages; bodies are
   arbitrary (they may contain 'BUFR' and '7777'); continue_on_error irrelevant.
   Fuel exhaustion is excluded: the result's second component is None. *)
Theorem C11_scan_exact :
  forall (process process_info : list byte -> result msginfo)
         (filt : msginfo -> result bool) (hook : msginfo -> result unit)
         (io coe : bool) (sep0 : list byte) (l : list (list byte * list byte)),
  nosig sep0 -> stream_ok (valid_msg process process_info hook io) l ->
  generate process process_info filt hook io coe false (sep0 ++ assemble l) = (map fst l, None).
Proof. exact scan_exact. Qed.
Print Assumptions C11_scan_exact.

(* a start signature and a stop signature inside a body begin / end nothing *)
Theorem C11_signature_inside_body_not_scanned :
  forall (process process_info : list byte -> result msginfo)
         (filt : msginfo -> result bool) (hook : msginfo -> result unit)
         (io coe : bool) (sep0 b1 b2 b3 sep1 : list byte),
  let m := sig ++ b1 ++ sig ++ b2 ++ [55; 55; 55; 55]%N ++ b3 in
  nosig sep0 -> nosig sep1 -> valid_msg process process_info hook io m ->
  generate process process_info filt hook io coe false (sep0 ++ m ++ sep1) = ([m], None).
Proof. exact signature_inside_body_not_scanned. Qed.
Print Assumptions C11_signature_inside_body_not_scanned.

(* writing the pieces out and concatenating them reproduces the messages ... *)
Theorem C11_concat_pieces :
  forall (process process_info : list byte -> result msginfo)
         (filt : msginfo -> result bool) (hook : msginfo -> result unit)
         (io coe : bool) (sep0 : list byte) (l : list (list byte * list byte)),
  nosig sep0 -> stream_ok (valid_msg process process_info hook io) l ->
  concat (fst (generate process process_info filt hook io coe false (sep0 ++ assemble l)))
  = concat (map fst l).
Proof. exact concat_pieces. Qed.
Print Assumptions C11_concat_pieces.

(* ... and, for a stream without separators, the input itself *)
Theorem C11_concat_pieces_identity :
  forall (process process_info : list byte -> result msginfo)
         (filt : msginfo -> result bool) (hook : msginfo -> result unit)
         (io coe : bool) (ms : list (list byte)),
  Forall (fun m => starts_sig m /\ valid_msg process process_info hook io m) ms ->
  concat (fst (generate process process_info filt hook io coe false (concat ms))) = concat ms.
Proof. exact concat_pieces_identity. Qed.
Print Assumptions C11_concat_pieces_identity.

(* With a filter: exactly the messages for which the expression is true.  The
   verdict p m is the filter's value on the METADATA-ONLY decode (that is the
   decode the code evaluates it on).  filt_ok io m b (Stream.v):
     forall t, process_info (m ++ t) = Ok mi, filt mi = Ok b, and
       io = true : mi_declared mi = length m
       io = false, b = true : full_ok m
       io = false, b = false : mi_consumed mi <= length m and no byte
          'B' in m after the first mi_consumed mi bytes (the code advances over a
          non-matching message by the metadata-only decode's own length, i.e.
          sections 0..4; what is left is the stop signature '7777') *)
Theorem C11_scan_filter :
  forall (process process_info : list byte -> result msginfo)
         (filt : msginfo -> result bool) (hook : msginfo -> result unit)
         (io coe : bool) (p : list byte -> bool) (sep0 : list byte)
         (l : list (list byte * list byte)),
  nosig sep0 ->
  stream_ok (fun m => filt_ok process process_info filt hook io m (p m)) l ->
  generate process process_info filt hook io coe true (sep0 ++ assemble l)
  = (filter p (map fst l), None).
Proof. exact scan_filter. Qed.
Print Assumptions C11_scan_filter.

Theorem C11_scan_filter_is_filter_of_scan :
  forall (process process_info : list byte -> result msginfo)
         (filt : msginfo -> result bool) (hook : msginfo -> result unit)
         (io coe : bool) (p : list byte -> bool) (sep0 : list byte)
         (l : list (list byte * list byte)),
  nosig sep0 -> stream_ok (valid_msg process process_info hook io) l ->
  stream_ok (fun m => filt_ok process process_info filt hook io m (p m)) l ->
  fst (generate process process_info filt hook io coe true (sep0 ++ assemble l)) =
  filter p (fst (generate process process_info filt hook io coe false (sep0 ++ assemble l))).
Proof. exact scan_filter_is_filter_of_scan. Qed.
Print Assumptions C11_scan_filter_is_filter_of_scan.

(* ------------------------------------------------------------------------ *)
(* stream-level half of C12                                                  *)
(* ------------------------------------------------------------------------ *)

(* continue_on_error, full mode: a damaged message — its full decode raises a
   LIBRARY error whatever follows, its metadata-only decode still succeeds with
   declared total length = actual length — is skipped exactly: the scanner
   resumes at the next message; all others are delivered unchanged, in order.
   [good] marks the undamaged messages. *)
Theorem C11_scan_continue_skips :
  forall (process process_info : list byte -> result msginfo)
         (filt : msginfo -> result bool) (hook : msginfo -> result unit)
         (good : list byte -> bool) (sep0 : list byte) (l : list (list byte * list byte)),
  nosig sep0 ->
  stream_ok (fun m => if good m then full_ok process hook m
                      else (exists e, is_lib_err e = true /\ full_fails process m e) /\
                           info_ok process_info m) l ->
  generate process process_info filt hook false true false (sep0 ++ assemble l)
  = (filter good (map fst l), None).
Proof. exact scan_continue_skips. Qed.
Print Assumptions C11_scan_continue_skips.

(* the two recovery paths that advance by one byte (metadata-only mode; full mode
   when the metadata-only re-decode fails too): exact provided the rest of the
   damaged message holds no signature *)
Theorem C11_scan_continue_skips_by_one :
  forall (process process_info : list byte -> result msginfo)
         (filt : msginfo -> result bool) (hook : msginfo -> result unit)
         (io : bool) (good : list byte -> bool) (sep0 : list byte)
         (l : list (list byte * list byte)),
  nosig sep0 ->
  Forall (fun x => starts_sig (fst x) /\ nosig (snd x) /\
            if good (fst x) then valid_msg process process_info hook io (fst x)
            else (exists e, is_lib_err e = true /\
                   if io then info_fails process_info (fst x) e
                   else full_fails process (fst x) e /\
                        exists e', is_lib_err e' = true /\ info_fails process_info (fst x) e') /\
                 nosig (skipn 1 (fst x) ++ snd x)) l ->
  generate process process_info filt hook io true false (sep0 ++ assemble l)
  = (filter good (map fst l), None).
Proof. exact scan_continue_skips_by_one. Qed.
Print Assumptions C11_scan_continue_skips_by_one.

(* without continue_on_error: the preceding messages are delivered, then the
   error surfaces; nothing is assumed about what follows the damaged message *)
Theorem C11_scan_stops_at_error :
  forall (process process_info : list byte -> result msginfo)
         (filt : msginfo -> result bool) (hook : msginfo -> result unit)
         (io : bool) (sep0 : list byte) (l : list (list byte * list byte))
         (m rest : list byte) (e : err),
  nosig sep0 -> stream_ok (valid_msg process process_info hook io) l ->
  starts_sig m -> fails process process_info io m e ->
  generate process process_info filt hook io false false (sep0 ++ assemble l ++ m ++ rest)
  = (map fst l, Some (gen_exc e)).
Proof. exact scan_stops_at_error. Qed.
Print Assumptions C11_scan_stops_at_error.

(* ... as the library's own error type when the decoder raised one *)
Theorem C11_scan_stops_at_library_error :
  forall (process process_info : list byte -> result msginfo)
         (filt : msginfo -> result bool) (hook : msginfo -> result unit)
         (io : bool) (sep0 : list byte) (l : list (list byte * list byte))
         (m rest : list byte) (e : err),
  nosig sep0 -> stream_ok (valid_msg process process_info hook io) l ->
  starts_sig m -> fails process process_info io m e -> is_lib_err e = true ->
  generate process process_info filt hook io false false (sep0 ++ assemble l ++ m ++ rest)
  = (map fst l, Some e).
Proof. exact scan_stops_at_library_error. Qed.
Print Assumptions C11_scan_stops_at_library_error.

(* an exception that is not a PyBufrKitError (AssertionError: D10) escapes even
   with continue_on_error (gen_exc: PEP 479 turns a StopIteration leaving the
   generator into RuntimeError; every other class is unchanged) *)
Theorem C11_non_library_error_escapes :
  forall (process process_info : list byte -> result msginfo)
         (filt : msginfo -> result bool) (hook : msginfo -> result unit)
         (io coe : bool) (sep0 : list byte) (l : list (list byte * list byte))
         (m rest : list byte) (e : err),
  nosig sep0 -> stream_ok (valid_msg process process_info hook io) l ->
  starts_sig m -> fails process process_info io m e -> is_lib_err e = false ->
  generate process process_info filt hook io coe false (sep0 ++ assemble l ++ m ++ rest)
  = (map fst l, Some (gen_exc e)).
Proof. exact non_library_error_escapes. Qed.
Print Assumptions C11_non_library_error_escapes.

(* ------------------------------------------------------------------------ *)
(* fuel; the hypothesis "declared length > 0" cannot be dropped              *)
(* ------------------------------------------------------------------------ *)

Theorem C11_scan_fuel_mono :
  forall (process process_info : list byte -> result msginfo)
         (filt : msginfo -> result bool) (hook : msginfo -> result unit)
         (io coe fl : bool) (f : nat) (s : list byte) (idx f' : nat),
  snd (scan process process_info filt hook io coe fl f s idx) <> Some EFuel -> f <= f' ->
  scan process process_info filt hook io coe fl f' s idx
  = scan process process_info filt hook io coe fl f s idx.
Proof. exact scan_fuel_mono. Qed.
Print Assumptions C11_scan_fuel_mono.

(* recorded, outside the given properties: a declared total length of 0 in
   metadata-only mode makes no progress — for every fuel the model yields that
   many empty messages and runs out (the Python generator never finishes) *)
Theorem C11_zero_declared_length_no_progress :
  forall (process process_info : list byte -> result msginfo)
         (filt : msginfo -> result bool) (hook : msginfo -> result unit)
         (coe : bool) (s : list byte) (i : nat) (mi : msginfo),
  i < length s -> find sig s i = Some i ->
  process_info (skipn i s) = Ok mi -> mi_declared mi = 0 ->
  forall fuel, scan process process_info filt hook true coe false fuel s i
               = (repeat [] fuel, Some EFuel).
Proof. exact zero_declared_length_no_progress. Qed.
Print Assumptions C11_zero_declared_length_no_progress.

Theorem C11_zero_declared_length_refuted :
  exists s, forall fuel,
    snd (scan Toy.full Toy.info Toy.filt Toy.hook true false false fuel s 8) = Some EFuel.
Proof. exact zero_declared_length_refuted_exists. Qed.
Print Assumptions C11_zero_declared_length_refuted.

(* ======================================================================== *)
(* END TO END: the scanner over the CONCRETE message decoder                  *)
(* ======================================================================== *)
(* StreamFrame.v instantiates the scanner with the framing decoder of Frame.v:
     frame_process dd view info s
        = decoder.process(s, start_signature=None, info_only=info)  (ignore_value_expectation
          = False) reduced to what the scanner reads off the message object:
          len(serialized_bytes), length.value, data_category.value, n_subsets.value,
          and [view m] (whatever else a filter expression looks at; arbitrary);
     frame_hook tdp = the table-definition branch: [tdp] (arbitrary) when
          data_category = 11 and n_subsets > 0, nothing otherwise;
     frame_generate dd view tdp filt = generate (frame_process dd view false)
          (frame_process dd view true) filt (frame_hook tdp).
   The hypotheses full_ok / info_ok / filt_ok of the theorems above are PROVED
   below for every message produced by Frame.encode_message that satisfies the
   executable well-formedness conditions of C04_frame_roundtrip
     msg_wfb dd m  = values fit their fields and carry the expected signatures,
                     fewer than two surplus octets after the descriptors, the
                     template decoder consumes exactly the encoded data bits;
     msg_quietb m  = not (data_category = 11 and n_subsets > 0)   [full mode only].
   [dd_template T_of n_of c_of] is the framing model with the real template
   decoders (Decode.decode_uncompressed / DecodeC.decode_compressed over the
   template T_of props, n_of props subsets, compressed iff c_of props): with it
   NO hypothesis about any decoder is left.
   A stream is a list of items (ignore_declared_length, message as nested values,
   separator bytes): item_bytes it = the encoder's output, stream_of items the
   (message, separator) pairs; item_okb dd io it = the item encodes, msg_wfb,
   (io or msg_quietb), and 'BUFR' does not occur in the separator (nosigb). *)
From PBK Require Import Bits Descr Frame FrameProofs FrameRoundtrip FramePrefix FramePrefixEnc
  Column DecodeC FramePrefixData StreamFrame StreamFrameProofs StreamFrameTemplate.

(* bufr_message.length.value of ANY successful decode (full or metadata-only,
   any template decoder) is the 24-bit field at octets 4..6 of the input *)
Theorem C11_e2e_decoded_length :
  forall (dd : list (pname * pvalue) -> reader -> result (bits * reader)) info s m,
  decode_message dd None info false s = Ok m ->
  exists v rest, read_uint 24 (skipn 32 (bits_of_bytes s)) = Ok (v, rest) /\
                 prop_get Nlength (m_props m) = Some (PUint (Z.of_N v)).
Proof. exact decoded_length. Qed.
Print Assumptions C11_e2e_decoded_length.

(* H1 + H2: the full decode of an encoded message followed by ANY bytes returns
   one and the same result, has consumed exactly the message, table hook quiet.
   Template decoder abstract, constrained as in C12_message_trailing_bytes. *)
Theorem C11_e2e_full_ok :
  forall (dd : list (pname * pvalue) -> reader -> result (bits * reader)),
  (forall p r b r', dd p r = Ok (b, r') -> r = b ++ r') ->
  (forall p r b r' s, dd p r = Ok (b, r') -> dd p (r ++ s) = Ok (b, r' ++ s)) ->
  forall view tdp ign json m,
  encode_message ign json = Ok m ->
  Forall sec_fits (m_sections m) -> Forall desc_fill_ok (m_sections m) -> data_ok dd [] (m_sections m) ->
  quiet_props (props_after (m_sections m) []) = true ->
  full_ok (frame_process dd view false) (frame_hook tdp) (m_bytes m).
Proof. exact encoded_full_ok. Qed.
Print Assumptions C11_e2e_full_ok.

(* H3: the metadata-only decode of an encoded message followed by ANY bytes
   returns one and the same result whose declared length is the message's length *)
Theorem C11_e2e_info_ok :
  forall (dd : list (pname * pvalue) -> reader -> result (bits * reader)),
  (forall p r b r', dd p r = Ok (b, r') -> r = b ++ r') ->
  (forall p r b r' s, dd p r = Ok (b, r') -> dd p (r ++ s) = Ok (b, r' ++ s)) ->
  (forall p, cuts (dd p)) ->
  forall view ign json m,
  encode_message ign json = Ok m ->
  Forall sec_fits (m_sections m) -> Forall desc_fill_ok (m_sections m) -> data_ok dd [] (m_sections m) ->
  info_ok (frame_process dd view true) (m_bytes m).
Proof. exact encoded_info_ok. Qed.
Print Assumptions C11_e2e_info_ok.

(* the same with the real template decoders: nothing but executable conditions *)
Theorem C11_e2e_full_ok_template : forall T_of n_of c_of view tdp ign json m,
  encode_message ign json = Ok m ->
  msg_wfb (dd_template T_of n_of c_of) m = true -> msg_quietb m = true ->
  full_ok (frame_process (dd_template T_of n_of c_of) view false) (frame_hook tdp) (m_bytes m).
Proof. exact encoded_full_ok_template. Qed.
Print Assumptions C11_e2e_full_ok_template.

Theorem C11_e2e_info_ok_template : forall T_of n_of c_of view ign json m,
  encode_message ign json = Ok m ->
  msg_wfb (dd_template T_of n_of c_of) m = true ->
  info_ok (frame_process (dd_template T_of n_of c_of) view true) (m_bytes m).
Proof. exact encoded_info_ok_template. Qed.
Print Assumptions C11_e2e_info_ok_template.

(* with a filter: [verdict dd view filt s] = the filter's value on the
   metadata-only decode of s (None when either raises) *)
Theorem C11_e2e_filt_ok_template : forall T_of n_of c_of view tdp filt ign json m io b,
  encode_message ign json = Ok m ->
  msg_wfb (dd_template T_of n_of c_of) m = true ->
  verdict (dd_template T_of n_of c_of) view filt (m_bytes m) = Some b ->
  (io = false -> b = true -> msg_quietb m = true) ->
  filt_ok (frame_process (dd_template T_of n_of c_of) view false)
          (frame_process (dd_template T_of n_of c_of) view true) filt (frame_hook tdp) io (m_bytes m) b.
Proof. exact encoded_filt_ok_template. Qed.
Print Assumptions C11_e2e_filt_ok_template.

(* THE property, end to end: any number of encoded messages (editions, section 2,
   compression, lengths recomputed or honoured — whatever the encoder accepts)
   with separators not containing 'BUFR' (they may end in 'B', 'BU', 'BUF'): the
   concrete generate_bufr_message yields exactly the messages, in order, with
   their exact bytes, and ends normally; full and metadata-only mode; whatever
   continue_on_error is; any table-definition processor; any view. *)
Theorem C11_e2e_scan_exact :
  forall (dd : list (pname * pvalue) -> reader -> result (bits * reader)),
  (forall p r b r', dd p r = Ok (b, r') -> r = b ++ r') ->
  (forall p r b r' s, dd p r = Ok (b, r') -> dd p (r ++ s) = Ok (b, r' ++ s)) ->
  (forall p, cuts (dd p)) ->
  forall view tdp filt io coe sep0 items,
  nosigb sep0 = true -> forallb (item_okb dd io) items = true ->
  frame_generate dd view tdp filt io coe false (sep0 ++ assemble (stream_of items))
  = (map item_bytes items, None).
Proof. exact e2e_scan_exact. Qed.
Print Assumptions C11_e2e_scan_exact.

Theorem C11_e2e_scan_exact_template : forall T_of n_of c_of view tdp filt io coe sep0 items,
  nosigb sep0 = true -> forallb (item_okb (dd_template T_of n_of c_of) io) items = true ->
  frame_generate (dd_template T_of n_of c_of) view tdp filt io coe false (sep0 ++ assemble (stream_of items))
  = (map item_bytes items, None).
Proof. exact e2e_scan_exact_template. Qed.
Print Assumptions C11_e2e_scan_exact_template.

Theorem C11_e2e_scan_exact_stub : forall view tdp filt io coe sep0 items,
  nosigb sep0 = true -> forallb (item_okb stub_dd io) items = true ->
  frame_generate stub_dd view tdp filt io coe false (sep0 ++ assemble (stream_of items))
  = (map item_bytes items, None).
Proof. exact e2e_scan_exact_stub. Qed.
Print Assumptions C11_e2e_scan_exact_stub.

Theorem C11_e2e_concat_pieces_template : forall T_of n_of c_of view tdp filt io coe sep0 items,
  nosigb sep0 = true -> forallb (item_okb (dd_template T_of n_of c_of) io) items = true ->
  concat (fst (frame_generate (dd_template T_of n_of c_of) view tdp filt io coe false
                 (sep0 ++ assemble (stream_of items))))
  = concat (map item_bytes items).
Proof. exact e2e_concat_pieces_template. Qed.
Print Assumptions C11_e2e_concat_pieces_template.

(* with a filter expression: exactly the messages on whose metadata-only decode
   the filter is true.  item_filt_okb: as item_okb, the filter evaluates without
   raising on the metadata-only message, and only a MATCHING message must be quiet *)
Theorem C11_e2e_scan_filter_template : forall T_of n_of c_of view tdp filt io coe sep0 items,
  nosigb sep0 = true ->
  forallb (item_filt_okb (dd_template T_of n_of c_of) view filt io) items = true ->
  frame_generate (dd_template T_of n_of c_of) view tdp filt io coe true (sep0 ++ assemble (stream_of items))
  = (filter (matches (dd_template T_of n_of c_of) view filt) (map item_bytes items), None).
Proof. exact e2e_scan_filter_template. Qed.
Print Assumptions C11_e2e_scan_filter_template.

(* non-vacuity, computed: a stream of three messages (edition 4 uncompressed,
   edition 3 with section 2, edition 4 compressed; real template with a delayed
   replication and a string) behind a header ending in 'B', separated by a
   GTS-like header ending in 'BUF', nothing, and 'BU' + '7777': the hypotheses
   hold in both modes and for the filter [data_category == 2]; the concrete
   scanner, RUN on the stream, returns the three messages (full, metadata-only)
   and the two matching ones (filter) *)
Example C11_e2e_nonvacuous :
  nosigb e2e_sep0 = true /\
  forallb (item_okb e2e_dd false) e2e_items = true /\ forallb (item_okb e2e_dd true) e2e_items = true /\
  forallb (item_filt_okb e2e_dd e2e_view e2e_filt false) e2e_items = true /\
  map (fun it => (40 <? length (item_bytes it))%nat) e2e_items = [true; true; true] /\
  map (matches e2e_dd e2e_view e2e_filt) (map item_bytes e2e_items) = [true; false; true] /\
  outcome_eqb (frame_generate e2e_dd e2e_view e2e_tdp e2e_filt false false false
                 (e2e_sep0 ++ assemble (stream_of e2e_items)))
              (map item_bytes e2e_items, None) = true /\
  outcome_eqb (frame_generate e2e_dd e2e_view e2e_tdp e2e_filt true false false
                 (e2e_sep0 ++ assemble (stream_of e2e_items)))
              (map item_bytes e2e_items, None) = true /\
  outcome_eqb (frame_generate e2e_dd e2e_view e2e_tdp e2e_filt false false true
                 (e2e_sep0 ++ assemble (stream_of e2e_items)))
              (filter (matches e2e_dd e2e_view e2e_filt) (map item_bytes e2e_items), None) = true.
Proof. exact e2e_scan_nonvacuous. Qed.

(* the quiet condition is not vacuous: a table-definition message (category 11,
   two subsets) fails the full-mode condition and passes the metadata-only one *)
Example C11_e2e_tabledef_not_quiet :
  item_okb e2e_dd false (true, e2e_json4 11 false ex_data, []) = false /\
  item_okb e2e_dd true (true, e2e_json4 11 false ex_data, []) = true.
Proof. exact e2e_tabledef_not_quiet. Qed.

(* the stub template decoder (C11_e2e_scan_exact_stub): three messages of 031031
   templates, editions 3, 2 and 4, satisfy item_okb stub_dd false and scan exactly *)
From PBK Require Import StreamFrameDamageStream.
Example C11_e2e_stub_nonvacuous :
  forallb (item_okb stub_dd false) (map fst (filter undamaged stub_dmg_items)) = true /\
  outcome_eqb (frame_generate stub_dd e2e_view e2e_tdp e2e_filt false false false
                 (e2e_sep0 ++ assemble (stream_of (map fst (filter undamaged stub_dmg_items)))))
              (map item_bytes (map fst (filter undamaged stub_dmg_items)), None) = true.
Proof. split; apply e2e_stub_nonvacuous. Qed.
