(* C11 — A byte stream is split into exactly the messages it contains.
   (Also the stream-level half of C12: scan_continue_skips and friends.)
   Statements only; every proof is [exact <lemma of StreamProofs>].

   Vocabulary (Stream.v):
     generate process process_info filt hook info_only continue_on_error use_filter s
        = ([m.serialized_bytes for m in generate_bufr_message(...)], exception or None)
     process / process_info : the decoder applied to the suffix of the stream that
        starts at a found signature (full / metadata-only); abstract, universally
        quantified in every theorem below.
     full_ok m  : forall t, process (m ++ t) = Ok mi, mi_consumed mi = length m, hook mi = Ok tt
     info_ok m  : forall t, process_info (m ++ t) = Ok mi, mi_declared mi = length m
     valid_msg io m = if io then info_ok m else full_ok m
     stream_ok P l : every (m, sep) of l has m = 'BUFR' ++ _, P m, and 'BUFR' does not occur in sep
     assemble [(m1,sep1); ...; (mn,sepn)] = m1 ++ sep1 ++ ... ++ mn ++ sepn *)
From PBK Require Import Base Stream StreamProofs.

(* bytes.find as modelled is a correct leftmost search from the start offset *)
Theorem C11_find_spec : forall sub s start j,
  find sub s start = Some j ->
  start <= j <= length s /\ prefixb sub (skipn j s) = true /\
  forall k, start <= k < j -> prefixb sub (skipn k s) = false.
Proof. exact find_spec. Qed.
Print Assumptions C11_find_spec.

(* A separator not containing 'BUFR' (it may end in 'B', 'BU', 'BUF') followed by a
   message: the first match is the message start — no match inside the separator
   and none straddling the boundary. *)
Theorem C11_find_boundary : forall sep m rest,
  nosig sep -> starts_sig m -> find sig (sep ++ m ++ rest) 0 = Some (length sep).
Proof. exact find_boundary. Qed.
Print Assumptions C11_find_boundary.

(* Exactly the messages, in order, with their exact bytes; data sections decoded
   (io = false) or metadata only (io = true); any number of messages; bodies are
   arbitrary (they may contain 'BUFR' and '7777'); continue_on_error irrelevant.
   Fuel exhaustion is excluded: the result's second component is None. *)
Theorem C11_scan_exact :
  forall (process process_info : list byte -> result msginfo)
         (filt : msginfo -> result bool) (hook : msginfo -> result unit)
         (io coe : bool) (sep0 : list byte) (l : list (list byte * list byte)),
  nosig sep0 -> stream_ok (valid_msg process process_info hook io) l ->
  generate process process_info filt hook io coe false (sep0 ++ assemble l) = (map fst l, None).
Proof. exact scan_exact. Qed.
Print Assumptions C11_scan_exact.

(* a start signature and a stop signature inside a body begin / end nothing *)
Theorem C11_signature_inside_body_not_scanned :
  forall (process process_info : list byte -> result msginfo)
         (filt : msginfo -> result bool) (hook : msginfo -> result unit)
         (io coe : bool) (sep0 b1 b2 b3 sep1 : list byte),
  let m := sig ++ b1 ++ sig ++ b2 ++ [55; 55; 55; 55]%N ++ b3 in
  nosig sep0 -> nosig sep1 -> valid_msg process process_info hook io m ->
  generate process process_info filt hook io coe false (sep0 ++ m ++ sep1) = ([m], None).
Proof. exact signature_inside_body_not_scanned. Qed.
Print Assumptions C11_signature_inside_body_not_scanned.

(* writing the pieces out and concatenating them reproduces the messages ... *)
Theorem C11_concat_pieces :
  forall (process process_info : list byte -> result msginfo)
         (filt : msginfo -> result bool) (hook : msginfo -> result unit)
         (io coe : bool) (sep0 : list byte) (l : list (list byte * list byte)),
  nosig sep0 -> stream_ok (valid_msg process process_info hook io) l ->
  concat (fst (generate process process_info filt hook io coe false (sep0 ++ assemble l)))
  = concat (map fst l).
Proof. exact concat_pieces. Qed.
Print Assumptions C11_concat_pieces.

(* ... and, for a stream without separators, the input itself *)
Theorem C11_concat_pieces_identity :
  forall (process process_info : list byte -> result msginfo)
         (filt : msginfo -> result bool) (hook : msginfo -> result unit)
         (io coe : bool) (ms : list (list byte)),
  Forall (fun m => starts_sig m /\ valid_msg process process_info hook io m) ms ->
  concat (fst (generate process process_info filt hook io coe false (concat ms))) = concat ms.
Proof. exact concat_pieces_identity. Qed.
Print Assumptions C11_concat_pieces_identity.

(* With a filter: exactly the messages for which the expression is true.  The
   verdict p m is the filter's value on the METADATA-ONLY decode (that is the
   decode the code evaluates it on).  filt_ok io m b (Stream.v):
     forall t, process_info (m ++ t) = Ok mi, filt mi = Ok b, and
       io = true : mi_declared mi = length m
       io = false, b = true : full_ok m
       io = false, b = false : mi_consumed mi <= length m and no byte
          'B' in m after the first mi_consumed mi bytes (the code advances over a
          non-matching message by the metadata-only decode's own length, i.e.
          sections 0..4; what is left is the stop signature '7777') *)
Theorem C11_scan_filter :
  forall (process process_info : list byte -> result msginfo)
         (filt : msginfo -> result bool) (hook : msginfo -> result unit)
         (io coe : bool) (p : list byte -> bool) (sep0 : list byte)
         (l : list (list byte * list byte)),
  nosig sep0 ->
  stream_ok (fun m => filt_ok process process_info filt hook io m (p m)) l ->
  generate process process_info filt hook io coe true (sep0 ++ assemble l)
  = (filter p (map fst l), None).
Proof. exact scan_filter. Qed.
Print Assumptions C11_scan_filter.

Theorem C11_scan_filter_is_filter_of_scan :
  forall (process process_info : list byte -> result msginfo)
         (filt : msginfo -> result bool) (hook : msginfo -> result unit)
         (io coe : bool) (p : list byte -> bool) (sep0 : list byte)
         (l : list (list byte * list byte)),
  nosig sep0 -> stream_ok (valid_msg process process_info hook io) l ->
  stream_ok (fun m => filt_ok process process_info filt hook io m (p m)) l ->
  fst (generate process process_info filt hook io coe true (sep0 ++ assemble l)) =
  filter p (fst (generate process process_info filt hook io coe false (sep0 ++ assemble l))).
Proof. exact scan_filter_is_filter_of_scan. Qed.
Print Assumptions C11_scan_filter_is_filter_of_scan.

(* ------------------------------------------------------------------------ *)
(* stream-level half of C12                                                  *)
(* ------------------------------------------------------------------------ *)

(* continue_on_error, full mode: a damaged message — its full decode raises a
   LIBRARY error whatever follows, its metadata-only decode still succeeds with
   declared total length = actual length — is skipped exactly: the scanner
   resumes at the next message; all others are delivered unchanged, in order.
   [good] marks the undamaged messages. *)
Theorem C11_scan_continue_skips :
  forall (process process_info : list byte -> result msginfo)
         (filt : msginfo -> result bool) (hook : msginfo -> result unit)
         (good : list byte -> bool) (sep0 : list byte) (l : list (list byte * list byte)),
  nosig sep0 ->
  stream_ok (fun m => if good m then full_ok process hook m
                      else (exists e, is_lib_err e = true /\ full_fails process m e) /\
                           info_ok process_info m) l ->
  generate process process_info filt hook false true false (sep0 ++ assemble l)
  = (filter good (map fst l), None).
Proof. exact scan_continue_skips. Qed.
Print Assumptions C11_scan_continue_skips.

(* the two recovery paths that advance by one byte (metadata-only mode; full mode
   when the metadata-only re-decode fails too): exact provided the rest of the
   damaged message holds no signature *)
Theorem C11_scan_continue_skips_by_one :
  forall (process process_info : list byte -> result msginfo)
         (filt : msginfo -> result bool) (hook : msginfo -> result unit)
         (io : bool) (good : list byte -> bool) (sep0 : list byte)
         (l : list (list byte * list byte)),
  nosig sep0 ->
  Forall (fun x => starts_sig (fst x) /\ nosig (snd x) /\
            if good (fst x) then valid_msg process process_info hook io (fst x)
            else (exists e, is_lib_err e = true /\
                   if io then info_fails process_info (fst x) e
                   else full_fails process (fst x) e /\
                        exists e', is_lib_err e' = true /\ info_fails process_info (fst x) e') /\
                 nosig (skipn 1 (fst x) ++ snd x)) l ->
  generate process process_info filt hook io true false (sep0 ++ assemble l)
  = (filter good (map fst l), None).
Proof. exact scan_continue_skips_by_one. Qed.
Print Assumptions C11_scan_continue_skips_by_one.

(* without continue_on_error: the preceding messages are delivered, then the
   error surfaces; nothing is assumed about what follows the damaged message *)
Theorem C11_scan_stops_at_error :
  forall (process process_info : list byte -> result msginfo)
         (filt : msginfo -> result bool) (hook : msginfo -> result unit)
         (io : bool) (sep0 : list byte) (l : list (list byte * list byte))
         (m rest : list byte) (e : err),
  nosig sep0 -> stream_ok (valid_msg process process_info hook io) l ->
  starts_sig m -> fails process process_info io m e ->
  generate process process_info filt hook io false false (sep0 ++ assemble l ++ m ++ rest)
  = (map fst l, Some (gen_exc e)).
Proof. exact scan_stops_at_error. Qed.
Print Assumptions C11_scan_stops_at_error.

(* ... as the library's own error type when the decoder raised one *)
Theorem C11_scan_stops_at_library_error :
  forall (process process_info : list byte -> result msginfo)
         (filt : msginfo -> result bool) (hook : msginfo -> result unit)
         (io : bool) (sep0 : list byte) (l : list (list byte * list byte))
         (m rest : list byte) (e : err),
  nosig sep0 -> stream_ok (valid_msg process process_info hook io) l ->
  starts_sig m -> fails process process_info io m e -> is_lib_err e = true ->
  generate process process_info filt hook io false false (sep0 ++ assemble l ++ m ++ rest)
  = (map fst l, Some e).
Proof. exact scan_stops_at_library_error. Qed.
Print Assumptions C11_scan_stops_at_library_error.

(* an exception that is not a PyBufrKitError (AssertionError: D10) escapes even
   with continue_on_error (gen_exc: PEP 479 turns a StopIteration leaving the
   generator into RuntimeError; every other class is unchanged) *)
Theorem C11_non_library_error_escapes :
  forall (process process_info : list byte -> result msginfo)
         (filt : msginfo -> result bool) (hook : msginfo -> result unit)
         (io coe : bool) (sep0 : list byte) (l : list (list byte * list byte))
         (m rest : list byte) (e : err),
  nosig sep0 -> stream_ok (valid_msg process process_info hook io) l ->
  starts_sig m -> fails process process_info io m e -> is_lib_err e = false ->
  generate process process_info filt hook io coe false (sep0 ++ assemble l ++ m ++ rest)
  = (map fst l, Some (gen_exc e)).
Proof. exact non_library_error_escapes. Qed.
Print Assumptions C11_non_library_error_escapes.

(* ------------------------------------------------------------------------ *)
(* fuel; the hypothesis "declared length > 0" cannot be dropped              *)
(* ------------------------------------------------------------------------ *)

Theorem C11_scan_fuel_mono :
  forall (process process_info : list byte -> result msginfo)
         (filt : msginfo -> result bool) (hook : msginfo -> result unit)
         (io coe fl : bool) (f : nat) (s : list byte) (idx f' : nat),
  snd (scan process process_info filt hook io coe fl f s idx) <> Some EFuel -> f <= f' ->
  scan process process_info filt hook io coe fl f' s idx
  = scan process process_info filt hook io coe fl f s idx.
Proof. exact scan_fuel_mono. Qed.
Print Assumptions C11_scan_fuel_mono.

(* recorded, outside the given properties: a declared total length of 0 in
   metadata-only mode makes no progress — for every fuel the model yields that
   many empty messages and runs out (the Python generator never finishes) *)
Theorem C11_zero_declared_length_no_progress :
  forall (process process_info : list byte -> result msginfo)
         (filt : msginfo -> result bool) (hook : msginfo -> result unit)
         (coe : bool) (s : list byte) (i : nat) (mi : msginfo),
  i < length s -> find sig s i = Some i ->
  process_info (skipn i s) = Ok mi -> mi_declared mi = 0 ->
  forall fuel, scan process process_info filt hook true coe false fuel s i
               = (repeat [] fuel, Some EFuel).
Proof. exact zero_declared_length_no_progress. Qed.
Print Assumptions C11_zero_declared_length_no_progress.

Theorem C11_zero_declared_length_refuted :
  exists s, forall fuel,
    snd (scan Toy.full Toy.info Toy.filt Toy.hook true false false fuel s 8) = Some EFuel.
Proof. exact zero_declared_length_refuted_exists. Qed.
Print Assumptions C11_zero_declared_length_refuted.
