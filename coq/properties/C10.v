(* C10 — Subsetting keeps exactly the selected subsets and nothing else changes.
   Statements only; every proof is [exact <lemma of SubsetProofs>].
   [subset] is the model of BufrMessage.subset AFTER the repair
   fixes/C10_subset_count.diff (n_subsets = len(set(subset_indices)));
   [subset_orig] is the code before it. *)
From PBK Require Import Base Subset SubsetProofs.
From Coq Require Import Sorted.
Local Open Scope Z_scope.

(* MAIN.  For every message whose n_subsets proxy agrees with its data (msg_ok),
   every index collection I (any order, with repeats) that is accepted:
   sel = the indices of 0..n-1 occurring in I is strictly increasing, duplicate
   free and has exactly the elements of I (so it IS sorted(set(I))); the result
   has the shape of the message; its template data are the source subsets at
   sel, in that order (the i-th subset of the result is the subset with the i-th
   smallest selected index); the parameter named n_subsets becomes |sel|; every
   other parameter value is unchanged. *)
Theorem C10_subset_selects : forall (V S : Type) n (secs : list (list (param V S))) I out,
  msg_ok n secs = true ->
  subset n secs I = Ok out ->
  let sel := sel_idx 0 I (Z.to_nat n) in
  StronglySorted Z.lt sel /\ NoDup sel /\ (forall i, In i sel <-> In i I) /\
  Forall2 (Forall2 (fun p o =>
    match p with
    | PData _ subs =>
        exists d, o = OData d /\ map Some d = map (fun j => nth_error subs (Z.to_nat j)) sel
    | PPlain name v =>
        if N.eqb name name_n_subsets then o = OCount (Z.of_nat (length sel)) else o = OVal v
    end)) secs out.
Proof. intros V S. exact (@subset_selects V S). Qed.
Print Assumptions C10_subset_selects.

(* an index outside 0..n-1 is refused (library error), whatever else is selected *)
Theorem C10_subset_bounds : forall (V S : Type) count n (secs : list (list (param V S))) I,
  (exists i, In i I /\ (i < 0 \/ n <= i)) -> subset_with count n secs I = Err ELib.
Proof. intros V S. exact (@subset_bounds V S). Qed.
Print Assumptions C10_subset_bounds.

(* ... and nothing else is refused, except the empty collection (ValueError of max()) *)
Theorem C10_subset_refusal_inv : forall (V S : Type) count n (secs : list (list (param V S))) I e,
  subset_with count n secs I = Err e ->
  (I = [] /\ e = EValue) \/ (e = ELib /\ exists i, In i I /\ (i < 0 \/ n <= i)).
Proof. intros V S. exact (@subset_refusal_inv V S). Qed.
Print Assumptions C10_subset_refusal_inv.

Theorem C10_subset_ok_iff : forall (V S : Type) count n (secs : list (list (param V S))) I,
  (exists out, subset_with count n secs I = Ok out) <->
  (I <> [] /\ forall i, In i I -> 0 <= i < n).
Proof. intros V S. exact (@subset_ok_iff V S). Qed.
Print Assumptions C10_subset_ok_iff.

(* the subset count equals the number of DISTINCT selected indices and the number
   of subsets actually present in the returned data *)
Theorem C10_subset_count : forall (V S : Type) n (secs : list (list (param V S))) I out,
  msg_ok n secs = true -> subset n secs I = Ok out ->
  forall osec k, In osec out -> In (OCount k) osec ->
    k = Z.of_nat (length (nodup Z.eq_dec I)) /\
    (forall osec' d, In osec' out -> In (OData d) osec' -> k = Z.of_nat (length d)).
Proof. intros V S. exact (@subset_count V S). Qed.
Print Assumptions C10_subset_count.

(* selecting every index (any order, with repeats) gives back the same data *)
Theorem C10_subset_idempotent_full : forall (V S : Type) n (secs : list (list (param V S))) I out,
  msg_ok n secs = true -> subset n secs I = Ok out ->
  (forall j, 0 <= j < n -> In j I) ->
  out = map (map (fun p => match p with
                           | PData _ subs => OData subs
                           | PPlain name v => if N.eqb name name_n_subsets then OCount n else OVal v
                           end)) secs.
Proof. intros V S. exact (@subset_idempotent_full V S). Qed.
Print Assumptions C10_subset_idempotent_full.

(* D3: the code before the repair, n_subsets = len(subset_indices), counts
   repeats: indices [1;1] on a two-subset message give count 2 over one subset *)
Theorem C10_subset_count_orig_refuted :
  exists (n : Z) (secs : list (list (param Z Z))) (I : list Z) out k d,
    msg_ok n secs = true /\ subset_orig n secs I = Ok out /\
    out = [[OCount k; OData d]] /\ k <> Z.of_nat (length d) /\
    k <> Z.of_nat (length (nodup Z.eq_dec I)).
Proof. exact subset_count_orig_refuted. Qed.
Print Assumptions C10_subset_count_orig_refuted.

(* ---- re-encoding the selected subsets ------------------------------------------------
   The result of subset() is encoded again; for compressed data the columns are
   re-packed over the selected subsets only (other minima, other increment widths,
   other all-equal shortcuts).  Whatever value lists d the selection produced
   (C10_subset_selects says which), the re-encoding decodes back to exactly the
   (quantised) selected values, descriptors and links — the round-trip theorems of
   C03/C05 instantiated at d, stated here because the property names this step. *)
From PBK Require Import Bits Descr Walk Coder Decode Encode RoundTrip DecodeC EncodeC EncodeCG RoundTripC.
Local Close Scope Z_scope.

Theorem C10_reencode_selected_compressed : forall T (d : list (list value)) outs w g t,
  encode_compressed_ghost T d = Ok (outs, w, g) ->
  encode_compressed T d = Ok (outs, w) /\
  decode_compressed T (length d) (w ++ t) = Ok (outs, g, t).
Proof.
  intros T d outs w g t E. split.
  - eapply encode_compressed_ghost_is_encode; exact E.
  - apply decode_encode_compressed; exact E.
Qed.
Print Assumptions C10_reencode_selected_compressed.

Theorem C10_reencode_selected_uncompressed : forall T (d : list (list value)) outs w g t,
  encode_ghost T d = Ok (outs, w, g) ->
  encode_uncompressed T d = Ok (outs, w) /\
  decode_uncompressed T (length d) (w ++ t) = Ok (outs, g, t).
Proof.
  intros T d outs w g t E. split.
  - eapply encode_ghost_is_encode; exact E.
  - apply decode_encode; exact E.
Qed.
Print Assumptions C10_reencode_selected_uncompressed.
