(* C02 — Encoding produces the canonical FM-94 bit stream for the given values.
   Statements only. *)
From PBK Require Import Base Bits BitsProofs Descr Walk Coder Float53 Decode Encode Spec SpecProofs.
From PBK Require Import Column ColumnProofs DecodeC EncodeC SpecC SpecCProofs SpecCExamples.

(* Whenever the encoder accepts a value list for a template (any template: all
   operators, bitmaps, nested replication; any number of subsets), the data bits
   it writes are bit for bit the concatenation, subset after subset and in
   template order, of the fields of the canonical layout; the descriptors and
   attribute links it records are those of the layout. *)
Theorem C02_encode_canonical_uncompressed : forall T vals outs w,
  encode_uncompressed T vals = Ok (outs, w) ->
  exists fs, layout T vals = Ok (outs, fs) /\ write_fields fs [] = Ok w.
Proof. exact encode_canonical_uncompressed. Qed.
Print Assumptions C02_encode_canonical_uncompressed.

Theorem C02_encode_is_canonical_bits : forall T vals outs w,
  encode_uncompressed T vals = Ok (outs, w) -> canonical_bits T vals = Ok w.
Proof. exact encode_is_canonical_bits. Qed.
Print Assumptions C02_encode_is_canonical_bits.

(* what the fields are: MSB first, missing = all ones, strings space padded *)
Theorem C02_uint_field_bits : forall w v o, field_ok (FUint w v) = true ->
  write_field (FUint w v) o = Ok (o ++ to_bits (Z.to_nat w) (Z.to_N v)).
Proof. exact uint_field_bits. Qed.
Print Assumptions C02_uint_field_bits.

Theorem C02_layout_missing_all_ones : forall nbits scale refval s s1,
  (0 < nbits <= 64)%Z -> s_next s = Ok (VNone, s1) ->
  spec_numeric nbits scale refval s =
  Ok (mkS (s_fields s1 ++ [FUint nbits (2 ^ nbits - 1)]) (s_vals s1) (s_idx s1) (s_cur s1)).
Proof. exact layout_missing_all_ones. Qed.
Print Assumptions C02_layout_missing_all_ones.

Theorem C02_missing_field_bits : forall w o, (0 < w)%Z ->
  write_field (FUint w (2 ^ w - 1)) o = Ok (o ++ ones (Z.to_nat w)).
Proof. exact missing_field_bits. Qed.
Print Assumptions C02_missing_field_bits.

Theorem C02_bytes_field_bits : forall n b o, (0 <= n)%Z ->
  write_field (FBytes n b) o = Ok (o ++ bits_of_bytes (firstn (Z.to_nat n) b ++ repeat 32%N (Z.to_nat n - length b))).
Proof. exact bytes_field_bits. Qed.
Print Assumptions C02_bytes_field_bits.

(* and the fields can be read back one by one (C19) *)
Theorem C02_fields_read_back : forall fs o t,
  forallb field_ok fs = true ->
  exists e, write_fields fs o = Ok (o ++ e) /\ length e = fields_width fs /\
            read_fields fs (e ++ t) = Ok (map field_value fs, t).
Proof. exact fields_roundtrip. Qed.
Print Assumptions C02_fields_read_back.

(* ==========================================================================
   COMPRESSED data (SpecC.v): every element of the template is one COLUMN over
   all subsets.
   ========================================================================== *)

(* Whenever the compressed encoder accepts the value lists for a template (any
   template: all operators, bitmaps, nested and delayed replication; any number
   of subsets), the data bits it writes are bit for bit the concatenation,
   column after column in template order (one column per decoded element,
   replications expanded), of the fields of the canonical column layout; the
   descriptors and attribute links it records are those of the layout. *)
Theorem C02_encode_canonical_compressed : forall T vals outs w,
  encode_compressed T vals = Ok (outs, w) ->
  exists fs, layout_c T vals = Ok (outs, fs) /\ write_fields fs [] = Ok w.
Proof. exact encode_canonical_compressed. Qed.
Print Assumptions C02_encode_canonical_compressed.

(* the same, column by column *)
Theorem C02_encode_canonical_columns : forall T vals outs w,
  encode_compressed T vals = Ok (outs, w) ->
  exists cols, layout_cols T vals = Ok (outs, cols) /\ write_fields (flat_map col_fields cols) [] = Ok w.
Proof. exact encode_canonical_columns. Qed.
Print Assumptions C02_encode_canonical_columns.

Theorem C02_encode_is_canonical_bits_c : forall T vals outs w,
  encode_compressed T vals = Ok (outs, w) -> canonical_bits_c T vals = Ok w.
Proof. exact encode_is_canonical_bits_c. Qed.
Print Assumptions C02_encode_is_canonical_bits_c.

(* non-vacuity: a template with a delayed and a fixed replication, 3 subsets with
   missing entries; the encoder accepts, and the layout has these 8 columns *)
Example C02_compressed_nonvacuous :
  exists outs w, encode_compressed spc_T spc_vals = Ok (outs, w) /\ length w = 295%nat /\
                 canonical_bits_c spc_T spc_vals = Ok w.
Proof. exact spc_encoder_accepts. Qed.
Example C02_compressed_columns :
  exists outs, layout_cols spc_T spc_vals = Ok (outs, spc_cols) /\ length outs = 3%nat.
Proof. exact spc_layout_cols. Qed.
