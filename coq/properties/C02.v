(* C02 — Encoding produces the canonical FM-94 bit stream for the given values.
   Statements only. *)
From PBK Require Import Base Bits BitsProofs Descr Walk Coder Float53 Decode Encode Spec SpecProofs.
From PBK Require Import Column ColumnProofs DecodeC EncodeC SpecC SpecCProofs SpecCCanon SpecCExamples.

(* Whenever the encoder accepts a value list for a template (any template: all
   operators, bitmaps, nested replication; any number of subsets), the data bits
   it writes are bit for bit the concatenation, subset after subset and in
   template order, of the fields of the canonical layout; the descriptors and
   attribute links it records are those of the layout. *)
Theorem C02_encode_canonical_uncompressed : forall T vals outs w,
  encode_uncompressed T vals = Ok (outs, w) ->
  exists fs, layout T vals = Ok (outs, fs) /\ write_fields fs [] = Ok w.
Proof. exact encode_canonical_uncompressed. Qed.
Print Assumptions C02_encode_canonical_uncompressed.

Theorem C02_encode_is_canonical_bits : forall T vals outs w,
  encode_uncompressed T vals = Ok (outs, w) -> canonical_bits T vals = Ok w.
Proof. exact encode_is_canonical_bits. Qed.
Print Assumptions C02_encode_is_canonical_bits.

(* what the fields are: MSB first, missing = all ones, strings space padded *)
Theorem C02_uint_field_bits : forall w v o, field_ok (FUint w v) = true ->
  write_field (FUint w v) o = Ok (o ++ to_bits (Z.to_nat w) (Z.to_N v)).
Proof. exact uint_field_bits. Qed.
Print Assumptions C02_uint_field_bits.

Theorem C02_layout_missing_all_ones : forall nbits scale refval s s1,
  (0 < nbits <= 64)%Z -> s_next s = Ok (VNone, s1) ->
  spec_numeric nbits scale refval s =
  Ok (mkS (s_fields s1 ++ [FUint nbits (2 ^ nbits - 1)]) (s_vals s1) (s_idx s1) (s_cur s1)).
Proof. exact layout_missing_all_ones. Qed.
Print Assumptions C02_layout_missing_all_ones.

Theorem C02_missing_field_bits : forall w o, (0 < w)%Z ->
  write_field (FUint w (2 ^ w - 1)) o = Ok (o ++ ones (Z.to_nat w)).
Proof. exact missing_field_bits. Qed.
Print Assumptions C02_missing_field_bits.

Theorem C02_bytes_field_bits : forall n b o, (0 <= n)%Z ->
  write_field (FBytes n b) o = Ok (o ++ bits_of_bytes (firstn (Z.to_nat n) b ++ repeat 32%N (Z.to_nat n - length b))).
Proof. exact bytes_field_bits. Qed.
Print Assumptions C02_bytes_field_bits.

(* and the fields can be read back one by one (C19) *)
Theorem C02_fields_read_back : forall fs o t,
  forallb field_ok fs = true ->
  exists e, write_fields fs o = Ok (o ++ e) /\ length e = fields_width fs /\
            read_fields fs (e ++ t) = Ok (map field_value fs, t).
Proof. exact fields_roundtrip. Qed.
Print Assumptions C02_fields_read_back.

(* ==========================================================================
   COMPRESSED data (SpecC.v): every element of the template is one COLUMN over
   all subsets.
   ========================================================================== *)

(* Whenever the compressed encoder accepts the value lists for a template (any
   template: all operators, bitmaps, nested and delayed replication; any number
   of subsets), the data bits it writes are bit for bit the concatenation,
   column after column in template order (one column per decoded element,
   replications expanded), of the fields of the canonical column layout; the
   descriptors and attribute links it records are those of the layout. *)
Theorem C02_encode_canonical_compressed : forall T vals outs w,
  encode_compressed T vals = Ok (outs, w) ->
  exists fs, layout_c T vals = Ok (outs, fs) /\ write_fields fs [] = Ok w.
Proof. exact encode_canonical_compressed. Qed.
Print Assumptions C02_encode_canonical_compressed.

(* the same, column by column *)
Theorem C02_encode_canonical_columns : forall T vals outs w,
  encode_compressed T vals = Ok (outs, w) ->
  exists cols, layout_cols T vals = Ok (outs, cols) /\ write_fields (flat_map col_fields cols) [] = Ok w.
Proof. exact encode_canonical_columns. Qed.
Print Assumptions C02_encode_canonical_columns.

Theorem C02_encode_is_canonical_bits_c : forall T vals outs w,
  encode_compressed T vals = Ok (outs, w) -> canonical_bits_c T vals = Ok w.
Proof. exact encode_is_canonical_bits_c. Qed.
Print Assumptions C02_encode_is_canonical_bits_c.

(* non-vacuity: a template with a delayed and a fixed replication, 3 subsets with
   missing entries; the encoder accepts, and the layout has these 8 columns *)
Example C02_compressed_nonvacuous :
  exists outs w, encode_compressed spc_T spc_vals = Ok (outs, w) /\ length w = 295%nat /\
                 canonical_bits_c spc_T spc_vals = Ok w.
Proof. exact spc_encoder_accepts. Qed.
Example C02_compressed_columns :
  exists outs, layout_cols spc_T spc_vals = Ok (outs, spc_cols) /\ length outs = 3%nat.
Proof. exact spc_layout_cols. Qed.

(* ---- what makes the column layout canonical ------------------------------------ *)

(* every field of the layout is within the range of its width: nothing is
   wrapped or clipped *)
Theorem C02_compressed_fields_in_range : forall T vals outs cols,
  layout_cols T vals = Ok (outs, cols) -> forallb emit_ok (flat_map col_fields cols) = true.
Proof. exact layout_fields_in_range. Qed.
Print Assumptions C02_compressed_fields_in_range.

(* A numeric / code-flag column of the layout (one entry per subset): the base
   field is the MINIMUM of the present values (attained, a lower bound), all ones
   when no subset has a value; the 6-bit width is 0 exactly for the columns
   flagged all-equal (their entries are all the same and there are no
   increments); otherwise it is the LEAST width whose all-ones pattern lies
   strictly above max - min + 1, and there is one increment per subset: all ones
   for a missing entry, and for a present one base + increment is the entry and
   the increment is never all ones. *)
Theorem C02_compressed_num_column_canonical : forall T vals outs cols w ae raws,
  layout_cols T vals = Ok (outs, cols) -> In (ColNum w ae raws) cols ->
  length raws = length vals /\
  exists base wd incs,
    col_fields (ColNum w ae raws) = FUint w base :: FUint 6 wd :: map (FUint wd) incs /\
    (0 < w)%Z /\ (0 <= base < 2 ^ w)%Z /\ (0 <= wd < 64)%Z /\
    ((forall v, In v raws -> v = None) -> base = (2 ^ w - 1)%Z) /\
    ((exists x, In (Some x) raws) -> In (Some base) raws) /\
    (forall x, In (Some x) raws -> (base <= x)%Z) /\
    (wd = 0%Z <-> ae = true) /\
    (ae = true -> incs = [] /\ forall v, In v raws -> v = hd None raws) /\
    (ae = false ->
       exists mx, In (Some mx) raws /\ (forall x, In (Some x) raws -> (x <= mx)%Z) /\
                  (mx - base + 2 < 2 ^ wd)%Z /\
                  forall k, (0 <= k)%Z -> (mx - base + 2 < 2 ^ k)%Z -> (wd <= k)%Z) /\
    (ae = false ->
       Forall2 (fun v d => match v with
                           | None => d = (2 ^ wd - 1)%Z
                           | Some x => (base + d)%Z = x /\ (0 <= d < 2 ^ wd - 1)%Z
                           end) raws incs).
Proof. exact layout_num_column_canonical. Qed.
Print Assumptions C02_compressed_num_column_canonical.

(* A character column: all strings equal -> the string (all ones when missing)
   and width 0; otherwise a NUL base, the field length in OCTETS as width, and
   every string in full (all ones when missing; padded / cut by C02_bytes_field_bits). *)
Theorem C02_compressed_str_column_canonical : forall T vals outs cols nb ae strs,
  layout_cols T vals = Ok (outs, cols) -> In (ColStr nb ae strs) cols ->
  length strs = length vals /\ (0 <= nb)%Z /\
  (ae = true ->
     col_fields (ColStr nb ae strs) = [FBytes nb (str_val nb (hd None strs)); FUint 6 0] /\
     forall v, In v strs -> v = hd None strs) /\
  (ae = false ->
     (nb < 64)%Z /\
     col_fields (ColStr nb ae strs) =
       FBytes nb (repeat 0%N (Z.to_nat nb)) :: FUint 6 nb :: map (fun v => FBytes nb (str_val nb v)) strs).
Proof. exact layout_str_column_canonical. Qed.
Print Assumptions C02_compressed_str_column_canonical.

(* 203YYY: sign bit, magnitude, width 0 *)
Theorem C02_compressed_ref_column_canonical : forall T vals outs cols w z,
  layout_cols T vals = Ok (outs, cols) -> In (ColRef w z) cols ->
  col_fields (ColRef w z) = [FBool (z <? 0)%Z; FUint (w - 1) (Z.abs z); FUint 6 0] /\
  (1 < w)%Z /\ (Z.abs z < 2 ^ (w - 1))%Z.
Proof. exact layout_ref_column_canonical. Qed.
Print Assumptions C02_compressed_ref_column_canonical.

Example C02_compressed_column_hypotheses :
  exists outs outs2,
    layout_cols spc_T spc_vals = Ok (outs, spc_cols) /\
    In (ColNum 12 false [Some 2730; Some 2800; None]%Z) spc_cols /\
    In (ColNum 8 true [Some 2; Some 2; Some 2]%Z) spc_cols /\
    In (ColStr 4 false [Some [65;66]; Some [65;66;67;68;69]; None]%N) spc_cols /\
    layout_cols spc_T2 spc_vals2 = Ok (outs2, spc_cols2) /\ In (ColRef 10 (-100)) spc_cols2.
Proof. exact spc_column_hypotheses. Qed.

(* the width of the increments, as a function of D = max - min, is the least k
   with D + 2 < 2^k, and it is what the coder computes (nbits_for_uint (D + 1)) *)
Theorem C02_canon_width_least : forall D,
  (D + 2 < 2 ^ canon_width D)%N /\ forall k, (D + 2 < 2 ^ k)%N -> (canon_width D <= k)%N.
Proof. exact canon_width_spec. Qed.
Print Assumptions C02_canon_width_least.

Theorem C02_canon_width_is_nbits_for_uint : forall D, canon_width D = nbits_for_uint (D + 1).
Proof. exact canon_width_nbits. Qed.
Print Assumptions C02_canon_width_is_nbits_for_uint.

(* which column a numeric element appends: the next value of every subset; the
   flag is Python's == of all values with the first; an all-equal column is
   represented by its (scaled) first value *)
Theorem C02_specc_numeric_column : forall nbits scale refval s s',
  specc_numeric nbits scale refval s = Ok s' ->
  exists col ae raws,
    column_of (cs_idx s) (cs_vals s) = Ok col /\ col <> [] /\
    ae = forallb (value_eqb (hd VNone col)) col /\
    col_raws (raw_numeric scale refval) ae col = Ok raws /\
    s' = mkCS (cs_cols s ++ [ColNum nbits ae raws]) (cs_vals s) (S (cs_idx s)) /\
    col_wf (length (cs_vals s)) (ColNum nbits ae raws).
Proof. exact specc_numeric_spec. Qed.
Print Assumptions C02_specc_numeric_column.

(* bit level: a missing increment / base / string is all ones *)
Theorem C02_missing_increment_bits : forall wd o, (0 < wd)%Z ->
  write_field (inc_field wd 0 None) o = Ok (o ++ ones (Z.to_nat wd)).
Proof. exact missing_increment_bits. Qed.
Print Assumptions C02_missing_increment_bits.

Theorem C02_missing_string_bits : forall nb o, (0 <= nb)%Z ->
  write_field (FBytes nb (str_val nb None)) o = Ok (o ++ ones (8 * Z.to_nat nb)).
Proof. exact missing_string_bits. Qed.
Print Assumptions C02_missing_string_bits.

(* with the values in the representable range 0 .. 2^w - 2, the base is all ones
   ONLY when every subset is missing *)
Theorem C02_base_all_ones_iff_all_missing : forall w raws,
  forallb (col_in_range w) raws = true ->
  (col_min w raws = (2 ^ w - 1)%Z <-> forall v, In v raws -> v = None).
Proof. exact base_all_ones_iff_all_missing. Qed.
Print Assumptions C02_base_all_ones_iff_all_missing.
Example C02_in_range_nonvacuous :
  forallb (col_in_range 12) [Some 2730; Some 2800; None]%Z = true /\
  forallb (col_in_range 9) [None; None; None] = true.
Proof. exact spc_in_range. Qed.

(* "width 0 exactly when all subsets agree": true of the STORED values when the
   all-equal flag is exact ... *)
Theorem C02_width0_iff_stored_equal : forall n w ae raws,
  col_wf n (ColNum w ae raws) ->
  (ae = false -> exists v v', In v raws /\ In v' raws /\ v <> v') ->
  (nth 1 (col_fields (ColNum w ae raws)) (FBool false) = FUint 6 0 <-> forall v, In v raws -> v = hd None raws).
Proof. exact width0_iff_stored_equal. Qed.
Print Assumptions C02_width0_iff_stored_equal.
Example C02_width0_hypotheses :
  (Forall (col_wf 3) spc_cols /\ Forall (col_wf 3) spc_cols2) /\
  exists v v', In v [Some 2730; Some 2800; None]%Z /\ In v' [Some 2730; Some 2800; None]%Z /\ v <> v'.
Proof. exact (conj spc_columns_wf spc_exact_flag). Qed.

(* ... but the flag is computed on the values GIVEN, before scaling: 273.15 and
   273.151 (scale 1) are both stored as 2732, the column is not flagged
   all-equal and is written with width 2 and two zero increments (finding,
   replayed on the implementation: notes/specc.md) *)
Theorem C02_width0_iff_stored_equal_refuted :
  exists T vals outs w raws,
    encode_compressed T vals = Ok (outs, w) /\
    layout_cols T vals = Ok (outs, [ColNum 12 false raws]) /\
    (forall v, In v raws -> v = Some 2732%Z) /\
    col_fields (ColNum 12 false raws) = [FUint 12 2732; FUint 6 2; FUint 2 0; FUint 2 0]%Z.
Proof. exact width0_iff_stored_equal_refuted. Qed.
Print Assumptions C02_width0_iff_stored_equal_refuted.

(* bit level: for a column in the representable range (2 <= w <= 64, values
   0 .. 2^w - 2 or missing, spread below 2^63) the fields of the canonical column
   are, MSB first, the reference bit layout of Column.v: base in w bits, the width
   in 6 bits, one increment per subset, all ones for missing (the layout every
   legal reader accepts: C05 dec_col_any_width) *)
Theorem C02_compressed_num_column_bits : forall w raws o,
  col_dom_num w false raws = true ->
  write_fields (num_fields w false raws) o =
  Ok (o ++ lay_col_num w (Z.of_N (canon_width (col_spread raws))) (Z.to_N (col_min w raws)) (raw_view raws)).
Proof. exact num_fields_bits. Qed.
Print Assumptions C02_compressed_num_column_bits.
Example C02_num_column_bits_nonvacuous :
  col_dom_num 12 false [Some 2730; Some 2800; None]%Z = true.
Proof. reflexivity. Qed.
