(* C02 — Encoding produces the canonical FM-94 bit stream for the given values.
   Statements only. *)
From PBK Require Import Base Bits BitsProofs Descr Walk Coder Float53 Decode Encode Spec SpecProofs.

(* Whenever the encoder accepts a value list for a template (any template: all
   operators, bitmaps, nested replication; any number of subsets), the data bits
   it writes are bit for bit the concatenation, subset after subset and in
   template order, of the fields of the canonical layout; the descriptors and
   attribute links it records are those of the layout. *)
Theorem C02_encode_canonical_uncompressed : forall T vals outs w,
  encode_uncompressed T vals = Ok (outs, w) ->
  exists fs, layout T vals = Ok (outs, fs) /\ write_fields fs [] = Ok w.
Proof. exact encode_canonical_uncompressed. Qed.
Print Assumptions C02_encode_canonical_uncompressed.

Theorem C02_encode_is_canonical_bits : forall T vals outs w,
  encode_uncompressed T vals = Ok (outs, w) -> canonical_bits T vals = Ok w.
Proof. exact encode_is_canonical_bits. Qed.
Print Assumptions C02_encode_is_canonical_bits.

(* what the fields are: MSB first, missing = all ones, strings space padded *)
Theorem C02_uint_field_bits : forall w v o, field_ok (FUint w v) = true ->
  write_field (FUint w v) o = Ok (o ++ to_bits (Z.to_nat w) (Z.to_N v)).
Proof. exact uint_field_bits. Qed.
Print Assumptions C02_uint_field_bits.

Theorem C02_layout_missing_all_ones : forall nbits scale refval s s1,
  (0 < nbits <= 64)%Z -> s_next s = Ok (VNone, s1) ->
  spec_numeric nbits scale refval s =
  Ok (mkS (s_fields s1 ++ [FUint nbits (2 ^ nbits - 1)]) (s_vals s1) (s_idx s1) (s_cur s1)).
Proof. exact layout_missing_all_ones. Qed.
Print Assumptions C02_layout_missing_all_ones.

Theorem C02_missing_field_bits : forall w o, (0 < w)%Z ->
  write_field (FUint w (2 ^ w - 1)) o = Ok (o ++ ones (Z.to_nat w)).
Proof. exact missing_field_bits. Qed.
Print Assumptions C02_missing_field_bits.

Theorem C02_bytes_field_bits : forall n b o, (0 <= n)%Z ->
  write_field (FBytes n b) o = Ok (o ++ bits_of_bytes (firstn (Z.to_nat n) b ++ repeat 32%N (Z.to_nat n - length b))).
Proof. exact bytes_field_bits. Qed.
Print Assumptions C02_bytes_field_bits.

(* and the fields can be read back one by one (C19) *)
Theorem C02_fields_read_back : forall fs o t,
  forallb field_ok fs = true ->
  exists e, write_fields fs o = Ok (o ++ e) /\ length e = fields_width fs /\
            read_fields fs (e ++ t) = Ok (map field_value fs, t).
Proof. exact fields_roundtrip. Qed.
Print Assumptions C02_fields_read_back.
