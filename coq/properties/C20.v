(* C20 — In-stream table definitions govern the messages that follow them.
   Statements only. *)
From PBK Require Import Base Descr PathParser TableDef TableDefProofs Cache CacheProofs.

(* an entry defined in the stream governs; descriptors the definitions do not
   mention keep their standard meaning *)
Theorem C20_extras_govern : forall wmo loc extras id e,
  lookup_assoc id extras = Some e -> lookup_merged wmo loc extras id = Some e.
Proof. exact extras_govern. Qed.
Print Assumptions C20_extras_govern.

Theorem C20_unmentioned_keep_standard_meaning : forall wmo loc extras id,
  lookup_assoc id extras = None -> lookup_merged wmo loc extras id = lookup_merged wmo loc [] id.
Proof. exact unmentioned_keep_standard_meaning. Qed.
Print Assumptions C20_unmentioned_keep_standard_meaning.

(* a later definition message replaces an earlier definition of the same key only *)
Theorem C20_add_extras_new_governs : forall old new id e,
  lookup_assoc id (rev new) = Some e -> lookup_assoc id (add_extras old new) = Some e.
Proof. exact add_extras_new_governs. Qed.
Print Assumptions C20_add_extras_new_governs.

Theorem C20_add_extras_keeps_old : forall old new id,
  lookup_assoc id (rev new) = None -> lookup_assoc id (add_extras old new) = lookup_assoc id old.
Proof. exact add_extras_keeps_old. Qed.
Print Assumptions C20_add_extras_keeps_old.

(* the Table B entry built from a definition subset has exactly the id, name,
   unit, +/-scale, +/-reference and width written in the message *)
Theorem C20_b_entry_fields : forall f x y n1 n2 u ss sc rs rv w rest scale ref nbits,
  Forall (fun t => forallb (fun c => (c <? 128)%N) t = true) [f; x; y; n1; n2; u; ss; sc; rs; rv; w] ->
  signed ss sc = Ok scale -> signed rs rv = Ok ref -> int_of (pystrip w) = Ok nbits ->
  b_one_entry (map VBytes [f; x; y; n1; n2; u; ss; sc; rs; rv; w] ++ rest) =
  Ok (mkB (f ++ x ++ y) (pyrstrip n1 ++ pyrstrip n2) (pystrip u) scale ref nbits, rest).
Proof. exact b_entry_fields. Qed.
Print Assumptions C20_b_entry_fields.

Theorem C20_signed_plus : forall num n, int_of (pystrip num) = Ok n -> signed [ch_plus] num = Ok n.
Proof. exact signed_plus. Qed.
Print Assumptions C20_signed_plus.
Theorem C20_signed_minus : forall num n, int_of (pystrip num) = Ok n -> signed [ch_minus] num = Ok (- n)%Z.
Proof. exact signed_minus. Qed.
Print Assumptions C20_signed_minus.

(* the sequence entry: exactly the listed members *)
Theorem C20_d_entry_fields : forall f x y nm ms rest,
  Forall (fun t => forallb (fun c => (c <? 128)%N) t = true) ([f; x; y; nm] ++ ms) ->
  d_one_entry (map VBytes [f; x; y; nm] ++ VInt (Z.of_nat (length ms)) :: map VBytes ms ++ rest) =
  Ok (mkDe (f ++ x ++ y) (pyrstrip nm) ms, rest).
Proof. exact d_entry_fields. Qed.
Print Assumptions C20_d_entry_fields.

(* definition then data: after any history in which every registration of extra
   entries directly follows an invalidation (as generate_bufr_message does), a
   table group is loaded with exactly the extras registered so far *)
Theorem C20_definition_then_data :
  forall (key group extras : Type) (key_eqb : key -> key -> bool)
         (load : key -> extras -> result group) (merge : extras -> extras -> extras),
  (forall a b, key_eqb a b = true -> a = b) ->
  forall (ops : list (tg_op key extras)) (e0 : extras) (L : nat) (k : key),
  guarded key extras true ops = true -> 1 <= L ->
  snd (tg_get key group extras key_eqb load L k
         (tg_run key group extras key_eqb load merge ops (tg_init key group extras e0)))
  = load k (extras_after key extras merge ops e0).
Proof. exact tg_get_pure_guarded. Qed.
Print Assumptions C20_definition_then_data.

(* ---- the NCEP repair applied to every template once extra entries exist (tables._fix_ncep_descriptors;
        model NcepFix.fixl, compared with the template the decoder used on every data message of every history).
        fixl_orig is /repo before "fix: NCEP replication repair leaves a replication with nothing to adopt alone" ---- *)
From PBK Require Import NcepFix NcepFixProofs NcepFixExamples.

(* a template with nothing to repair (no replication without members: every template built from well-formed
   standard tables) is left exactly as it is: descriptors the definitions do not touch keep their structure *)
Theorem C20_ncep_identity : forall ds, cleanl ds = true -> fixl ds = Ok ds.
Proof. exact fix_identity. Qed.
Print Assumptions C20_ncep_identity.

(* the repair never raises, whatever the template *)
Theorem C20_ncep_total : forall ds, exists ds', fixl ds = Ok ds'.
Proof. exact (proj2 fix_total). Qed.
Print Assumptions C20_ncep_total.

(* on a proper NCEP layout (an executable condition: the original repair does not raise) nothing is left to repair
   afterwards, at any depth (the adopted descriptor is repaired too) *)
Theorem C20_ncep_clean : forall ds ds', is_ok (fixl_orig ds) = true -> fixl ds = Ok ds' -> cleanl ds' = true.
Proof. exact fix_clean. Qed.
Print Assumptions C20_ncep_clean.

Theorem C20_ncep_idempotent : forall ds ds', is_ok (fixl_orig ds) = true -> fixl ds = Ok ds' -> fixl ds' = Ok ds'.
Proof. exact fix_idempotent. Qed.
Print Assumptions C20_ncep_idempotent.

(* the repair moves ownership only: the descriptors are processed in the same order as before *)
Theorem C20_ncep_same_processing_order : forall ds ds', fixl ds = Ok ds' -> leavesl ds' = leavesl ds.
Proof. exact (proj2 fix_leaves). Qed.
Print Assumptions C20_ncep_same_processing_order.

(* the adoption rule: a replication-only sequence replicates the (repaired) descriptor that follows it *)
Theorem C20_ncep_adopts_next : forall sid rep a r m rest,
  is_empty_rep rep = true -> desc_X (desc_id rep) = 1%N ->
  fixd a = Ok m -> fixl r = Ok rest ->
  fixl (DCons (DSeq sid (DCons rep DNil)) (DCons a r)) = Ok (DCons (set_members rep (DCons m DNil)) rest).
Proof. exact fix_adopts_next. Qed.
Print Assumptions C20_ncep_adopts_next.

(* the repaired code agrees with the original wherever the original did not raise ... *)
Theorem C20_ncep_agrees_orig : forall ds ds', fixl_orig ds = Ok ds' -> fixl ds = Ok ds'.
Proof. exact (proj2 fix_agrees_orig). Qed.
Print Assumptions C20_ncep_agrees_orig.

(* ... and the original raised an error that is not the library's on a template ending with a replication (D33, fixed) *)
Theorem C20_ncep_orig_refuted : exists ds e, fixl_orig ds = Err e /\ is_lib_err e = false /\ is_ok (fixl ds) = true.
Proof. exact fix_orig_refuted. Qed.
Print Assumptions C20_ncep_orig_refuted.

Theorem C20_ncep_nonvacuous :
  is_ok (fixl_orig tmpl) = true /\ cleanl tmpl = false /\ (match fixl tmpl with Ok t => cleanl t | Err _ => false end) = true.
Proof. split; [exact nested_repair_orig_ok|exact nested_repair_clean]. Qed.
Print Assumptions C20_ncep_nonvacuous.
