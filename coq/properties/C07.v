(* C07 — Bitmap-driven and associated attributes are linked to the element they
   qualify.  Statements only (coder side: which element a value is linked to). *)
From PBK Require Import Base Descr Walk Coder BitmapProofs DecodeLaws Decode.

(* the k-th selected descriptor is the one under the k-th zero bit *)
Theorem C07_select_zero_kth : forall bm refs k,
  length refs = length bm ->
  nth_error (select_zero bm refs) k =
  match kth_zero bm k with Some i => nth_error refs i | None => None end.
Proof. exact select_zero_kth. Qed.
Print Assumptions C07_select_zero_kth.

(* there are exactly as many selectable descriptors as zero bits *)
Theorem C07_kth_zero_none : forall bm k,
  kth_zero bm k = None <-> (length (filter (fun b => b) bm) <= k)%nat.
Proof. exact kth_zero_none. Qed.
Print Assumptions C07_kth_zero_none.

(* bits are matched to the N plain element descriptors that precede the operator *)
Theorem C07_backrefs_are_last_elements : forall boundary n dd, (0 < n)%nat ->
  collect_backrefs boundary n dd =
  let E := elems_indexed 0 (firstn (N.to_nat boundary) dd) in
  skipn (length E - n) E.
Proof. exact backrefs_are_last_elements. Qed.
Print Assumptions C07_backrefs_are_last_elements.

Theorem C07_backrefs_precede : forall boundary n dd idx e, (0 < n)%nat ->
  In (idx, e) (collect_backrefs boundary n dd) ->
  (idx < boundary)%N /\ nth_error dd (N.to_nat idx) = Some (DDElem e).
Proof. exact backrefs_precede. Qed.
Print Assumptions C07_backrefs_precede.

(* defining a bitmap selects exactly the zero-bit positions of the back references *)
Theorem C07_build_bitmapped_selects : forall {C} (bm : list bool) (s s' : ws (io C)) refs,
  get_backrefs (w_r s) (io_dd (w_c s)) (length bm) = Ok refs ->
  build_bitmapped bm s = Ok s' ->
  length refs = length bm /\
  r_next_bm (w_r s') = Some (select_zero bm refs) /\
  r_bitmapped (w_r s') = Some (select_zero bm refs) /\
  r_backrefs (w_r s') = Some refs.
Proof. exact @build_bitmapped_selects. Qed.
Print Assumptions C07_build_bitmapped_selects.

(* the k-th value after the definition is linked to the k-th selected descriptor *)
Theorem C07_kth_link_is_kth_selected : forall l k r b r',
  r_next_bm r = Some l -> next_k k r = Ok (b, r') -> nth_error l k = Some b.
Proof. exact kth_link_is_kth_selected. Qed.
Print Assumptions C07_kth_link_is_kth_selected.

(* 237000 recalls the selection and restarts the cursor; 235000 cancels the back references *)
Theorem C07_recall_restarts : forall {C} (P : prims C) (s s' : ws (io C)) l,
  r_bitmapped (w_r s) = Some l -> h_recall_bitmap (io_handlers P) s = Ok s' ->
  r_next_bm (w_r s') = Some l /\ r_bitmapped (w_r s') = Some l.
Proof. exact @recall_restarts. Qed.
Print Assumptions C07_recall_restarts.

Theorem C07_cancel_backrefs_forgets : forall {C} (P : prims C) (s s' : ws (io C)),
  h_cancel_backrefs (io_handlers P) s = Ok s' ->
  r_backrefs (w_r s') = None /\ r_bitmapped (w_r s') = None.
Proof. exact @cancel_backrefs_forgets. Qed.
Print Assumptions C07_cancel_backrefs_forgets.

(* difference statistics are coded with width + 1 and reference -2^width *)
Theorem C07_marker225_law : forall e,
  marker_elem 225255 e = mkElem (e_id e) (e_unit e) (e_scale e) (- 2 ^ e_nbits e) (e_nbits e + 1).
Proof. exact marker225_law. Qed.
Print Assumptions C07_marker225_law.

(* ---- the hierarchical view (templatedata.py wire) -------------------------------- *)
From PBK Require Import Wire WireProofs WireAttrs.

(* every attribute shown in the hierarchical view is where the links (or the 204 rule)
   put it: an associated field hangs on the element it precedes; any other attribute of
   a node is a bitmap-driven value whose link designates exactly that node, or a meaning
   node (031021 / 008023 / 008024) wired earlier.  For every template on which wiring
   succeeds, every value list and every link map. *)
Theorem C07_wire_attrs_sound : forall ndesc vals links T nodes s,
  wire ndesc vals links T = Ok (nodes, s) ->
  forall o a b, In (o, a, b) (x_attrs s) ->
    (b = true -> o = (a + 1)%N) /\
    (b = false -> link_of links a = Some o \/ (a < o)%N).
Proof. exact wire_attrs_sound. Qed.
Print Assumptions C07_wire_attrs_sound.

(* a marker operator's value (223255 / 224255 / 225255 / 232255) becomes an attribute of
   exactly the node the coder linked it to *)
Theorem C07_marker_value_attribute : forall ndesc links id s n s',
  ((id / 1000 =? 223) || (id / 1000 =? 224) || (id / 1000 =? 225) || (id / 1000 =? 232))%N = true ->
  (Z.of_N (id mod 1000) =? 0)%Z = false ->
  J links s -> wire_operator ndesc links id s = Ok (n, s') ->
  exists i o, n = WValue i /\ link_of links i = Some o /\ In (o, i, false) (x_attrs s').
Proof. exact marker_value_attribute. Qed.
Print Assumptions C07_marker_value_attribute.
