(* C12 — Damage is detected, reported as a library error, and isolated to one
   message.  Statements only. *)
From PBK Require Import Base Bits BitsProofs Descr Walk Coder Decode DecodeLaws DecodeProofs RoundTrip Stream StreamProofs.

(* No proper prefix of the data of a valid message decodes successfully *)
Theorem C12_decode_prefix_fails : forall T vals outs w g w' x,
  encode_ghost T vals = Ok (outs, w, g) -> w = w' ++ x -> x <> [] ->
  forall r, decode_uncompressed T (length vals) w' <> Ok r.
Proof. exact decode_prefix_fails. Qed.
Print Assumptions C12_decode_prefix_fails.

(* ... and what stops the decoder on a truncated stream is the library's bit-read error *)
Theorem C12_read_past_end_uint : forall w r,
  (0 < w)%Z -> (length r < Z.to_nat w)%nat -> read_uint w r = Err EBitRead.
Proof. exact read_past_end_uint. Qed.
Print Assumptions C12_read_past_end_uint.
Theorem C12_read_past_end_bytes : forall n r,
  (0 <= n)%Z -> (length r < 8 * Z.to_nat n)%nat -> read_bytes n r = Err EBitRead.
Proof. exact read_past_end_bytes. Qed.
Print Assumptions C12_read_past_end_bytes.
Theorem C12_bitread_is_library_error : is_lib_err EBitRead = true.
Proof. exact bitread_is_lib. Qed.
Print Assumptions C12_bitread_is_library_error.

(* bytes that follow a message never influence its decoding *)
Theorem C12_decode_suffix_independent : forall T n b t outs vals rest,
  decode_uncompressed T n b = Ok (outs, vals, rest) ->
  decode_uncompressed T n (b ++ t) = Ok (outs, vals, rest ++ t).
Proof. exact decode_suffix_independent. Qed.
Print Assumptions C12_decode_suffix_independent.

(* an undefined descriptor that is reached is the unknown-descriptor (library) error *)
Theorem C12_undefined_descriptor : forall id (s : ws (io dstate)),
  walk (io_handlers dec_prims) io_add_link (DUndefElem id) s = Err EUnknownDescriptor /\
  walk (io_handlers dec_prims) io_add_link (DUndefSeq id) s = Err EUnknownDescriptor.
Proof. exact undefined_descriptor_law. Qed.
Print Assumptions C12_undefined_descriptor.

(* The stream level (stated over an arbitrary decoder; see C11.v for the
   hypotheses full_ok / info_ok / full_fails): with continue-on-error a damaged
   message whose failure is a LIBRARY error and whose declared total length is
   intact is skipped exactly and all others are delivered unchanged and in
   order; without it the preceding messages are delivered and the library error
   then surfaces; a non-library error would escape (why the repair of the
   assert in decoder.process_section matters). *)
Theorem C12_scan_continue_skips :
  forall (process process_info : list byte -> result msginfo)
         (filt : msginfo -> result bool) (hook : msginfo -> result unit)
         (good : list byte -> bool) (sep0 : list byte) (l : list (list byte * list byte)),
  nosig sep0 ->
  stream_ok (fun m => if good m then full_ok process hook m
                      else (exists e, is_lib_err e = true /\ full_fails process m e) /\
                           info_ok process_info m) l ->
  generate process process_info filt hook false true false (sep0 ++ assemble l)
  = (filter good (map fst l), None).
Proof. exact scan_continue_skips. Qed.
Print Assumptions C12_scan_continue_skips.

Theorem C12_scan_stops_at_library_error :
  forall (process process_info : list byte -> result msginfo)
         (filt : msginfo -> result bool) (hook : msginfo -> result unit)
         (io : bool) (sep0 : list byte) (l : list (list byte * list byte))
         (m rest : list byte) (e : err),
  nosig sep0 -> stream_ok (valid_msg process process_info hook io) l ->
  starts_sig m -> fails process process_info io m e -> is_lib_err e = true ->
  generate process process_info filt hook io false false (sep0 ++ assemble l ++ m ++ rest)
  = (map fst l, Some e).
Proof. exact scan_stops_at_library_error. Qed.
Print Assumptions C12_scan_stops_at_library_error.

Theorem C12_non_library_error_escapes :
  forall (process process_info : list byte -> result msginfo)
         (filt : msginfo -> result bool) (hook : msginfo -> result unit)
         (io coe : bool) (sep0 : list byte) (l : list (list byte * list byte))
         (m rest : list byte) (e : err),
  nosig sep0 -> stream_ok (valid_msg process process_info hook io) l ->
  starts_sig m -> fails process process_info io m e -> is_lib_err e = false ->
  generate process process_info filt hook io coe false (sep0 ++ assemble l ++ m ++ rest)
  = (map fst l, Some (gen_exc e)).
Proof. exact non_library_error_escapes. Qed.
Print Assumptions C12_non_library_error_escapes.

(* ======================================================================== *)
(* MESSAGE level (the section framing model Frame.v; the template decoder is *)
(* the abstract [decode_data], constrained exactly by what is proved of the   *)
(* data-level decoder: it reads from the front, and what follows the bits it  *)
(* consumed does not influence it — C12_decode_suffix_independent)            *)
(* ======================================================================== *)
From PBK Require Import Frame FrameProofs FrameRoundtrip FrameExamples FramePrefix.

(* bytes that follow a message never influence its decoding: whatever is
   appended, the decoder returns the SAME message record — same sections
   (indices, layouts, extents, values), same attributes, same serialized bytes;
   full or metadata-only, with or without value expectations, any signature *)
Theorem C12_message_trailing_bytes :
  forall (decode_data : list (pname * pvalue) -> reader -> result (bits * reader)),
  (forall p r b r', decode_data p r = Ok (b, r') -> r = b ++ r') ->
  (forall p r b r' s, decode_data p r = Ok (b, r') -> decode_data p (r ++ s) = Ok (b, r' ++ s)) ->
  forall sig info ign s t m,
  decode_message decode_data sig info ign s = Ok m ->
  decode_message decode_data sig info ign (s ++ t) = Ok m /\
  exists before after, s ++ t = before ++ m_bytes m ++ after ++ t.
Proof. exact message_trailing_bytes. Qed.
Print Assumptions C12_message_trailing_bytes.

(* the same, hypotheses discharged, for the template-decoder stub of the
   correspondence runs (templates of 031031 only) *)
Theorem C12_message_trailing_bytes_stub : forall sig info ign s t m,
  decode_message stub_dd sig info ign s = Ok m ->
  decode_message stub_dd sig info ign (s ++ t) = Ok m.
Proof. exact message_trailing_bytes_stub. Qed.
Print Assumptions C12_message_trailing_bytes_stub.

Example C12_message_trailing_bytes_nonvacuous :
  is_ok (decode_message stub_dd (Some sig_BUFR) false false ex_bytes) = true /\
  is_ok (decode_message stub_dd (Some sig_BUFR) true false ex_bytes) = true /\
  decode_message stub_dd (Some sig_BUFR) false false (ex_bytes ++ [66; 85; 70; 82; 0; 0; 9]%N)
    = decode_message stub_dd (Some sig_BUFR) false false ex_bytes.
Proof. repeat split; vm_compute; reflexivity. Qed.
