(* C12 — Damage is detected, reported as a library error, and isolated to one
   message.  Statements only. *)
From PBK Require Import Base Bits BitsProofs Descr Walk Coder Decode DecodeLaws DecodeProofs RoundTrip Stream StreamProofs.

(* No proper prefix of the data of a valid message decodes successfully *)
Theorem C12_decode_prefix_fails : forall T vals outs w g w' x,
  encode_ghost T vals = Ok (outs, w, g) -> w = w' ++ x -> x <> [] ->
  forall r, decode_uncompressed T (length vals) w' <> Ok r.
Proof. exact decode_prefix_fails. Qed.
Print Assumptions C12_decode_prefix_fails.

(* ... and what stops the decoder on a truncated stream is the library's bit-read error *)
Theorem C12_read_past_end_uint : forall w r,
  (0 < w)%Z -> (length r < Z.to_nat w)%nat -> read_uint w r = Err EBitRead.
Proof. exact read_past_end_uint. Qed.
Print Assumptions C12_read_past_end_uint.
Theorem C12_read_past_end_bytes : forall n r,
  (0 <= n)%Z -> (length r < 8 * Z.to_nat n)%nat -> read_bytes n r = Err EBitRead.
Proof. exact read_past_end_bytes. Qed.
Print Assumptions C12_read_past_end_bytes.
Theorem C12_bitread_is_library_error : is_lib_err EBitRead = true.
Proof. exact bitread_is_lib. Qed.
Print Assumptions C12_bitread_is_library_error.

(* bytes that follow a message never influence its decoding *)
Theorem C12_decode_suffix_independent : forall T n b t outs vals rest,
  decode_uncompressed T n b = Ok (outs, vals, rest) ->
  decode_uncompressed T n (b ++ t) = Ok (outs, vals, rest ++ t).
Proof. exact decode_suffix_independent. Qed.
Print Assumptions C12_decode_suffix_independent.

(* an undefined descriptor that is reached is the unknown-descriptor (library) error *)
Theorem C12_undefined_descriptor : forall id (s : ws (io dstate)),
  walk (io_handlers dec_prims) io_add_link (DUndefElem id) s = Err EUnknownDescriptor /\
  walk (io_handlers dec_prims) io_add_link (DUndefSeq id) s = Err EUnknownDescriptor.
Proof. exact undefined_descriptor_law. Qed.
Print Assumptions C12_undefined_descriptor.

(* The stream level (stated over an arbitrary decoder; see C11.v for the
   hypotheses full_ok / info_ok / full_fails): with continue-on-error a damaged
   message whose failure is a LIBRARY error and whose declared total length is
   intact is skipped exactly and all others are delivered unchanged and in
   order; without it the preceding messages are delivered and the library error
   then surfaces; a non-library error would escape (why the repair of the
   assert in decoder.process_section matters). *)
Theorem C12_scan_continue_skips :
  forall (process process_info : list byte -> result msginfo)
         (filt : msginfo -> result bool) (hook : msginfo -> result unit)
         (good : list byte -> bool) (sep0 : list byte) (l : list (list byte * list byte)),
  nosig sep0 ->
  stream_ok (fun m => if good m then full_ok process hook m
                      else (exists e, is_lib_err e = true /\ full_fails process m e) /\
                           info_ok process_info m) l ->
  generate process process_info filt hook false true false (sep0 ++ assemble l)
  = (filter good (map fst l), None).
Proof. exact scan_continue_skips. Qed.
Print Assumptions C12_scan_continue_skips.

Theorem C12_scan_stops_at_library_error :
  forall (process process_info : list byte -> result msginfo)
         (filt : msginfo -> result bool) (hook : msginfo -> result unit)
         (io : bool) (sep0 : list byte) (l : list (list byte * list byte))
         (m rest : list byte) (e : err),
  nosig sep0 -> stream_ok (valid_msg process process_info hook io) l ->
  starts_sig m -> fails process process_info io m e -> is_lib_err e = true ->
  generate process process_info filt hook io false false (sep0 ++ assemble l ++ m ++ rest)
  = (map fst l, Some e).
Proof. exact scan_stops_at_library_error. Qed.
Print Assumptions C12_scan_stops_at_library_error.

Theorem C12_non_library_error_escapes :
  forall (process process_info : list byte -> result msginfo)
         (filt : msginfo -> result bool) (hook : msginfo -> result unit)
         (io coe : bool) (sep0 : list byte) (l : list (list byte * list byte))
         (m rest : list byte) (e : err),
  nosig sep0 -> stream_ok (valid_msg process process_info hook io) l ->
  starts_sig m -> fails process process_info io m e -> is_lib_err e = false ->
  generate process process_info filt hook io coe false (sep0 ++ assemble l ++ m ++ rest)
  = (map fst l, Some (gen_exc e)).
Proof. exact non_library_error_escapes. Qed.
Print Assumptions C12_non_library_error_escapes.

(* ======================================================================== *)
(* MESSAGE level (the section framing model Frame.v; the template decoder is *)
(* the abstract [decode_data], constrained exactly by what is proved of the   *)
(* data-level decoder: it reads from the front, and what follows the bits it  *)
(* consumed does not influence it — C12_decode_suffix_independent)            *)
(* ======================================================================== *)
From PBK Require Import Frame FrameProofs FrameRoundtrip FrameExamples FramePrefix FramePrefixEnc.

(* bytes that follow a message never influence its decoding: whatever is
   appended, the decoder returns the SAME message record — same sections
   (indices, layouts, extents, values), same attributes, same serialized bytes;
   full or metadata-only, with or without value expectations, any signature *)
Theorem C12_message_trailing_bytes :
  forall (decode_data : list (pname * pvalue) -> reader -> result (bits * reader)),
  (forall p r b r', decode_data p r = Ok (b, r') -> r = b ++ r') ->
  (forall p r b r' s, decode_data p r = Ok (b, r') -> decode_data p (r ++ s) = Ok (b, r' ++ s)) ->
  forall sig info ign s t m,
  decode_message decode_data sig info ign s = Ok m ->
  decode_message decode_data sig info ign (s ++ t) = Ok m /\
  exists before after, s ++ t = before ++ m_bytes m ++ after ++ t.
Proof. exact message_trailing_bytes. Qed.
Print Assumptions C12_message_trailing_bytes.

(* the same, hypotheses discharged, for the template-decoder stub of the
   correspondence runs (templates of 031031 only) *)
Theorem C12_message_trailing_bytes_stub : forall sig info ign s t m,
  decode_message stub_dd sig info ign s = Ok m ->
  decode_message stub_dd sig info ign (s ++ t) = Ok m.
Proof. exact message_trailing_bytes_stub. Qed.
Print Assumptions C12_message_trailing_bytes_stub.

Example C12_message_trailing_bytes_nonvacuous :
  is_ok (decode_message stub_dd (Some sig_BUFR) false false ex_bytes) = true /\
  is_ok (decode_message stub_dd (Some sig_BUFR) true false ex_bytes) = true /\
  decode_message stub_dd (Some sig_BUFR) false false (ex_bytes ++ [66; 85; 70; 82; 0; 0; 9]%N)
    = decode_message stub_dd (Some sig_BUFR) false false ex_bytes.
Proof. repeat split; vm_compute; reflexivity. Qed.

(* ---- truncation ------------------------------------------------------------- *)
(* [cuts f]: whenever the reader operation f succeeds on a stream R consuming the
   prefix e, then on EVERY truncation firstn k R it returns the same value (and
   the truncated rest) when e fits, and fails with a LIBRARY error otherwise.
   Assumed of the template decoder (a read past the end is BitReadError:
   C12_read_past_end_uint / _bytes); proved of every bit-reader primitive, of the parameter
   loop, of decode_section, of the section loop (FramePrefix.v). *)

(* THE cut theorem: for ANY input s that decodes to m (not only encoder output;
   full or metadata-only; any signature; with or without value expectations)
   and EVERY k: the first k octets of s decode to the SAME message when they
   still hold the signature and every bit that was consumed
   [holds_message: sig_index + |sig| <= k  and  8*sig_index + consumed bits <= 8*k],
   and fail with a library error otherwise.  No truncation point has any other
   outcome — in particular none yields a different message or a non-library error. *)
Theorem C12_message_cut :
  forall (decode_data : list (pname * pvalue) -> reader -> result (bits * reader)),
  (forall p, cuts (decode_data p)) ->
  forall sig info ign s m,
  decode_message decode_data sig info ign s = Ok m ->
  forall k,
    if holds_message sig s m k
    then decode_message decode_data sig info ign (firstn k s) = Ok m
    else lib_fail (decode_message decode_data sig info ign (firstn k s)).
Proof. exact message_cut. Qed.
Print Assumptions C12_message_cut.

(* No proper prefix of a valid message decodes successfully, and the failure is
   the library's own error type: every message the encoder produces (editions as
   encoded, section 2 present or not, lengths recomputed or honoured; the
   hypotheses of C04_frame_roundtrip), EVERY truncation point k < |message|.
   [lib_fail x] = exists e, x = Err e /\ is_lib_err e = true. *)
Theorem C12_encoded_prefix_fails :
  forall (decode_data : list (pname * pvalue) -> reader -> result (bits * reader)),
  (forall p r b r', decode_data p r = Ok (b, r') -> r = b ++ r') ->
  (forall p r b r' s, decode_data p r = Ok (b, r') -> decode_data p (r ++ s) = Ok (b, r' ++ s)) ->
  (forall p, cuts (decode_data p)) ->
  forall ign json m k,
  encode_message ign json = Ok m ->
  Forall sec_fits (m_sections m) -> Forall desc_fill_ok (m_sections m) ->
  data_ok decode_data [] (m_sections m) ->
  (k < length (m_bytes m))%nat ->
  lib_fail (decode_message decode_data (Some sig_BUFR) false false (firstn k (m_bytes m))).
Proof. exact encoded_prefix_fails. Qed.
Print Assumptions C12_encoded_prefix_fails.

(* Metadata-only decoding skips to the declared end of section 4 and never looks
   at section 5.  Exact bound: it succeeds — with one and the same result, which
   consumed all but the last four octets — on exactly the prefixes of length
   >= |message| - 4 and fails with a library error on every shorter one (a cut
   inside the data section's CONTENT fails too: the skip to the section's
   declared end is a read). *)
Theorem C12_encoded_info_prefix :
  forall (decode_data : list (pname * pvalue) -> reader -> result (bits * reader)),
  (forall p r b r', decode_data p r = Ok (b, r') -> r = b ++ r') ->
  (forall p r b r' s, decode_data p r = Ok (b, r') -> decode_data p (r ++ s) = Ok (b, r' ++ s)) ->
  (forall p, cuts (decode_data p)) ->
  forall ign json m,
  encode_message ign json = Ok m ->
  Forall sec_fits (m_sections m) -> Forall desc_fill_ok (m_sections m) ->
  data_ok decode_data [] (m_sections m) ->
  exists mi,
    decode_message decode_data (Some sig_BUFR) true false (m_bytes m) = Ok mi /\
    sections_nbits (m_sections mi) = (8 * (length (m_bytes m) - 4))%nat /\
    forall k,
      ((length (m_bytes m) - 4 <= k)%nat ->
         decode_message decode_data (Some sig_BUFR) true false (firstn k (m_bytes m)) = Ok mi) /\
      ((k < length (m_bytes m) - 4)%nat ->
         lib_fail (decode_message decode_data (Some sig_BUFR) true false (firstn k (m_bytes m)))).
Proof. exact encoded_info_prefix. Qed.
Print Assumptions C12_encoded_info_prefix.

(* the same with every hypothesis discharged or executable: the template-decoder
   stub of the correspondence runs (templates of 031031 only) *)
Theorem C12_message_cut_stub : forall sig info ign s m,
  decode_message stub_dd sig info ign s = Ok m ->
  forall k,
    if holds_message sig s m k
    then decode_message stub_dd sig info ign (firstn k s) = Ok m
    else lib_fail (decode_message stub_dd sig info ign (firstn k s)).
Proof. exact message_cut_stub. Qed.
Print Assumptions C12_message_cut_stub.

Theorem C12_encoded_prefix_fails_stub : forall ign json m k,
  encode_message ign json = Ok m ->
  forallb sec_fitsb (m_sections m) = true -> forallb desc_fill_okb (m_sections m) = true ->
  data_okb stub_dd [] (m_sections m) = true ->
  (k < length (m_bytes m))%nat ->
  lib_fail (decode_message stub_dd (Some sig_BUFR) false false (firstn k (m_bytes m))).
Proof. exact encoded_prefix_fails_stub. Qed.
Print Assumptions C12_encoded_prefix_fails_stub.

Theorem C12_encoded_info_prefix_stub : forall ign json m,
  encode_message ign json = Ok m ->
  forallb sec_fitsb (m_sections m) = true -> forallb desc_fill_okb (m_sections m) = true ->
  data_okb stub_dd [] (m_sections m) = true ->
  exists mi,
    decode_message stub_dd (Some sig_BUFR) true false (m_bytes m) = Ok mi /\
    sections_nbits (m_sections mi) = (8 * (length (m_bytes m) - 4))%nat /\
    forall k,
      ((length (m_bytes m) - 4 <= k)%nat ->
         decode_message stub_dd (Some sig_BUFR) true false (firstn k (m_bytes m)) = Ok mi) /\
      ((k < length (m_bytes m) - 4)%nat ->
         lib_fail (decode_message stub_dd (Some sig_BUFR) true false (firstn k (m_bytes m)))).
Proof. exact encoded_info_prefix_stub. Qed.
Print Assumptions C12_encoded_info_prefix_stub.

(* non-vacuity: three concrete messages (edition 3 with section 2, edition 4
   without, edition 2 with) satisfy the executable hypotheses; they decode; every
   one of their proper prefixes fails with a library error (computed, all k);
   metadata-only: every k < |m| - 4 fails with a library error, every k >= |m| - 4
   succeeds *)
Example C12_truncation_nonvacuous :
  ex_hyps (ex_json 0 0 0 0) = true /\ ex_hyps ex4_json = true /\ ex_hyps ex2_json = true /\
  ex_all_prefixes_fail (ex_json 0 0 0 0) = true /\ ex_all_prefixes_fail ex4_json = true /\
  ex_all_prefixes_fail ex2_json = true /\
  ex_info_prefixes (ex_json 0 0 0 0) = true /\ ex_info_prefixes ex4_json = true /\
  ex_info_prefixes ex2_json = true.
Proof. exact truncation_nonvacuous. Qed.

(* ---- the REAL template decoders ------------------------------------------------- *)
From PBK Require Import Column DecodeC FramePrefixData.

(* Data-level truncation theorem.  Decode.decode_uncompressed and
   DecodeC.decode_compressed — the full template walk of Walk.v, ANY template T,
   any number of subsets — CUT: on every truncation of a stream they decode, they
   return the same descriptors, links and values when the bits they consumed
   fit, and fail with a LIBRARY error otherwise (instance 4 of the generic
   simulation theorem WalkSim.walk_sim_gen: the truncated run follows the full
   run until a read passes the end, which is BitReadError). *)
Theorem C12_decode_uncompressed_cuts : forall T n, cuts (decode_uncompressed T n).
Proof. exact decode_uncompressed_cuts. Qed.
Print Assumptions C12_decode_uncompressed_cuts.

Theorem C12_decode_compressed_cuts : forall T n, cuts (decode_compressed T n).
Proof. exact decode_compressed_cuts. Qed.
Print Assumptions C12_decode_compressed_cuts.

(* The framing model with the real data decoders plugged in:
   [dd_template T_of n_of c_of props r] decodes r with the template T_of props,
   n_of props subsets, compressed iff c_of props, and returns the bits consumed
   (how the attributes of sections 1 and 3 determine the expanded template — table
   lookup — is outside the framing model, hence arbitrary functions).
   NO hypothesis about the template decoder is left. *)
Theorem C12_message_trailing_bytes_template : forall T_of n_of c_of sig info ign s t m,
  decode_message (dd_template T_of n_of c_of) sig info ign s = Ok m ->
  decode_message (dd_template T_of n_of c_of) sig info ign (s ++ t) = Ok m.
Proof. exact message_trailing_bytes_template. Qed.
Print Assumptions C12_message_trailing_bytes_template.

Theorem C12_message_cut_template : forall T_of n_of c_of sig info ign s m,
  decode_message (dd_template T_of n_of c_of) sig info ign s = Ok m ->
  forall k,
    if holds_message sig s m k
    then decode_message (dd_template T_of n_of c_of) sig info ign (firstn k s) = Ok m
    else lib_fail (decode_message (dd_template T_of n_of c_of) sig info ign (firstn k s)).
Proof. exact message_cut_template. Qed.
Print Assumptions C12_message_cut_template.

Theorem C12_encoded_prefix_fails_template : forall T_of n_of c_of ign json m k,
  encode_message ign json = Ok m ->
  forallb sec_fitsb (m_sections m) = true -> forallb desc_fill_okb (m_sections m) = true ->
  data_okb (dd_template T_of n_of c_of) [] (m_sections m) = true ->
  (k < length (m_bytes m))%nat ->
  lib_fail (decode_message (dd_template T_of n_of c_of) (Some sig_BUFR) false false (firstn k (m_bytes m))).
Proof. exact encoded_prefix_fails_template. Qed.
Print Assumptions C12_encoded_prefix_fails_template.

Theorem C12_encoded_info_prefix_template : forall T_of n_of c_of ign json m,
  encode_message ign json = Ok m ->
  forallb sec_fitsb (m_sections m) = true -> forallb desc_fill_okb (m_sections m) = true ->
  data_okb (dd_template T_of n_of c_of) [] (m_sections m) = true ->
  exists mi,
    decode_message (dd_template T_of n_of c_of) (Some sig_BUFR) true false (m_bytes m) = Ok mi /\
    sections_nbits (m_sections mi) = (8 * (length (m_bytes m) - 4))%nat /\
    forall k,
      ((length (m_bytes m) - 4 <= k)%nat ->
         decode_message (dd_template T_of n_of c_of) (Some sig_BUFR) true false (firstn k (m_bytes m)) = Ok mi) /\
      ((k < length (m_bytes m) - 4)%nat ->
         lib_fail (decode_message (dd_template T_of n_of c_of) (Some sig_BUFR) true false (firstn k (m_bytes m)))).
Proof. exact encoded_info_prefix_template. Qed.
Print Assumptions C12_encoded_info_prefix_template.

(* non-vacuity: a template with a numeric element, a delayed replication (factor
   031001) of a scaled element and a string; two subsets; edition 4; once
   uncompressed (2 and 0 repetitions) and once compressed (columns with and
   without increments): the executable hypotheses hold, the message decodes,
   EVERY proper prefix fails with a library error (computed, all k), and
   metadata-only decoding succeeds exactly from |m| - 4 on *)
Example C12_real_truncation_nonvacuous :
  ex_real_check (exu_json false ex_data) = true /\ ex_real_check (exu_json true ex_data_c) = true.
Proof. exact real_truncation_nonvacuous. Qed.

(* ======================================================================== *)
(* END TO END: damage and the CONCRETE scanner (StreamFrame.v, see C11.v)     *)
(* ======================================================================== *)
From PBK Require Import StreamFrame StreamFrameProofs StreamFrameDamage StreamFrameOverrun StreamFrameRefused
  StreamFrameDamageStream StreamFrameTemplate.

(* the section loop of a full decode splits where section 5 begins: all that
   comes before is a function of the bits e consumed by sections 0..4 alone —
   whatever REPLACES the rest of the stream is handed to section 5 *)
Theorem C12_decode_sections_upto5 :
  forall (dd : list (pname * pvalue) -> reader -> result (bits * reader)),
  (forall p r b r', dd p r = Ok (b, r') -> r = b ++ r') ->
  (forall p r b r' s, dd p r = Ok (b, r') -> dd p (r ++ s) = Ok (b, r' ++ s)) ->
  (forall p, cuts (dd p)) ->
  forall idxs props secs R secs' props' r',
  decode_sections dd definitions false false idxs props secs R = Ok (secs', props', r') ->
  exists e pre props5 r5,
    R = e ++ r5 /\
    forall x, decode_sections dd definitions false false idxs props secs (e ++ x) =
              let* (sec, p1, r1) := decode_section dd section5 props5 x in Ok (pre ++ [sec], p1, r1).
Proof. exact decode_sections_upto5. Qed.
Print Assumptions C12_decode_sections_upto5.

(* DAMAGE 1, message level: an encoded message (hypotheses of
   C04_frame_roundtrip) whose last four octets are replaced by any four octets
   other than '7777', followed by ANY bytes: the full decode (as the scanner calls
   it: no signature search, value expectations on) fails with the library's own
   error PyBufrKitError — not with an AssertionError (repair b8d3cfd), not by
   reading on into what follows *)
Theorem C12_damaged_stop_signature_fails :
  forall (dd : list (pname * pvalue) -> reader -> result (bits * reader)),
  (forall p r b r', dd p r = Ok (b, r') -> r = b ++ r') ->
  (forall p r b r' s, dd p r = Ok (b, r') -> dd p (r ++ s) = Ok (b, r' ++ s)) ->
  (forall p, cuts (dd p)) ->
  forall ign json m (x4 : list byte) t,
  encode_message ign json = Ok m ->
  Forall sec_fits (m_sections m) -> Forall desc_fill_ok (m_sections m) -> data_ok dd [] (m_sections m) ->
  length x4 = 4%nat -> forallb is_byte x4 = true -> bytes_eqb x4 sig_7777 = false ->
  decode_message dd None false false (firstn (length (m_bytes m) - 4) (m_bytes m) ++ x4 ++ t) = Err ELib.
Proof. exact damaged_stop_signature_fails. Qed.
Print Assumptions C12_damaged_stop_signature_fails.

Theorem C12_ELib_is_library_error : is_lib_err ELib = true.
Proof. reflexivity. Qed.
Print Assumptions C12_ELib_is_library_error.

(* DAMAGE 2, message level: a declared section length DECREASED.  For an encoded
   message the last two sections are 4 and 5 and section 4 carries (declared
   length sl, reserved bits, data).  dmg_len4 b sl v = b with the three octets
   at |b| - 4 - sl (the length field of section 4) overwritten by v.  If 8 v bits
   cannot hold the section's content (32 + |data| bits), the full decode of the
   damaged message followed by ANY bytes is the library's overrun error
   (C04 decode_overrun_error) — it neither succeeds nor reads on; if moreover
   4 <= v <= sl the metadata-only decode still succeeds, with one and the same
   result whatever follows, and reports the intact total length *)
Theorem C12_damaged_section4_length :
  forall (dd : list (pname * pvalue) -> reader -> result (bits * reader)),
  (forall p r b r', dd p r = Ok (b, r') -> r = b ++ r') ->
  (forall p r b r' s, dd p r = Ok (b, r') -> dd p (r ++ s) = Ok (b, r' ++ s)) ->
  (forall p, cuts (dd p)) ->
  forall ign json m,
  encode_message ign json = Ok m ->
  Forall sec_fits (m_sections m) -> Forall desc_fill_ok (m_sections m) -> data_ok dd [] (m_sections m) ->
  exists pre s4 s5 sl rb data,
    m_sections m = pre ++ [s4; s5] /\
    sec_values s4 = [(Nsection_length, PUint sl); (Nreserved_bits, rb); (Ntemplate_data, PData data)] /\
    (0 <= sl)%Z /\ (Z.to_nat sl + 8 <= length (m_bytes m))%nat /\
    forall v, (0 <= v < 2 ^ 24)%Z -> (8 * v < 32 + Z.of_nat (length data))%Z ->
      length (dmg_len4 (m_bytes m) sl v) = length (m_bytes m) /\ starts_sig (dmg_len4 (m_bytes m) sl v) /\
      (forall t, decode_message dd None false false (dmg_len4 (m_bytes m) sl v ++ t) = Err ELib) /\
      ((4 <= v <= sl)%Z ->
         exists mi, (forall t, decode_message dd None true false (dmg_len4 (m_bytes m) sl v ++ t) = Ok mi) /\
                    prop_get Nlength (m_props mi) = Some (PUint (Z.of_nat (length (m_bytes m))))).
Proof. exact damaged_section4_length. Qed.
Print Assumptions C12_damaged_section4_length.

(* DAMAGE 3, message level: the descriptor list of section 3 damaged so that the
   template decoder refuses it whatever the data bits are (an undefined
   descriptor).  Such a message is itself an encoder output — same framing, same
   lengths: msg_wfb with the yardstick decoder [take_dd nd] says that its section
   4 holds nd data bits — on which the template decoder, called with the
   attributes of sections 0..3 [props4_of m], fails.  NOTHING is assumed of dd:
   the full decode fails with that very error whatever follows; the metadata-only
   decode (it never calls the template decoder) is intact *)
Theorem C12_e2e_refused_hyps :
  forall (dd : list (pname * pvalue) -> reader -> result (bits * reader)) view ign json m sl nd e,
  encode_message ign json = Ok m ->
  sec4_info m = Some (sl, nd) -> msg_wfb (take_dd nd) m = true ->
  (forall r, dd (props4_of m) r = Err e) ->
  starts_sig (m_bytes m) /\
  full_fails (frame_process dd view false) (m_bytes m) e /\
  info_ok (frame_process dd view true) (m_bytes m).
Proof. exact refused_hyps. Qed.
Print Assumptions C12_e2e_refused_hyps.

(* executable tests for "refused whatever the data", proved sound: for the real
   template decoders [template_refusesb]: the expanded template begins with an
   undefined element or sequence descriptor (and there is a subset to decode);
   for the stub of the correspondence runs: any descriptor other than 031031 *)
Theorem C12_template_refusesb_sound : forall T_of n_of c_of props,
  template_refusesb T_of n_of c_of props = true ->
  forall r, dd_template T_of n_of c_of props r = Err EUnknownDescriptor.
Proof. exact template_refusesb_sound. Qed.
Print Assumptions C12_template_refusesb_sound.

Theorem C12_stub_refusesb_sound : forall props, stub_refusesb props = true ->
  forall r, stub_dd props r = Err EUnknownDescriptor.
Proof. exact stub_refusesb_sound. Qed.
Print Assumptions C12_stub_refusesb_sound.

(* what the scanner theorems ask of a damaged message, all of it, with the real
   template decoders and executable conditions only.
     damage = DStop x4 (last four octets := x4) | DLen4 v (length field of section 4 := v)
              | DRefused (the item is a message with a refused descriptor list)
     damage_okb m (DStop x4) = x4 is four octets, not '7777'
     damage_okb m (DLen4 v)  = 4 <= v <= sl, v < 2^24, 8 v < 32 + |data|, where
                               sec4_info m = Some (sl, |data|) is read off the
                               second-to-last section of the encoded message
     damage_err d            = EUnknownDescriptor for DRefused, ELib otherwise
   The damaged message still starts with 'BUFR' and has the same length; its full
   decode fails with the library error whatever follows [full_fails]; its
   metadata-only decode succeeds whatever follows with the declared length intact [info_ok] *)
Theorem C12_e2e_damaged_hyps_template : forall T_of n_of c_of view ign json m d,
  encode_message ign json = Ok m -> msg_wfb (dd_template T_of n_of c_of) m = true -> damage_okb m d = true ->
  starts_sig (damage_bytes m d) /\ length (damage_bytes m d) = length (m_bytes m) /\
  full_fails (frame_process (dd_template T_of n_of c_of) view false) (damage_bytes m d) (damage_err d) /\
  info_ok (frame_process (dd_template T_of n_of c_of) view true) (damage_bytes m d).
Proof. exact damaged_hyps_template. Qed.
Print Assumptions C12_e2e_damaged_hyps_template.

Theorem C12_e2e_refused_item_hyps_template : forall T_of n_of c_of view ign json m,
  encode_message ign json = Ok m -> refused_okb (template_refusesb T_of n_of c_of) m = true ->
  starts_sig (m_bytes m) /\
  full_fails (frame_process (dd_template T_of n_of c_of) view false) (m_bytes m) EUnknownDescriptor /\
  info_ok (frame_process (dd_template T_of n_of c_of) view true) (m_bytes m).
Proof. exact refused_item_hyps_template. Qed.
Print Assumptions C12_e2e_refused_item_hyps_template.

(* isolation, end to end.  A stream of items, each undamaged (as in C11) or
   damaged in one of the three ways (dmg_okb: a damaged one need not be quiet).
   With continue_on_error the concrete scanner delivers exactly the undamaged
   messages, unchanged and in order, and ends normally — any number of damaged
   messages anywhere, adjacent ones included.  [refusesb]: any sound test for
   "the template decoder refuses these attributes whatever the data". *)
Theorem C12_e2e_continue_skips_damaged :
  forall (dd : list (pname * pvalue) -> reader -> result (bits * reader)),
  (forall p r b r', dd p r = Ok (b, r') -> r = b ++ r') ->
  (forall p r b r' s, dd p r = Ok (b, r') -> dd p (r ++ s) = Ok (b, r' ++ s)) ->
  (forall p, cuts (dd p)) ->
  forall refusesb : list (pname * pvalue) -> bool,
  (forall props, refusesb props = true -> forall r, dd props r = Err EUnknownDescriptor) ->
  forall view tdp filt sep0 items,
  nosigb sep0 = true -> forallb (dmg_okb dd refusesb false) items = true ->
  frame_generate dd view tdp filt false true false (sep0 ++ assemble (dmg_stream items))
  = (map dmg_bytes (filter undamaged items), None).
Proof. exact e2e_continue_skips_damaged. Qed.
Print Assumptions C12_e2e_continue_skips_damaged.

Theorem C12_e2e_continue_skips_damaged_template : forall T_of n_of c_of view tdp filt sep0 items,
  nosigb sep0 = true ->
  forallb (dmg_okb (dd_template T_of n_of c_of) (template_refusesb T_of n_of c_of) false) items = true ->
  frame_generate (dd_template T_of n_of c_of) view tdp filt false true false (sep0 ++ assemble (dmg_stream items))
  = (map dmg_bytes (filter undamaged items), None).
Proof. exact e2e_continue_skips_damaged_template. Qed.
Print Assumptions C12_e2e_continue_skips_damaged_template.

Theorem C12_e2e_continue_skips_damaged_stub : forall view tdp filt sep0 items,
  nosigb sep0 = true -> forallb (dmg_okb stub_dd stub_refusesb false) items = true ->
  frame_generate stub_dd view tdp filt false true false (sep0 ++ assemble (dmg_stream items))
  = (map dmg_bytes (filter undamaged items), None).
Proof. exact e2e_continue_skips_damaged_stub. Qed.
Print Assumptions C12_e2e_continue_skips_damaged_stub.

(* without continue_on_error: the messages before the damaged one are delivered,
   then the library's error surfaces (PyBufrKitError, resp. UnknownDescriptor);
   nothing is assumed about what follows *)
Theorem C12_e2e_stops_at_damaged_template : forall T_of n_of c_of view tdp filt sep0 items it d rest,
  nosigb sep0 = true -> forallb (item_okb (dd_template T_of n_of c_of) false) items = true ->
  dmg_okb (dd_template T_of n_of c_of) (template_refusesb T_of n_of c_of) false (it, Some d) = true ->
  frame_generate (dd_template T_of n_of c_of) view tdp filt false false false
    (sep0 ++ assemble (stream_of items) ++ dmg_bytes (it, Some d) ++ rest)
  = (map item_bytes items, Some (damage_err d)).
Proof. exact e2e_stops_at_damaged_template. Qed.
Print Assumptions C12_e2e_stops_at_damaged_template.

(* recorded (not a defect of the model: the implementation behaves so):
   metadata-only mode reads neither section 5 nor the content of section 4 and
   never calls the template decoder, so none of the three damages is detected
   there — the damaged messages are delivered like the others (cut by the intact
   total length) *)
Theorem C12_e2e_info_mode_delivers_damaged_template : forall T_of n_of c_of view tdp filt coe sep0 items,
  nosigb sep0 = true ->
  forallb (dmg_okb (dd_template T_of n_of c_of) (template_refusesb T_of n_of c_of) true) items = true ->
  frame_generate (dd_template T_of n_of c_of) view tdp filt true coe false (sep0 ++ assemble (dmg_stream items))
  = (map dmg_bytes items, None).
Proof. exact e2e_info_mode_delivers_damaged_template. Qed.
Print Assumptions C12_e2e_info_mode_delivers_damaged_template.

(* non-vacuity, computed: eight messages; #2 (a table-definition message) with
   '7778' and #4 with NULs in place of '7777'; #5 and #6 with the length of
   section 4 (16 octets) set to 8 resp. 15; #7 with the undefined 063255 as first
   descriptor; the hypotheses hold; the concrete scanner RUN on the stream with
   continue_on_error returns messages 1, 3, 8; without it message 1 and then
   PyBufrKitError; metadata-only all eight *)
Example C12_e2e_damage_nonvacuous :
  forallb (dmg_okb e2e_dd e2e_rfb false) e2e_dmg_items = true /\
  map undamaged e2e_dmg_items = [true; false; true; false; false; false; false; true] /\
  map (fun it => match item_msg (fst it) with Ok m => sec4_info m | Err _ => None end) e2e_dmg_items =
    [Some (16%Z, 96%nat); Some (16%Z, 96%nat); Some (16%Z, 96%nat); Some (14%Z, 80%nat); Some (16%Z, 96%nat);
     Some (16%Z, 96%nat); Some (16%Z, 96%nat); Some (16%Z, 96%nat)] /\
  outcome_eqb (frame_generate e2e_dd e2e_view e2e_tdp e2e_filt false true false
                 (e2e_sep0 ++ assemble (dmg_stream e2e_dmg_items)))
              (map dmg_bytes (filter undamaged e2e_dmg_items), None) = true /\
  outcome_eqb (frame_generate e2e_dd e2e_view e2e_tdp e2e_filt false false false
                 (e2e_sep0 ++ assemble (dmg_stream e2e_dmg_items)))
              (map dmg_bytes (firstn 1 e2e_dmg_items), Some ELib) = true /\
  forallb (dmg_okb e2e_dd e2e_rfb true) e2e_dmg_items = true /\
  outcome_eqb (frame_generate e2e_dd e2e_view e2e_tdp e2e_filt true false false
                 (e2e_sep0 ++ assemble (dmg_stream e2e_dmg_items)))
              (map dmg_bytes e2e_dmg_items, None) = true.
Proof. exact e2e_damage_nonvacuous. Qed.

(* ... and a stream whose first damaged message is the one with the undefined
   descriptor ends, without continue_on_error, with UnknownDescriptor *)
Example C12_e2e_refused_nonvacuous :
  match encode_message true e2e_json_undef with Ok m => refused_okb e2e_rfb m | Err _ => false end = true /\
  outcome_eqb (frame_generate e2e_dd e2e_view e2e_tdp e2e_filt false false false
                 (e2e_sep0 ++ assemble (dmg_stream (skipn 6 e2e_dmg_items))))
              ([], Some EUnknownDescriptor) = true.
Proof. exact e2e_refused_nonvacuous. Qed.

(* ... and the same with the stub template decoder (the *_stub theorems): six
   messages of 031031 templates (editions 3, 4, 2), one with NULs for '7777', one
   with the undefined 063255 as second descriptor, one with the length of section
   4 (5 octets) set to 4 *)
Example C12_e2e_stub_nonvacuous :
  forallb (dmg_okb stub_dd stub_refusesb false) stub_dmg_items = true /\
  forallb (dmg_okb stub_dd stub_refusesb true) stub_dmg_items = true /\
  forallb (item_okb stub_dd false) (map fst (filter undamaged stub_dmg_items)) = true /\
  outcome_eqb (frame_generate stub_dd e2e_view e2e_tdp e2e_filt false true false
                 (e2e_sep0 ++ assemble (dmg_stream stub_dmg_items)))
              (map dmg_bytes (filter undamaged stub_dmg_items), None) = true /\
  outcome_eqb (frame_generate stub_dd e2e_view e2e_tdp e2e_filt false false false
                 (e2e_sep0 ++ assemble (stream_of (map fst (filter undamaged stub_dmg_items)))))
              (map item_bytes (map fst (filter undamaged stub_dmg_items)), None) = true.
Proof. exact e2e_stub_nonvacuous. Qed.

(* ---- D35 (known finding): the hypothesis [info_ok] on the damaged messages of C12_scan_continue_skips cannot be
   weakened to "the metadata-only decode fails too".  A damaged message whose metadata cannot be read either (the length
   of section 1-3 changed, total length intact) is not skipped by its declared total length: the scan resumes one byte
   behind its signature and a complete message held in its body is delivered. *)
From PBK Require Import StreamD35.
Theorem C12_continue_unreadable_metadata_refuted :
  exists (process process_info : list byte -> result msginfo) (filt : msginfo -> result bool)
         (hook : msginfo -> result unit) (good : list byte -> bool) (sep0 : list byte)
         (l : list (list byte * list byte)),
    nosig sep0 /\
    stream_ok (fun m => if good m then full_ok process hook m
                        else exists e, is_lib_err e = true /\ full_fails process m e /\ info_fails process_info m e) l /\
    Forall (fun x => N.to_nat (nth 4 (fst x) 0%N) = length (fst x)) l /\
    generate process process_info filt hook false true false (sep0 ++ assemble l)
    <> (filter good (map fst l), None).
Proof. exact continue_unreadable_metadata_refuted. Qed.
Print Assumptions C12_continue_unreadable_metadata_refuted.
