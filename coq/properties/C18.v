(* C18 — Script preprocessing substitutes exactly the embedded queries.
   Statements only; every proof is [exact <lemma of ScriptProofs>]. *)
From PBK Require Import Base Script ScriptProofs.

(* MAIN.  For every script that is a concatenation of segments
   Code c | SQ s | DQ s | Comment t | Embed e  (any order, any multiplicity) under
   the side conditions [wf_segs] that make the segmentation unambiguous (code
   without quote and #, and no "${" inside it or across its end; literals without
   their own quote; a comment without newline, closed by one or last; e without
   "}"), process_embedded_query_expr returns
   - the same concatenation with each Embed e replaced by PBK_i, i = position of
     trim(e) among the distinct trimmed expressions in order of first occurrence,
     every other character unchanged (also ${...} inside quotes or after #), and
   - substitutions = exactly those distinct trimmed expressions, numbered in order. *)
Theorem C18_preprocess_segments : forall segs,
  wf_segs segs = true ->
  process_embedded_query_expr (render_all segs) =
    (concat (map (out_seg (first_occ (exprs segs))) segs),
     number_from 0 (first_occ (exprs segs))).
Proof. exact preprocess_segments. Qed.
Print Assumptions C18_preprocess_segments.

(* same name for the same whitespace-trimmed expression, distinct names otherwise *)
Theorem C18_preprocess_names : forall segs e1 e2,
  In (Embed e1) segs -> In (Embed e2) segs ->
  let keys := first_occ (exprs segs) in
  (out_seg keys (Embed e1) = out_seg keys (Embed e2) <-> strip e1 = strip e2).
Proof. exact preprocess_names. Qed.
Print Assumptions C18_preprocess_names.

Theorem C18_varname_inj : forall a b, varname a = varname b -> a = b.
Proof. exact varname_inj. Qed.
Print Assumptions C18_varname_inj.

(* the substitutions map: keys = the distinct trimmed expressions (each once, in
   order of first occurrence), the j-th bound to PBK_j, and looking an embedded
   expression up gives the very name that replaced it in the code *)
Theorem C18_substitutions_exact : forall segs,
  let keys := first_occ (exprs segs) in
  let m := snd (spec_segments segs) in
  map fst m = keys /\ NoDup keys /\
  (forall k, In k keys <-> exists e, In (Embed e) segs /\ k = strip e) /\
  (forall j k, nth_error keys j = Some k -> nth_error m j = Some (k, varname (N.of_nat j))) /\
  (forall e, In (Embed e) segs -> lookup (strip e) m = Some (out_seg keys (Embed e))).
Proof. exact substitutions_exact. Qed.
Print Assumptions C18_substitutions_exact.

(* metadata only exactly when every (trimmed) expression starts with % *)
Theorem C18_metadata_only_iff_all_percent : forall segs,
  wf_segs segs = true ->
  (metadata_only (snd (process_embedded_query_expr (render_all segs))) = true <->
   forall e, In (Embed e) segs -> hd_error (strip e) = Some c_pct).
Proof. exact metadata_only_iff_all_percent. Qed.
Print Assumptions C18_metadata_only_iff_all_percent.

(* ... and on ANY substitutions map (arbitrary scripts) *)
Theorem C18_metadata_only_iff : forall m,
  metadata_only m = true <-> forall k v, In (k, v) m -> starts_with_pct k = true.
Proof. exact metadata_only_iff. Qed.
Print Assumptions C18_metadata_only_iff.

(* documented nesting levels are consistent, for every query result *)
Theorem C18_nest_levels : forall (V : Type) (qr : query_result V),
  exists (l4 : list (list (nest V))) (l2 : list (list V)) (l1 : list V) (l0 : option V),
    flatten_data_values 4 qr = R4 l4 /\ flatten_data_values 2 qr = R2 l2 /\
    flatten_data_values 1 qr = R1 l1 /\ flatten_data_values 0 qr = R0 l0 /\
    l4 = qr /\
    l2 = map flatten_list l4 /\
    l1 = concat l2 /\
    l0 = hd_error l1.
Proof. intros V. exact nest_levels. Qed.
Print Assumptions C18_nest_levels.

Theorem C18_nest_level_other : forall (V : Type) (k : Z) (qr : query_result V),
  k <> 0%Z -> k <> 1%Z -> k <> 2%Z -> flatten_data_values k qr = R4 qr.
Proof. intros V. exact nest_level_other. Qed.
Print Assumptions C18_nest_level_other.

(* the constructor argument wins over the pragma; without it the pragma decides
   (default 1); pragma errors are raised either way *)
Theorem C18_pragma_precedence : forall script arg l,
  process_pragma (fst (process_embedded_query_expr script)) = Ok (PLevel l) ->
  effective_level arg script = Ok (PLevel (match arg with Some k => k | None => l end)).
Proof. exact pragma_precedence. Qed.
Print Assumptions C18_pragma_precedence.

Theorem C18_pragma_error_propagates : forall script arg e,
  process_pragma (fst (process_embedded_query_expr script)) = Err e ->
  effective_level arg script = Err e.
Proof. exact pragma_error_propagates. Qed.
Print Assumptions C18_pragma_error_propagates.

Theorem C18_pragma_default : forall code line rest,
  splitlines code = line :: rest -> starts_with_hash_dollar line = false ->
  process_pragma code = Ok (PLevel 1).
Proof. exact pragma_default. Qed.
Print Assumptions C18_pragma_default.

(* a pragma line  #$ data_values_nest_level = <k>  (any natural number k, written
   in decimal) as first line, followed by a body whose first line is not a pragma
   line, sets the level to k ... *)
Theorem C18_pragma_line_sets_level : forall k body,
  match splitlines body with [] => True | line :: _ => starts_with_hash_dollar line = false end ->
  process_pragma (pragma_line k ++ c_nl :: body) = Ok (PLevel (Z.of_N k)).
Proof. exact pragma_line_sets_level. Qed.
Print Assumptions C18_pragma_line_sets_level.

(* ... and through the constructor (body: any text without $): the argument, when
   given, wins over that pragma line; otherwise the pragma line decides *)
Theorem C18_pragma_line_vs_argument : forall k body arg,
  memb c_dollar body = false ->
  match splitlines body with [] => True | line :: _ => starts_with_hash_dollar line = false end ->
  effective_level arg (pragma_line k ++ c_nl :: body) =
    Ok (PLevel (match arg with Some a => a | None => Z.of_N k end)).
Proof. exact pragma_line_vs_argument. Qed.
Print Assumptions C18_pragma_line_vs_argument.

(* running a segment script ([query] = the query evaluation at the chosen level,
   any function): every embedded expression's name is bound to the result of
   its trimmed query, PBK_BUFR_MESSAGE / PBK_FILENAME to the message and the
   file name, and exactly the names PBK_0 .. PBK_(n-1) plus those two are bound *)
Theorem C18_run_binds : forall (R : Type) segs (query : list byte -> R) msg filename,
  let keys := first_occ (exprs segs) in
  let vars := prepare_variables query msg filename (snd (spec_segments segs)) in
  (forall e, In (Embed e) segs ->
             lookup_last (out_seg keys (Embed e)) vars = Some (query (strip e))) /\
  lookup_last name_message vars = Some msg /\
  lookup_last name_filename vars = Some filename /\
  map fst vars = map varname (map N.of_nat (seq 0 (length keys))) ++ [name_message; name_filename].
Proof. intros R. exact (@run_binds R). Qed.
Print Assumptions C18_run_binds.
