(* C01 — Decoding yields exactly the values FM-94 assigns to the bit stream.
   Statements only.  The clauses of the property as laws of the decoder instance
   of the walker (for all registers and bit patterns), plus independence of what
   follows the data.  [decode_encode] (the decoder inverts the canonical layout
   the encoder writes) is stated in C03.v. *)
From PBK Require Import Base Bits Descr Walk Coder Decode DecodeLaws DecodeProofs.

Theorem C01_numeric_value_law : forall raw scale refval,
  numeric_value raw scale refval =
  if (scale =? 0)%Z then VInt (Z.of_N raw + refval) else VDec (Z.of_N raw + refval) scale.
Proof. exact numeric_value_law. Qed.
Print Assumptions C01_numeric_value_law.

(* any such field wider than one bit whose bits are all ones is missing *)
Theorem C01_dec_numeric_law : forall w scale refval (raw : N) t vals cur,
  (1 <= w <= 64)%Z -> (raw < 2 ^ Z.to_N w)%N ->
  dec_numeric w scale refval (mkD (to_bits (Z.to_nat w) raw ++ t) vals cur) =
  Ok (d_append (if (1 <? w)%Z && (raw =? 2 ^ Z.to_N w - 1)%N then VNone
                else numeric_value raw scale refval) (mkD (to_bits (Z.to_nat w) raw ++ t) vals cur) t).
Proof. exact dec_numeric_law. Qed.
Print Assumptions C01_dec_numeric_law.

Theorem C01_dec_codeflag_law : forall w dn (raw : N) t vals cur,
  (1 <= w <= 64)%Z -> (raw < 2 ^ Z.to_N w)%N ->
  dec_codeflag w dn (mkD (to_bits (Z.to_nat w) raw ++ t) vals cur) =
  Ok (d_append (if (1 <? w)%Z && (raw =? 2 ^ Z.to_N w - 1)%N then VNone
                else VInt (Z.of_N raw)) (mkD (to_bits (Z.to_nat w) raw ++ t) vals cur) t).
Proof. exact dec_codeflag_law. Qed.
Print Assumptions C01_dec_codeflag_law.

(* width, scale and reference changes of 201, 202, 203 and 207 in force *)
Theorem C01_element_numeric_law : forall e (s : ws (io dstate)),
  kind_of_unit (e_unit e) = KNumeric ->
  (r_assoc (w_r s) = [] \/ desc_X (e_id e) = 31%N) ->
  desc_X (e_id e) <> 33%N -> r_qa (w_r s) <> QA_INFO_PROCESSING ->
  do_element (io_handlers dec_prims) (DDElem e) e s =
  let r := w_r s in
  let nbits := (e_nbits e + r_nbits_offset r + bsr_nbits (r_bsr r))%Z in
  let scale := (e_scale e + r_scale_offset r + bsr_scale (r_bsr r))%Z in
  match refval_lookup (e_id e) (r_new_refvals r) with
  | None => lift (DDElem e) (dec_numeric nbits scale (e_refval e * bsr_factor (r_bsr r))) s
  | Some (Some v) => lift (DDElem e) (dec_numeric nbits scale (v * bsr_factor (r_bsr r))) s
  | Some None => Err EType
  end.
Proof. exact element_numeric_law. Qed.
Print Assumptions C01_element_numeric_law.

Theorem C01_op201_law : forall Y body (s : ws (io dstate)), (Y < 1000)%N ->
  do_operator (io_handlers dec_prims) (201000 + Y) body s =
  Ok (upd_r (set_nbits_offset (if (Y =? 0)%N then 0 else Z.of_N Y - 128)%Z) s).
Proof. exact op201_law. Qed.
Print Assumptions C01_op201_law.

Theorem C01_op207_law : forall Y body (s : ws (io dstate)), (0 < Y < 1000)%N ->
  do_operator (io_handlers dec_prims) (207000 + Y) body s =
  Ok (upd_r (set_bsr (mkBsr ((10 * Z.of_N Y + 2) / 3) (Z.of_N Y) (10 ^ Z.of_N Y))) s).
Proof. exact op207_law. Qed.
Print Assumptions C01_op207_law.

Theorem C01_marker225_law : forall e,
  marker_elem 225255 e = mkElem (e_id e) (e_unit e) (e_scale e) (- 2 ^ e_nbits e) (e_nbits e + 1).
Proof. exact marker225_law. Qed.
Print Assumptions C01_marker225_law.

Theorem C01_label_law :
  (forall e, dd_label (DDElem e) = (0, e_id e)%N) /\
  (forall id w, dd_label (DDAssoc id w) = (65, id)%N) /\
  (forall id w, dd_label (DDSkipped id w) = (83, id)%N) /\
  (forall e, dd_label (DDMarker e 223255) = (84, e_id e)%N) /\
  (forall e, dd_label (DDMarker e 224255) = (70, e_id e)%N) /\
  (forall e, dd_label (DDMarker e 225255) = (68, e_id e)%N) /\
  (forall e, dd_label (DDMarker e 232255) = (82, e_id e)%N).
Proof. exact label_law. Qed.
Print Assumptions C01_label_law.

Theorem C01_fixed_replication_law : forall id ms (s : ws (io dstate)),
  walk (io_handlers dec_prims) io_add_link (DFixed id ms) s =
  iter_res (id mod 1000)%N (walk_list (io_handlers dec_prims) io_add_link ms) s.
Proof. exact fixed_replication_law. Qed.
Print Assumptions C01_fixed_replication_law.

Theorem C01_delayed_replication_law : forall id e ms (s : ws (io dstate)),
  walk (io_handlers dec_prims) io_add_link (DDelayed id (DElem e) ms) s =
  (let* s1 := do_element (io_handlers dec_prims) (DDElem e) e s in
   let* n := dec_factor (io_c (w_c s1)) in
   iter_res n (walk_list (io_handlers dec_prims) io_add_link ms) s1).
Proof. exact delayed_replication_law. Qed.
Print Assumptions C01_delayed_replication_law.

(* bits after the data never influence the decoded values *)
Theorem C01_decode_suffix_independent : forall T n b t outs vals rest,
  decode_uncompressed T n b = Ok (outs, vals, rest) ->
  decode_uncompressed T n (b ++ t) = Ok (outs, vals, rest ++ t).
Proof. exact decode_suffix_independent. Qed.
Print Assumptions C01_decode_suffix_independent.

(* ---- against the FM-94 layout as a whole ------------------------------------------- *)
From PBK Require Import Encode Spec SpecProofs RoundTrip.

(* For every template and every value lists the encoder accepts: the bits are the
   canonical FM-94 layout of those values (Spec.canonical_bits: a definition of the
   layout that does not walk like the coder), and decoding exactly those bits, with
   anything behind them, returns the layout's descriptors, links and (quantised)
   values and leaves what was behind.  I.e. on canonical bit streams the decoder
   returns the value list FM-94 assigns, for all templates at once. *)
Theorem C01_decode_of_canonical_layout : forall T vals outs w g t,
  encode_ghost T vals = Ok (outs, w, g) ->
  canonical_bits T vals = Ok w /\
  decode_uncompressed T (length vals) (w ++ t) = Ok (outs, g, t).
Proof.
  intros T vals outs w g t E. split.
  - eapply encode_is_canonical_bits. eapply encode_ghost_is_encode. exact E.
  - apply decode_encode. exact E.
Qed.
Print Assumptions C01_decode_of_canonical_layout.

(* the same for COMPRESSED data sections: the bits are the canonical column layout
   (SpecC.canonical_bits_c: minimum, 6-bit increment width, increments, per column in
   template order) and decoding them returns the layout's descriptors, links and values *)
From PBK Require Import Column DecodeC EncodeC EncodeCG RoundTripC SpecC SpecCProofs.

Theorem C01_decode_of_canonical_layout_compressed : forall T vals outs w g t,
  encode_compressed_ghost T vals = Ok (outs, w, g) ->
  canonical_bits_c T vals = Ok w /\
  decode_compressed T (length vals) (w ++ t) = Ok (outs, g, t).
Proof.
  intros T vals outs w g t E. split.
  - eapply encode_is_canonical_bits_c. eapply encode_compressed_ghost_is_encode. exact E.
  - apply decode_encode_compressed. exact E.
Qed.
Print Assumptions C01_decode_of_canonical_layout_compressed.
