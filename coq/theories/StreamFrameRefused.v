(* StreamFrameRefused.v — C12 end to end, third damage kind: the descriptor list
   of section 3 damaged (an undefined descriptor substituted) so that the
   template decoder refuses it whatever the data bits are.  Such a message is
   itself an encoder output — same lengths, same framing — on which the template
   decoder fails: its full decode fails with that error whatever follows, its
   metadata-only decode (which never calls the template decoder) is intact. *)
From PBK Require Import Base Bits BitsProofs Frame FrameProofs FrameRoundtrip MdQuery MdQueryProofs
  MdInfoContent FramePrefix FramePrefixEnc Stream StreamProofs StreamFrame StreamFrameProofs StreamFrameDamage
  StreamFrameOverrun.
From Coq Require Import ZifyBool ZifyNat ZifyN.

(* a template decoder that takes exactly n bits (used as a yardstick: "section 4
   of this message holds n data bits") *)
Definition take_dd (n : nat) : list (pname * pvalue) -> reader -> result (bits * reader) :=
  fun _ r => take_bits n r.

Lemma take_dd_prefix n : forall p r b r', take_dd n p r = Ok (b, r') -> r = b ++ r'.
Proof. intros p r b r' H. apply take_bits_ok in H as [H _]. exact H. Qed.
Lemma take_dd_suffix n : forall p r b r' s, take_dd n p r = Ok (b, r') -> take_dd n p (r ++ s) = Ok (b, r' ++ s).
Proof. intros p r b r' s H. apply take_bits_suffix, H. Qed.
Lemma take_dd_cuts n : forall p, cuts (take_dd n p).
Proof. intros p. apply cuts_take_bits. Qed.

(* the message attributes the template decoder is called with: those set by
   sections 0..3 (the last attribute set by a full decode is template_data) *)
Definition props4_of (m : message) : list (pname * pvalue) := tl (props_after (m_sections m) []).

(* sections 0..3 never call the template decoder *)
Lemma run_info_indep dd1 dd2 ign l : forall props secs r,
  run dd1 true ign l props secs r = run dd2 true ign l props secs r.
Proof.
  induction l as [|i l IH]; intros props secs r; [reflexivity|]. cbn [run].
  destruct (configure_section definitions props i true ign) as [[c|]|e] eqn:Ec; cbn [bind]; [|apply IH|reflexivity].
  rewrite (decode_section_no_data dd1 dd2 c props r (configure_info_no_data _ _ _ _ Ec)).
  destruct (decode_section dd2 c props r) as [[[sec props1] r1]|e]; cbn [bind]; [|reflexivity].
  destruct (s_end c); [reflexivity|apply IH].
Qed.

Lemma run0123_indep dd1 dd2 props secs r :
  run dd1 false false [0;1;2;3]%N props secs r = run dd2 false false [0;1;2;3]%N props secs r.
Proof.
  assert (Hn4 : Forall (fun i => i <> 4%N) [0;1;2;3]%N) by (repeat constructor; discriminate).
  rewrite <- (run_info_same dd1 false _ Hn4), <- (run_info_same dd2 false _ Hn4). apply run_info_indep.
Qed.

Lemma section4_props dd props r sec props' r' :
  decode_section dd section4 props r = Ok (sec, props', r') -> exists b, props' = (Ntemplate_data, PData b) :: props.
Proof.
  intros H. destruct (section4_starts dd _ _ _ _ _ H) as (b24 & b8 & rest & -> & L24 & L8).
  unfold decode_section in H. rewrite (decode_params_section4 dd props _ b24 b8 rest L24 L8) in H.
  destruct (dd props rest) as [[data rA]|e]; [|discriminate]. cbn [bind] in H.
  apply bind_ok in H as (r2 & _ & H). injection H as _ <- _. exists data. reflexivity.
Qed.

Lemma section5_props dd props r sec props' r' :
  decode_section dd (transform false false section5) props r = Ok (sec, props', r') -> props' = props.
Proof.
  change (transform false false section5) with section5. unfold decode_section. intros H.
  apply bind_ok in H as ([[env props1] r1] & Hp & H). apply bind_ok in H as (r2 & _ & H). injection H as _ <- _.
  cbn [section5 s_params decode_params] in Hp.
  apply bind_ok in Hp as ([v ra] & _ & Hp). apply bind_ok in Hp as (u & _ & Hp). injection Hp as _ <- _.
  reflexivity.
Qed.

Section Refused.
Variable dd : list (pname * pvalue) -> reader -> result (bits * reader).
Variable view : message -> list N.

(* NOTHING is assumed of dd here: the statement is about a descriptor list it refuses *)
Theorem refused_hyps : forall ign json m sl nd e,
  encode_message ign json = Ok m ->
  sec4_info m = Some (sl, nd) -> msg_wfb (take_dd nd) m = true ->
  (forall r, dd (props4_of m) r = Err e) ->
  starts_sig (m_bytes m) /\
  full_fails (frame_process dd view false) (m_bytes m) e /\
  info_ok (frame_process dd view true) (m_bytes m).
Proof.
  intros ign json m sl nd e Henc Hinfo Hwf Href.
  set (dd2 := take_dd nd) in *.
  destruct (msg_wfb_sound dd2 (take_dd_prefix nd) (take_dd_suffix nd) _ Hwf) as (Hfits & Hdfs & Hdat).
  split; [apply (encoded_starts_sig dd2 (take_dd_prefix nd) (take_dd_suffix nd) _ _ _ Henc Hwf)|]. split.
  - intros t.
    destruct (encoded_full_decode dd2 (take_dd_prefix nd) (take_dd_suffix nd) _ _ _ Henc Hfits Hdfs Hdat)
      as (_ & m' & Hall & _ & _ & Hp).
    specialize (Hall t). unfold frame_process.
    unfold decode_message, decode_message_with in Hall |- *. cbn [bind] in Hall |- *.
    change (skipn 0 (m_bytes m ++ t)) with (m_bytes m ++ t) in Hall |- *.
    apply bind_ok in Hall as ([[secs props] r'] & Hs & Hm). apply ok_inj in Hm. subst m'. cbn [m_props] in Hp.
    destruct (split0123 dd2 (take_dd_prefix nd) (take_dd_suffix nd) _ _ _ _ Hs) as (e0 & secs1 & props1 & r1 & Er & _ & G & Hcont).
    rewrite decode_sections_cons1, configure_4, transform_full4 in Hcont. cbn [bind] in Hcont.
    apply bind_ok in Hcont as ([[sec4 props2] r2] & H4 & Hcont). change (s_end section4) with false in Hcont. cbv iota in Hcont.
    rewrite decode_sections_cons1, configure_5 in Hcont. cbn [bind] in Hcont.
    apply bind_ok in Hcont as ([[sec5 props3] r3] & H5 & Hcont).
    destruct (decode_section5 dd2 false false _ _ _ _ _ H5) as [_ He5]. rewrite He5 in Hcont. injection Hcont as _ Ep _.
    apply section5_props in H5. destruct (section4_props dd2 _ _ _ _ _ H4) as (bdat & E2).
    assert (Ep1 : props1 = props4_of m).
    { unfold props4_of. rewrite <- Hp, <- Ep, H5, E2. reflexivity. }
    destruct (section4_starts dd2 _ _ _ _ _ H4) as (b24 & b8 & rest & Er1 & L24 & L8).
    rewrite Er. change section_indices with ([0;1;2;3]%N ++ [4;5;6]%N).
    rewrite decode_sections_split, (run0123_indep dd dd2), (G false). cbn [bind]. cbv iota.
    rewrite decode_sections_cons1, configure_4, transform_full4. cbn [bind].
    unfold decode_section. rewrite Er1, (decode_params_section4 dd props1 _ b24 b8 rest L24 L8), Ep1, Href.
    reflexivity.
  - destruct (encoded_info_ok dd2 (take_dd_prefix nd) (take_dd_suffix nd) (take_dd_cuts nd) view _ _ _ Henc Hfits Hdfs Hdat)
      as (mi & Hmi & Hd).
    exists mi. split; [|exact Hd]. intros t. rewrite <- (Hmi t). unfold frame_process.
    rewrite (info_independent_of_template_decoder dd dd2). reflexivity.
Qed.

End Refused.

(* the stub template decoder of the correspondence runs refuses every descriptor
   list that holds something else than 031031 *)
Definition stub_refusesb (props : list (pname * pvalue)) : bool :=
  match prop_get Nunexpanded_descriptors props with
  | Some (PDescs l) => existsb (fun id => negb (id =? 31031)%Z) l
  | _ => false
  end.

Lemma stub_refusesb_sound props : stub_refusesb props = true ->
  forall r, stub_dd props r = Err EUnknownDescriptor.
Proof.
  unfold stub_refusesb, stub_dd. intros H r.
  destruct (prop_get Nunexpanded_descriptors props) as [[| | | |l|]|]; try discriminate. rewrite H. reflexivity.
Qed.
