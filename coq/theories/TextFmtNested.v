(* TextFmtNested.v — C09, nested text, line level: what
   subsets_nested_text_to_flat_json does with each kind of line NestedTextRenderer
   writes (value line, attribute line, replication header, no-value line). *)
From PBK Require Import Base Descr Walk Wire Nested TextFmt TextFmtSpec TextFmtStrings TextFmtProofs TextFmtBody.
From PBK Require Script ScriptProofs.
From Coq Require Import ZifyBool ZifyNat ZifyN.

(* ---- indentation ------------------------------------------------------------------------------ *)
Definition spaces (n : nat) : str := repeat 32%N n.
Definition dots (n : nat) : str := repeat 46%N n.

(* blanks, then dots (the factor of a delayed replication), then blanks *)
Definition indent_ok (ind : str) : Prop := exists a b c, ind = spaces a ++ dots b ++ spaces c.
Definition spaces_only (ind : str) : Prop := exists a, ind = spaces a.

Lemma spaces_add a b : spaces a ++ spaces b = spaces (a + b).
Proof. unfold spaces. rewrite repeat_app. reflexivity. Qed.

Lemma spaces_only_nil : spaces_only [].
Proof. exists O. reflexivity. Qed.

Lemma spaces_only_indent ind : spaces_only ind -> spaces_only (ind ++ INDENT_CHARS).
Proof. intros [a ->]. exists (a + 4)%nat. change INDENT_CHARS with (spaces 4). apply spaces_add. Qed.

Lemma spaces_only_ok ind : spaces_only ind -> indent_ok ind.
Proof. intros [a ->]. exists a, O, O. cbn. rewrite app_nil_r. reflexivity. Qed.

Lemma spaces_only_dots ind : spaces_only ind -> indent_ok (ind ++ INDENT_DOTS).
Proof. intros [a ->]. exists a, 4%nat, O. cbn [spaces dots repeat]. rewrite app_nil_r. reflexivity. Qed.

Lemma indent_ok_indent ind : indent_ok ind -> indent_ok (ind ++ INDENT_CHARS).
Proof.
  intros (a & b & c & ->). exists a, b, (c + 4)%nat. change INDENT_CHARS with (spaces 4).
  rewrite <- !app_assoc, spaces_add. reflexivity.
Qed.

Lemma lstrip_dots_dots b s : lstrip_dots (dots b ++ s) = lstrip_dots s.
Proof. induction b as [|b IH]; [reflexivity|]. cbn [dots repeat app lstrip_dots]. rewrite N.eqb_refl. exact IH. Qed.

Definition no_dot_hd (s : str) : Prop := match s with [] => True | c :: _ => c <> 46%N end.

Lemma lstrip_dots_id s : no_dot_hd s -> lstrip_dots s = s.
Proof. destruct s as [|c t]; [reflexivity|]. cbn [no_dot_hd lstrip_dots]. intros H. destruct (N.eqb_spec c 46); [contradiction|reflexivity]. Qed.

Lemma last_indep (s : str) d1 d2 : s <> [] -> last s d1 = last s d2.
Proof. induction s as [|c s IH]; [contradiction|]. intros _. destruct s as [|c2 s]; [reflexivity|]. apply IH. discriminate. Qed.

Lemma tight_app_last a b : b <> [] -> match a ++ b with [] => False | c :: _ => Script.is_space c = false end ->
  Script.is_space (last b 0%N) = false -> tight (a ++ b).
Proof. intros Hb H1 H2. split; [exact H1|]. rewrite last_app_ne by exact Hb. exact H2. Qed.

(* .strip().lstrip('.').strip() removes the indentation and nothing else *)
Lemma norm_indent ind X : indent_ok ind -> tight X -> no_dot_hd X -> norm_line (ind ++ X) = X.
Proof.
  intros (a & b & c & ->) HX Hd. unfold norm_line.
  assert (HXne : X <> []) by (destruct HX as [H _]; destruct X; [contradiction|discriminate]).
  rewrite <- !app_assoc. fold (spaces a). unfold spaces at 1. rewrite strip_spaces.
  destruct b as [|b].
  - cbn [dots repeat app]. unfold spaces. rewrite strip_spaces, (strip_tight X HX), (lstrip_dots_id X Hd). apply strip_tight, HX.
  - assert (T : tight (dots (S b) ++ spaces c ++ X)).
    { rewrite app_assoc. apply tight_app_last; [exact HXne|reflexivity|apply HX]. }
    rewrite (strip_tight _ T). rewrite lstrip_dots_dots.
    destruct c as [|c].
    + cbn [spaces repeat app]. rewrite (lstrip_dots_id X Hd). apply strip_tight, HX.
    + rewrite lstrip_dots_id by (cbn; discriminate). unfold spaces. rewrite strip_spaces. apply strip_tight, HX.
Qed.

Lemma norm_spaces ind t : spaces_only ind -> norm_line (ind ++ t) = norm_line t.
Proof. intros [a ->]. unfold norm_line, spaces. rewrite strip_spaces. reflexivity. Qed.

(* ---- rfind / rsplit ------------------------------------------------------------------------------ *)
Lemma rfind_none p s : occurs p s = false -> rfind p s = None.
Proof.
  induction s as [|c s IH]; [reflexivity|]. intros H. cbn [rfind].
  rewrite IH by (eapply occurs_false_tl; exact H). rewrite (occurs_false_prefix _ _ H). reflexivity.
Qed.

Lemma rfind_app p P : forall S i, rfind p S = Some i -> rfind p (P ++ S) = Some (length P + i)%nat.
Proof.
  induction P as [|x P IH]; intros S i H; [exact H|]. cbn [app rfind length]. rewrite (IH _ _ H). reflexivity.
Qed.

Lemma after_last_app c A : forall B, memc c B = false -> after_last c (A ++ c :: B) = Some B.
Proof.
  intros B HB.
  assert (N0 : after_last c B = None).
  { induction B as [|x B IH]; [reflexivity|]. unfold memc in HB. cbn [existsb] in HB. apply orb_false_iff in HB as [Hx HB].
    cbn [after_last]. rewrite (IH HB). rewrite N.eqb_sym, Hx. reflexivity. }
  induction A as [|x A IH]; cbn [app after_last].
  - rewrite N0, N.eqb_refl. reflexivity.
  - rewrite IH. reflexivity.
Qed.

Lemma memc_app c a b : memc c (a ++ b) = memc c a || memc c b.
Proof. apply existsb_app. Qed.

Lemma removelast_app_ne {A} (a b : list A) : b <> [] -> removelast (a ++ b) = a ++ removelast b.
Proof. apply removelast_app. Qed.

(* the value text of a line  P ++ ' ' ++ r  is r *)
Lemma nested_value_text_ok P r : nested_repr_ok r = true -> nested_value_text (P ++ 32%N :: r) = Some r.
Proof.
  unfold nested_repr_ok. intros H. apply andb_true_iff in H as [H Hq]. apply andb_true_iff in H as [_ Hsp].
  assert (Hne : r <> []) by (intros ->; cbn in Hsp; discriminate).
  unfold nested_value_text.
  assert (EL : last (P ++ 32%N :: r) 0%N = last r 0%N).
  { change (32%N :: r) with ([32%N] ++ r). rewrite app_assoc. apply last_app_ne. exact Hne. }
  rewrite EL. destruct (is_quote (last r 0%N)) eqn:Q.
  - set (q := last r 0%N) in *. apply andb_true_iff in Hq as [Hq Hocc]. apply andb_true_iff in Hq as [Hpre Hlen].
    apply negb_true_iff in Hocc.
    change (32%N :: r) with ([32%N] ++ r). rewrite app_assoc, removelast_app_ne by exact Hne.
    rewrite <- app_assoc. cbn [app].
    assert (R0 : rfind [32%N; 98%N; q] (32%N :: removelast r) = Some O).
    { cbn [rfind]. rewrite (rfind_none _ _ Hocc).
      destruct (prefixb_true _ _ Hpre) as [t Et]. rewrite Et in *. cbn [app] in *.
      destruct t as [|t0 t]; [cbn in Hlen; discriminate|]. cbn [removelast prefixb]. rewrite !N.eqb_refl. reflexivity. }
    rewrite (rfind_app _ P _ _ R0). rewrite Nat.add_0_r.
    rewrite skipn_app_exact by (rewrite app_length; cbn; lia). reflexivity.
  - apply negb_true_iff in Hq. apply after_last_app. exact Hq.
Qed.

(* ---- the four kinds of lines --------------------------------------------------------------------- *)
Section Lines.
Context (repr : pyv -> str) (leval : str -> result pyv).
Local Notation cls := (classify_nested leval).

Lemma classify_subset_header i n : cls (subset_header i n) = ANew.
Proof.
  unfold classify_nested.
  assert (T : tight (subset_header i n)).
  { unfold subset_header. rewrite !app_assoc. apply tight_app_last; [discriminate|reflexivity|reflexivity]. }
  replace (norm_line (subset_header i n)) with (subset_header i n).
  - reflexivity.
  - symmetry. apply (norm_indent [] _); [exists O, O, O; reflexivity|exact T|cbn; discriminate].
Qed.

Lemma classify_section_header i : cls (section_header i) = ABreak.
Proof.
  unfold classify_nested.
  assert (T : tight (section_header i)).
  { unfold section_header. rewrite !app_assoc. apply tight_app_last; [discriminate|reflexivity|reflexivity]. }
  replace (norm_line (section_header i)) with (section_header i).
  - reflexivity.
  - symmetry. apply (norm_indent [] _); [exists O, O, O; reflexivity|exact T|cbn; discriminate].
Qed.

Lemma classify_rep_header ind ir n : spaces_only ind -> cls (rep_header ind ir n) = ASkip.
Proof.
  intros Hind. unfold classify_nested, rep_header.
  set (X := Lit.repl_open ++ dec (N.of_nat (S ir)) ++ Lit.of_ ++ dec (N.of_nat n) ++ Lit.repl_close).
  assert (T : tight X).
  { unfold X. rewrite !app_assoc. apply tight_app_last; [discriminate|reflexivity|reflexivity]. }
  rewrite app_assoc. rewrite (norm_indent _ X); [reflexivity| |exact T|cbn; discriminate].
  apply spaces_only_ok, spaces_only_indent, Hind.
Qed.

Lemma classify_novalue ind t : spaces_only ind -> nv_line_skipped t = true -> cls (ind ++ t) = ASkip.
Proof.
  intros Hind H. unfold classify_nested. rewrite norm_spaces by exact Hind.
  unfold nv_line_skipped in H. cbv zeta in H. apply andb_true_iff in H as [H H3]. apply andb_true_iff in H as [H1 H2].
  apply negb_true_iff in H1, H2. rewrite H1, H2.
  destruct (prefixb [35%N] (norm_line t) || prefixb S_ARROW2 (norm_line t) && negb (prefixb S_ARROW_A (norm_line t))
            || prefixb [51%N] (norm_line t)) eqn:E; [reflexivity|].
  cbn [orb] in H3. rewrite H3. reflexivity.
Qed.

(* the text of a value line after the indentation *)
Definition vtext (dstr descr r : str) (is_attr : bool) : str :=
  (if is_attr then S_ARROW else []) ++ dstr ++ [32%N] ++ descr ++ [32%N] ++ r.

Lemma dstr_ok_hd d : dstr_ok d = true -> exists c t, d = c :: t /\ Script.is_space c = false /\
  c <> 46%N /\ c <> 35%N /\ c <> 51%N /\ c <> 60%N /\ c <> 45%N.
Proof.
  unfold dstr_ok. intros H. apply andb_true_iff in H as [_ H]. destruct d as [|c t]; [discriminate|].
  exists c, t. split; [reflexivity|]. lia.
Qed.

Lemma repr_ok_facts r : nested_repr_ok r = true -> r <> [] /\ Script.is_space (last r 0%N) = false /\ nolb r = true.
Proof.
  unfold nested_repr_ok. intros H. apply andb_true_iff in H as [H _]. apply andb_true_iff in H as [Hn Hsp].
  assert (Hne : r <> []) by (intros ->; cbn in Hsp; discriminate).
  split; [exact Hne|]. split; [|exact Hn]. rewrite (last_indep r 0%N 32%N Hne). apply negb_true_iff. exact Hsp.
Qed.

Lemma vtext_tight dstr descr r is_attr : dstr_ok dstr = true -> nested_repr_ok r = true ->
  tight (vtext dstr descr r is_attr) /\ no_dot_hd (vtext dstr descr r is_attr).
Proof.
  intros Hd Hr. destruct (dstr_ok_hd _ Hd) as (c & t & -> & Hsp & Hdot & _).
  destruct (repr_ok_facts _ Hr) as (Hne & Hl & _). unfold vtext.
  split.
  - rewrite !app_assoc. apply tight_app_last; [exact Hne| |exact Hl]. destruct is_attr; [reflexivity|exact Hsp].
  - destruct is_attr; cbn; [discriminate|exact Hdot].
Qed.

Lemma vtext_split dstr descr r is_attr :
  vtext dstr descr r is_attr = ((if is_attr then S_ARROW else []) ++ dstr ++ [32%N] ++ descr) ++ 32%N :: r.
Proof. unfold vtext. rewrite <- !app_assoc. reflexivity. Qed.

Lemma vtext_has_space dstr descr r is_attr : memc 32%N (vtext dstr descr r is_attr) = true.
Proof. rewrite vtext_split, memc_app. cbn [memc existsb]. rewrite N.eqb_refl. apply orb_true_r. Qed.

Lemma vtext_value dstr descr r is_attr : nested_repr_ok r = true ->
  nested_value_text (vtext dstr descr r is_attr) = Some r.
Proof. intros Hr. rewrite vtext_split. apply nested_value_text_ok. exact Hr. Qed.

(* a line whose normal form X is neither a header nor a comment / sequence line and holds a blank *)
Lemma classify_norm raw X r v :
  norm_line raw = X ->
  prefixb TEXT_SECTION_HEADER X = false -> prefixb TEXT_SUBSET_HEADER X = false ->
  prefixb [35%N] X = false -> prefixb [51%N] X = false -> memc 32%N X = true ->
  nested_value_text X = Some r -> leval r = Ok v ->
  cls raw = if prefixb S_ARROW2 X && negb (prefixb S_ARROW_A X) then ASkip
            else if prefixb S_ARROW_A X then AIns v else AApp v.
Proof.
  intros E P1 P2 P3 P4 M NV L. subst X. unfold classify_nested. cbv zeta. rewrite P1, P2, P3, P4, M, NV, L. cbn [orb negb].
  rewrite orb_false_r. reflexivity.
Qed.

(* a value line that is not an attribute: append *)
Lemma classify_value_line ind dstr descr r v : indent_ok ind -> dstr_ok dstr = true -> nested_repr_ok r = true ->
  leval r = Ok v -> cls (ind ++ vtext dstr descr r false) = AApp v.
Proof.
  intros Hind Hd Hr Hle. destruct (vtext_tight dstr descr r false Hd Hr) as [T D].
  rewrite (classify_norm _ (vtext dstr descr r false) r v); try assumption.
  - destruct (dstr_ok_hd _ Hd) as (c & t & -> & _ & _ & H35 & H51 & H60 & H45).
    unfold vtext, S_ARROW2, S_ARROW_A, Lit.arrow, Lit.arrow_A. cbn [app]. rewrite !prefixb_hd_neq by congruence. reflexivity.
  - apply norm_indent; assumption.
  - destruct (dstr_ok_hd _ Hd) as (c & t & -> & _ & _ & H35 & H51 & H60 & H45).
    unfold vtext. cbn [app]. apply prefixb_hd_neq. congruence.
  - destruct (dstr_ok_hd _ Hd) as (c & t & -> & _ & _ & H35 & H51 & H60 & H45).
    unfold vtext. cbn [app]. apply prefixb_hd_neq. congruence.
  - destruct (dstr_ok_hd _ Hd) as (c & t & -> & _ & _ & H35 & H51 & H60 & H45).
    unfold vtext. cbn [app]. apply prefixb_hd_neq. congruence.
  - destruct (dstr_ok_hd _ Hd) as (c & t & -> & _ & _ & H35 & H51 & H60 & H45).
    unfold vtext. cbn [app]. apply prefixb_hd_neq. congruence.
  - apply vtext_has_space.
  - apply vtext_value. exact Hr.
Qed.

(* an attribute line: inserted before the owner when the label starts with 'A', passed over otherwise *)
Lemma classify_attr_line ind dstr descr r v : indent_ok ind -> dstr_ok dstr = true -> nested_repr_ok r = true ->
  leval r = Ok v -> cls (ind ++ vtext dstr descr r true) = if starts_A dstr then AIns v else ASkip.
Proof.
  intros Hind Hd Hr Hle. destruct (vtext_tight dstr descr r true Hd Hr) as [T D].
  rewrite (classify_norm _ (vtext dstr descr r true) r v); try assumption; try reflexivity.
  - destruct (dstr_ok_hd _ Hd) as (c & t & -> & _). unfold vtext, starts_A. cbn [app S_ARROW S_ARROW2 S_ARROW_A Lit.arrow_sp Lit.arrow Lit.arrow_A prefixb].
    rewrite !N.eqb_refl. cbn [andb]. destruct (65 =? c)%N; reflexivity.
  - apply norm_indent; assumption.
  - apply vtext_value. exact Hr.
Qed.

(* an attribute line whose label does not start with 'A' is passed over whatever literal_eval says *)
Lemma classify_virtual_line ind dstr descr r : indent_ok ind -> dstr_ok dstr = true -> nested_repr_ok r = true ->
  starts_A dstr = false -> cls (ind ++ vtext dstr descr r true) = ASkip.
Proof.
  intros Hind Hd Hr HA. destruct (vtext_tight dstr descr r true Hd Hr) as [T D].
  unfold classify_nested. rewrite norm_indent by assumption.
  destruct (dstr_ok_hd _ Hd) as (c & t & -> & _). unfold vtext, starts_A in *.
  cbn [app S_ARROW S_ARROW2 S_ARROW_A Lit.arrow_sp Lit.arrow Lit.arrow_A prefixb] in *.
  rewrite !N.eqb_refl. cbn [andb] in *. rewrite HA. reflexivity.
Qed.

End Lines.
