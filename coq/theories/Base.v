(* Base.v — common types of the pybufrkit model: error classes, result monad,
   bytes.  Model files use the standard library only. *)
From Coq Require Export List NArith ZArith Bool Lia.
Export ListNotations.

(* Canonical classes of Python exceptions, as the correspondence check maps them
   (by exception class, never by message). *)
Inductive err :=
  | EBitRead            (* pybufrkit.errors.BitReadError *)
  | EUnknownDescriptor  (* pybufrkit.errors.UnknownDescriptor *)
  | EPathExpr           (* PathExprParsingError *)
  | EMetadataExpr       (* MetadataExprParsingError *)
  | EQuery              (* QueryError *)
  | ELib                (* any other PyBufrKitError *)
  | EAssert             (* AssertionError *)
  | EValue              (* ValueError (bitstring.CreationError is a ValueError) *)
  | EIndex              (* IndexError *)
  | EKey                (* KeyError *)
  | EType               (* TypeError *)
  | EAttr               (* AttributeError *)
  | EStopIter           (* StopIteration *)
  | ENotImpl            (* NotImplementedError *)
  | EOther              (* any other exception *)
  | EFuel.              (* model artefact: never corresponds to Python behaviour *)

Definition err_code (e : err) : N :=
  match e with
  | EBitRead => 1 | EUnknownDescriptor => 2 | EPathExpr => 3 | EMetadataExpr => 4
  | EQuery => 5 | ELib => 6 | EAssert => 7 | EValue => 8 | EIndex => 9 | EKey => 10
  | EType => 11 | EAttr => 12 | EStopIter => 13 | ENotImpl => 14 | EOther => 15
  | EFuel => 99
  end%N.

(* library errors: the subclasses of PyBufrKitError *)
Definition is_lib_err (e : err) : bool :=
  match e with
  | EBitRead | EUnknownDescriptor | EPathExpr | EMetadataExpr | EQuery | ELib => true
  | _ => false
  end.

Inductive result (A : Type) := Ok (a : A) | Err (e : err).
Arguments Ok {A} a.
Arguments Err {A} e.

Definition bind {A B} (r : result A) (f : A -> result B) : result B :=
  match r with Ok a => f a | Err e => Err e end.

Notation "'let*' x ':=' r 'in' k" := (bind r (fun x => k))
  (at level 200, x pattern, r at level 100, k at level 200, right associativity).

Definition is_ok {A} (r : result A) : bool := match r with Ok _ => true | Err _ => false end.

Definition byte := N.     (* 0..255; strings are [list byte] *)

Lemma bind_ok {A B} (r : result A) (f : A -> result B) b :
  bind r f = Ok b -> exists a, r = Ok a /\ f a = Ok b.
Proof. destruct r as [a|e]; cbn; intros H; [eauto|discriminate]. Qed.
