(* NcepFixExamples.v — the NCEP repair on a nested layout (non-vacuity of NcepFixProofs). *)
From PBK Require Import Base Descr NcepFix NcepFixProofs.

Definition el (id : N) : desc := DElem (mkElem id [] 0 0 8).
Definition drp : desc := DSeq 360002 (DCons (DDelayed 101000 (el 31001) DNil) DNil).      (* 3-60-002 = 101000 031001 *)
Definition frp : desc := DSeq 360007 (DCons (DFixed 101003 DNil) DNil).                   (* 3-60-007 = 101003 *)
Definition level : desc := DSeq 348002 (DCons (el 48010) (DCons frp (DCons (el 48011) (DCons (el 48012) DNil)))).
Definition outer : desc := DSeq 348001 (DCons drp (DCons level DNil)).
Definition tmpl : descs := DCons (el 1001) (DCons drp (DCons outer (DCons (el 7001) DNil))).

(* the top-level 3-60-002 adopts OUTER; inside OUTER, 3-60-002 adopts LEVEL; inside LEVEL, 3-60-007 adopts 048011 *)
Example nested_repair :
  fixl tmpl = Ok
    (DCons (el 1001)
    (DCons (DDelayed 101000 (el 31001)
              (DCons (DSeq 348001
                 (DCons (DDelayed 101000 (el 31001)
                    (DCons (DSeq 348002 (DCons (el 48010) (DCons (DFixed 101003 (DCons (el 48011) DNil)) (DCons (el 48012) DNil))))
                     DNil)) DNil)) DNil))
    (DCons (el 7001) DNil))).
Proof. vm_compute. reflexivity. Qed.

Example nested_repair_clean : cleanl tmpl = false /\ (match fixl tmpl with Ok t => cleanl t | Err _ => false end) = true.
Proof. vm_compute. split; reflexivity. Qed.

Example nested_repair_leaves : (match fixl tmpl with Ok t => leavesl t | Err _ => [] end) = leavesl tmpl
                               /\ length (leavesl tmpl) = 10%nat.
Proof. vm_compute. split; reflexivity. Qed.

(* nothing follows the replication-only sequence in its own list: it stays a bare replication (the original raised
   IndexError); 102000 031001 replicates two descriptors: left alone (the original raised AssertionError) *)
Example nothing_follows : fixl (DCons (el 1001) (DCons drp DNil)) = Ok (DCons (el 1001) (DCons (DDelayed 101000 (el 31001) DNil) DNil))
                          /\ fixl_orig (DCons (el 1001) (DCons drp DNil)) = Err EIndex.
Proof. vm_compute. split; reflexivity. Qed.
Definition two := DCons (DSeq 360009 (DCons (DDelayed 102000 (el 31001) DNil) DNil)) (DCons (el 1001) (DCons (el 1002) DNil)).
Example two_items : fixl two = Ok (DCons (DDelayed 102000 (el 31001) DNil) (DCons (el 1001) (DCons (el 1002) DNil)))
                    /\ fixl_orig two = Err EAssert.
Proof. vm_compute. split; reflexivity. Qed.
Example nested_repair_orig_ok : is_ok (fixl_orig tmpl) = true.
Proof. vm_compute. reflexivity. Qed.
