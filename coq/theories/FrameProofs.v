(* FrameProofs.v — theorems about Frame.v (C04; used by C17). *)
From PBK Require Import Base Bits BitsProofs Frame.
From Coq Require Import ZifyBool ZifyNat ZifyN.

Ltac Zify.zify_post_hook ::= Z.to_euclidean_division_equations.
Local Ltac zdiv := lia.

(* ------------------------------------------------------------------------ *)
(* padding arithmetic                                                        *)
(* ------------------------------------------------------------------------ *)
Theorem pad_spec : forall edition n, (0 <= n)%Z ->
  let p := pad_bits edition n in
  (0 <= p)%Z /\
  (if (edition <=? 3)%Z then (p < 16)%Z /\ ((n + p) mod 16 = 0)%Z
   else (p < 8)%Z /\ ((n + p) mod 8 = 0)%Z).
Proof.
  intros edition n Hn. unfold pad_bits. cbv zeta.
  destruct (Z.leb_spec edition 3).
  - destruct (Z.eqb_spec ((n / 8) mod 2) 0); cbn [negb].
    + destruct (Z.eqb_spec (n mod 8) 0); (split; [zdiv|split; zdiv]).
    + split; [zdiv|split; zdiv].
  - destruct (Z.eqb_spec (n mod 8) 0); (split; [zdiv|split; zdiv]).
Qed.

Lemma pad_bits_octet edition n : (0 <= n)%Z ->
  (0 <= pad_bits edition n)%Z /\ ((n + pad_bits edition n) mod 8 = 0)%Z.
Proof.
  intros Hn. pose proof (pad_spec edition n Hn) as [H0 H]. cbv zeta in *.
  split; [exact H0|]. destruct (edition <=? 3)%Z; destruct H as [_ H]; zdiv.
Qed.

Lemma pad_bits_minimal edition n p' : (0 <= n)%Z -> (0 <= p')%Z ->
  ((n + p') mod (if (edition <=? 3)%Z then 16 else 8) = 0)%Z -> (pad_bits edition n <= p')%Z.
Proof.
  intros Hn Hp H. pose proof (pad_spec edition n Hn) as [H0 H1]. cbv zeta in *.
  destruct (edition <=? 3)%Z; destruct H1 as [H1 H2]; zdiv.
Qed.

(* ------------------------------------------------------------------------ *)
(* the writer only appends                                                   *)
(* ------------------------------------------------------------------------ *)
Lemma write_uint_app v w o o1 : write_uint v w o = Ok o1 ->
  exists e, o1 = o ++ e /\ length e = Z.to_nat w /\ forall o', write_uint v w o' = Ok (o' ++ e).
Proof.
  unfold write_uint. destruct (w <=? 0)%Z; [discriminate|].
  destruct (v <? 0)%Z; [discriminate|]. destruct (2 ^ w <=? v)%Z; [discriminate|].
  intros E; injection E as <-. eexists; split; [reflexivity|]. split; [apply length_to_bits|reflexivity].
Qed.

Lemma write_descs_app ids : forall o o1, write_descs ids o = Ok o1 ->
  exists e, o1 = o ++ e /\ length e = (16 * length ids)%nat /\ forall o', write_descs ids o' = Ok (o' ++ e).
Proof.
  induction ids as [|id ids IH]; intros o o1; cbn [write_descs].
  - intros E; injection E as <-. exists []. rewrite app_nil_r. split; [reflexivity|].
    split; [reflexivity|]. intros o'. rewrite app_nil_r. reflexivity.
  - intros H. apply bind_ok in H as (a1 & H1 & H). apply bind_ok in H as (a2 & H2 & H).
    apply bind_ok in H as (a3 & H3 & H).
    apply write_uint_app in H1 as (e1 & -> & L1 & G1). apply write_uint_app in H2 as (e2 & -> & L2 & G2).
    apply write_uint_app in H3 as (e3 & -> & L3 & G3). apply IH in H as (e4 & -> & L4 & G4).
    exists (e1 ++ e2 ++ e3 ++ e4). rewrite <- !app_assoc. split; [reflexivity|]. split.
    + rewrite !app_length, L1, L2, L3, L4. cbn [length]. lia.
    + intros o'. rewrite G1. cbn [bind]. rewrite G2. cbn [bind]. rewrite G3. cbn [bind].
      rewrite G4, <- !app_assoc. reflexivity.
Qed.

Lemma write_param_app p v o o1 : write_param p v o = Ok o1 ->
  exists e, o1 = o ++ e /\ forall o', write_param p v o' = Ok (o' ++ e).
Proof.
  unfold write_param. destruct (p_type p), v; try discriminate.
  - intros H. apply write_uint_app in H as (e & -> & _ & G). eauto.
  - unfold write_bytes. destruct (p_nbits p / 8 <? 0)%Z; [discriminate|].
    intros E; injection E as <-. eauto.
  - unfold write_bin. intros E; injection E as <-. eauto.
  - unfold write_bool. intros E; injection E as <-. eauto.
  - intros H. apply write_descs_app in H as (e & -> & _ & G). eauto.
  - intros E; injection E as <-. eauto.
Qed.

Lemma write_params_app ps : forall vs props o o1 props1,
  write_params ps vs props o = Ok (o1, props1) ->
  exists e, o1 = o ++ e /\ forall o', write_params ps vs props o' = Ok (o' ++ e, props1).
Proof.
  induction ps as [|p ps IH]; intros vs props o o1 props1; cbn [write_params].
  - intros E; injection E as <- <-. exists []. rewrite app_nil_r. split; [reflexivity|].
    intros o'. rewrite app_nil_r. reflexivity.
  - destruct vs as [|v vs]; [discriminate|]. intros H. apply bind_ok in H as (a & H1 & H).
    apply write_param_app in H1 as (e1 & -> & G1). apply IH in H as (e2 & -> & G2).
    exists (e1 ++ e2). rewrite <- app_assoc. split; [reflexivity|].
    intros o'. rewrite G1. cbn [bind]. rewrite G2, <- app_assoc. reflexivity.
Qed.

(* ------------------------------------------------------------------------ *)
(* one section, encoder side                                                 *)
(* ------------------------------------------------------------------------ *)
(* layouts in which section_length, when present, is the first parameter and an
   unsigned integer: all bundled ones (checked below by computation) *)
Definition sl_first (ps : list param) : bool :=
  match ps with
  | [] => true
  | p :: r =>
      if pname_beq (p_name p) Nsection_length
      then match p_type p with TUint => true | _ => false end
      else negb (has_param Nsection_length ps)
  end.

Lemma definitions_sl_first : forallb (fun c => sl_first (s_params c)) definitions = true.
Proof. vm_compute. reflexivity. Qed.

Lemma find_param_has n ps : find_param n ps = None <-> has_param n ps = false.
Proof.
  unfold has_param. induction ps as [|p ps IH]; cbn [find_param existsb]; [tauto|].
  destruct (pname_beq (p_name p) n); cbn [orb]; [split; discriminate|exact IH].
Qed.

Lemma sl_first_shape ps pl : sl_first ps = true -> find_param Nsection_length ps = Some pl ->
  exists r, ps = pl :: r /\ p_name pl = Nsection_length /\ p_type pl = TUint /\
            param_offset Nsection_length ps = Some 0%Z.
Proof.
  destruct ps as [|p r]; [discriminate|]. cbn [sl_first find_param param_offset].
  destruct (pname_beq (p_name p) Nsection_length) eqn:E.
  - intros Ht Hf. injection Hf as <-. exists r. apply internal_pname_dec_bl in E.
    destruct (p_type p); try discriminate. auto.
  - intros Hn Hf. exfalso. apply negb_true_iff in Hn.
    assert (find_param Nsection_length (p :: r) = None) as Hc by (apply find_param_has; exact Hn).
    cbn [find_param] in Hc. rewrite E in Hc. congruence.
Qed.

(* what encode_section computes, as a relation that exposes the pieces:
   body = the bits of the parameters, then the pad, then the length handling *)
Lemma length_zeros n : length (zeros n) = n.
Proof. apply repeat_length. Qed.

Lemma encode_section_pieces ign c vs props o o' props' sec :
  encode_section ign c vs props o = Ok (o', props', sec) ->
  exists body props1 edition,
    write_params (s_params c) vs props [] = Ok (body, props1) /\
    edition_of props1 = Ok edition /\
    let pad := pad_bits edition (Z.of_nat (length body)) in
    let o2 := o ++ body ++ zeros (Z.to_nat pad) in
    let vals := combine (map p_name (s_params c)) vs in
    sec_index sec = s_index c /\ sec_params sec = s_params c /\
    sec_nbits sec = (length o' - length o)%nat /\
    match find_param Nsection_length (s_params c) with
    | None => o' = o2 /\ props' = props1 /\ sec_values sec = vals
    | Some pl =>
        exists sl, prop_get Nsection_length vals = Some (PUint sl) /\
        if (sl =? 0)%Z || ign then
          exists off, param_offset Nsection_length (s_params c) = Some off /\
          let newlen := (Z.of_nat (length body + Z.to_nat pad) / 8)%Z in
          set_uint newlen (p_nbits pl) (length o + Z.to_nat off) o2 = Ok o' /\
          props' = add_prop pl (PUint newlen) props1 /\
          sec_values sec = set_value Nsection_length (PUint newlen) vals
        else
          let unwrite := (sl * 8 - Z.of_nat (length body + Z.to_nat pad))%Z in
          props' = props1 /\ sec_values sec = vals /\
          (unwrite >= 0)%Z /\ o' = o2 ++ zeros (Z.to_nat unwrite)
    end.
Proof.
  unfold encode_section. intros H.
  apply bind_ok in H as ([o1 props1] & Hw & H).
  apply write_params_app in Hw as (body & -> & Gw).
  apply bind_ok in H as (edition & He & H).
  exists body, props1, edition. split; [exact (Gw nil)|]. split; [exact He|]. cbv zeta.
  rewrite app_length, Nat.add_comm, Nat.add_sub in H.
  set (pad := pad_bits edition (Z.of_nat (length body))) in *.
  assert (Hpad : (0 <= pad)%Z) by (apply pad_bits_octet; lia).
  apply bind_ok in H as (o2 & Ho2 & H).
  assert (E2 : o2 = o ++ body ++ zeros (Z.to_nat pad)).
  { destruct (Z.eqb_spec pad 0) as [Ez|Ez].
    - injection Ho2 as <-. rewrite Ez. cbn. rewrite app_nil_r. reflexivity.
    - unfold write_bin in Ho2. injection Ho2 as <-. rewrite app_assoc. reflexivity. }
  subst o2. clear Ho2.
  assert (L2 : (length (o ++ body ++ zeros (Z.to_nat pad)) - length o)%nat = (length body + Z.to_nat pad)%nat).
  { rewrite !app_length, length_zeros. lia. }
  rewrite L2 in H.
  destruct (find_param Nsection_length (s_params c)) as [pl|].
  - destruct (prop_get Nsection_length _) as [[sl| | | | |]|]; try discriminate.
    destruct ((sl =? 0)%Z || ign) eqn:Eb.
    + destruct (param_offset Nsection_length (s_params c)) as [off|]; [|discriminate].
      apply bind_ok in H as (o3 & H3 & H). injection H as <- <- <-. cbn [sec_index sec_params sec_nbits sec_values].
      repeat split. exists sl. split; [reflexivity|]. rewrite Eb. exists off. repeat split. exact H3.
    + destruct (Z.ltb_spec 0 (sl * 8 - Z.of_nat (length body + Z.to_nat pad))).
      * apply bind_ok in H as (o3 & H3 & H). injection H as <- <- <-. cbn [sec_index sec_params sec_nbits sec_values].
        repeat split. exists sl. split; [reflexivity|]. rewrite Eb. repeat split; [lia|].
        unfold skip in H3. destruct (Z.leb_spec (sl * 8 - Z.of_nat (length body + Z.to_nat pad)) 0); [lia|].
        injection H3 as <-. reflexivity.
      * destruct (Z.ltb_spec (sl * 8 - Z.of_nat (length body + Z.to_nat pad)) 0); [discriminate|].
        injection H as <- <- <-. cbn [sec_index sec_params sec_nbits sec_values].
        repeat split; try (symmetry; exact L2). exists sl. split; [reflexivity|]. rewrite Eb. repeat split; [lia|].
        replace (sl * 8 - Z.of_nat (length body + Z.to_nat pad))%Z with 0%Z by lia. cbn. rewrite app_nil_r. reflexivity.
  - injection H as <- <- <-. cbn [sec_index sec_params sec_nbits sec_values]. repeat split; try (symmetry; exact L2).
Qed.

Lemma skipn_skipn {A} (a b : nat) (l : list A) : skipn a (skipn b l) = skipn (a + b) l.
Proof.
  revert l; induction b as [|b IH]; intros l.
  - rewrite Nat.add_0_r. reflexivity.
  - destruct l as [|x l]; [rewrite !skipn_nil; reflexivity|].
    rewrite Nat.add_succ_r. cbn [skipn]. apply IH.
Qed.

Lemma prop_get_set_value n v vals x : prop_get n vals = Some x ->
  prop_get n (set_value n v vals) = Some v.
Proof.
  induction vals as [|[k y] r IH]; cbn [prop_get set_value]; [discriminate|].
  destruct (pname_beq k n) eqn:E; cbn [prop_get]; rewrite E; [reflexivity|exact IH].
Qed.

(* section_length first: the body starts with its field *)
Lemma body_starts_with_length c vs props body props1 pl r :
  s_params c = pl :: r -> p_type pl = TUint ->
  write_params (s_params c) vs props [] = Ok (body, props1) ->
  (Z.to_nat (p_nbits pl) <= length body)%nat /\ (0 < p_nbits pl)%Z.
Proof.
  intros -> Ht. cbn [write_params]. destruct vs as [|v vs]; [discriminate|].
  intros H. apply bind_ok in H as (o1 & H1 & H).
  unfold write_param in H1. rewrite Ht in H1. destruct v; try discriminate.
  pose proof (write_uint_exact _ _ _ _ H1) as (_ & _ & Hw).
  apply write_uint_app in H1 as (e1 & -> & L1 & _).
  apply write_params_app in H as (e2 & -> & _). cbn [app]. rewrite app_length. lia.
Qed.

(* C04 section_length_exact: with the length recomputed (declared 0, or
   ignore_declared_length) the declared length is the real extent in octets,
   the field in the stream holds it, the section is a whole number of octets *)
Theorem section_length_exact : forall ign c vs props o o' props' sec pl,
  sl_first (s_params c) = true ->
  find_param Nsection_length (s_params c) = Some pl ->
  (ign = true \/ prop_get Nsection_length (combine (map p_name (s_params c)) vs) = Some (PUint 0)) ->
  encode_section ign c vs props o = Ok (o', props', sec) ->
  exists e L rest,
    o' = o ++ e /\ sec_nbits sec = length e /\
    Z.of_nat (length e) = (8 * L)%Z /\
    prop_get Nsection_length (sec_values sec) = Some (PUint L) /\
    read_uint (p_nbits pl) e = Ok (Z.to_N L, rest).
Proof.
  intros ign c vs props o o' props' sec pl Hfirst Hfind Hre H.
  apply encode_section_pieces in H as (body & props1 & edition & Hw & He & H). cbv zeta in H.
  destruct H as (Hi & Hp & Hn & H). rewrite Hfind in H. destruct H as (sl & Hsl & H).
  assert (Eb : (sl =? 0)%Z || ign = true).
  { destruct Hre as [->|Hz]; [apply orb_true_r|]. rewrite Hsl in Hz. injection Hz as ->. reflexivity. }
  rewrite Eb in H. destruct H as (off & Hoff & Hset & Hprops & Hvals).
  destruct (sl_first_shape _ _ Hfirst Hfind) as (r & Hps & Hname & Htype & Hoff0).
  rewrite Hoff0 in Hoff. injection Hoff as <-.
  destruct (body_starts_with_length _ _ _ _ _ _ _ Hps Htype Hw) as [Hwb Hwpos].
  set (pad := pad_bits edition (Z.of_nat (length body))) in *.
  destruct (pad_bits_octet edition (Z.of_nat (length body)) ltac:(lia)) as [Hpad0 Hpad8]. fold pad in Hpad0, Hpad8.
  replace (length o + Z.to_nat 0)%nat with (length o) in Hset by lia.
  set (o2 := o ++ body ++ zeros (Z.to_nat pad)) in *.
  assert (Hlen2 : length o2 = (length o + (length body + Z.to_nat pad))%nat).
  { unfold o2. rewrite !app_length, length_zeros. reflexivity. }
  assert (Hrange : (length o + Z.to_nat (p_nbits pl) <= length o2)%nat) by lia.
  destruct (set_uint_frame _ _ _ _ _ Hrange Hset) as (Hl & Hf & _ & Hr).
  assert (Ho' : o' = o ++ skipn (length o) o').
  { rewrite <- (firstn_skipn (length o) o') at 1. rewrite Hf. unfold o2.
    rewrite firstn_app_exact by reflexivity. reflexivity. }
  exists (skipn (length o) o'), (Z.of_nat (length body + Z.to_nat pad) / 8)%Z. eexists.
  split; [exact Ho'|]. rewrite skipn_length, Hl, Hlen2.
  split; [lia|]. split; [zdiv|]. split; [|exact Hr].
  rewrite Hvals. eapply prop_get_set_value. exact Hsl.
Qed.

(* the padding: only zero bits, fewer than 16 (editions <= 3) / 8 of them *)
Theorem section_zero_padded : forall ign c vs props o o' props' sec body props1 edition,
  sl_first (s_params c) = true ->
  write_params (s_params c) vs props [] = Ok (body, props1) ->
  edition_of props1 = Ok edition ->
  encode_section ign c vs props o = Ok (o', props', sec) ->
  exists body' fill,
    o' = o ++ body' ++ zeros fill /\ length body' = length body /\
    (Z.of_nat (length body + fill) mod 8 = 0)%Z /\
    ((ign = true \/ find_param Nsection_length (s_params c) = None \/
      prop_get Nsection_length (combine (map p_name (s_params c)) vs) = Some (PUint 0)) ->
     Z.of_nat fill = pad_bits edition (Z.of_nat (length body))).
Proof.
  intros ign c vs props o o' props' sec body props1 edition Hfirst Hw He H.
  apply encode_section_pieces in H as (body0 & props0 & edition0 & Hw0 & He0 & H). cbv zeta in H.
  rewrite Hw in Hw0. injection Hw0 as <- <-. rewrite He in He0. injection He0 as <-.
  destruct H as (Hi & Hp & Hn & H).
  set (pad := pad_bits edition (Z.of_nat (length body))) in *.
  destruct (pad_bits_octet edition (Z.of_nat (length body)) ltac:(lia)) as [Hpad0 Hpad8]. fold pad in Hpad0, Hpad8.
  destruct (find_param Nsection_length (s_params c)) as [pl|] eqn:Hfind.
  - destruct H as (sl & Hsl & H). destruct ((sl =? 0)%Z || ign) eqn:Eb.
    + destruct H as (off & Hoff & Hset & _).
      destruct (sl_first_shape _ _ Hfirst Hfind) as (r & Hps & Hname & Htype & Hoff0).
      rewrite Hoff0 in Hoff. injection Hoff as <-.
      destruct (body_starts_with_length _ _ _ _ _ _ _ Hps Htype Hw) as [Hwb Hwpos].
      replace (length o + Z.to_nat 0)%nat with (length o) in Hset by lia.
      set (o2 := o ++ body ++ zeros (Z.to_nat pad)) in *.
      assert (Hlen2 : length o2 = (length o + (length body + Z.to_nat pad))%nat).
      { unfold o2. rewrite !app_length, length_zeros. reflexivity. }
      assert (Hrange : (length o + Z.to_nat (p_nbits pl) <= length o2)%nat) by lia.
  destruct (set_uint_frame _ _ _ _ _ Hrange Hset) as (Hl & Hf & Hs & _).
      exists (firstn (length body) (skipn (length o) o')), (Z.to_nat pad).
      assert (E1 : firstn (length o) o' = o).
      { rewrite Hf. unfold o2. apply firstn_app_exact. reflexivity. }
      assert (E3 : skipn (length o + length body) o' = zeros (Z.to_nat pad)).
      { (* the overwrite ends inside the body *)
        replace (length o + length body)%nat
          with ((length body - Z.to_nat (p_nbits pl)) + (length o + Z.to_nat (p_nbits pl)))%nat by lia.
        rewrite <- skipn_skipn, Hs, skipn_skipn.
        replace (length body - Z.to_nat (p_nbits pl) + (length o + Z.to_nat (p_nbits pl)))%nat
          with (length (o ++ body)) by (rewrite app_length; lia).
        unfold o2. rewrite app_assoc. apply skipn_app_exact. reflexivity. }
      split.
      * rewrite <- (firstn_skipn (length o) o') at 1. rewrite E1. f_equal.
        rewrite <- (firstn_skipn (length body) (skipn (length o) o')) at 1. f_equal.
        rewrite skipn_skipn, Nat.add_comm. exact E3.
      * split; [rewrite firstn_length, skipn_length; lia|]. split; [zdiv|]. intros _. lia.
    + destruct H as (_ & _ & Hge & ->).
      exists body, (Z.to_nat pad + Z.to_nat (sl * 8 - Z.of_nat (length body + Z.to_nat pad)))%nat.
      split; [unfold zeros; rewrite repeat_app, <- !app_assoc; reflexivity|].
      split; [reflexivity|]. split; [zdiv|].
      intros [->|[Hc|Hz]]; [rewrite orb_true_r in Eb; discriminate|discriminate|].
      rewrite Hsl in Hz. injection Hz as ->. discriminate.
  - destruct H as (-> & _ & _). exists body, (Z.to_nat pad).
    split; [reflexivity|]. split; [reflexivity|]. split; [zdiv|]. intros _. lia.
Qed.

(* C04 honour_declared: with declared lengths honoured (ignore_declared_length
   = False, declared <> 0) a longer declared section is zero filled exactly to
   the declared extent, a shorter one is refused with the library error *)
Theorem honour_declared : forall c vs props o body props1 edition pl sl,
  write_params (s_params c) vs props [] = Ok (body, props1) ->
  edition_of props1 = Ok edition ->
  find_param Nsection_length (s_params c) = Some pl ->
  prop_get Nsection_length (combine (map p_name (s_params c)) vs) = Some (PUint sl) ->
  sl <> 0%Z ->
  let content := (Z.of_nat (length body) + pad_bits edition (Z.of_nat (length body)))%Z in
  ((sl * 8 < content)%Z -> encode_section false c vs props o = Err ELib) /\
  ((content <= sl * 8)%Z ->
     exists o' sec,
       encode_section false c vs props o = Ok (o', props1, sec) /\
       o' = o ++ body ++ zeros (Z.to_nat (pad_bits edition (Z.of_nat (length body))))
              ++ zeros (Z.to_nat (sl * 8 - content)) /\
       Z.of_nat (length o' - length o) = (sl * 8)%Z /\
       Z.of_nat (sec_nbits sec) = (sl * 8)%Z /\
       prop_get Nsection_length (sec_values sec) = Some (PUint sl)).
Proof.
  intros c vs props o body props1 edition pl sl Hw He Hfind Hsl Hnz content.
  pose proof (write_params_app _ _ _ _ _ _ Hw) as (e & Ebody & G). cbn [app] in Ebody. subst e.
  set (pad := pad_bits edition (Z.of_nat (length body))) in *.
  destruct (pad_bits_octet edition (Z.of_nat (length body)) ltac:(lia)) as [Hpad0 _]. fold pad in Hpad0.
  assert (Hpre :
    encode_section false c vs props o =
    (let o2 := o ++ body ++ zeros (Z.to_nat pad) in
     let unwrite := (sl * 8 - content)%Z in
     if (0 <? unwrite)%Z then
       let* o3 := skip unwrite o2 in
       Ok (o3, props1, mkSec (s_index c) (s_params c) (length o3 - length o) (combine (map p_name (s_params c)) vs))
     else if (unwrite <? 0)%Z then Err ELib
     else Ok (o2, props1, mkSec (s_index c) (s_params c) (length o2 - length o) (combine (map p_name (s_params c)) vs)))).
  { unfold encode_section. rewrite G. cbn [bind]. rewrite He. cbn [bind].
    replace (length (o ++ body) - length o)%nat with (length body) by (rewrite app_length; lia). fold pad.
    assert (E2 : (if (pad =? 0)%Z then @Ok writer (o ++ body) else write_bin (zeros (Z.to_nat pad)) (o ++ body))
                 = Ok (o ++ body ++ zeros (Z.to_nat pad))).
    { destruct (Z.eqb_spec pad 0) as [Ez|Ez].
      - rewrite Ez. cbn. rewrite app_nil_r. reflexivity.
      - unfold write_bin. rewrite app_assoc. reflexivity. }
    rewrite E2. cbn [bind]. rewrite Hfind, Hsl.
    replace ((sl =? 0)%Z || false) with false by (destruct (Z.eqb_spec sl 0); [contradiction|reflexivity]).
    assert (L2 : Z.of_nat (length (o ++ body ++ zeros (Z.to_nat pad)) - length o) = content).
    { rewrite !app_length, length_zeros. unfold content. lia. }
    rewrite L2. reflexivity. }
  rewrite Hpre. cbv zeta. clear Hpre. split.
  - intros Hlt. destruct (Z.ltb_spec 0 (sl * 8 - content)); [lia|].
    destruct (Z.ltb_spec (sl * 8 - content) 0); [reflexivity|lia].
  - intros Hle. destruct (Z.ltb_spec 0 (sl * 8 - content)).
    + unfold skip. destruct (Z.leb_spec (sl * 8 - content) 0); [lia|]. cbn [bind].
      eexists. eexists. split; [reflexivity|]. cbn [sec_nbits sec_values].
      split; [rewrite <- !app_assoc; reflexivity|].
      rewrite !app_length, !length_zeros. unfold content in *. repeat split; try lia. exact Hsl.
    + destruct (Z.ltb_spec (sl * 8 - content) 0); [lia|].
      eexists. eexists. split; [reflexivity|]. cbn [sec_nbits sec_values].
      replace (sl * 8 - content)%Z with 0%Z by lia. cbn [Z.to_nat zeros repeat]. rewrite !app_nil_r.
      split; [reflexivity|]. rewrite !app_length, !length_zeros. unfold content in *. repeat split; try lia. exact Hsl.
Qed.

(* ------------------------------------------------------------------------ *)
(* decoder side                                                              *)
(* ------------------------------------------------------------------------ *)
Lemma read_typed_prefix t n r v r' : read_typed t n r = Ok (v, r') -> exists e, r = e ++ r'.
Proof.
  unfold read_typed. destruct t; try discriminate; intros H.
  - apply bind_ok in H as ([x r1] & H1 & H). injection H as <- <-.
    unfold read_uint in H1. destruct (n <=? 0)%Z; [discriminate|].
    apply bind_ok in H1 as ([b r2] & H2 & H1). injection H1 as <- <-.
    apply take_bits_ok in H2 as [-> _]. eauto.
  - apply bind_ok in H as ([x r1] & H1 & H). injection H as <- <-.
    unfold read_bytes in H1. destruct (n / 8 <? 0)%Z; [discriminate|].
    apply bind_ok in H1 as ([b r2] & H2 & H1). injection H1 as <- <-.
    apply take_bits_ok in H2 as [-> _]. eauto.
  - apply bind_ok in H as ([x r1] & H1 & H). injection H as <- <-.
    unfold read_bin in H1. destruct (n <? 0)%Z; [discriminate|].
    apply take_bits_ok in H1 as [-> _]. eauto.
  - apply bind_ok in H as ([x r1] & H1 & H). injection H as <- <-.
    destruct r as [|y r]; [discriminate|]. injection H1 as <- <-. exists [y]. reflexivity.
Qed.

Lemma read_typed_suffix t n r v r' s : read_typed t n r = Ok (v, r') ->
  read_typed t n (r ++ s) = Ok (v, r' ++ s).
Proof.
  unfold read_typed. destruct t; try discriminate; intros H.
  - apply bind_ok in H as ([x r1] & H1 & H). injection H as <- <-.
    rewrite (read_uint_suffix _ _ _ _ s H1). reflexivity.
  - apply bind_ok in H as ([x r1] & H1 & H). injection H as <- <-.
    unfold read_bytes in *. destruct (n / 8 <? 0)%Z; [discriminate|].
    apply bind_ok in H1 as ([b r2] & H2 & H1). injection H1 as <- <-.
    rewrite (take_bits_suffix _ _ _ _ s H2). reflexivity.
  - apply bind_ok in H as ([x r1] & H1 & H). injection H as <- <-.
    unfold read_bin in *. destruct (n <? 0)%Z; [discriminate|].
    rewrite (take_bits_suffix _ _ _ _ s H1). reflexivity.
  - apply bind_ok in H as ([x r1] & H1 & H). injection H as <- <-.
    destruct r as [|y r]; [discriminate|]. injection H1 as <- <-. reflexivity.
Qed.

Lemma read_desc1_ok st acc r : read_desc1 st = Ok (acc, r) ->
  exists acc0 r0 e id, st = Ok (acc0, r0) /\ acc = id :: acc0 /\ r0 = e ++ r /\ length e = 16%nat /\
    forall s, read_desc1 (Ok (acc0, r0 ++ s)) = Ok (acc, r ++ s).
Proof.
  unfold read_desc1. intros H. apply bind_ok in H as ([acc0 r0] & -> & H).
  apply bind_ok in H as ([f r1] & H1 & H). apply bind_ok in H as ([x r2] & H2 & H).
  apply bind_ok in H as ([y r3] & H3 & H). injection H as <- <-.
  exists acc0, r0.
  assert (P : forall w a b v, read_uint w a = Ok (v, b) -> (0 < w)%Z -> exists e, a = e ++ b /\ length e = Z.to_nat w).
  { intros w a b v Hr Hw. unfold read_uint in Hr. destruct (w <=? 0)%Z; [discriminate|].
    apply bind_ok in Hr as ([bb rr] & Ht & Hr). injection Hr as _ <-.
    apply take_bits_ok in Ht as [-> L]. eauto. }
  destruct (P _ _ _ _ H1 ltac:(lia)) as (e1 & E1 & L1).
  destruct (P _ _ _ _ H2 ltac:(lia)) as (e2 & E2 & L2).
  destruct (P _ _ _ _ H3 ltac:(lia)) as (e3 & E3 & L3).
  exists (e1 ++ e2 ++ e3). eexists. split; [reflexivity|]. split; [reflexivity|].
  split; [rewrite <- !app_assoc; congruence|].
  split; [rewrite !app_length, L1, L2, L3; reflexivity|].
  intros s. cbn [bind]. rewrite (read_uint_suffix _ _ _ _ s H1). cbn [bind].
  rewrite (read_uint_suffix _ _ _ _ s H2). cbn [bind]. rewrite (read_uint_suffix _ _ _ _ s H3). reflexivity.
Qed.

Lemma read_desc1_err e : read_desc1 (Err e) = Err e.
Proof. reflexivity. Qed.

Lemma iter_read_desc1_ok n : forall acc0 r0 acc r,
  N.iter n read_desc1 (Ok (acc0, r0)) = Ok (acc, r) ->
  exists e, r0 = e ++ r /\ length e = (16 * N.to_nat n)%nat /\
    forall s, N.iter n read_desc1 (Ok (acc0, r0 ++ s)) = Ok (acc, r ++ s).
Proof.
  induction n as [|n IH] using N.peano_ind; intros acc0 r0 acc r.
  - cbn. intros E; injection E as <- <-. exists []. split; [reflexivity|]. split; [reflexivity|]. reflexivity.
  - rewrite N.iter_succ. intros H.
    destruct (N.iter n read_desc1 (Ok (acc0, r0))) as [[acc1 r1]|err] eqn:E1; [|discriminate].
    apply read_desc1_ok in H as (acc2 & r2 & e2 & id & Hst & -> & -> & L2 & G2).
    injection Hst as -> ->.
    destruct (IH _ _ _ _ E1) as (e1 & -> & L1 & G1).
    exists (e1 ++ e2). rewrite <- app_assoc. split; [reflexivity|].
    split; [rewrite app_length, L1, L2; lia|].
    intros s. rewrite N.iter_succ. rewrite <- app_assoc. rewrite (app_assoc e1), G1. apply G2.
Qed.

Lemma read_descs_ok n r ids r' : read_descs n r = Ok (ids, r') ->
  exists e, r = e ++ r' /\ forall s, read_descs n (r ++ s) = Ok (ids, r' ++ s).
Proof.
  unfold read_descs. intros H. apply bind_ok in H as ([acc r1] & H1 & H). injection H as <- <-.
  apply iter_read_desc1_ok in H1 as (e & -> & _ & G). exists e. split; [reflexivity|].
  intros s. rewrite G. reflexivity.
Qed.

Lemma declared_length_value all env sl : declared_length all env = Ok sl ->
  has_param Nsection_length all = true /\ prop_get Nsection_length env = Some (PUint sl).
Proof.
  unfold declared_length. destruct (has_param Nsection_length all); [|discriminate].
  destruct (prop_get Nsection_length env) as [[z| | | | |]|]; try discriminate.
  intros E; injection E as <-. auto.
Qed.

(* C04 decode_overrun_error: a declared length shorter than the content *)
Theorem decode_overrun_error : forall (decode_data : list (pname * pvalue) -> reader -> result (bits * reader))
    c props r env props1 r1 sl,
  decode_params decode_data (s_params c) (s_params c) (length r) [] props r = Ok (env, props1, r1) ->
  declared_length (s_params c) env = Ok sl ->
  (sl * 8 < Z.of_nat (length r - length r1))%Z ->
  decode_section decode_data c props r = Err ELib.
Proof.
  intros decode_data c props r env props1 r1 sl Hp Hsl Hlt. unfold decode_section. rewrite Hp. cbn [bind].
  destruct (declared_length_value _ _ _ Hsl) as [Hhas _]. rewrite Hhas, Hsl. cbn [bind].
  destruct (Z.ltb_spec 0 (sl * 8 - Z.of_nat (length r - length r1))); [lia|].
  destruct (Z.ltb_spec (sl * 8 - Z.of_nat (length r - length r1)) 0); [reflexivity|lia].
Qed.


Local Ltac sub_same :=
  match goal with |- context [(?a + ?b - (?c + ?b))%nat] =>
    replace (a + b - (c + b))%nat with (a - c)%nat by lia end; reflexivity.

Section DecoderProofs.
Variable decode_data : list (pname * pvalue) -> reader -> result (bits * reader).
(* the one thing assumed of the template decoder: it reads the stream from the
   front — what it returns is the prefix it consumed, and what follows the bits
   it consumed does not influence it *)
Hypothesis decode_data_prefix : forall p r b r', decode_data p r = Ok (b, r') -> r = b ++ r'.
Hypothesis decode_data_suffix : forall p r b r' s,
  decode_data p r = Ok (b, r') -> decode_data p (r ++ s) = Ok (b, r' ++ s).

Lemma decode_params_ok all ps : forall start env props r env' props' r',
  decode_params decode_data all ps start env props r = Ok (env', props', r') ->
  (exists e, r = e ++ r') /\
  (exists new, env' = env ++ new) /\
  forall s, decode_params decode_data all ps (start + length s) env props (r ++ s) = Ok (env', props', r' ++ s).
Proof.
  induction ps as [|p ps IH]; intros start env props r env' props' r'; cbn [decode_params].
  - intros E; injection E as <- <- <-. split; [exists []; reflexivity|].
    split; [exists []; rewrite app_nil_r; reflexivity|reflexivity].
  - intros H. apply bind_ok in H as ([v r1] & Hv & H). apply bind_ok in H as (u & Hc & H).
    apply IH in H as ((e2 & E2) & (new & En) & G).
    assert (Hv' : (exists e1, r = e1 ++ r1) /\ forall s,
      match p_type p with
      | TDescs =>
          let* sl := declared_length all env in
          let* (ids, r'0) := read_descs ((sl - Z.of_nat (start + length s - length (r ++ s)) / 8) / 2) (r ++ s) in
          Ok (PDescs ids, r'0)
      | TData => let* (b, r'0) := decode_data props (r ++ s) in Ok (PData b, r'0)
      | t => if (p_nbits p =? 0)%Z
             then let* sl := declared_length all env in
                  read_typed t (sl * 8 - Z.of_nat (start + length s - length (r ++ s))) (r ++ s)
             else read_typed t (p_nbits p) (r ++ s)
      end = Ok (v, r1 ++ s)).
    { assert (Hsub : forall s, (start + length s - length (r ++ s))%nat = (start - length r)%nat)
        by (intros s; rewrite app_length; lia).
      assert (Hgen : forall t, (if (p_nbits p =? 0)%Z
               then let* sl := declared_length all env in read_typed t (sl * 8 - Z.of_nat (start - length r)) r
               else read_typed t (p_nbits p) r) = Ok (v, r1) ->
              (exists e1, r = e1 ++ r1) /\ forall s,
              (if (p_nbits p =? 0)%Z
               then let* sl := declared_length all env in
                    read_typed t (sl * 8 - Z.of_nat (start + length s - length (r ++ s))) (r ++ s)
               else read_typed t (p_nbits p) (r ++ s)) = Ok (v, r1 ++ s)).
      { intros t Ht. destruct (p_nbits p =? 0)%Z.
        - apply bind_ok in Ht as (sl & Hsl & Ht). split; [eapply read_typed_prefix; exact Ht|].
          intros s. rewrite Hsl. cbn [bind]. rewrite Hsub. apply read_typed_suffix, Ht.
        - split; [eapply read_typed_prefix; exact Ht|]. intros s. apply read_typed_suffix, Ht. }
      destruct (p_type p); try (apply Hgen; exact Hv).
      - apply bind_ok in Hv as (sl & Hsl & Hv). apply bind_ok in Hv as ([ids r2] & Hd & Hv).
        injection Hv as <- <-. apply read_descs_ok in Hd as (e1 & -> & Gd).
        split; [eauto|]. intros s. rewrite Hsl. cbn [bind]. rewrite Hsub, Gd. reflexivity.
      - apply bind_ok in Hv as ([b r2] & Hd & Hv). injection Hv as <- <-.
        split; [exists b; eapply decode_data_prefix; exact Hd|].
        intros s. rewrite (decode_data_suffix _ _ _ _ s Hd). reflexivity. }
    destruct Hv' as [(e1 & E1) Gv].
    split; [exists (e1 ++ e2); rewrite E1, E2, app_assoc; reflexivity|].
    split; [exists ([(p_name p, v)] ++ new); rewrite En, app_assoc; reflexivity|].
    intros s. specialize (Gv s). cbv zeta in Gv |- *. rewrite Gv. cbn [bind]. rewrite Hc. cbn [bind]. apply G.
Qed.



(* everything decode_section does, in one statement: it consumes a prefix e of
   the reader, the section's extent is |e|, a section with a declared length
   consumes exactly 8 * declared bits, and nothing depends on what follows *)
Lemma decode_section_ok c props r sec props' r' :
  decode_section decode_data c props r = Ok (sec, props', r') ->
  exists e, r = e ++ r' /\ sec_nbits sec = length e /\
    sec_index sec = s_index c /\ sec_params sec = s_params c /\
    (has_param Nsection_length (s_params c) = true ->
       exists sl, prop_get Nsection_length (sec_values sec) = Some (PUint sl) /\
                  Z.of_nat (length e) = (8 * sl)%Z) /\
    forall s, decode_section decode_data c props (r ++ s) = Ok (sec, props', r' ++ s).
Proof.
  unfold decode_section. intros H.
  apply bind_ok in H as ([[env props1] r1] & Hp & H).
  destruct (decode_params_ok _ _ _ _ _ _ _ _ _ Hp) as ((e1 & E1) & _ & G).
  apply bind_ok in H as (r2 & H2 & H). injection H as <- <- <-.
  cbn [sec_nbits sec_index sec_params sec_values].
  assert (Hc : Z.of_nat (length r - length r1) = Z.of_nat (length e1)) by (rewrite E1, app_length; lia).
  destruct (has_param Nsection_length (s_params c)) eqn:Hhas.
  - apply bind_ok in H2 as (sl & Hsl & H2).
    destruct (declared_length_value _ _ _ Hsl) as [_ Hget].
    rewrite Hc in H2.
    destruct (Z.ltb_spec 0 (sl * 8 - Z.of_nat (length e1))).
    + apply bind_ok in H2 as ([b r3] & H3 & H2). injection H2 as ->.
      unfold read_bin in H3. destruct (Z.ltb_spec (sl * 8 - Z.of_nat (length e1)) 0); [lia|].
      pose proof (fun s => take_bits_suffix _ _ _ _ s H3) as G3.
      pose proof (take_bits_ok _ _ _ _ H3) as [E3 L3].
      exists (e1 ++ b). split; [rewrite E1, E3, <- app_assoc; reflexivity|].
      assert (Hlr : length r = (length e1 + length b + length r2)%nat)
        by (rewrite E1, E3, !app_length; lia).
      split; [rewrite app_length; lia|]. split; [reflexivity|]. split; [reflexivity|].
      split; [intros _; exists sl; split; [exact Hget|rewrite app_length; lia]|].
      intros s. rewrite app_length. rewrite (G s). cbn [bind]. rewrite Hsl. cbn [bind].
      replace (Z.of_nat (length r + length s - length (r1 ++ s))) with (Z.of_nat (length e1))
        by (rewrite E1, !app_length; lia).
      destruct (Z.ltb_spec 0 (sl * 8 - Z.of_nat (length e1))); [|lia].
      unfold read_bin. destruct (Z.ltb_spec (sl * 8 - Z.of_nat (length e1)) 0); [lia|].
      rewrite G3. cbn [bind]. rewrite !app_length. sub_same.
    + destruct (Z.ltb_spec (sl * 8 - Z.of_nat (length e1)) 0); [discriminate|]. injection H2 as <-.
      exists e1. split; [exact E1|]. split; [lia|]. split; [reflexivity|]. split; [reflexivity|].
      split; [intros _; exists sl; split; [exact Hget|lia]|].
      intros s. rewrite app_length. rewrite (G s). cbn [bind]. rewrite Hsl. cbn [bind].
      replace (Z.of_nat (length r + length s - length (r1 ++ s))) with (Z.of_nat (length e1))
        by (rewrite E1, !app_length; lia).
      destruct (Z.ltb_spec 0 (sl * 8 - Z.of_nat (length e1))); [lia|].
      destruct (Z.ltb_spec (sl * 8 - Z.of_nat (length e1)) 0); [lia|]. cbn [bind].
      rewrite !app_length. sub_same.
  - injection H2 as <-. exists e1. split; [exact E1|]. split; [lia|]. split; [reflexivity|].
    split; [reflexivity|]. split; [discriminate|].
    intros s. rewrite app_length, (G s). cbn [bind]. rewrite !app_length. sub_same.
Qed.

(* C04 decode_consumes_declared *)
Theorem decode_consumes_declared : forall c props r sec props' r',
  has_param Nsection_length (s_params c) = true ->
  decode_section decode_data c props r = Ok (sec, props', r') ->
  exists sl e, prop_get Nsection_length (sec_values sec) = Some (PUint sl) /\
    r = e ++ r' /\ Z.of_nat (length e) = (8 * sl)%Z /\ sec_nbits sec = length e.
Proof.
  intros c props r sec props' r' Hhas H.
  apply decode_section_ok in H as (e & E & Hn & _ & _ & Hsl & _).
  destruct (Hsl Hhas) as (sl & Hget & Hl). exists sl, e. auto.
Qed.

(* forward direction: parameters read, declared >= content, enough stream *)
Theorem decode_consumes_declared_fwd : forall c props r env props1 r1 sl,
  decode_params decode_data (s_params c) (s_params c) (length r) [] props r = Ok (env, props1, r1) ->
  declared_length (s_params c) env = Ok sl ->
  (Z.of_nat (length r - length r1) <= sl * 8 <= Z.of_nat (length r))%Z ->
  exists sec r2, decode_section decode_data c props r = Ok (sec, props1, r2) /\
    Z.of_nat (length r - length r2) = (sl * 8)%Z /\ Z.of_nat (sec_nbits sec) = (sl * 8)%Z.
Proof.
  intros c props r env props1 r1 sl Hp Hsl Hrange. unfold decode_section. rewrite Hp. cbn [bind].
  destruct (declared_length_value _ _ _ Hsl) as [Hhas _]. rewrite Hhas, Hsl. cbn [bind].
  destruct (decode_params_ok _ _ _ _ _ _ _ _ _ Hp) as ((e1 & E1) & _ & _).
  destruct (Z.ltb_spec 0 (sl * 8 - Z.of_nat (length r - length r1))).
  - unfold read_bin. destruct (Z.ltb_spec (sl * 8 - Z.of_nat (length r - length r1)) 0); [lia|].
    unfold take_bits. destruct (Nat.ltb_spec (length r1) (Z.to_nat (sl * 8 - Z.of_nat (length r - length r1)))).
    + exfalso. rewrite E1, app_length in *. lia.
    + cbn [bind]. eexists. eexists. split; [reflexivity|]. cbn [sec_nbits].
      rewrite skipn_length. rewrite E1, app_length in *. lia.
  - destruct (Z.ltb_spec (sl * 8 - Z.of_nat (length r - length r1)) 0); [lia|]. cbn [bind].
    eexists. eexists. split; [reflexivity|]. cbn [sec_nbits]. lia.
Qed.

End DecoderProofs.

(* ------------------------------------------------------------------------ *)
(* whole messages, encoder side                                              *)
(* ------------------------------------------------------------------------ *)
Lemma encode_section_whole ign c vs props o o' props' sec :
  sl_first (s_params c) = true ->
  encode_section ign c vs props o = Ok (o', props', sec) ->
  exists e, o' = o ++ e /\ sec_nbits sec = length e /\ (Z.of_nat (length e) mod 8 = 0)%Z /\
            sec_index sec = s_index c /\ sec_params sec = s_params c.
Proof.
  intros Hf H. pose proof (encode_section_pieces _ _ _ _ _ _ _ _ H) as (body & props1 & edition & Hw & He & Hrest).
  cbv zeta in Hrest. destruct Hrest as (Hi & Hp & Hn & _).
  destruct (section_zero_padded _ _ _ _ _ _ _ _ _ _ _ Hf Hw He H) as (body' & fill & -> & Lb & Hm & _).
  exists (body' ++ zeros fill). split; [reflexivity|].
  rewrite Hn. rewrite !app_length, length_zeros, Lb. split; [lia|]. split; [exact Hm|]. auto.
Qed.

Lemma get_configuration_in defs props i c : get_configuration defs props i = Ok c ->
  In c defs /\ s_index c = i.
Proof.
  unfold get_configuration. destruct (negb _); [discriminate|].
  destruct (config_for defs i 0) as [d|] eqn:Ed; [|discriminate].
  destruct (config_for defs i (section_edition props)) as [c'|] eqn:Ec; intros E; injection E as <-.
  - unfold config_for in Ec. apply find_some in Ec as [Hin Hb]. apply andb_true_iff in Hb as [Hb _]. split; [exact Hin|lia].
  - unfold config_for in Ed. apply find_some in Ed as [Hin Hb]. apply andb_true_iff in Hb as [Hb _]. split; [exact Hin|lia].
Qed.

Lemma configure_section_plain defs props i c :
  configure_section defs props i false false = Ok (Some c) -> In c defs /\ s_index c = i.
Proof.
  unfold configure_section. intros H. apply bind_ok in H as (c0 & Hg & H).
  unfold transform in H. destruct (existsb bytes_width_bad (s_params c0)); [discriminate|].
  apply bind_ok in H as (b & _ & H). destruct b; [|discriminate]. injection H as <-.
  eapply get_configuration_in; exact Hg.
Qed.

(* attributes of names no later section defines are left alone *)
Definition no_param_from (defs : list sconfig) (idxs : list N) (n : pname) : Prop :=
  forall c, In c defs -> In (s_index c) idxs -> has_param n (s_params c) = false.

Lemma write_params_props n ps : forall vs props o o1 props1,
  has_param n ps = false ->
  write_params ps vs props o = Ok (o1, props1) -> prop_get n props1 = prop_get n props.
Proof.
  induction ps as [|p ps IH]; intros vs props o o1 props1 Hn; cbn [write_params].
  - intros E; injection E as <- <-. reflexivity.
  - destruct vs as [|v vs]; [discriminate|]. intros H. apply bind_ok in H as (a & _ & H).
    unfold has_param in Hn. cbn [existsb] in Hn. apply orb_false_iff in Hn as [Hp Hn].
    rewrite (IH _ _ _ _ _ Hn H). unfold add_prop. destruct (p_prop p); [|reflexivity].
    cbn [prop_get]. rewrite Hp. reflexivity.
Qed.

Lemma find_param_in n ps p : find_param n ps = Some p -> p_name p = n /\ has_param n ps = true.
Proof.
  unfold has_param. induction ps as [|q ps IH]; cbn [find_param existsb]; [discriminate|].
  destruct (pname_beq (p_name q) n) eqn:E.
  - intros H; injection H as <-. split; [apply internal_pname_dec_bl, E|reflexivity].
  - intros H. destruct (IH H) as [H1 H2]. rewrite H2. split; [exact H1|apply orb_true_r].
Qed.

Lemma encode_section_props n ign c vs props o o' props' sec :
  has_param n (s_params c) = false ->
  encode_section ign c vs props o = Ok (o', props', sec) -> prop_get n props' = prop_get n props.
Proof.
  intros Hn H. apply encode_section_pieces in H as (body & props1 & edition & Hw & _ & H).
  cbv zeta in H. destruct H as (_ & _ & _ & H).
  pose proof (write_params_props _ _ _ _ _ _ _ Hn Hw) as E1.
  destruct (find_param Nsection_length (s_params c)) as [pl|] eqn:Hf.
  - destruct H as (sl & _ & H). destruct ((sl =? 0)%Z || ign).
    + destruct H as (off & _ & _ & -> & _). unfold add_prop. destruct (p_prop pl); [|exact E1].
      cbn [prop_get]. destruct (find_param_in _ _ _ Hf) as [Hname Hhas].
      destruct (pname_beq (p_name pl) n) eqn:E; [|exact E1].
      apply internal_pname_dec_bl in E. rewrite Hname in E. subst n. congruence.
    + destruct H as (-> & _). exact E1.
  - destruct H as (_ & -> & _). exact E1.
Qed.

(* the section loop: the writer grows by whole-octet sections laid end to end;
   the loop ends with a section whose configuration has end_of_message *)
Lemma encode_sections_ok ign defs idxs :
  forallb (fun c => sl_first (s_params c)) defs = true ->
  forall json props secs o o' props' secs',
  encode_sections ign defs idxs json props secs o = Ok (o', props', secs') ->
  exists e new,
    o' = o ++ e /\ secs' = secs ++ new /\ length e = sections_nbits new /\
    (Z.of_nat (length e) mod 8 = 0)%Z /\
    Forall (fun s => exists c, In c defs /\ In (s_index c) idxs /\ sec_index s = s_index c /\
                               sec_params s = s_params c) new /\
    (forall n, no_param_from defs idxs n -> prop_get n props' = prop_get n props) /\
    (* the last section *)
    exists e0 c vs props_k sec new0,
      e0 ++ skipn (length e0) e = e /\ (Z.of_nat (length e0) mod 8 = 0)%Z /\
      In c defs /\ s_end c = true /\ length (s_params c) = length vs /\
      encode_section ign c vs props_k (o ++ e0) = Ok (o', props', sec) /\
      new = new0 ++ [sec].
Proof.
  intros Hdefs. rewrite forallb_forall in Hdefs.
  induction idxs as [|i idxs IH]; intros json props secs o o' props' secs'; cbn [encode_sections].
  - destruct json; discriminate.
  - destruct json as [|vs json]; [discriminate|]. intros H.
    apply bind_ok in H as (oc & Hc & H). destruct oc as [c|].
    + destruct (configure_section_plain _ _ _ _ Hc) as [Hin Hidx].
      destruct (Nat.eqb_spec (length (s_params c)) (length vs)) as [Hlen|]; [|discriminate]. cbn [negb] in H.
      apply bind_ok in H as ([[o1 props1] sec] & Hs & H).
      destruct (encode_section_whole _ _ _ _ _ _ _ _ (Hdefs _ Hin) Hs) as (e1 & -> & Hn1 & Hm1 & Hi1 & Hp1).
      assert (Hsec : exists c0, In c0 defs /\ In (s_index c0) (i :: idxs) /\ sec_index sec = s_index c0 /\
                                sec_params sec = s_params c0).
      { exists c. rewrite Hidx. repeat split; auto with datatypes; congruence. }
      destruct (s_end c) eqn:Hend.
      * injection H as <- <- <-. exists e1, [sec]. split; [reflexivity|]. split; [reflexivity|].
        cbn [sections_nbits]. split; [lia|]. split; [exact Hm1|]. split; [constructor; [exact Hsec|constructor]|].
        split.
        { intros n Hno. eapply encode_section_props; [|exact Hs]. apply Hno; [exact Hin|]. rewrite Hidx. left; reflexivity. }
        exists [], c, vs, props, sec, []. cbn [app length skipn]. rewrite app_nil_r.
        repeat split; auto.
      * apply IH in H as (e2 & new & -> & -> & Hl2 & Hm2 & Hall & Hprops & Hlast).
        exists (e1 ++ e2), (sec :: new). rewrite <- !app_assoc. split; [reflexivity|]. split; [reflexivity|].
        cbn [sections_nbits]. rewrite app_length. split; [lia|]. split; [zdiv|].
        split.
        { constructor; [exact Hsec|]. eapply Forall_impl; [|exact Hall].
          intros s (c0 & A & B & C & D). exists c0. repeat split; auto. right; exact B. }
        split.
        { intros n Hno. rewrite Hprops.
          - eapply encode_section_props; [|exact Hs]. apply Hno; [exact Hin|]. rewrite Hidx. left; reflexivity.
          - intros c0 A B. apply Hno; [exact A|right; exact B]. }
        destruct Hlast as (e0 & c5 & vs5 & props_k & sec5 & new0 & He0 & Hm0 & Hin5 & Hend5 & Hlen5 & Henc5 & ->).
        exists (e1 ++ e0), c5, vs5, props_k, sec5, (sec :: new0).
        split.
        { rewrite app_length, <- app_assoc. f_equal.
          rewrite Nat.add_comm, <- skipn_skipn. rewrite skipn_app_exact by reflexivity. exact He0. }
        split; [rewrite app_length; zdiv|]. repeat split; auto.
        rewrite (app_assoc o e1 e2), (app_assoc o e1 e0). exact Henc5.
    + apply IH in H as (e2 & new & -> & -> & Hl2 & Hm2 & Hall & Hprops & Hlast).
      exists e2, new. split; [reflexivity|]. split; [reflexivity|]. split; [exact Hl2|]. split; [exact Hm2|].
      split.
      { eapply Forall_impl; [|exact Hall].
        intros s (c0 & A & B & C & D). exists c0. repeat split; auto. right; exact B. }
      split.
      { intros n Hno. apply Hprops. intros c0 A B. apply Hno; [exact A|right; exact B]. }
      exact Hlast.
Qed.

(* ---- the two signature sections of the bundled definitions --------------- *)
Lemma pad_bits_64 e : pad_bits e 64 = 0%Z.
Proof. unfold pad_bits. destruct (e <=? 3)%Z; reflexivity. Qed.
Lemma pad_bits_32 e : pad_bits e 32 = 0%Z.
Proof. unfold pad_bits. destruct (e <=? 3)%Z; reflexivity. Qed.

Lemma encode_section0 ign vs props o o' props' sec :
  length vs = 3%nat ->
  encode_section ign section0 vs props o = Ok (o', props', sec) ->
  exists l len ed,
    vs = [PBytes l; PUint len; PUint ed] /\
    o' = o ++ bits_of_bytes (pad_bytes l 4) ++ to_bits 24 (Z.to_N len) ++ to_bits 8 (Z.to_N ed) /\
    props' = (Nedition, PUint ed) :: (Nlength, PUint len) :: props /\
    sec = mkSec 0 (s_params section0) 64
            [(Nstart_signature, PBytes l); (Nlength, PUint len); (Nedition, PUint ed)] /\
    (0 <= len < 2 ^ 24)%Z.
Proof.
  intros Hlen H. destruct vs as [|v1 [|v2 [|v3 [|]]]]; try discriminate.
  apply encode_section_pieces in H as (body & props1 & edition & Hw & He & H). cbv zeta in H.
  destruct H as (Hi & Hp & Hn & H).
  change (find_param Nsection_length (s_params section0)) with (@None param) in H.
  destruct H as (-> & -> & Hv).
  cbn [section0 s_params write_params] in Hw.
  apply bind_ok in Hw as (o1 & H1 & Hw). apply bind_ok in Hw as (o2 & H2 & Hw). apply bind_ok in Hw as (o3 & H3 & Hw).
  injection Hw as <- <-.
  unfold write_param in H1, H2, H3. cbn [p_type p_nbits] in H1, H2, H3.
  destruct v1; try discriminate. destruct v2; try discriminate. destruct v3; try discriminate.
  unfold write_bytes in H1. change (32 / 8 <? 0)%Z with false in H1. injection H1 as <-.
  pose proof (write_uint_exact _ _ _ _ H2) as (-> & Hr2 & _).
  pose proof (write_uint_exact _ _ _ _ H3) as (-> & Hr3 & _).
  unfold add_prop in He. cbn [p_prop p_name] in He. unfold edition_of in He. cbn [prop_get] in He.
  change (pname_beq Nedition Nedition) with true in He. injection He as <-.
  exists l, z, z0. split; [reflexivity|].
  match goal with |- context [pad_bits _ (Z.of_nat (length ?b))] =>
    assert (Lb : length b = 64%nat)
      by (rewrite !app_length, !length_to_bits, length_bits_of_bytes, length_pad_bytes; reflexivity) end.
  rewrite Lb in *. change (Z.of_nat 64) with 64%Z in *. rewrite pad_bits_64 in *.
  cbn [Z.to_nat zeros repeat app] in *. rewrite !app_nil_r in *.
  split; [rewrite <- !app_assoc; reflexivity|]. split; [reflexivity|].
  split; [|exact Hr2].
  destruct sec as [si sp sn sv]. cbn [sec_index sec_params sec_nbits sec_values] in *. subst si sp sv.
  f_equal. rewrite Hn, app_length, Lb. lia.
Qed.

Lemma encode_section5 ign vs props o o' props' sec :
  length vs = 1%nat ->
  encode_section ign section5 vs props o = Ok (o', props', sec) ->
  exists l, vs = [PBytes l] /\ o' = o ++ bits_of_bytes (pad_bytes l 4) /\ props' = props /\
            sec_values sec = [(Nstop_signature, PBytes l)].
Proof.
  intros Hlen H. destruct vs as [|v1 [|]]; try discriminate.
  apply encode_section_pieces in H as (body & props1 & edition & Hw & He & H). cbv zeta in H.
  destruct H as (Hi & Hp & Hn & H).
  change (find_param Nsection_length (s_params section5)) with (@None param) in H.
  destruct H as (-> & -> & Hv).
  cbn [section5 s_params write_params] in Hw.
  apply bind_ok in Hw as (o1 & H1 & Hw). injection Hw as <- <-.
  unfold write_param in H1. cbn [p_type p_nbits] in H1. destruct v1; try discriminate.
  unfold write_bytes in H1. change (32 / 8 <? 0)%Z with false in H1. injection H1 as <-.
  exists l. split; [reflexivity|].
  match goal with |- context [pad_bits _ (Z.of_nat (length ?b))] =>
    assert (Lb : length b = 32%nat)
      by (rewrite ?app_length, length_bits_of_bytes, length_pad_bytes; reflexivity) end.
  rewrite Lb. change (Z.of_nat 32) with 32%Z. rewrite pad_bits_32.
  cbn [Z.to_nat zeros repeat app]. rewrite !app_nil_r. split; [reflexivity|]. split; [reflexivity|exact Hv].
Qed.

Lemma definitions_end c : In c definitions -> s_end c = true -> c = section5.
Proof.
  unfold definitions. cbn [In]. intros H He.
  repeat (destruct H as [<-|H]; [try discriminate; try reflexivity|]). contradiction.
Qed.

Lemma definitions_length_owner c : In c definitions -> s_index c <> 0%N ->
  has_param Nlength (s_params c) = false.
Proof.
  unfold definitions. cbn [In]. intros H He.
  repeat (destruct H as [<-|H]; [first [reflexivity | exfalso; apply He; reflexivity]|]). contradiction.
Qed.

Lemma definitions_edition_owner c : In c definitions -> s_index c <> 0%N ->
  has_param Nedition (s_params c) = false.
Proof.
  unfold definitions. cbn [In]. intros H He.
  repeat (destruct H as [<-|H]; [first [reflexivity | exfalso; apply He; reflexivity]|]). contradiction.
Qed.

(* ---- bits <-> bytes -------------------------------------------------------- *)
Lemma length_bytes_of_bits n : forall b, length (bytes_of_bits n b) = n.
Proof. induction n as [|n IH]; intros b; cbn [bytes_of_bits length]; [reflexivity|]. rewrite IH. reflexivity. Qed.

Lemma to_bytes_whole o k : length o = (8 * k)%nat -> to_bytes o = bytes_of_bits k o.
Proof.
  intros H. unfold to_bytes. rewrite H.
  replace ((8 * k + 7) / 8)%nat with k by (apply Nat.div_unique with 7%nat; lia).
  rewrite Nat.sub_diag. cbn [zeros repeat]. rewrite app_nil_r. reflexivity.
Qed.

Lemma bytes_of_bits_app n1 : forall n2 b,
  bytes_of_bits (n1 + n2) b = bytes_of_bits n1 b ++ bytes_of_bits n2 (skipn (8 * n1) b).
Proof.
  induction n1 as [|n1 IH]; intros n2 b; [reflexivity|].
  cbn [Nat.add bytes_of_bits app]. f_equal. rewrite IH. f_equal. f_equal.
  replace (8 * S n1)%nat with (8 * n1 + 8)%nat by lia. rewrite <- skipn_skipn. reflexivity.
Qed.

Lemma bits_of_bytes_of_bits k : forall o, length o = (8 * k)%nat -> bits_of_bytes (bytes_of_bits k o) = o.
Proof.
  induction k as [|k IH]; intros o H.
  - destruct o; [reflexivity|discriminate].
  - cbn [bytes_of_bits bits_of_bytes]. rewrite IH by (rewrite skipn_length; lia).
    rewrite <- (firstn_skipn 8 o) at 3. f_equal.
    assert (L8 : length (firstn 8 o) = 8%nat) by (rewrite firstn_length; lia).
    rewrite <- L8 at 1. apply to_bits_of_bits.
Qed.

Lemma bits_of_bytes_app a b : bits_of_bytes (a ++ b) = bits_of_bytes a ++ bits_of_bytes b.
Proof. induction a as [|x a IH]; [reflexivity|]. cbn [app bits_of_bytes]. rewrite IH, app_assoc. reflexivity. Qed.

Lemma forallb_is_byte_bytes_of_bits k : forall o, forallb is_byte (bytes_of_bits k o) = true.
Proof.
  induction k as [|k IH]; intros o; [reflexivity|]. cbn [bytes_of_bits forallb]. rewrite IH, andb_true_r.
  unfold is_byte. pose proof (of_bits_lt (firstn 8 o)) as H.
  assert (length (firstn 8 o) <= 8)%nat by (rewrite firstn_length; lia).
  assert (2 ^ N.of_nat (length (firstn 8 o)) <= 2 ^ 8)%N by (apply N.pow_le_mono_r; lia).
  change (2 ^ 8)%N with 256%N in *. lia.
Qed.

Lemma ok_inj {A} (a b : A) : Ok a = Ok b -> a = b.
Proof. intros H; injection H; auto. Qed.

Lemma find_owner_none n secs : forall b acc,
  Forall (fun s => find_param n (sec_params s) = None) secs -> find_owner n b secs acc = acc.
Proof.
  induction secs as [|s secs IH]; intros b acc H; cbn [find_owner]; [reflexivity|].
  inversion H as [|? ? H1 H2]; subst. rewrite H1. apply IH, H2.
Qed.

Lemma replace_section_head k s s' r : sec_index s = k -> replace_section k s' (s :: r) = s' :: r.
Proof. intros H. cbn [replace_section]. rewrite H, N.eqb_refl. reflexivity. Qed.

(* the shape of every successfully encoded message (bundled definitions):
   signature octets, the total length, the edition, whole-octet sections, the
   stop signature octets; and the length attribute equals the octet count *)
Lemma encode_message_shape ign json m :
  encode_message ign json = Ok m ->
  exists l ed e0 l5 sec0 mid sec5,
    let nbytes := (Z.of_nat (64 + length e0 + 32) / 8)%Z in
    m_bytes m = to_bytes (bits_of_bytes (pad_bytes l 4) ++ to_bits 24 (Z.to_N nbytes) ++
                          to_bits 8 (Z.to_N ed) ++ e0 ++ bits_of_bytes (pad_bytes l5 4)) /\
    (Z.of_nat (length e0) mod 8 = 0)%Z /\ (0 <= nbytes < 2 ^ 24)%Z /\
    prop_get Nlength (m_props m) = Some (PUint nbytes) /\
    m_sections m = sec0 :: mid ++ [sec5] /\
    sec_values sec0 = [(Nstart_signature, PBytes l); (Nlength, PUint nbytes); (Nedition, PUint ed)] /\
    sec_values sec5 = [(Nstop_signature, PBytes l5)] /\
    sections_nbits (m_sections m) = (64 + length e0 + 32)%nat.
Proof.
  unfold encode_message, encode_message_with. intros H.
  apply bind_ok in H as ([[o props] secs] & Hs & H).
  unfold section_indices in Hs. cbn [encode_sections] in Hs.
  destruct json as [|vs json']; [discriminate|].
  change (configure_section definitions [] 0 false false) with (@Ok (option sconfig) (Some section0)) in Hs.
  cbn [bind] in Hs.
  destruct (Nat.eqb_spec (length (s_params section0)) (length vs)) as [Hl3|]; [|discriminate]. cbn [negb] in Hs.
  apply bind_ok in Hs as ([[o1 props1] sec0] & H0 & Hs).
  apply encode_section0 in H0 as (l & len & ed & -> & -> & -> & -> & Hr); [|symmetry; exact Hl3].
  change (s_end section0) with false in Hs. cbv iota in Hs.
  apply (encode_sections_ok ign definitions [1;2;3;4;5;6]%N definitions_sl_first) in Hs
    as (e & new & -> & -> & Hl & Hm & Hall & Hprops & Hlast).
  destruct Hlast as (e0 & c5 & vs5 & props_k & sec5 & mid & He0 & Hm0 & Hin5 & Hend5 & Hlen5 & Henc5 & ->).
  pose proof (definitions_end _ Hin5 Hend5) as ->.
  apply encode_section5 in Henc5 as (l5 & -> & Eo & _ & Hv5); [|symmetry; exact Hlen5].
  (* e = e0 ++ stop signature *)
  assert (Ee : e = e0 ++ bits_of_bytes (pad_bytes l5 4)).
  { rewrite <- !app_assoc in Eo. apply app_inv_head in Eo. cbn [app] in Eo.
    repeat apply app_inv_head in Eo. exact Eo. }
  assert (Hno : forall n, (forall c, In c definitions -> s_index c <> 0%N -> has_param n (s_params c) = false) ->
                          no_param_from definitions [1;2;3;4;5;6]%N n).
  { intros n Hn c Hc Hi. apply Hn; [exact Hc|]. intros E. rewrite E in Hi. cbn in Hi. intuition discriminate. }
  rewrite (Hprops Nlength (Hno _ definitions_length_owner)) in H. cbn [prop_get] in H.
  change (pname_beq Nedition Nlength) with false in H. change (pname_beq Nlength Nlength) with true in H.
  cbv iota in H.
  assert (Hown : find_owner Nlength 0 (([] ++ [mkSec 0 (s_params section0) 64
                 [(Nstart_signature, PBytes l); (Nlength, PUint len); (Nedition, PUint ed)]]) ++ mid ++ [sec5]) None
                 = Some (O, mkSec 0 (s_params section0) 64
                 [(Nstart_signature, PBytes l); (Nlength, PUint len); (Nedition, PUint ed)])).
  { change (([] ++ [mkSec 0 (s_params section0) 64
                 [(Nstart_signature, PBytes l); (Nlength, PUint len); (Nedition, PUint ed)]]) ++ mid ++ [sec5])
      with (mkSec 0 (s_params section0) 64
                 [(Nstart_signature, PBytes l); (Nlength, PUint len); (Nedition, PUint ed)] :: mid ++ [sec5]).
    cbn [find_owner sec_params]. change (find_param Nlength (s_params section0)) with (Some (mkP Nlength 24 TUint None true)).
    cbn [p_prop]. apply find_owner_none. eapply Forall_impl; [|exact Hall].
    intros s (c & Hc & Hi & _ & Hp). rewrite Hp. apply find_param_has. apply definitions_length_owner; [exact Hc|].
    intros E. rewrite E in Hi. cbn in Hi. intuition discriminate. }
  set (body0 := bits_of_bytes (pad_bytes l 4)) in *.
  assert (Lb0 : length body0 = 32%nat) by (unfold body0; rewrite length_bits_of_bytes, length_pad_bytes; reflexivity).
  assert (Ls5 : length (bits_of_bytes (pad_bytes l5 4)) = 32%nat) by (rewrite length_bits_of_bytes, length_pad_bytes; reflexivity).
  assert (Lo : Z.of_nat (length (([] ++ body0 ++ to_bits 24 (Z.to_N len) ++ to_bits 8 (Z.to_N ed)) ++ e))
               = Z.of_nat (64 + length e0 + 32)).
  { rewrite Ee, !app_length, !length_to_bits, Lb0, Ls5. cbn [length]. lia. }
  assert (Hme : (Z.of_nat (length e) mod 8 = 0)%Z) by exact Hm.
  assert (Hnb : (0 <= Z.of_nat (64 + length e0 + 32) / 8)%Z) by zdiv.
  exists l, ed, e0, l5. cbv zeta.
  set (nbytes := (Z.of_nat (64 + length e0 + 32) / 8)%Z) in *.
  assert (Hsecs : sections_nbits (mkSec 0 (s_params section0) 64
                 [(Nstart_signature, PBytes l); (Nlength, PUint nbytes); (Nedition, PUint ed)] :: mid ++ [sec5])
                 = (64 + length e0 + 32)%nat).
  { cbn [sections_nbits sec_nbits]. rewrite <- Hl, Ee, app_length, Ls5. lia. }
  destruct ((len =? 0)%Z || ign) eqn:Eb.
  - rewrite Hown in H.
    change (param_offset Nlength (sec_params {| sec_index := 0; sec_params := s_params section0; sec_nbits := 64;
              sec_values := [(Nstart_signature, PBytes l); (Nlength, PUint len); (Nedition, PUint ed)] |}))
      with (Some 32%Z) in H.
    change (find_param Nlength (sec_params {| sec_index := 0; sec_params := s_params section0; sec_nbits := 64;
              sec_values := [(Nstart_signature, PBytes l); (Nlength, PUint len); (Nedition, PUint ed)] |}))
      with (Some (mkP Nlength 24 TUint None true)) in H.
    cbv iota in H. apply bind_ok in H as (o'' & Hset & H).
    rewrite Lo in Hset, H. fold nbytes in Hset, H. apply ok_inj in H. subst m.
    cbn [m_bytes m_props m_sections prop_get p_nbits] in Hset |- *. change (pname_beq Nlength Nlength) with true.
    unfold set_uint in Hset. change (24 <=? 0)%Z with false in Hset.
    destruct (Z.ltb_spec nbytes 0); [discriminate|]. destruct (Z.leb_spec (2 ^ 24) nbytes); [discriminate|].
    apply ok_inj in Hset. subst o''.
    eexists. exists mid, sec5. split.
    { f_equal. cbn [app]. change (0 + Z.to_nat 32)%nat with 32%nat. change (Z.to_nat 24) with 24%nat.
      rewrite <- !app_assoc. rewrite firstn_app_exact by exact Lb0. f_equal.
      rewrite (app_assoc body0). rewrite skipn_app_exact by (rewrite app_length, length_to_bits, Lb0; reflexivity).
      rewrite Ee. reflexivity. }
    split; [rewrite Ee, app_length, Ls5 in Hme; zdiv|]. split; [lia|]. split; [reflexivity|].
    split; [cbn [app]; apply replace_section_head; reflexivity|].
    cbn [sec_values set_value]. change (pname_beq Nstart_signature Nlength) with false.
    change (pname_beq Nlength Nlength) with true. cbv iota.
    split; [reflexivity|]. split; [exact Hv5|exact Hsecs].
  - rewrite Lo in H. fold nbytes in H.
    destruct (Z.eqb_spec len nbytes) as [->|]; [|discriminate]. cbn [negb] in H.
    apply ok_inj in H. subst m. cbn [m_bytes m_props m_sections].
    eexists. exists mid, sec5. split.
    { f_equal. cbn [app]. rewrite <- !app_assoc. rewrite Ee. reflexivity. }
    split; [rewrite Ee, app_length, Ls5 in Hme; zdiv|]. split; [exact Hr|].
    split.
    { rewrite (Hprops Nlength (Hno _ definitions_length_owner)). cbn [prop_get].
      change (pname_beq Nedition Nlength) with false. change (pname_beq Nlength Nlength) with true. reflexivity. }
    split; [reflexivity|]. cbn [sec_values].
    split; [reflexivity|]. split; [exact Hv5|exact Hsecs].
Qed.

(* C04 total_length_exact: whatever the configuration (recompute, declared 0, or
   a declared total honoured — a wrong one is refused), the length attribute, the
   length field of section 0 in the stream and the number of octets produced agree *)
Theorem total_length_exact : forall ign json m,
  encode_message ign json = Ok m ->
  exists len rest sec0 others,
    prop_get Nlength (m_props m) = Some (PUint len) /\
    len = Z.of_nat (length (m_bytes m)) /\
    read_uint 24 (skipn 32 (bits_of_bytes (m_bytes m))) = Ok (Z.to_N len, rest) /\
    m_sections m = sec0 :: others /\ prop_get Nlength (sec_values sec0) = Some (PUint len) /\
    (8 * length (m_bytes m) = sections_nbits (m_sections m))%nat.
Proof.
  intros ign json m H.
  apply encode_message_shape in H as (l & ed & e0 & l5 & sec0 & mid & sec5 & H). cbv zeta in H.
  destruct H as (Hb & Hm & Hr & Hp & Hs & Hv0 & Hv5 & Hn).
  set (nbytes := (Z.of_nat (64 + length e0 + 32) / 8)%Z) in *.
  set (B := bits_of_bytes (pad_bytes l 4) ++ to_bits 24 (Z.to_N nbytes) ++ to_bits 8 (Z.to_N ed) ++
            e0 ++ bits_of_bytes (pad_bytes l5 4)) in *.
  assert (LB : length B = (8 * Z.to_nat nbytes)%nat).
  { unfold B. rewrite !app_length, !length_to_bits, !length_bits_of_bytes, !length_pad_bytes. unfold nbytes. zdiv. }
  rewrite (to_bytes_whole _ _ LB) in Hb.
  exists nbytes. eexists. exists sec0, (mid ++ [sec5]).
  split; [exact Hp|]. split; [rewrite Hb, length_bytes_of_bits; lia|].
  split.
  { rewrite Hb, (bits_of_bytes_of_bits _ _ LB). unfold B.
    rewrite skipn_app_exact by (rewrite length_bits_of_bytes, length_pad_bytes; reflexivity).
    apply (read_uint_to_bits 24); [lia|]. change (2 ^ Z.to_N 24)%N with (Z.to_N (2 ^ 24)). lia. }
  split; [exact Hs|]. split.
  { rewrite Hv0. cbn [prop_get]. change (pname_beq Nstart_signature Nlength) with false.
    change (pname_beq Nlength Nlength) with true. reflexivity. }
  rewrite Hn, Hb, length_bytes_of_bits. unfold nbytes. zdiv.
Qed.

(* C04 starts_BUFR_ends_7777: the first four octets are the start_signature
   value, the last four the stop_signature value (the encoder writes what it is
   given: with the expected values BUFR / 7777 that is what the message carries) *)
Theorem starts_BUFR_ends_7777 : forall ign json m,
  encode_message ign json = Ok m ->
  exists sec0 mid sec5 l l5,
    m_sections m = sec0 :: mid ++ [sec5] /\
    prop_get Nstart_signature (sec_values sec0) = Some (PBytes l) /\
    prop_get Nstop_signature (sec_values sec5) = Some (PBytes l5) /\
    (forallb is_byte l = true -> firstn 4 (m_bytes m) = pad_bytes l 4) /\
    (forallb is_byte l5 = true ->
       skipn (length (m_bytes m) - 4) (m_bytes m) = pad_bytes l5 4) /\
    (l = sig_BUFR -> firstn 4 (m_bytes m) = sig_BUFR) /\
    (l5 = sig_7777 -> skipn (length (m_bytes m) - 4) (m_bytes m) = sig_7777).
Proof.
  intros ign json m H.
  apply encode_message_shape in H as (l & ed & e0 & l5 & sec0 & mid & sec5 & H). cbv zeta in H.
  destruct H as (Hb & Hm & Hr & Hp & Hs & Hv0 & Hv5 & Hn).
  set (nbytes := (Z.of_nat (64 + length e0 + 32) / 8)%Z) in *.
  set (B := bits_of_bytes (pad_bytes l 4) ++ to_bits 24 (Z.to_N nbytes) ++ to_bits 8 (Z.to_N ed) ++
            e0 ++ bits_of_bytes (pad_bytes l5 4)) in *.
  assert (Hk : exists k', Z.to_nat nbytes = (4 + (4 + k' + 4))%nat /\ length e0 = (8 * k')%nat).
  { exists (Z.to_nat (Z.of_nat (length e0) / 8)). unfold nbytes. split; zdiv. }
  destruct Hk as (k' & Hk & Le0).
  assert (LB : length B = (8 * Z.to_nat nbytes)%nat).
  { unfold B. rewrite !app_length, !length_to_bits, !length_bits_of_bytes, !length_pad_bytes. lia. }
  rewrite (to_bytes_whole _ _ LB) in Hb.
  assert (Hfirst : forallb is_byte l = true -> firstn 4 (m_bytes m) = pad_bytes l 4).
  { intros Hl. rewrite Hb, Hk, bytes_of_bits_app. rewrite firstn_app_exact by apply length_bytes_of_bits.
    unfold B. rewrite <- (length_pad_bytes l 4) at 1.
    apply bytes_of_bits_of_bytes, forallb_pad_bytes, Hl. }
  assert (Hlast : forallb is_byte l5 = true -> skipn (length (m_bytes m) - 4) (m_bytes m) = pad_bytes l5 4).
  { intros Hl. rewrite Hb, length_bytes_of_bits.
    replace (Z.to_nat nbytes) with ((8 + k') + 4)%nat by lia.
    rewrite bytes_of_bits_app. rewrite skipn_app_exact by (rewrite length_bytes_of_bits; lia).
    assert (Es : skipn (8 * (8 + k')) B = bits_of_bytes (pad_bytes l5 4) ++ []).
    { unfold B. rewrite app_nil_r, !app_assoc. apply skipn_app_exact.
      rewrite !app_length, !length_to_bits, length_bits_of_bytes, length_pad_bytes. lia. }
    rewrite Es. rewrite <- (length_pad_bytes l5 4) at 1.
    apply bytes_of_bits_of_bytes, forallb_pad_bytes, Hl. }
  exists sec0, mid, sec5, l, l5. split; [exact Hs|].
  split; [rewrite Hv0; reflexivity|]. split; [rewrite Hv5; reflexivity|].
  split; [exact Hfirst|]. split; [exact Hlast|].
  split; intros ->; [apply Hfirst|apply Hlast]; reflexivity.
Qed.

(* the encoder does not check expected values: what is given is written *)
Example encoder_writes_given_signature :
  exists json m, encode_message true json = Ok m /\ firstn 4 (m_bytes m) <> sig_BUFR.
Proof.
  exists [[PBytes [65;66;67;68]%N; PUint 0; PUint 4];
          [PUint 0; PUint 0; PUint 0; PUint 0; PUint 0; PBool false; PBin (zeros 7); PUint 0; PUint 0; PUint 0;
           PUint 33; PUint 0; PUint 2020; PUint 1; PUint 1; PUint 0; PUint 0; PUint 0];
          [PUint 0; PBin (zeros 8); PUint 1; PBool true; PBool false; PBin (zeros 6); PDescs [31031]];
          [PUint 0; PBin (zeros 8); PData [true]];
          [PBytes sig_7777]]%Z.
  eexists. split; [vm_compute; reflexivity|]. vm_compute. discriminate.
Qed.

(* ------------------------------------------------------------------------ *)
(* whole messages, decoder side                                              *)
(* ------------------------------------------------------------------------ *)
Lemma starts_with_app g : forall s t, starts_with g s = true -> starts_with g (s ++ t) = true.
Proof.
  induction g as [|a g IH]; intros s t; [reflexivity|]. destruct s as [|b s]; [discriminate|].
  cbn [starts_with app]. intros H. apply andb_true_iff in H as [H1 H2]. rewrite H1, (IH _ _ H2). reflexivity.
Qed.

Lemma starts_with_app_false g : forall s t, (length g <= length s)%nat ->
  starts_with g s = false -> starts_with g (s ++ t) = false.
Proof.
  induction g as [|a g IH]; intros s t Hl; [discriminate|]. destruct s as [|b s]; [exfalso; cbn in Hl; lia|].
  cbn [starts_with app]. intros H. apply andb_false_iff in H as [H|H]; [rewrite H; reflexivity|].
  assert (Hl' : (length g <= length s)%nat) by (cbn in Hl; lia).
  rewrite (IH _ t Hl' H). apply andb_false_r.
Qed.

Lemma starts_with_length g : forall s, starts_with g s = true -> (length g <= length s)%nat.
Proof.
  induction g as [|a g IH]; intros s; [cbn; lia|]. destruct s as [|b s]; [discriminate|].
  cbn [starts_with length]. intros H. apply andb_true_iff in H as [_ H]. apply IH in H. lia.
Qed.

Lemma find_sig_length g : forall s i, find_sig g s = Some i -> (i + length g <= length s)%nat.
Proof.
  induction s as [|x s IH]; intros i; cbn [find_sig].
  - destruct (starts_with g []) eqn:E; [|discriminate]. intros H; injection H as <-.
    apply starts_with_length in E. lia.
  - destruct (starts_with g (x :: s)) eqn:E.
    + intros H; injection H as <-. apply starts_with_length in E. lia.
    + destruct (find_sig g s) as [j|]; [|discriminate]. intros H; injection H as <-.
      specialize (IH _ eq_refl). cbn [length]. lia.
Qed.

Lemma find_sig_app g : forall s i t, find_sig g s = Some i -> find_sig g (s ++ t) = Some i.
Proof.
  induction s as [|x s IH]; intros i t; cbn [find_sig app].
  - destruct (starts_with g []) eqn:E; [|discriminate]. intros H; injection H as <-.
    destruct g; [|discriminate]. destruct t; reflexivity.
  - destruct (starts_with g (x :: s)) eqn:E.
    + intros H; injection H as <-. change (x :: s ++ t) with ((x :: s) ++ t).
      rewrite (starts_with_app _ _ t E). destruct t; reflexivity.
    + destruct (find_sig g s) as [j|] eqn:Ej; [|discriminate]. intros H; injection H as <-.
      change (x :: s ++ t) with ((x :: s) ++ t).
      rewrite (starts_with_app_false g (x :: s) t); [|apply find_sig_length in Ej; cbn [length]; lia|exact E].
      rewrite (IH _ t eq_refl). reflexivity.
Qed.

Section DecoderMessage.
Variable decode_data : list (pname * pvalue) -> reader -> result (bits * reader).
Hypothesis decode_data_prefix : forall p r b r', decode_data p r = Ok (b, r') -> r = b ++ r'.
Hypothesis decode_data_suffix : forall p r b r' s,
  decode_data p r = Ok (b, r') -> decode_data p (r ++ s) = Ok (b, r' ++ s).

Lemma decode_sections_ok defs info ign idxs : forall props secs r secs' props' r',
  decode_sections decode_data defs info ign idxs props secs r = Ok (secs', props', r') ->
  exists e new, r = e ++ r' /\ secs' = secs ++ new /\ length e = sections_nbits new /\
    forall s, decode_sections decode_data defs info ign idxs props secs (r ++ s) = Ok (secs', props', r' ++ s).
Proof.
  induction idxs as [|i idxs IH]; intros props secs r secs' props' r'; cbn [decode_sections]; [discriminate|].
  intros H. apply bind_ok in H as (oc & Hc & H). rewrite Hc. cbn [bind]. destruct oc as [c|].
  - apply bind_ok in H as ([[sec props1] r1] & Hs & H).
    destruct (decode_section_ok decode_data decode_data_prefix decode_data_suffix _ _ _ _ _ _ Hs)
      as (e1 & -> & Hn1 & _ & _ & _ & G1).
    destruct (s_end c).
    + injection H as <- <- <-. exists e1, [sec]. split; [reflexivity|]. split; [reflexivity|].
      cbn [sections_nbits]. split; [lia|]. intros s. rewrite G1. reflexivity.
    + apply IH in H as (e2 & new & -> & -> & Hl2 & G2).
      exists (e1 ++ e2), (sec :: new). rewrite <- !app_assoc. split; [reflexivity|]. split; [reflexivity|].
      cbn [sections_nbits]. rewrite app_length. split; [lia|].
      intros s. rewrite G1. cbn [bind]. rewrite G2, <- app_assoc. reflexivity.
  - apply IH in H as (e2 & new & -> & -> & Hl2 & G2). exists e2, new. auto.
Qed.

(* C04 decode_span: the bytes reported for the message are exactly the span that
   was decoded (from the signature to the end of the last section), and neither
   they nor anything else in the result depend on what follows that span *)
Theorem decode_span : forall sig info ign s m,
  decode_message decode_data sig info ign s = Ok m ->
  (forall t, decode_message decode_data sig info ign (s ++ t) = Ok m) /\
  exists before after,
    s = before ++ m_bytes m ++ after /\
    (8 * length (m_bytes m) <= sections_nbits (m_sections m) < 8 * length (m_bytes m) + 8)%nat /\
    match sig with
    | Some g => find_sig g s = Some (length before)
    | None => before = []
    end.
Proof.
  intros sig info ign s m. unfold decode_message, decode_message_with. intros H.
  apply bind_ok in H as (idx & Hidx & H). apply bind_ok in H as ([[secs props] r'] & Hs & H).
  apply ok_inj in H. subst m. unfold m_bytes, m_sections.
  destruct (decode_sections_ok _ _ _ _ _ _ _ _ _ _ Hs) as (e & new & Er & -> & Hl & G).
  change ([] ++ new) with new in *.
  assert (Hidx_le : (idx <= length s)%nat).
  { destruct sig as [g|]; [|injection Hidx as <-; lia].
    destruct (find_sig g s) as [i|] eqn:Ei; [|discriminate]. injection Hidx as <-.
    apply find_sig_length in Ei. lia. }
  set (s1 := skipn idx s) in *.
  assert (Lr : length (bits_of_bytes s1) = (8 * length s1)%nat) by apply length_bits_of_bytes.
  assert (Le : (length (bits_of_bytes s1) - length r')%nat = length e) by (rewrite Er, app_length; lia).
  assert (Hle : (length e / 8 <= length s1)%nat).
  { assert (length e <= 8 * length s1)%nat by (rewrite <- Lr, Er, app_length; lia).
    apply Nat.div_le_upper_bound; lia. }
  split.
  - intros t.
    assert (Hidx' : match sig with
                    | Some g => match find_sig g (s ++ t) with Some i => Ok i | None => Err ELib end
                    | None => Ok 0%nat end = Ok idx).
    { destruct sig as [g|]; [|exact Hidx]. destruct (find_sig g s) as [i|] eqn:Ei; [|discriminate].
      rewrite (find_sig_app _ _ _ t Ei). exact Hidx. }
    rewrite Hidx'. cbn [bind].
    rewrite skipn_app. replace (idx - length s)%nat with 0%nat by lia. cbn [skipn]. fold s1.
    rewrite bits_of_bytes_app, (G (bits_of_bytes t)). cbn [bind]. f_equal. f_equal.
    + rewrite !app_length. replace (length (bits_of_bytes s1) + length (bits_of_bytes t) - (length r' + length (bits_of_bytes t)))%nat
        with (length (bits_of_bytes s1) - length r')%nat by lia.
      rewrite Le. rewrite firstn_app. replace (length e / 8 - length s1)%nat with 0%nat by lia.
      cbn [firstn]. rewrite app_nil_r. reflexivity.
  - exists (firstn idx s), (skipn (length e / 8) s1). rewrite Le.
    split; [unfold s1; rewrite firstn_skipn, firstn_skipn; reflexivity|].
    split.
    { rewrite firstn_length, Nat.min_l by exact Hle. rewrite <- Hl.
      pose proof (Nat.div_mod (length e) 8 ltac:(lia)). pose proof (Nat.mod_upper_bound (length e) 8 ltac:(lia)). lia. }
    destruct sig as [g|].
    + destruct (find_sig g s) as [i|]; [|discriminate]. injection Hidx as ->.
      rewrite firstn_length, Nat.min_l by exact Hidx_le. reflexivity.
    + injection Hidx as <-. reflexivity.
Qed.

End DecoderMessage.

(* ------------------------------------------------------------------------ *)
(* the optional section 2                                                    *)
(* ------------------------------------------------------------------------ *)
(* in the bundled definitions only section 2 is optional *)
Lemma definitions_optional c : In c definitions -> s_optional c = true -> c = section2.
Proof.
  unfold definitions. cbn [In]. intros H He.
  repeat (destruct H as [<-|H]; [try discriminate; try reflexivity|]). contradiction.
Qed.

Lemma transform_index info ign c : s_index (transform info ign c) = s_index c.
Proof.
  unfold transform, info_configuration, ignore_value_expectation.
  destruct info, ign; try destruct (existsb is_data (s_params c)); reflexivity.
Qed.
Lemma transform_optional info ign c : s_optional (transform info ign c) = s_optional c.
Proof.
  unfold transform, info_configuration, ignore_value_expectation.
  destruct info, ign; try destruct (existsb is_data (s_params c)); reflexivity.
Qed.

Lemma definitions_index2 c : In c definitions -> s_index c = 2%N -> c = section2.
Proof.
  unfold definitions. cbn [In]. intros H He.
  repeat (destruct H as [<-|H]; [try discriminate; try reflexivity|]). contradiction.
Qed.

Lemma get_configuration_2 props : get_configuration definitions props 2 = Ok section2.
Proof.
  destruct (get_configuration definitions props 2) as [c|e] eqn:E.
  - destruct (get_configuration_in _ _ _ _ E) as [Hin Hidx]. f_equal. apply definitions_index2; assumption.
  - exfalso. unfold get_configuration in E.
    change (negb (existsb (fun c => (s_index c =? 2)%N) definitions)) with false in E. cbv iota in E.
    change (config_for definitions 2 0) with (Some section2) in E. cbv iota in E.
    destruct (config_for definitions 2 (section_edition props)); discriminate.
Qed.

(* C04 section2_optional (configuration step): section 2 is configured exactly
   when the flag attribute is true; every other section is always configured;
   an absent section 2 costs the encoder no JSON item and no bits, the decoder
   no bits *)
Theorem section2_optional : forall props info ign,
  (* the flag decides *)
  (forall b, prop_get Nis_section2_presents props = Some (PBool b) ->
     configure_section definitions props 2 info ign =
       Ok (if b then Some (transform info ign section2) else None)) /\
  (* never set (edition 1 layout does not export it): AttributeError *)
  (prop_get Nis_section2_presents props = None ->
     configure_section definitions props 2 info ign = Err EAttr) /\
  (* all other sections are unconditional *)
  (forall i oc, i <> 2%N -> configure_section definitions props i info ign = Ok oc -> oc <> None).
Proof.
  intros props info ign. split; [|split].
  - intros b Hb. unfold configure_section.
    rewrite get_configuration_2. cbn [bind].
    assert (Hbw : existsb bytes_width_bad (s_params (transform info ign section2)) = false)
      by (destruct info, ign; reflexivity).
    rewrite Hbw. unfold section_present. rewrite transform_optional, transform_index.
    change (s_optional section2) with true. change (s_index section2 =? 2)%N with true. cbn [negb].
    rewrite Hb. reflexivity.
  - intros Hb. unfold configure_section.
    rewrite get_configuration_2. cbn [bind].
    assert (Hbw : existsb bytes_width_bad (s_params (transform info ign section2)) = false)
      by (destruct info, ign; reflexivity).
    rewrite Hbw. unfold section_present. rewrite transform_optional, transform_index.
    change (s_optional section2) with true. change (s_index section2 =? 2)%N with true. cbn [negb].
    rewrite Hb. reflexivity.
  - intros i oc Hi H. unfold configure_section in H. apply bind_ok in H as (c & Hc & H).
    destruct (existsb bytes_width_bad _); [discriminate|]. apply bind_ok in H as (b & Hb & H).
    injection H as <-. destruct (get_configuration_in _ _ _ _ Hc) as [Hin Hidx].
    unfold section_present in Hb. rewrite transform_optional in Hb.
    destruct (s_optional c) eqn:Ho; cbn [negb] in Hb.
    + apply definitions_optional in Ho; [|exact Hin]. subst c. exfalso. apply Hi. symmetry. exact Hidx.
    + injection Hb as <-. discriminate.
Qed.

Section Sec2Loop.
Variable decode_data : list (pname * pvalue) -> reader -> result (bits * reader).

(* the loops: an absent section 2 is passed over without consuming anything *)
Theorem section2_absent_skipped : forall props info ign ign_len idxs json secs o r,
  prop_get Nis_section2_presents props = Some (PBool false) ->
  encode_sections ign_len definitions (2%N :: idxs) json props secs o =
    match json with [] => Err EIndex | _ => encode_sections ign_len definitions idxs json props secs o end /\
  decode_sections decode_data definitions info ign (2%N :: idxs) props secs r =
    decode_sections decode_data definitions info ign idxs props secs r.
Proof.
  intros props info ign ign_len idxs json secs o r Hb.
  destruct (section2_optional props info ign) as [H1 _].
  destruct (section2_optional props false false) as [H2 _].
  split.
  - cbn [encode_sections]. destruct json; [reflexivity|]. rewrite (H2 _ Hb). reflexivity.
  - cbn [decode_sections]. rewrite (H1 _ Hb). reflexivity.
Qed.

Theorem section2_present_processed : forall props info ign idxs secs r,
  prop_get Nis_section2_presents props = Some (PBool true) ->
  decode_sections decode_data definitions info ign (2%N :: idxs) props secs r =
    let* (sec, props1, r1) := decode_section decode_data (transform info ign section2) props r in
    decode_sections decode_data definitions info ign idxs props1 (secs ++ [sec]) r1.
Proof.
  intros props info ign idxs secs r Hb.
  destruct (section2_optional props info ign) as [H1 _].
  cbn [decode_sections]. rewrite (H1 _ Hb). cbn [bind].
  replace (s_end (transform info ign section2)) with false by (destruct info, ign; reflexivity).
  reflexivity.
Qed.
End Sec2Loop.
