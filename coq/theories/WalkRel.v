(* WalkRel.v — Instance 3 of the generic simulation theorem: a RELATIONAL
   simulation for two walks that are both known to succeed.  [relf f1 f2] says:
   from related states, IF both f1 and f2 succeed, the results are related.
   (Lock-step [simf] derives the success of the second walk from the first;
   here neither success implies the other — e.g. a compressed and an
   uncompressed encoder that accept different sets of value lists.)
   Lifted to the run-time handlers [io_handlers] as in CoderSim.v. *)
From PBK Require Import Base Descr Walk Coder WalkSim CoderSim.

Section Rel.
Context {S1 S2 : Type} (Rc : S1 -> S2 -> Prop).
Notation R := (Rst Rc).

Definition relf (f1 : ws S1 -> result (ws S1)) (f2 : ws S2 -> result (ws S2)) : Prop :=
  forall s1 s2 s1' s2', R s1 s2 -> f1 s1 = Ok s1' -> f2 s2 = Ok s2' -> R s1' s2'.

Lemma rel_ret : relf (fun s => Ok s) (fun s => Ok s).
Proof. intros s1 s2 s1' s2' HR E1 E2. injection E1 as <-. injection E2 as <-. exact HR. Qed.

Lemma rel_bind f1 f2 g1 g2 :
  relf f1 f2 -> relf g1 g2 -> relf (fun s => bind (f1 s) g1) (fun s => bind (f2 s) g2).
Proof.
  intros Hf Hg s1 s2 s1' s2' HR E1 E2.
  destruct (f1 s1) as [m1|] eqn:F1; cbn [bind] in E1; [|discriminate].
  destruct (f2 s2) as [m2|] eqn:F2; cbn [bind] in E2; [|discriminate].
  exact (Hg _ _ _ _ (Hf _ _ _ _ HR F1 F2) E1 E2).
Qed.

Lemma rel_ext f1 f1' f2 f2' :
  (forall s, f1 s = f1' s) -> (forall s, f2 s = f2' s) -> relf f1 f2 -> relf f1' f2'.
Proof.
  intros X1 X2 Hf s1 s2 s1' s2' HR E1 E2. rewrite <- X1 in E1. rewrite <- X2 in E2.
  exact (Hf _ _ _ _ HR E1 E2).
Qed.

Lemma rel_upd (f : regs -> regs) : relf (fun s => Ok (upd_r f s)) (fun s => Ok (upd_r f s)).
Proof.
  intros s1 s2 s1' s2' HR E1 E2. injection E1 as <-. injection E2 as <-. apply Rst_upd. exact HR.
Qed.

Lemma rel_regs (F1 : regs -> ws S1 -> result (ws S1)) (F2 : regs -> ws S2 -> result (ws S2)) :
  (forall r, relf (F1 r) (F2 r)) -> relf (fun s => F1 (w_r s) s) (fun s => F2 (w_r s) s).
Proof.
  intros HF s1 s2 s1' s2' HR E1 E2. pose proof HR as [Hr Hc]. rewrite <- Hr in E2.
  exact (HF _ _ _ _ _ HR E1 E2).
Qed.

Lemma rel_err e f2 : relf (fun _ => Err e) f2.
Proof. intros s1 s2 s1' s2' _ E. discriminate. Qed.

Lemma rel_iter n f1 f2 : relf f1 f2 -> relf (iter_res n f1) (iter_res n f2).
Proof. apply (c_iter relf rel_ret rel_bind rel_ext). Qed.

Context (H1 : handlers S1) (H2 : handlers S2).
Context (al1 : N -> ws S1 -> result (ws S1)) (al2 : N -> ws S2 -> result (ws S2)).

Definition walk_rel :=
  walk_sim_gen H1 H2 al1 al2 relf rel_ret rel_bind rel_ext rel_upd rel_regs rel_err.

End Rel.

(* ---- the run-time handlers ---------------------------------------------------- *)
Section IORel.
Context {C1 C2 : Type} (P1 : prims C1) (P2 : prims C2) (R : C1 -> C2 -> Prop).

Definition relp (f1 : C1 -> result C1) (f2 : C2 -> result C2) : Prop :=
  forall c1 c2 c1' c2', R c1 c2 -> f1 c1 = Ok c1' -> f2 c2 = Ok c2' -> R c1' c2'.

Hypothesis Pnumeric : forall a b c, relp (p_numeric P1 a b c) (p_numeric P2 a b c).
Hypothesis Pstring : forall a, relp (p_string P1 a) (p_string P2 a).
Hypothesis Pcodeflag : forall a b, relp (p_codeflag P1 a b) (p_codeflag P2 a b).
Hypothesis Pconstant : forall a, relp (p_constant P1 a) (p_constant P2 a).
Hypothesis Pnew_refval : forall a c1 c2 z1 z2 c1' c2', R c1 c2 ->
  p_new_refval P1 a c1 = Ok (z1, c1') -> p_new_refval P2 a c2 = Ok (z2, c2') -> z1 = z2 /\ R c1' c2'.
Hypothesis Pfactor : forall c1 c2 n1 n2, R c1 c2 -> p_factor P1 c1 = Ok n1 -> p_factor P2 c2 = Ok n2 -> n1 = n2.
Hypothesis Pbitmap : forall a c1 c2 b1 b2, R c1 c2 ->
  p_bitmap P1 a c1 = Ok b1 -> p_bitmap P2 a c2 = Ok b2 -> b1 = b2.

Notation rel := (relf (Rio R)).

Lemma rel_lift dd f1 f2 : relp f1 f2 -> rel (lift dd f1) (lift dd f2).
Proof.
  intros Hf s1 s2 s1' s2' [Hr (Hdd & Hl & Hc)] E1 E2. unfold lift in *.
  destruct (f1 _) as [c1'|] eqn:F1; cbn [bind] in E1; [|discriminate].
  destruct (f2 _) as [c2'|] eqn:F2; cbn [bind] in E2; [|discriminate].
  cbn in F1, F2. pose proof (Hf _ _ _ _ Hc F1 F2) as Hc'.
  injection E1 as <-. injection E2 as <-.
  split; cbn; [exact Hr|]. repeat split; cbn; congruence || assumption.
Qed.

Lemma rel_build_bitmapped bm : rel (build_bitmapped bm) (build_bitmapped bm).
Proof.
  intros s1 s2 s1' s2' HR E1 E2. unfold build_bitmapped in *. cbv zeta in *.
  pose proof HR as [Hr (Hdd & Hl & Hc)]. rewrite <- Hr, <- Hdd in E2.
  destruct (get_backrefs (w_r s1) (io_dd (w_c s1)) (length bm)) as [refs|];
    cbn [bind] in E1, E2; [|discriminate].
  destruct (negb (length refs =? length bm)%nat); [discriminate|].
  injection E1 as <-. injection E2 as <-. repeat apply Rst_upd. exact HR.
Qed.

Theorem io_walk_rel :
  (forall d, rel (walk (io_handlers P1) io_add_link d) (walk (io_handlers P2) io_add_link d)) /\
  (forall ms, rel (walk_list (io_handlers P1) io_add_link ms) (walk_list (io_handlers P2) io_add_link ms)).
Proof.
  apply walk_rel; cbn [io_handlers h_numeric h_numeric_new_refval h_string h_codeflag h_new_refval
    h_constant h_define_bitmap h_mark_boundary h_recall_bitmap h_cancel_bitmap h_cancel_backrefs
    h_add_bitmap_link h_bitmap_def_wrap h_fixed h_delayed h_bitmapped].
  - intros; apply rel_lift, Pnumeric.
  - intros dd a b c s1 s2 s1' s2' HR E1 E2. pose proof HR as [Hr _]. rewrite <- Hr in E2.
    destruct (refval_lookup _ _) as [[v|]|]; try discriminate.
    exact (rel_lift _ _ _ (Pnumeric _ _ _) _ _ _ _ HR E1 E2).
  - intros; apply rel_lift, Pstring.
  - intros; apply rel_lift, Pcodeflag.
  - (* new_refval *)
    intros dd a s1 s2 s1' s2' [Hr (Hdd & Hl & Hc)] E1 E2.
    destruct (p_new_refval P1 a _) as [[z1 c1']|] eqn:F1; cbn [bind] in E1; [|discriminate].
    destruct (p_new_refval P2 a _) as [[z2 c2']|] eqn:F2; cbn [bind] in E2; [|discriminate].
    cbn in F1, F2. destruct (Pnew_refval _ _ _ _ _ _ _ Hc F1 F2) as [<- Hc'].
    injection E1 as <-. injection E2 as <-.
    split; cbn; [congruence|]. repeat split; cbn; congruence || assumption.
  - intros; apply rel_lift, Pconstant.
  - (* define_bitmap *)
    intros reuse s1 s2 s1' s2' HR E1 E2. pose proof HR as [Hr (Hdd & Hl & Hc)]. rewrite <- Hr in E2.
    destruct (p_bitmap P1 _ _) as [b1|] eqn:F1; cbn [bind] in E1; [|discriminate].
    destruct (p_bitmap P2 _ _) as [b2|] eqn:F2; cbn [bind] in E2; [|discriminate].
    pose proof (Pbitmap _ _ _ _ _ Hc F1 F2) as <-.
    eapply rel_build_bitmapped; [|exact E1|exact E2].
    destruct reuse; [apply Rst_upd|]; exact HR.
  - (* mark boundary *)
    intros s1 s2 s1' s2' HR E1 E2. injection E1 as <-. injection E2 as <-.
    pose proof HR as [Hr (Hdd & Hl & Hc)]. unfold ndesc. rewrite <- Hdd. apply Rst_upd. exact HR.
  - intros s1 s2 s1' s2' HR E1 E2. pose proof HR as [Hr _]. rewrite <- Hr in E2.
    destruct (r_bitmapped (w_r s1)); [|discriminate]. injection E1 as <-. injection E2 as <-.
    apply Rst_upd; exact HR.
  - intros s1 s2 s1' s2' HR E1 E2. injection E1 as <-. injection E2 as <-. apply Rst_upd; exact HR.
  - intros s1 s2 s1' s2' HR E1 E2. injection E1 as <-. injection E2 as <-. apply Rst_upd; exact HR.
  - (* add_bitmap_link *)
    intros s1 s2 s1' s2' HR E1 E2. pose proof HR as [Hr (Hdd & Hl & Hc)]. rewrite <- Hr in E2.
    destruct (next_bitmapped (w_r s1)) as [[b r']|]; cbn [bind] in E1, E2; [|discriminate].
    unfold io_add_link in *. injection E1 as <-. injection E2 as <-.
    unfold ndesc. cbn. split; cbn; [reflexivity|]. repeat split; cbn; congruence || assumption.
  - intros f1 f2 Hf. exact Hf.
  - intros n f1 f2 Hf. apply rel_iter. exact Hf.
  - (* delayed *)
    intros f1 f2 Hf s1 s2 s1' s2' HR E1 E2. pose proof HR as [Hr (Hdd & Hl & Hc)].
    destruct (p_factor P1 _) as [n1|] eqn:F1; cbn [bind] in E1; [|discriminate].
    destruct (p_factor P2 _) as [n2|] eqn:F2; cbn [bind] in E2; [|discriminate].
    pose proof (Pfactor _ _ _ _ Hc F1 F2) as <-.
    exact (rel_iter _ _ _ _ Hf _ _ _ _ HR E1 E2).
  - intros id f1 f2 Hf. exact Hf.
  - (* io_add_link *)
    intros idx s1 s2 s1' s2' [Hr (Hdd & Hl & Hc)] E1 E2. unfold io_add_link in *.
    injection E1 as <-. injection E2 as <-. unfold ndesc. cbn.
    split; cbn; [exact Hr|]. repeat split; cbn; congruence || assumption.
Qed.

End IORel.
