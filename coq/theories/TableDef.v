(* TableDef.v — model of pybufrkit/dataprocessor.py (BufrTableDefinitionProcessor:
   NCEP-layout table definition messages, data category 11) and of the way the
   extracted entries override the table files (tables.py: BaseTable.
   load_json_files appends the extra entries LAST; later entries win). *)
From PBK Require Import Base Descr PathParser.

(* a Table B entry as the processor builds it: [name, unit, scale, refval, nbits, '', 0, 0] under its key *)
Record bentry := mkB { b_key : list char; b_name : list char; b_unit : list char; b_scale : Z; b_ref : Z; b_nbits : Z }.
Record dentry := mkDe { d_key : list char; d_name : list char; d_members : list (list char) }.

(* value.decode() of a bytes value: ASCII (utf-8 of bytes >= 128 may fail: EOther) *)
Definition as_text (v : value) : result (list char) :=
  match v with
  | VBytes b => if forallb (fun c => (c <? 128)%N) b then Ok b else Err EOther
  | _ => Err EAttr            (* int has no rstrip / cannot be concatenated to str *)
  end.

Definition pyrstrip := rstrip is_pyspace.
Definition pystrip := strip is_pyspace.

Definition int_of (t : list char) : result Z :=
  match py_int t with Some z => Ok z | None => Err EValue end.

Definition ch_plus_l : list char := [ch_plus].

Fixpoint text_eqb (a b : list char) : bool :=
  match a, b with
  | [], [] => true
  | x :: a', y :: b' => (x =? y)%N && text_eqb a' b'
  | _, _ => false
  end.

(* (1 if sign.strip() == '+' else -1) * int(num.strip()) *)
Definition signed (sign num : list char) : result Z :=
  let* n := int_of (pystrip num) in
  Ok (if text_eqb (pystrip sign) ch_plus_l then n else (- n)%Z).

(* next_value() over the remaining value list *)
Definition next_text (vs : list value) : result (list char * list value) :=
  match vs with
  | [] => Err EIndex
  | v :: r => let* t := as_text v in Ok (t, r)
  end.

Definition next_int (vs : list value) : result (Z * list value) :=
  match vs with
  | [] => Err EIndex
  | VInt z :: r => Ok (z, r)
  | _ :: _ => Err EType
  end.

(* _process_table_b_one_entry: eleven values *)
Definition b_one_entry (vs : list value) : result (bentry * list value) :=
  let* (f, v1) := next_text vs in
  let* (x, v2) := next_text v1 in
  let* (y, v3) := next_text v2 in
  let* (n1, v4) := next_text v3 in
  let* (n2, v5) := next_text v4 in
  let* (u, v6) := next_text v5 in
  let* (ss, v7) := next_text v6 in
  let* (sc, v8) := next_text v7 in
  let* scale := signed ss sc in
  let* (rs, v9) := next_text v8 in
  let* (rv, v10) := next_text v9 in
  let* ref := signed rs rv in
  let* (w, v11) := next_text v10 in
  let* nbits := int_of (pystrip w) in
  Ok (mkB (f ++ x ++ y) (pyrstrip n1 ++ pyrstrip n2) (pystrip u) scale ref nbits, v11).

Fixpoint take_texts (n : nat) (vs : list value) : result (list (list char) * list value) :=
  match n with
  | O => Ok ([], vs)
  | S k => let* (t, r) := next_text vs in let* (ts, r') := take_texts k r in Ok (t :: ts, r')
  end.

(* _process_table_d_one_entry: F X Y, name, count, members *)
Definition d_one_entry (vs : list value) : result (dentry * list value) :=
  let* (f, v1) := next_text vs in
  let* (x, v2) := next_text v1 in
  let* (y, v3) := next_text v2 in
  let* (nm, v4) := next_text v3 in
  let* (cnt, v5) := next_int v4 in
  let* (ms, v6) := take_texts (Z.to_nat cnt) v5 in
  Ok (mkDe (f ++ x ++ y) (pyrstrip nm) ms, v6).

Fixpoint iter_entries {A} (one : list value -> result (A * list value)) (n : nat) (vs : list value)
  : result (list A * list value) :=
  match n with
  | O => Ok ([], vs)
  | S k => let* (e, r) := one vs in let* (es, r') := iter_entries one k r in Ok (e :: es, r')
  end.

(* process: the template is 1 03 000 031001 000001 000002 000003 / 1 01 000 031001 300004 /
   1 05 000 031001 300003 205064 101000 031001 000030 (three delayed replications); the values
   are consumed in flat order: factor A, 3 values per A entry, factor B, B entries, factor D, D entries *)
Definition process_defs (vs : list value) : result (list bentry * list dentry) :=
  let* (na, v1) := next_int vs in
  let v2 := skipn (3 * Z.to_nat na) v1 in
  let* (nb, v3) := next_int v2 in
  let* (bs, v4) := iter_entries b_one_entry (Z.to_nat nb) v3 in
  let* (nd, v5) := next_int v4 in
  let* (ds, _) := iter_entries d_one_entry (Z.to_nat nd) v5 in
  Ok (bs, ds).

(* ---- the extra entries override the table files --------------------------------- *)
(* tables as association lists; dict(...) of the definition entries keeps the LAST entry of a key;
   TableB.__init__ then assigns in file order WMO, local, extras: later wins *)
Definition key_id (k : list char) : result N :=
  match py_int k with
  | Some z => if (z <? 0)%Z then Err EOther else Ok (Z.to_N z)
  | None => Err EValue
  end.

Definition elem_of_bentry (id : N) (b : bentry) : elem := mkElem id (b_unit b) (b_scale b) (b_ref b) (b_nbits b).

Fixpoint lookup_assoc {A} (id : N) (l : list (N * A)) : option A :=
  match l with
  | [] => None
  | (k, v) :: r => if (k =? id)%N then Some v else lookup_assoc id r
  end.

(* lookup in the merged Table B: the extras (latest definition of a key first), then local, then WMO *)
Definition lookup_merged (wmo loc : list (N * elem)) (extras : list (N * elem)) (id : N) : option elem :=
  match lookup_assoc id extras with
  | Some e => Some e
  | None => match lookup_assoc id loc with
            | Some e => Some e
            | None => lookup_assoc id wmo
            end
  end.

(* add_extra_entries: dict.update — a key defined again replaces the earlier definition *)
Definition add_extras (old new : list (N * elem)) : list (N * elem) := rev new ++ old.
