(* PathParser.v — model of pybufrkit.dataquery.NodePathParser.parse (the character
   state machine, verbatim), of Python's int() on ASCII tokens, and of
   NodePath.__str__.  Model only; proofs are in PathProofs.v.

   Characters are code points (N).  The model is claimed for ASCII strings only:
   for code points >= 128 Python's str.strip()/int() know further white space and
   digits, which the model does not (such characters are ordinary ID characters
   here).

   [parse]      : the code after the two repairs fixes/C15_end_of_input.diff and
                  fixes/C15_strip_whitespace.diff
   [parse_orig] : the code as found (end-of-input rule of l.170-180, str.strip()
                  of l.117); kept for the _refuted theorems (D11).
   The parser is modelled for the default bare_id_matches_all=True (the only way
   the library ever constructs it). *)
From PBK Require Import Base.

Definition char := N.

(* ---- characters ---------------------------------------------------------- *)
Definition ch_tab : char := 9%N.   Definition ch_lf : char := 10%N.  Definition ch_vt : char := 11%N.
Definition ch_ff : char := 12%N.   Definition ch_cr : char := 13%N.  Definition ch_sp : char := 32%N.
Definition ch_plus : char := 43%N. Definition ch_minus : char := 45%N. Definition ch_dot : char := 46%N.
Definition ch_slash : char := 47%N. Definition ch_0 : char := 48%N.  Definition ch_colon : char := 58%N.
Definition ch_gt : char := 62%N.   Definition ch_at : char := 64%N.  Definition ch_lb : char := 91%N.
Definition ch_rb : char := 93%N.   Definition ch_us : char := 95%N.

(* string.whitespace = ' \t\n\r\x0b\x0c'; for ASCII also C's isspace / Py_ISSPACE *)
Definition is_ws (c : char) : bool :=
  ((9 <=? c) && (c <=? 13) || (c =? 32))%N.
(* str.isspace() on ASCII: string.whitespace and the separators U+001C..U+001F *)
Definition is_pyspace (c : char) : bool :=
  (is_ws c || (28 <=? c) && (c <=? 31))%N.
Definition is_digit (c : char) : bool := ((48 <=? c) && (c <=? 57))%N.
Definition is_upper (c : char) : bool := ((65 <=? c) && (c <=? 90))%N.
(* path_expr_stripped[0] in '@/>0123456789ABCDEFGHIJKLMNOPQRSTUVWXYZ' *)
Definition first_ok (c : char) : bool :=
  ((c =? ch_at) || (c =? ch_slash) || (c =? ch_gt) || is_digit c || is_upper c)%N.

(* the branches of the if/elif chain of the main loop, in its order *)
Inductive cls := KWs | KAt | KLb | KColon | KRb | KSep | KOther.
Definition classify (c : char) : cls :=
  if is_ws c then KWs
  else if (c =? ch_at)%N then KAt
  else if (c =? ch_lb)%N then KLb
  else if (c =? ch_colon)%N then KColon
  else if (c =? ch_rb)%N then KRb
  else if ((c =? ch_slash) || (c =? ch_dot) || (c =? ch_gt))%N then KSep
  else KOther.

(* ---- Python's int(token) for an ASCII str, base 10 --------------------------
   CPython 3.12 PyLong_FromString: skip leading Py_ISSPACE, one optional sign,
   no leading underscore, digits with single underscores between them, no
   trailing underscore, at least one digit, skip trailing Py_ISSPACE, end of
   string; more than 4300 digits (sys.get_int_max_str_digits(), leading zeros
   counted, underscores not) is a ValueError too.  None = ValueError. *)
Fixpoint lstrip (f : char -> bool) (l : list char) : list char :=
  match l with
  | [] => []
  | c :: r => if f c then lstrip f r else l
  end.
Fixpoint rstrip (f : char -> bool) (l : list char) : list char :=
  match l with
  | [] => []
  | c :: r => match rstrip f r with
              | [] => if f c then [] else [c]
              | r' => c :: r'
              end
  end.
Definition strip (f : char -> bool) (l : list char) : list char := rstrip f (lstrip f l).

Definition max_str_digits : N := 4300.

(* returns (value, number of digits, unread rest) *)
Fixpoint scan_digits (l : list char) (prev_us : bool) (acc nd : N) : option (N * N * list char) :=
  match l with
  | c :: r =>
      if is_digit c then scan_digits r false (acc * 10 + (c - 48)) (nd + 1)
      else if (c =? ch_us)%N then (if prev_us then None else scan_digits r true acc nd)
      else if prev_us then None else Some (acc, nd, l)
  | [] => if prev_us then None else Some (acc, nd, [])
  end.

Definition py_int (t : list char) : option Z :=
  let t1 := lstrip is_ws t in
  let '(neg, t2) := match t1 with
                    | c :: r => if (c =? ch_minus)%N then (true, r)
                                else if (c =? ch_plus)%N then (false, r) else (false, t1)
                    | [] => (false, t1)
                    end in
  match t2 with
  | [] => None
  | c :: _ =>
    if (c =? ch_us)%N then None else
    match scan_digits t2 false 0 0 with
    | None => None
    | Some (v, nd, rest) =>
        if (nd =? 0)%N then None
        else if negb (forallb is_ws rest) then None
        else if (max_str_digits <? nd)%N then None
        else Some (if neg then (- Z.of_N v)%Z else Z.of_N v)
    end
  end.

(* ---- paths ---------------------------------------------------------------- *)
(* a Python int or slice(a, b, c) object *)
Inductive slc := SInt (k : Z) | SSlice (a b c : option Z).
Definition slice_all : slc := SSlice None None None.
Record comp := mkComp { c_sep : char; c_id : list char; c_slice : slc }.
(* NodePath: subset_slice (None until set), components *)
Record path := mkPath { p_subset : option slc; p_comps : list comp }.

(* ---- parser state ----------------------------------------------------------- *)
Inductive pst :=
  | StStart      (* STATE_START_PARSING '' *)
  | StSubset     (* STATE_START_SUBSET '@' *)
  | StSubSl0     (* STATE_START_SUBSET_SLICE_0 '@[' *)
  | StSubSlX     (* STATE_START_SUBSET_SLICE_X '@:' *)
  | StSubStop    (* STATE_STOP_SUBSET_SLICE '@]' *)
  | StId         (* STATE_START_ID 'i' *)
  | StSl0        (* STATE_START_SLICE_0 '[' *)
  | StSlX        (* STATE_START_SLICE_X ':' *)
  | StStop.      (* STATE_STOP_SLICE ']' *)

(* current_separator / current_id are None after reset(); they are always
   assigned before they are read (a component is only added after a separator
   and an ID), so the model starts them at 0 / []. *)
Record pstate := mkP {
  cur_state : pst;
  cur_token : list char;
  cur_id : list char;
  cur_sep : char;
  cur_elems : list (option Z);     (* current_slice_elements *)
  np_subset : option slc;          (* node_path.subset_slice *)
  np_comps : list comp             (* node_path.components *)
}.

Definition init_state : pstate := mkP StStart [] [] 0%N [] None [].

Definition perr {A} : result A := Err EPathExpr.

Definition is_nil {A} (l : list A) : bool := match l with [] => true | _ => false end.

(* convert_slice_element: returns the element, token reset *)
Definition convert_slice_element (tok : list char) : result (option Z) :=
  match tok with
  | [] => Ok None
  | _ => match py_int tok with Some k => Ok (Some k) | None => perr end
  end.

(* convert_id *)
Definition convert_id (tok : list char) : result (list char) :=
  match tok with [] => perr | _ => Ok tok end.

(* create_slice_object (bare_id_matches_all = True); the elements are reset by
   the caller below *)
Definition create_slice_object (es : list (option Z)) : result slc :=
  match es with
  | [] => Ok slice_all
  | [e] => match e with
           | None => Err EAssert        (* assert isinstance(..., int) *)
           | Some k => if (0 <=? k)%Z then Ok (SInt k)
                       else Ok (SSlice (Some k) (if (k =? -1)%Z then None else Some (k + 1)%Z) None)
           end
  | [a; b] => Ok (SSlice a b None)
  | [a; b; c] => Ok (SSlice a b c)
  | _ => perr                           (* 'slice can have at most three indices' *)
  end.

(* add_new_path_component *)
Definition add_new_path_component (p : pstate) : result pstate :=
  let '(mkP st tok id sep es sub cs) := p in
  let* s := create_slice_object es in
  Ok (mkP st tok id sep [] sub (cs ++ [mkComp sep id s])).

(* handle_separator(c) *)
Definition handle_separator (c : char) (p : pstate) : result pstate :=
  let '(mkP st tok id sep es sub cs) := p in
  let* p1 :=
    match st with
    | StStart =>
        if negb (c =? ch_dot)%N then
          let* s := create_slice_object es in
          Ok (mkP StId tok id sep [] (Some s) cs)
        else perr
    | StId =>
        let* id' := convert_id tok in
        add_new_path_component (mkP st [] id' sep es sub cs)
    | StSubStop =>
        if (c =? ch_dot)%N then perr
        else let* s := create_slice_object es in
             Ok (mkP st tok id sep [] (Some s) cs)
    | StStop => add_new_path_component p
    | _ => perr
    end in
  let '(mkP _ tok1 id1 _ es1 sub1 cs1) := p1 in
  Ok (mkP StId tok1 id1 c es1 sub1 cs1).

(* handle_left_bracket *)
Definition handle_left_bracket (p : pstate) : result pstate :=
  let '(mkP st tok id sep es sub cs) := p in
  match st with
  | StSubset => Ok (mkP StSubSl0 tok id sep es sub cs)
  | StId => let* id' := convert_id tok in Ok (mkP StSl0 [] id' sep es sub cs)
  | _ => perr
  end.

(* handle_colon_and_right_bracket(c); rb = (c == ']') *)
Definition handle_colon_rb (rb : bool) (p : pstate) : result pstate :=
  let '(mkP st tok id sep es sub cs) := p in
  match st with
  | StSl0 | StSlX | StSubSl0 | StSubSlX =>
      if rb && is_nil tok && (match st with StSl0 | StSubSl0 => true | _ => false end) then perr
      else
        let* e := convert_slice_element tok in
        let es' := es ++ [e] in
        let st' :=
          if rb then (match st with StSubSl0 | StSubSlX => StSubStop | _ => StStop end)
          else (match st with StSubSl0 => StSubSlX | StSl0 => StSlX | _ => st end) in
        Ok (mkP st' [] id sep es' sub cs)
  | _ => perr
  end.

(* one iteration of the while loop *)
Definition step (p : pstate) (c : char) : result pstate :=
  match classify c with
  | KWs => Ok p
  | KAt => match cur_state p with
           | StStart => let '(mkP st tok id sep es sub cs) := p in Ok (mkP StSubset tok id sep es sub cs)
           | _ => perr
           end
  | KLb => handle_left_bracket p
  | KColon => handle_colon_rb false p
  | KRb => handle_colon_rb true p
  | KSep => handle_separator c p
  | KOther =>
      match cur_state p with
      | StId | StSubSl0 | StSubSlX | StSl0 | StSlX =>
          let '(mkP st tok id sep es sub cs) := p in Ok (mkP st (tok ++ [c]) id sep es sub cs)
      | StStart =>
          let* p1 := handle_separator ch_gt p in
          let '(mkP st tok id sep es sub cs) := p1 in Ok (mkP st (tok ++ [c]) id sep es sub cs)
      | _ => perr
      end
  end.

Fixpoint run (p : pstate) (l : list char) : result pstate :=
  match l with
  | [] => Ok p
  | c :: r => match step p c with Ok p' => run p' r | Err e => Err e end
  end.

Definition path_of (p : pstate) : path := mkPath (np_subset p) (np_comps p).

(* after the loop — repaired rule: only "in an ID" and "after the slice of a
   component" are complete *)
Definition finish (p : pstate) : result path :=
  match cur_state p with
  | StId =>
      let '(mkP st tok id sep es sub cs) := p in
      let* id' := convert_id tok in
      let* p' := add_new_path_component (mkP st [] id' sep es sub cs) in
      Ok (path_of p')
  | StStop => let* p' := add_new_path_component p in Ok (path_of p')
  | _ => perr
  end.

(* after the loop — the rule as found (l.170-180): everything else is accepted
   unless a token is pending *)
Definition finish_orig (p : pstate) : result path :=
  match cur_state p with
  | StId =>
      let '(mkP st tok id sep es sub cs) := p in
      let* id' := convert_id tok in
      let* p' := add_new_path_component (mkP st [] id' sep es sub cs) in
      Ok (path_of p')
  | StStop => let* p' := add_new_path_component p in Ok (path_of p')
  | _ => if is_nil (cur_token p) then Ok (path_of p) else perr
  end.

(* the two tests before the loop; [sp] = the characters strip() removes *)
Definition precheck (sp : char -> bool) (s : list char) : bool :=
  match strip sp s with
  | [] => false                   (* 'Empty path expression' *)
  | c :: _ => first_ok c          (* fail fast on the first character *)
  end.

Definition parse (s : list char) : result path :=
  if precheck is_ws s then let* p := run init_state s in finish p else perr.

Definition parse_orig (s : list char) : result path :=
  if precheck is_pyspace s then let* p := run init_state s in finish_orig p else perr.

(* ---- NodePath.__str__ ------------------------------------------------------- *)
Definition digit_char (d : N) : char := (48 + d)%N.

Fixpoint print_N_fuel (f : nat) (n : N) : list char :=
  match f with
  | O => [digit_char (n mod 10)]
  | S f' => if (n <? 10)%N then [digit_char n]
            else print_N_fuel f' (n / 10) ++ [digit_char (n mod 10)]
  end.
(* str(n) for n >= 0; the fuel (number of bits of n) always suffices, see
   PathProofs.print_N_value *)
Definition print_N (n : N) : list char := print_N_fuel (N.to_nat (N.size n)) n.
Definition print_Z (k : Z) : list char :=
  match k with
  | Zneg p => ch_minus :: print_N (Npos p)
  | _ => print_N (Z.to_N k)
  end.

Definition print_oz (a : option Z) : list char :=
  match a with None => [] | Some k => print_Z k end.

Definition slice_to_str (s : slc) : list char :=
  match s with
  | SInt k => [ch_lb] ++ print_Z k ++ [ch_rb]
  | SSlice a b c => [ch_lb] ++ print_oz a ++ [ch_colon] ++ print_oz b ++ [ch_colon] ++ print_oz c ++ [ch_rb]
  end.

Definition comp_to_str (c : comp) : list char :=
  c_sep c :: c_id c ++ slice_to_str (c_slice c).

Definition to_string (p : path) : list char :=
  (match p_subset p with None => [] | Some s => ch_at :: slice_to_str s end)
  ++ flat_map comp_to_str (p_comps p).

(* remove the characters the loop ignores *)
Definition strip_ws (s : list char) : list char := filter (fun c => negb (is_ws c)) s.
