(* Column.v — model of the compressed-column primitives of pybufrkit
   (encoder.py l.33-45, 284-488; decoder.py l.253-394; CoderState.minmax).

   In a compressed data section every element of the template is stored as a
   COLUMN over the subsets: a base ("minimum") value of the element's width, a
   6-bit width NBINC of the increments, and one increment per subset.  The
   functions below are the per-column bodies of Encoder/Decoder
   .process_{numeric,codeflag,string,new_refval,constant}_compressed, as coded,
   Python-isms included.  The walker (the integrator's compressed handlers)
   calls them; scaling / reference values are applied by the caller.

   Std-lib only.  Widths are [Z]: the coder computes them and they may be <= 0
   or > 64; the error classes that Python then raises are part of the model. *)
From PBK Require Import Base Bits.

(* constants.NBITS_FOR_NBITS_DIFF *)
Definition NBITS_FOR_NBITS_DIFF : Z := 6.

(* inconsistent compressed data ("nbits_diff must be zero ..."): a PyBufrKitError after
   "fix: inconsistent compressed data is reported as PyBufrKitError" (an assert before) *)
Definition EBadColumn : err := ELib.

(* ---- encoder.nbits_for_uint ------------------------------------------------
   binx = bin(x)[2:]; nbits = len(binx); +1 when binx consists of ones only.
   For x = 0 Python gives bin(0) = '0b0' -> '0': length 1, count('1') = 0 <> 1,
   so 1.  (x is max - min + 1 >= 1 in every call; negative x cannot occur.) *)
Definition nbits_for_uint (x : N) : N :=
  match x with
  | N0 => 1
  | Npos _ => let n := N.size x in if (x + 1 =? 2 ^ n)%N then (n + 1)%N else n
  end.

(* ---- CoderState.minmax: one pass, None ignored ------------------------------ *)
Definition minmax_step (acc : option (Z * Z)) (v : option Z) : option (Z * Z) :=
  match v with
  | None => acc
  | Some v =>
      match acc with
      | None => Some (v, v)
      | Some (mn, mx) => Some (if (v <? mn)%Z then v else mn, if (mx <? v)%Z then v else mx)
      end
  end.
Definition minmax (l : list (option Z)) : option (Z * Z) := fold_left minmax_step l None.

(* NUMERIC_MISSING_VALUES[i]: a Python list of 65 entries 2^k - 1; negative
   indices count from the end (i = -1 is 2^64 - 1), IndexError outside -65..64 *)
Definition numeric_missing (i : Z) : result Z :=
  if ((i <? -65) || (64 <? i))%Z then Err EIndex
  else Ok (2 ^ (if (i <? 0)%Z then i + 65 else i) - 1)%Z.

Definition opt_is_none {A} (x : option A) : bool := match x with None => true | Some _ => false end.

Fixpoint write_uints (vs : list Z) (w : Z) (o : writer) : result writer :=
  match vs with
  | [] => Ok o
  | v :: r => let* o1 := write_uint v w o in write_uints r w o1
  end.

(* the loop "subtract the minimum from the values": it runs over the whole column
   BEFORE anything is written, so NUMERIC_MISSING_VALUES[nbits_diff] raises its
   IndexError (nbits_diff > 64) before any output *)
Fixpoint col_diffs (mn nd : Z) (raws : list (option Z)) : result (list Z) :=
  match raws with
  | [] => Ok []
  | v :: r =>
      let* d := match v with None => numeric_missing nd | Some x => Ok (x - mn)%Z end in
      let* ds := col_diffs mn nd r in
      Ok (d :: ds)
  end.

(* write_uint(min_value, nbits_min_value); write_uint(nbits_diff, 6) *)
Definition col_header (mn w nd : Z) (o : writer) : result writer :=
  let* o1 := write_uint mn w o in write_uint nd NBITS_FOR_NBITS_DIFF o1.

(* ---- Encoder.process_numeric_compressed / process_codeflag_compressed -------
   raws: the values of all subsets AFTER scale / reference value (may be out of
   range: then write_uint refuses); None = missing.  all_equal is
   values.count(values[0]) == n_subsets, computed by the caller on the user's
   values; all_missing = all_equal and values[0] is None.  An empty column
   (values[0] on an empty list) is an IndexError. *)
Definition enc_col_num (w : Z) (all_equal : bool) (raws : list (option Z)) (o : writer) : result writer :=
  match raws with
  | [] => Err EIndex
  | v0 :: _ =>
      if all_equal && opt_is_none v0 then
        let* m := numeric_missing w in col_header m w 0 o
      else if all_equal then
        let* m := match v0 with None => numeric_missing w | Some v => Ok v end in
        col_header m w 0 o
      else
        match minmax raws with
        | None => Err EType            (* None - None *)
        | Some (mn, mx) =>
            let nd := Z.of_N (nbits_for_uint (Z.to_N (mx - mn + 1))) in
            let* ds := col_diffs mn nd raws in
            let* o2 := col_header mn w nd o in
            if (nd =? 0)%Z then Ok o2 else write_uints ds nd o2
        end
  end.

(* the code/flag encoder differs only in not scaling: same column body *)
Definition enc_col_codeflag := enc_col_num.

(* ---- Decoder.process_numeric_compressed ---------------------------------------
   returns Some (min + diff) (before reference value / scale) or None per subset *)
Definition onebit_rule (wd : N) (d : option N) : option N :=
  match d with
  | Some x => if ((x =? 1) && (wd =? 1))%N then None else d
  | None => None
  end.

Fixpoint dec_incs_num (wd : N) (mn : N) (n : nat) (r : reader) : result (list (option N) * reader) :=
  match n with
  | O => Ok ([], r)
  | S k =>
      let* (d, r1) := read_uint_or_none (Z.of_N wd) r in
      let v := match onebit_rule wd d with None => None | Some x => Some (mn + x)%N end in
      let* (vs, r2) := dec_incs_num wd mn k r1 in
      Ok (v :: vs, r2)
  end.

Definition dec_col_num (w : Z) (n : nat) (r : reader) : result (list (option N) * reader) :=
  let* (mn, r1) := read_uint_or_none w r in
  let* (nd, r2) := read_uint NBITS_FOR_NBITS_DIFF r1 in
  match mn with
  | None => if (nd =? 0)%N then Ok (repeat None n, r2) else Err EBadColumn
  | Some m => if (nd =? 0)%N then Ok (repeat (Some m) n, r2) else dec_incs_num nd m n r2
  end.

(* ---- Decoder.process_codeflag_compressed ----------------------------------------
   as numeric, plus: min + diff = NUMERIC_MISSING_VALUES[descriptor.nbits] is
   missing when descriptor.nbits > 1 (IndexError for descriptor.nbits > 64) *)
Definition codeflag_recheck (dnbits : Z) (v : N) : result (option N) :=
  if (1 <? dnbits)%Z then
    if (64 <? dnbits)%Z then Err EIndex
    else if (v =? missing_value (Z.to_N dnbits))%N then Ok None else Ok (Some v)
  else Ok (Some v).

Fixpoint dec_incs_codeflag (wd : N) (dnbits : Z) (mn : N) (n : nat) (r : reader)
  : result (list (option N) * reader) :=
  match n with
  | O => Ok ([], r)
  | S k =>
      let* (d, r1) := read_uint_or_none (Z.of_N wd) r in
      let* v := match onebit_rule wd d with
                | None => Ok None
                | Some x => codeflag_recheck dnbits (mn + x)%N
                end in
      let* (vs, r2) := dec_incs_codeflag wd dnbits mn k r1 in
      Ok (v :: vs, r2)
  end.

Definition dec_col_codeflag (w : Z) (dnbits : Z) (n : nat) (r : reader)
  : result (list (option N) * reader) :=
  let* (mn, r1) := read_uint_or_none w r in
  let* (nd, r2) := read_uint NBITS_FOR_NBITS_DIFF r1 in
  if opt_is_none mn || (nd =? 0)%N then
    if (nd =? 0)%N then Ok (repeat mn n, r2) else Err EBadColumn
  else
    match mn with
    | Some m => dec_incs_codeflag nd dnbits m n r2
    | None => Err EBadColumn        (* unreachable: opt_is_none mn was false *)
    end.

(* ---- character columns ---------------------------------------------------------
   '\xff' * n, '\0' * n: a negative count gives the empty string *)
Definition bytes_rep (b : byte) (n : Z) : list byte := repeat b (Z.to_nat n).

Fixpoint write_bytes_list (vs : list (list byte)) (nbytes : Z) (o : writer) : result writer :=
  match vs with
  | [] => Ok o
  | v :: r => let* o1 := write_bytes v nbytes o in write_bytes_list r nbytes o1
  end.

Definition str_or_missing (nbytes : Z) (v : option (list byte)) : list byte :=
  match v with None => bytes_rep 255%N nbytes | Some s => s end.

(* Encoder.process_string_compressed.  (Bits.write_bytes refuses a negative
   octet count with EValue; Python would slice instead — never reached: the
   count is descriptor.nbits // 8 or the operand of 208YYY / 205YYY.) *)
Definition enc_col_str (nbytes : Z) (all_equal : bool) (vals : list (option (list byte))) (o : writer)
  : result writer :=
  match vals with
  | [] => Err EIndex
  | v0 :: _ =>
      let min_value :=
        if all_equal && opt_is_none v0 then bytes_rep 255%N nbytes
        else if all_equal then str_or_missing nbytes v0
        else bytes_rep 0%N nbytes in
      let nd := if all_equal then 0%Z else nbytes in
      let* o1 := write_bytes min_value nbytes o in
      let* o2 := write_uint nd NBITS_FOR_NBITS_DIFF o1 in
      if (nd =? 0)%Z then Ok o2
      else write_bytes_list (map (str_or_missing nd) vals) nd o2
  end.

(* Python's [x in s] on bytes: substring test *)
Fixpoint bytes_is_prefix (x s : list byte) : bool :=
  match x, s with
  | [], _ => true
  | a :: x', b :: s' => (a =? b)%N && bytes_is_prefix x' s'
  | _ :: _, [] => false
  end.
Fixpoint bytes_is_infix (x s : list byte) : bool :=
  bytes_is_prefix x s || match s with [] => false | _ :: s' => bytes_is_infix x s' end.

(* Python's [a or b] on bytes: a unless it is empty *)
Definition py_or_bytes (a b : list byte) : list byte := match a with [] => b | _ => a end.

(* min_value in (b'\0' * n or b'\xff' * n): the parenthesis is ONE bytes object
   (the zero string, or b'' when n = 0), and [in] is the substring test *)
Definition str_min_is_blank (nbytes : Z) (mn : list byte) : bool :=
  bytes_is_infix mn (py_or_bytes (bytes_rep 0%N nbytes) (bytes_rep 255%N nbytes)).

Fixpoint dec_incs_str (nd : Z) (mn : list byte) (n : nat) (r : reader)
  : result (list (list byte) * reader) :=
  match n with
  | O => Ok ([], r)
  | S k =>
      let* (d, r1) := read_bytes nd r in            (* read_bytes(nbits_diff): OCTETS *)
      let* (vs, r2) := dec_incs_str nd mn k r1 in
      Ok ((mn ++ d) :: vs, r2)                      (* min_value + diff_value: concatenation *)
  end.

(* Decoder.process_string_compressed after
   "fix: equal NUL strings decode compressed as uncompressed" (D13): the base is
   blanked only when increments follow *)
Definition dec_col_str (nbytes : Z) (n : nat) (r : reader) : result (list (list byte) * reader) :=
  let* (mn, r1) := read_bytes nbytes r in
  let* (nd, r2) := read_uint NBITS_FOR_NBITS_DIFF r1 in
  let mn' := if negb (nd =? 0)%N && str_min_is_blank nbytes mn then [] else mn in
  if (nd =? 0)%N then Ok (repeat mn' n, r2)
  else dec_incs_str (Z.of_N nd) mn' n r2.

(* the code as it was before that repair: the base is blanked unconditionally *)
Definition dec_col_str_orig (nbytes : Z) (n : nat) (r : reader) : result (list (list byte) * reader) :=
  let* (mn, r1) := read_bytes nbytes r in
  let* (nd, r2) := read_uint NBITS_FOR_NBITS_DIFF r1 in
  let mn' := if str_min_is_blank nbytes mn then [] else mn in
  if (nd =? 0)%N then Ok (repeat mn' n, r2)
  else dec_incs_str (Z.of_N nd) mn' n r2.

(* ---- 203YYY new reference values (sign-magnitude), compressed -------------------
   v = values[0].  assert all_equal; assert all_missing is False *)
Definition enc_col_refval (w : Z) (all_equal : bool) (v : option Z) (o : writer) : result writer :=
  if negb all_equal then Err EAssert
  else match v with
       | None => Err EAssert
       | Some x =>
           let* o1 := write_int x w o in
           write_uint 0 NBITS_FOR_NBITS_DIFF o1      (* nbits_diff = 0: no increments *)
       end.

(* the value is the same for all n subsets: it is returned once *)
Definition dec_col_refval (w : Z) (n : nat) (r : reader) : result (Z * reader) :=
  let* (mn, r1) := read_int w r in
  let* (nd, r2) := read_uint NBITS_FOR_NBITS_DIFF r1 in
  if (nd =? 0)%N then Ok (mn, r2) else Err EBadColumn.

(* ---- constants (222000 etc.): no bits; the encoder asserts
   all_equal and values[0] == value, the decoder appends the value n times *)
Definition enc_col_const (all_equal : bool) (first_is_value : bool) (o : writer) : result writer :=
  if all_equal && first_is_value then Ok o else Err EAssert.
Definition dec_col_const {A} (value : A) (n : nat) (r : reader) : result (list A * reader) :=
  Ok (repeat value n, r).

(* ---- the uncompressed form of the same column (one field per subset) -------------
   Encoder/Decoder.process_{numeric,codeflag,string}_uncompressed on one value;
   used to state transparency at column level *)
Definition enc_field_num (w : Z) (v : option Z) (o : writer) : result writer :=
  let* m := match v with None => numeric_missing w | Some x => Ok x end in
  write_uint m w o.
Definition dec_field_num (w : Z) (r : reader) : result (option N * reader) := read_uint_or_none w r.

Fixpoint enc_fields_num (w : Z) (raws : list (option Z)) (o : writer) : result writer :=
  match raws with
  | [] => Ok o
  | v :: rest => let* o1 := enc_field_num w v o in enc_fields_num w rest o1
  end.
Fixpoint dec_fields_num (w : Z) (n : nat) (r : reader) : result (list (option N) * reader) :=
  match n with
  | O => Ok ([], r)
  | S k =>
      let* (v, r1) := dec_field_num w r in
      let* (vs, r2) := dec_fields_num w k r1 in
      Ok (v :: vs, r2)
  end.

Definition enc_field_str (nbytes : Z) (v : option (list byte)) (o : writer) : result writer :=
  write_bytes (str_or_missing nbytes v) nbytes o.
Fixpoint enc_fields_str (nbytes : Z) (vals : list (option (list byte))) (o : writer) : result writer :=
  match vals with
  | [] => Ok o
  | v :: rest => let* o1 := enc_field_str nbytes v o in enc_fields_str nbytes rest o1
  end.
Fixpoint dec_fields_str (nbytes : Z) (n : nat) (r : reader) : result (list (list byte) * reader) :=
  match n with
  | O => Ok ([], r)
  | S k =>
      let* (v, r1) := read_bytes nbytes r in
      let* (vs, r2) := dec_fields_str nbytes k r1 in
      Ok (v :: vs, r2)
  end.

(* =============================================================================
   Reference definitions (my reading of FM 94 regulation 94.6.3, NOT the code).
   ============================================================================= *)

(* An independent reader of a numeric column, written on bits: R0 in w bits,
   NBINC in 6 bits, then n increments of NBINC bits.  An increment whose bits
   are all ones - and only that - is missing, whatever its width; NBINC = 0
   means every subset has the value R0, or is missing when R0 is all ones (a
   one-bit element has no missing pattern); all-ones R0 with NBINC <> 0 is not
   a legal column. *)
Definition bits_all_ones (b : bits) : bool := forallb (fun x => x) b.

Fixpoint spec_incs (nb : nat) (r0 : N) (n : nat) (r : reader) : result (list (option N) * reader) :=
  match n with
  | O => Ok ([], r)
  | S k =>
      let* (b, r1) := take_bits nb r in
      let* (vs, r2) := spec_incs nb r0 k r1 in
      Ok ((if bits_all_ones b then None else Some (r0 + of_bits b)%N) :: vs, r2)
  end.

Definition spec_dec_col_num (w : Z) (n : nat) (r : reader) : result (list (option N) * reader) :=
  if (w <? 1)%Z then Err EValue else
  let* (b0, r1) := take_bits (Z.to_nat w) r in
  let* (bw, r2) := take_bits 6 r1 in
  let r0_missing := (1 <? w)%Z && bits_all_ones b0 in
  match N.to_nat (of_bits bw) with
  | O => Ok (repeat (if r0_missing then None else Some (of_bits b0)) n, r2)
  | S _ as nb => if r0_missing then Err EBadColumn else spec_incs nb (of_bits b0) n r2
  end.

(* A spec-level writer that lays a column out with ANY base and ANY increment
   width (not the encoder's choice): base in w bits, wd in 6 bits, one
   increment of wd bits per subset, all ones for missing. *)
Definition lay_incs (wd : Z) (base : N) (raws : list (option N)) : bits :=
  flat_map (fun v => match v with
                     | None => ones (Z.to_nat wd)
                     | Some x => to_bits (Z.to_nat wd) (x - base)
                     end) raws.

Definition lay_col_num (w wd : Z) (base : N) (raws : list (option N)) : bits :=
  to_bits (Z.to_nat w) base ++ to_bits 6 (Z.to_N wd) ++ lay_incs wd base raws.

(* the all-missing column: all ones, width 0 *)
Definition lay_col_missing (w : Z) : bits := ones (Z.to_nat w) ++ zeros 6.

(* ---- executable domains of the round-trip theorems (extracted; the check
   reports which generated columns lie inside) ------------------------------------ *)
Definition optz_eqb (a b : option Z) : bool :=
  match a, b with
  | None, None => true
  | Some x, Some y => (x =? y)%Z
  | _, _ => false
  end.

(* the flag the caller passes: true only if all entries are equal; false only if
   some entry is present (an all-missing column always has all_equal = true) *)
Definition col_flag_ok (all_equal : bool) (raws : list (option Z)) : bool :=
  match raws with
  | [] => false
  | v0 :: _ => if all_equal then forallb (optz_eqb v0) raws else existsb (fun v => negb (opt_is_none v)) raws
  end.

Definition col_in_range (w : Z) (v : option Z) : bool :=
  match v with None => true | Some x => (0 <=? x)%Z && (x <=? 2 ^ w - 2)%Z end.

(* the width of the increments fits the 6-bit field: nbits_for_uint (D+1) <= 63 *)
Definition col_spread_ok (raws : list (option Z)) : bool :=
  match minmax raws with
  | None => true
  | Some (mn, mx) => (mx - mn + 2 <? 2 ^ 63)%Z
  end.

Definition col_dom_num (w : Z) (all_equal : bool) (raws : list (option Z)) : bool :=
  (2 <=? w)%Z && (w <=? 64)%Z && col_flag_ok all_equal raws && forallb (col_in_range w) raws && col_spread_ok raws.

(* one-bit columns: values 0 and 1, no missing entry *)
Definition col_in_range1 (v : option Z) : bool :=
  match v with None => false | Some x => (0 <=? x)%Z && (x <=? 1)%Z end.
Definition col_dom_onebit (all_equal : bool) (raws : list (option Z)) : bool :=
  col_flag_ok all_equal raws && forallb col_in_range1 raws.

Definition col_opt_bytes_ok (v : option (list byte)) : bool :=
  match v with None => true | Some s => forallb is_byte s end.

Fixpoint col_bytes_eqb (a b : list byte) : bool :=
  match a, b with
  | [], [] => true
  | x :: a', y :: b' => (x =? y)%N && col_bytes_eqb a' b'
  | _, _ => false
  end.
Definition col_opt_bytes_eqb (a b : option (list byte)) : bool :=
  match a, b with
  | None, None => true
  | Some x, Some y => col_bytes_eqb x y
  | _, _ => false
  end.
Definition col_flag_ok_str (all_equal : bool) (vals : list (option (list byte))) : bool :=
  match vals with
  | [] => false
  | v0 :: _ => if all_equal then forallb (col_opt_bytes_eqb v0) vals else true
  end.

Definition col_dom_str (nbytes : Z) (all_equal : bool) (vals : list (option (list byte))) : bool :=
  (0 <=? nbytes)%Z && (nbytes <=? 63)%Z && col_flag_ok_str all_equal vals && forallb col_opt_bytes_ok vals.

(* the guard that excluded D13 before the repair: an all-equal column of NUL strings *)
Definition is_equal_nul_col (nbytes : Z) (all_equal : bool) (vals : list (option (list byte))) : bool :=
  match vals with
  | Some s :: _ => all_equal && (0 <? nbytes)%Z && forallb (fun x => (x =? 0)%N) (pad_bytes s (Z.to_nat nbytes))
  | _ => false
  end.

(* what a column is expected to read back as *)
Definition raw_view (raws : list (option Z)) : list (option N) := map (option_map Z.to_N) raws.
Definition str_view (nbytes : Z) (vals : list (option (list byte))) : list (list byte) :=
  map (fun v => pad_bytes (str_or_missing nbytes v) (Z.to_nat nbytes)) vals.

(* the code/flag view: a value equal to the all-ones pattern of the element is missing *)
Definition codeflag_view (dnbits : Z) (raws : list (option Z)) : list (option N) :=
  map (fun v => match v with
                | None => None
                | Some x => if ((1 <? dnbits)%Z && (x =? 2 ^ dnbits - 1)%Z) then None else Some (Z.to_N x)
                end) raws.
