(* CoderPS.v — the producer/consumer theorem instantiated for the run-time
   handlers: a producing implementation of the primitives (an encoder) and a
   consuming one (a decoder) whose primitives correspond step by step. *)
From PBK Require Import Base Descr Walk Coder WalkSim WalkPS.

Section IOPS.
Context {C1 C2 B : Type} (P1 : prims C1) (P2 : prims C2) (R : C1 -> C2 -> Prop).
Variable out1 : C1 -> list B.
Variable inp2 : C2 -> list B.
Variable with2 : C2 -> list B -> C2.
Hypothesis inp_with : forall c b, inp2 (with2 c b) = b.
Hypothesis with_with : forall c b b', with2 (with2 c b) b' = with2 c b'.
Hypothesis with_inp : forall c, with2 c (inp2 c) = c.
Hypothesis R_with : forall c1 c2 b, R c1 c2 -> R c1 (with2 c2 b).

(* the same, one level up: io states *)
Definition Rio2 (a : io C1) (b : io C2) : Prop :=
  io_dd a = io_dd b /\ io_links a = io_links b /\ R (io_c a) (io_c b).
Definition io_out (a : io C1) : list B := out1 (io_c a).
Definition io_inp (b : io C2) : list B := inp2 (io_c b).
Definition io_with (b : io C2) (x : list B) : io C2 := mkIo (io_dd b) (io_links b) (with2 (io_c b) x).

Lemma io_inp_with c b : io_inp (io_with c b) = b.
Proof. unfold io_inp, io_with. cbn. apply inp_with. Qed.
Lemma io_with_with c b b' : io_with (io_with c b) b' = io_with c b'.
Proof. unfold io_with. cbn. rewrite with_with. reflexivity. Qed.
Lemma io_with_inp c : io_with c (io_inp c) = c.
Proof. destruct c. unfold io_with, io_inp. cbn. rewrite with_inp. reflexivity. Qed.
Lemma Rio2_with c1 c2 b : Rio2 c1 c2 -> Rio2 c1 (io_with c2 b).
Proof. intros (Hd & Hl & Hc). repeat split; cbn; auto. Qed.

Notation ps := (psf Rio2 io_out io_inp io_with).

(* a primitive that produces / consumes *)
Definition psp (f1 : C1 -> result C1) (f2 : C2 -> result C2) : Prop :=
  forall c1 c2 c1', R c1 c2 -> f1 c1 = Ok c1' ->
  exists d, out1 c1' = out1 c1 ++ d /\
  forall tail, exists c2', f2 (with2 c2 (d ++ tail)) = Ok c2' /\ inp2 c2' = tail /\ R c1' c2'.

Hypothesis Pnumeric : forall a b c, psp (p_numeric P1 a b c) (p_numeric P2 a b c).
Hypothesis Pstring : forall a, psp (p_string P1 a) (p_string P2 a).
Hypothesis Pcodeflag : forall a b, psp (p_codeflag P1 a b) (p_codeflag P2 a b).
Hypothesis Pconstant : forall a, psp (p_constant P1 a) (p_constant P2 a).
Hypothesis Pnew_refval : forall a c1 c2 z c1', R c1 c2 -> p_new_refval P1 a c1 = Ok (z, c1') ->
  exists d, out1 c1' = out1 c1 ++ d /\
  forall tail, exists c2', p_new_refval P2 a (with2 c2 (d ++ tail)) = Ok (z, c2') /\ inp2 c2' = tail /\ R c1' c2'.
Hypothesis Pfactor : forall c1 c2 n, R c1 c2 -> p_factor P1 c1 = Ok n -> p_factor P2 c2 = Ok n.
Hypothesis Pbitmap : forall a c1 c2 bm, R c1 c2 -> p_bitmap P1 a c1 = Ok bm -> p_bitmap P2 a c2 = Ok bm.

Lemma ps_lift dd f1 f2 : psp f1 f2 -> ps (lift dd f1) (lift dd f2).
Proof.
  intros Hf s1 s2 s1' [Hr (Hdd & Hl & Hc)] E. unfold lift in *.
  destruct (f1 _) as [c1'|] eqn:E1; cbn [bind] in E; [|discriminate].
  cbn in E1. destruct (Hf _ _ _ Hc E1) as (d & Ho & K).
  injection E as <-. exists d. split; [exact Ho|].
  intros tail. destruct (K tail) as (c2' & E2 & Hi & Hc').
  eexists. cbn. rewrite E2. cbn [bind]. split; [reflexivity|]. split; [exact Hi|].
  split; cbn; [exact Hr|]. repeat split; cbn; congruence || assumption.
Qed.

(* a step that touches neither the output nor the input *)
Lemma ps_pure (f1 : ws (io C1) -> result (ws (io C1))) (f2 : ws (io C2) -> result (ws (io C2))) :
  (forall s1 s2 s1', Rst Rio2 s1 s2 -> f1 s1 = Ok s1' ->
     io_out (w_c s1') = io_out (w_c s1) /\
     exists s2', f2 s2 = Ok s2' /\ io_inp (w_c s2') = io_inp (w_c s2) /\ Rst Rio2 s1' s2') ->
  ps f1 f2.
Proof.
  intros Hp s1 s2 s1' HR E. exists []. 
  assert (HR' : forall tail, Rst Rio2 s1 (withw io_with s2 tail)).
  { intros tail. destruct HR as [Hr Hc]. split; cbn; [exact Hr|apply Rio2_with; exact Hc]. }
  destruct (Hp _ _ _ (HR' []) E) as (Ho & _). split; [rewrite app_nil_r; exact Ho|].
  intros tail. destruct (Hp _ _ _ (HR' tail) E) as (_ & s2' & E2 & Hi & HR2).
  exists s2'. split; [exact E2|]. split; [|exact HR2]. rewrite Hi. cbn. apply io_inp_with.
Qed.

Lemma pure_build_bitmapped bm (s1 : ws (io C1)) (s2 : ws (io C2)) s1' :
  Rst Rio2 s1 s2 -> build_bitmapped bm s1 = Ok s1' ->
  io_out (w_c s1') = io_out (w_c s1) /\
  exists s2', build_bitmapped bm s2 = Ok s2' /\ io_inp (w_c s2') = io_inp (w_c s2) /\ Rst Rio2 s1' s2'.
Proof.
  intros HR E. unfold build_bitmapped in *. cbv zeta in *.
  pose proof HR as [Hr (Hdd & Hl & Hc)]. rewrite <- Hr, <- Hdd.
  destruct (get_backrefs (w_r s1) (io_dd (w_c s1)) (length bm)) as [refs|];
    cbn [bind] in E |- *; [|discriminate].
  destruct (negb (length refs =? length bm)%nat); [discriminate|].
  injection E as <-. split; [reflexivity|]. eexists; split; [reflexivity|]. split; [reflexivity|].
  repeat apply Rst_upd. exact HR.
Qed.

Theorem io_walk_ps :
  (forall d, ps (walk (io_handlers P1) io_add_link d) (walk (io_handlers P2) io_add_link d)) /\
  (forall ms, ps (walk_list (io_handlers P1) io_add_link ms) (walk_list (io_handlers P2) io_add_link ms)).
Proof.
  apply (walk_ps Rio2 io_out io_inp io_with io_inp_with io_with_inp Rio2_with);
  cbn [io_handlers h_numeric h_numeric_new_refval h_string h_codeflag h_new_refval
    h_constant h_define_bitmap h_mark_boundary h_recall_bitmap h_cancel_bitmap h_cancel_backrefs
    h_add_bitmap_link h_bitmap_def_wrap h_fixed h_delayed h_bitmapped].
  - intros; apply ps_lift, Pnumeric.
  - intros dd a b c.
    apply (ps_regs Rio2 io_out io_inp io_with
      (fun r s => match refval_lookup (dd_id dd) (r_new_refvals r) with
                  | None => Err EKey | Some None => Err EType
                  | Some (Some v) => lift dd (p_numeric P1 a b (v * c)%Z) s end)
      (fun r s => match refval_lookup (dd_id dd) (r_new_refvals r) with
                  | None => Err EKey | Some None => Err EType
                  | Some (Some v) => lift dd (p_numeric P2 a b (v * c)%Z) s end)).
    intros r. destruct (refval_lookup _ _) as [[v|]|]; try apply ps_err. apply ps_lift, Pnumeric.
  - intros; apply ps_lift, Pstring.
  - intros; apply ps_lift, Pcodeflag.
  - (* new_refval *)
    intros dd a s1 s2 s1' [Hr (Hdd & Hl & Hc)] E.
    destruct (p_new_refval P1 a _) as [[z c1']|] eqn:E1; cbn [bind] in E; [|discriminate].
    cbn in E1. destruct (Pnew_refval _ _ _ _ _ Hc E1) as (d & Ho & K).
    injection E as <-. exists d. split; [exact Ho|].
    intros tail. destruct (K tail) as (c2' & E2 & Hi & Hc').
    eexists. cbn. rewrite E2. cbn [bind]. split; [reflexivity|]. split; [exact Hi|].
    split; cbn; [congruence|]. repeat split; cbn; congruence || assumption.
  - intros; apply ps_lift, Pconstant.
  - (* define_bitmap *)
    intros reuse. apply ps_pure. intros s1 s2 s1' HR E.
    pose proof HR as [Hr (Hdd & Hl & Hc)]. rewrite <- Hr.
    destruct (p_bitmap P1 _ _) as [bm|] eqn:E1; cbn [bind] in E; [|discriminate].
    rewrite (Pbitmap _ _ _ _ Hc E1). cbn [bind].
    assert (HR1 : Rst Rio2 (if reuse then upd_r (set_bitmap_set true) s1 else s1)
                           (if reuse then upd_r (set_bitmap_set true) s2 else s2))
      by (destruct reuse; [apply Rst_upd|]; exact HR).
    destruct (pure_build_bitmapped _ _ _ _ HR1 E) as (Ho & s2' & E2 & Hi & HR2).
    split; [rewrite Ho; destruct reuse; reflexivity|].
    exists s2'. split; [exact E2|]. split; [rewrite Hi; destruct reuse; reflexivity|exact HR2].
  - (* mark boundary *)
    apply ps_pure. intros s1 s2 s1' HR E. injection E as <-. split; [reflexivity|].
    eexists; split; [reflexivity|]. split; [reflexivity|].
    pose proof HR as [Hr (Hdd & Hl & Hc)]. unfold ndesc. rewrite <- Hdd. apply Rst_upd. exact HR.
  - apply ps_pure. intros s1 s2 s1' HR E. pose proof HR as [Hr _]. rewrite <- Hr.
    destruct (r_bitmapped (w_r s1)); [|discriminate]. injection E as <-. split; [reflexivity|].
    eexists; split; [reflexivity|]. split; [reflexivity|apply Rst_upd; exact HR].
  - apply ps_pure. intros s1 s2 s1' HR E. injection E as <-. split; [reflexivity|].
    eexists; split; [reflexivity|]. split; [reflexivity|apply Rst_upd; exact HR].
  - apply ps_pure. intros s1 s2 s1' HR E. injection E as <-. split; [reflexivity|].
    eexists; split; [reflexivity|]. split; [reflexivity|apply Rst_upd; exact HR].
  - (* add_bitmap_link *)
    apply ps_pure. intros s1 s2 s1' HR E. pose proof HR as [Hr (Hdd & Hl & Hc)]. rewrite <- Hr.
    destruct (next_bitmapped (w_r s1)) as [[b r']|]; cbn [bind] in E |- *; [|discriminate].
    unfold io_add_link in *. injection E as <-. split; [reflexivity|].
    eexists; split; [reflexivity|]. split; [reflexivity|].
    unfold ndesc. cbn. split; cbn; [reflexivity|]. repeat split; cbn; congruence || assumption.
  - intros f1 f2 Hf. exact Hf.
  - intros n f1 f2 Hf. apply (ps_iter Rio2 io_out io_inp io_with io_inp_with io_with_inp Rio2_with). exact Hf.
  - (* delayed *)
    intros f1 f2 Hf s1 s2 s1' HR E. pose proof HR as [Hr (Hdd & Hl & Hc)].
    destruct (p_factor P1 _) as [n|] eqn:E1; cbn [bind] in E; [|discriminate].
    destruct (ps_iter Rio2 io_out io_inp io_with io_inp_with io_with_inp Rio2_with n _ _ Hf _ _ _ HR E)
      as (d & Ho & K).
    exists d. split; [exact Ho|]. intros tail. destruct (K tail) as (s2' & E2 & Hi & HR2).
    exists s2'. cbn [withw w_c io_with io_c].
    rewrite (Pfactor _ _ _ (R_with _ _ (d ++ tail) Hc) E1). cbn [bind]. auto.
  - intros id f1 f2 Hf. exact Hf.
  - (* io_add_link *)
    intros idx. apply ps_pure. intros s1 s2 s1' [Hr (Hdd & Hl & Hc)] E.
    unfold io_add_link in *. injection E as <-. split; [reflexivity|].
    eexists; split; [reflexivity|]. split; [reflexivity|]. unfold ndesc. cbn.
    split; cbn; [exact Hr|]. repeat split; cbn; congruence || assumption.
Qed.

End IOPS.
