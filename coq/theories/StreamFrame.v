(* StreamFrame.v — the scanner of Stream.v instantiated with the CONCRETE
   message decoder of Frame.v:

     process      s = decoder.process(s, start_signature=None, info_only=False)
     process_info s = decoder.process(s, start_signature=None, info_only=True)

   (ignore_value_expectation = False, the default of Decoder()), and what
   generate_bufr_message reads off the returned BufrMessage:
     len(bufr_message.serialized_bytes), bufr_message.length.value,
     bufr_message.data_category.value, bufr_message.n_subsets.value
   plus whatever a filter expression may look at ([view], arbitrary).

   The table-definition branch
       if matched and data_category.value == 11 and n_subsets.value > 0:
           BufrTableDefinitionProcessor().process(bufr_message) ...
   is [frame_hook]: the processor itself is the arbitrary function [tdp]; the
   branch is not entered ("quiet") for every other message.
   Model file: definitions only. *)
From PBK Require Import Base Bits Frame Stream.

(* data_category.value, n_subsets.value when both attributes are set to ints *)
Definition tabledef_keys (props : list (pname * pvalue)) : option (Z * Z) :=
  match prop_get Ndata_category props, prop_get Nn_subsets props with
  | Some (PUint dc), Some (PUint ns) => Some (dc, ns)
  | _, _ => None
  end.

Section Concrete.
(* the template decoder of Frame.v *)
Variable dd : list (pname * pvalue) -> reader -> result (bits * reader).
(* anything else a filter expression may read off the message object *)
Variable view : message -> list N.
(* BufrTableDefinitionProcessor().process + the cache manager calls *)
Variable tdp : msginfo -> result unit.

Definition meta_of (m : message) : list N :=
  match tabledef_keys (m_props m) with
  | Some (dc, ns) => Z.to_N dc :: Z.to_N ns :: view m
  | None => []
  end.

(* bufr_message.length is set by section 0 of every message that decodes;
   the error branches are the Python behaviour were it not (None.value) *)
Definition msginfo_of (m : message) : result msginfo :=
  match prop_get Nlength (m_props m) with
  | Some (PUint len) => Ok (MsgInfo (length (m_bytes m)) (Z.to_nat len) (meta_of m))
  | Some _ => Err EType
  | None => Err EAttr
  end.

Definition frame_process (info_only : bool) (s : list byte) : result msginfo :=
  let* m := decode_message dd None info_only false s in msginfo_of m.

(* DATA_CATEGORY_DEFINE_BUFR_TABLES = 11 *)
Definition frame_hook (mi : msginfo) : result unit :=
  match mi_meta mi with
  | dc :: ns :: _ => if (dc =? 11)%N && (0 <? ns)%N then tdp mi else Ok tt
  | _ => Err EAttr
  end.

(* generate_bufr_message(Decoder(), s, info_only, continue_on_error, filter_expr) *)
Definition frame_generate (filt : msginfo -> result bool)
    (info_only continue_on_error use_filter : bool) (s : list byte) : outcome :=
  generate (frame_process false) (frame_process true) filt frame_hook
           info_only continue_on_error use_filter s.
End Concrete.

(* the table-definition branch is not entered for a message with these attributes *)
Definition quiet_props (props : list (pname * pvalue)) : bool :=
  match tabledef_keys props with
  | Some (dc, ns) => negb ((Z.to_N dc =? 11)%N && (0 <? Z.to_N ns)%N)
  | None => false
  end.

(* 'BUFR' does not occur in s (executable form of Stream.nosig) *)
Definition nosigb (s : list byte) : bool :=
  match find_from sig s 0 with None => true | Some _ => false end.
