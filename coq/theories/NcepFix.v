(* NcepFix.v — tables._fix_ncep_descriptors: the repair of NCEP-style "replication-only"
   Table D sequences (e.g. 3-60-002 = 101000 031001), applied by
   TableGroup.template_from_ids whenever extra (in-stream) table entries exist.

   Python (tables.py l.431-457), on a list [descriptors] consumed from the front:
     - a sequence whose ONLY member is a replication without members is replaced by that
       bare replication (pushed back on the front of the list);
     - a replication without members asserts X = 1 (AssertionError otherwise) and adopts
       the NEXT descriptor of the same list (IndexError when there is none) as its member;
     - the members of every sequence / replication are repaired recursively (for the
       adopted member: the one-element list holding it);
     - everything else is kept.
   The model is structural: [fixd d] is the repair of the one-element list [d], [fixl ds]
   the repair of a list. *)
From PBK Require Import Base Descr.

Definition is_rep (d : desc) : bool :=
  match d with DFixed _ _ | DDelayed _ _ _ => true | _ => false end.

Definition is_empty_rep (d : desc) : bool :=
  match d with DFixed _ DNil | DDelayed _ _ DNil => true | _ => false end.

Definition set_members (d : desc) (ms : descs) : desc :=
  match d with
  | DFixed id _ => DFixed id ms
  | DDelayed id f _ => DDelayed id f ms
  | _ => d
  end.

(* the bare replication a list element stands for, if any *)
Definition unwrap (d : desc) : option desc :=
  match d with
  | DSeq _ (DCons r DNil) => if is_empty_rep r then Some r else None
  | DFixed _ DNil | DDelayed _ _ DNil => Some d
  | _ => None
  end.

(* /repo as found (before "fix: NCEP replication repair leaves a replication with nothing to adopt alone"):
   nothing to adopt -> IndexError, X <> 1 -> AssertionError *)
Fixpoint fixd_orig (d : desc) : result desc :=
  match d with
  | DSeq id ms =>
      match unwrap d with
      | Some r => if (desc_X (desc_id r) =? 1)%N then Err EIndex else Err EAssert
      | None => let* ms' := fixl_orig ms in Ok (DSeq id ms')
      end
  | DFixed id ms =>
      match ms with
      | DNil => if (desc_X id =? 1)%N then Err EIndex else Err EAssert
      | _ => let* ms' := fixl_orig ms in Ok (DFixed id ms')
      end
  | DDelayed id f ms =>
      match ms with
      | DNil => if (desc_X id =? 1)%N then Err EIndex else Err EAssert
      | _ => let* ms' := fixl_orig ms in Ok (DDelayed id f ms')
      end
  | _ => Ok d
  end
with fixl_orig (ds : descs) : result descs :=
  match ds with
  | DNil => Ok DNil
  | DCons d r =>
      match unwrap d with
      | Some rep =>
          if negb (desc_X (desc_id rep) =? 1)%N then Err EAssert else
          match r with
          | DNil => Err EIndex
          | DCons a r' =>
              let* m := fixd_orig a in
              let* rest := fixl_orig r' in
              Ok (DCons (set_members rep (DCons m DNil)) rest)
          end
      | None =>
          let* x := fixd_orig d in
          let* rest := fixl_orig r in
          Ok (DCons x rest)
      end
  end.


(* /repo now: a replication without members adopts the next descriptor only when it replicates exactly one descriptor
   and a descriptor follows; otherwise it is left as it is (as without extra entries).  Total. *)
Fixpoint fixd (d : desc) : result desc :=
  match d with
  | DSeq id ms =>
      match unwrap d with
      | Some r => Ok r
      | None => let* ms' := fixl ms in Ok (DSeq id ms')
      end
  | DFixed id ms =>
      match ms with
      | DNil => Ok d
      | _ => let* ms' := fixl ms in Ok (DFixed id ms')
      end
  | DDelayed id f ms =>
      match ms with
      | DNil => Ok d
      | _ => let* ms' := fixl ms in Ok (DDelayed id f ms')
      end
  | _ => Ok d
  end
with fixl (ds : descs) : result descs :=
  match ds with
  | DNil => Ok DNil
  | DCons d r =>
      match unwrap d with
      | Some rep =>
          if (desc_X (desc_id rep) =? 1)%N then
            match r with
            | DNil => Ok (DCons rep DNil)
            | DCons a r' =>
                let* m := fixd a in
                let* rest := fixl r' in
                Ok (DCons (set_members rep (DCons m DNil)) rest)
            end
          else
            let* rest := fixl r in
            Ok (DCons rep rest)
      | None =>
          let* x := fixd d in
          let* rest := fixl r in
          Ok (DCons x rest)
      end
  end.

(* ---- observers used by the theorems ---------------------------------------- *)

(* nothing left to repair: no replication without members (a replication-only sequence contains one) *)
Fixpoint clean (d : desc) : bool :=
  match d with
  | DSeq _ ms => cleanl ms
  | DFixed _ ms => match ms with DNil => false | _ => cleanl ms end
  | DDelayed _ _ ms => match ms with DNil => false | _ => cleanl ms end
  | _ => true
  end
with cleanl (ds : descs) : bool :=
  match ds with DNil => true | DCons d r => clean d && cleanl r end.

(* the ids in processing order, sequences transparent (their own id does not take part in processing) *)
Fixpoint leaves (d : desc) : list N :=
  match d with
  | DSeq _ ms => leavesl ms
  | DFixed id ms => id :: leavesl ms
  | DDelayed id f ms => id :: desc_id f :: leavesl ms
  | _ => [desc_id d]
  end
with leavesl (ds : descs) : list N :=
  match ds with DNil => [] | DCons d r => leaves d ++ leavesl r end.
