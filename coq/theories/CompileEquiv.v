(* CompileEquiv.v — template compilation preserves behaviour (C08): for every
   template accepted by the checking compiler ([ok_c08 T = true], CompileChk.v),
   running the compiled statements and interpreting the template agree: both
   fail with the same error, or both succeed with the same descriptors, links
   and primitive state — for every primitive family (decoder, encoder,
   compressed or not) and every start state with initial registers. *)
From Coq Require Import ZifyBool ZifyNat ZifyN.
From PBK Require Import Base Bits Descr Walk Coder WalkSim Compile CompileChk
  CompileEquivBase CompileEquivInv CompileEquivWalk CompileEquivOper.

(* ---- what the strict comparison of compile-time registers means ---------------- *)
Record SEq (a b : regs) : Prop := mkSEq {
  se_nbits_offset : r_nbits_offset a = r_nbits_offset b;
  se_scale_offset : r_scale_offset a = r_scale_offset b;
  se_nbits_new_refval : r_nbits_new_refval a = r_nbits_new_refval b;
  se_keys : map fst (r_new_refvals a) = map fst (r_new_refvals b);
  se_assoc : r_assoc a = r_assoc b;
  se_nbits_skipped : r_nbits_skipped a = r_nbits_skipped b;
  se_bsr : r_bsr a = r_bsr b;
  se_new_nbytes : r_new_nbytes a = r_new_nbytes b;
  se_dnp : r_dnp a = r_dnp b;
  se_qa : r_qa a = r_qa b;
  se_bm_state : r_bm_state a = r_bm_state b;
  se_reuse : r_reuse a = r_reuse b
}.

Lemma strict_eqb_SEq a b : strict_eqb a b = true -> SEq a b.
Proof.
  unfold strict_eqb. intros E.
  repeat match type of E with (_ && _)%bool = true => let E' := fresh "E" in apply andb_prop in E as [E E'] end.
  constructor;
    try (apply Z.eqb_eq; assumption); try (apply N.eqb_eq; assumption);
    try (apply eqb_prop; assumption); try (apply bsr_eqb_sound; assumption).
  - apply (list_eqb_sound _ Neqb_sound). assumption.
  - apply (list_eqb_sound _ Zeqb_sound). assumption.
Qed.

Lemma SEq_sym a b : SEq a b -> SEq b a.
Proof. intros []; constructor; auto. Qed.

Lemma InvR_transfer ra nda rb ndb rI rE :
  SEq ra rb -> dirty_of ra nda = dirty_of rb ndb -> InvR ra nda rI rE -> InvR rb ndb rI rE.
Proof.
  intros HS Hd HR. destruct HS, HR. constructor; try congruence; try assumption.
  - intros X. apply dy_clean. congruence.
  - intros X. apply dy_wait. congruence.
  - intros X. apply dy_count. congruence.
Qed.

Section Equiv.
Context {C : Type} (P : prims C) (nzf : bool).
Hypothesis Hnz : nzf = true -> forall c n, p_factor P c = Ok n -> n <> 0%N.
Notation st := (ws (io C)).
Notation H := (io_handlers P).
Notation HC := (chk_handlers nzf).
Notation simc := (simc P).
Notation simc_at := (simc_at P).
Notation Inv := (Inv (C:=C)).
Notation exec := (exec_stmts P true).

Lemma Inv_transfer (a b : ws cks) (x y : st) :
  seq_eqb a b = true -> Inv a x y -> Inv b x y.
Proof.
  unfold seq_eqb. intros E (Hc & HR & HN). apply andb_prop in E as [E E3]. apply andb_prop in E as [E1 E2].
  apply strict_eqb_SEq in E1. apply eqb_prop in E2. apply eqb_prop in E3.
  split; [exact Hc|]. split; [eapply InvR_transfer; [exact E1|exact E2|exact HR]|].
  rewrite <- E3. exact HN.
Qed.

Lemma Inv_transfer_back (a b : ws cks) (x y : st) :
  seq_eqb a b = true -> Inv b x y -> Inv a x y.
Proof.
  unfold seq_eqb. intros E (Hc & HR & HN). apply andb_prop in E as [E E3]. apply andb_prop in E as [E1 E2].
  apply strict_eqb_SEq in E1. apply eqb_prop in E2. apply eqb_prop in E3.
  split; [exact Hc|]. split; [eapply InvR_transfer; [apply SEq_sym; exact E1|symmetry; exact E2|exact HR]|].
  rewrite E3. exact HN.
Qed.

(* ---- member checks --------------------------------------------------------------- *)
Lemma member_rest_simc d nC nI : simc nC nI -> simc (member_rest HC d nC) (member_rest H d nI).
Proof.
  intros Hn sC. unfold member_rest at 1. unfold member_rest_r. cbv zeta.
  destruct (if (r_nbits_new_refval (w_r sC) =? 0)%Z then None else is_plain_elem d) as [e|] eqn:Enr.
  { destruct (kind_of_unit (e_unit e)) eqn:Ek; [apply simc_at_err| |].
    - eapply simc_at_extI; [|apply new_refval_simc].
      intros sI sE (_ & HR & _). unfold member_rest, member_rest_r. cbv zeta.
      rewrite (sa_nbits_new_refval _ _ _ _ HR), Enr, Ek. reflexivity.
    - eapply simc_at_extI; [|apply new_refval_simc].
      intros sI sE (_ & HR & _). unfold member_rest, member_rest_r. cbv zeta.
      rewrite (sa_nbits_new_refval _ _ _ _ HR), Enr, Ek. reflexivity. }
  destruct (negb (r_nbits_skipped (w_r sC) =? 0)%Z) eqn:Esk.
  { eapply simc_at_extI.
    2:{ apply (simc_at_post_upd P (set_nbits_skipped 0)); [keeps| |apply codeflag_simc].
        intros rC nd [HB HL]. split; [split; [exact HB|exact HL]|intros rI rE HR; invr_solve HR]. }
    intros sI sE (_ & HR & _). unfold member_rest, member_rest_r. cbv zeta.
    rewrite (sa_nbits_new_refval _ _ _ _ HR), Enr, (sa_nbits_skipped _ _ _ _ HR), Esk. reflexivity. }
  destruct (negb (r_bm_state (w_r sC) =? BITMAP_NA)%N) eqn:Ebm.
  { eapply simc_at_extI.
    2:{ apply simc_at_bind; [apply bitmap_def_simc|exact Hn]. }
    intros sI sE (_ & HR & _). unfold member_rest, member_rest_r. cbv zeta.
    rewrite (sa_nbits_new_refval _ _ _ _ HR), Enr, (sa_nbits_skipped _ _ _ _ HR), Esk,
            (sa_bm_state _ _ _ _ HR), Ebm. reflexivity. }
  eapply simc_at_extI; [|apply Hn].
  intros sI sE (_ & HR & _). unfold member_rest, member_rest_r. cbv zeta.
  rewrite (sa_nbits_new_refval _ _ _ _ HR), Enr, (sa_nbits_skipped _ _ _ _ HR), Esk,
          (sa_bm_state _ _ _ _ HR), Ebm. reflexivity.
Qed.

Lemma member_step_simc d nC nI : simc nC nI -> simc (member_step HC d nC) (member_step H d nI).
Proof.
  intros Hn sC. unfold member_step at 1. unfold member_step_r.
  destruct (r_dnp (w_r sC) =? 0)%Z eqn:Ed.
  { eapply simc_at_extI; [|apply member_rest_simc; exact Hn].
    intros sI sE (_ & HR & _). unfold member_step, member_step_r. rewrite (sa_dnp _ _ _ _ HR), Ed. reflexivity. }
  destruct (dnp_skips d) eqn:Es.
  { eapply simc_at_extI.
    2:{ apply (simc_at_upd P (fun r => set_dnp (r_dnp r - 1) r)); [keeps|]. intros [HB HL].
        split; [split; [exact HB|exact HL]|intros rI rE HR; invr_solve HR]. }
    intros sI sE (_ & HR & _). unfold member_step, member_step_r. rewrite (sa_dnp _ _ _ _ HR), Ed, Es. reflexivity. }
  eapply simc_at_extI.
  2:{ apply (simc_at_pre_upd P (fun r => set_dnp (r_dnp r - 1) r) sC (member_rest HC d nC) (member_rest H d nI));
        [keeps| |apply member_rest_simc; exact Hn].
      intros [HB HL]. split; [split; [exact HB|exact HL]|intros rI rE HR; invr_solve HR]. }
  intros sI sE (_ & HR & _). unfold member_step, member_step_r. rewrite (sa_dnp _ _ _ _ HR), Ed, Es. reflexivity.
Qed.

(* ---- replication: the body is compiled once (or twice) and run n times ----------- *)
Lemma chk_loop1_core allow2 ln bodyC bodyI sC sC' :
  simc bodyC bodyI -> chk_loop1 allow2 ln bodyC sC = Ok sC' -> StatInv (w_r sC) (ck_ndef (w_c sC)) ->
  exists code1,
    ck_code (w_c sC') = stmts_app (ck_code (w_c sC)) (SCons (SLoop ln code1) SNil) /\
    StatInv (w_r sC') (ck_ndef (w_c sC')) /\
    forall n, (allow2 = true -> n <> 0%N) ->
      forall sI sE, Inv sC sI sE -> agree (Inv sC') (iter_res n bodyI sI) (iter_res n (exec code1) sE).
Proof.
  intros Hb E HS. unfold chk_loop1 in E.
  destruct (bodyC (fresh sC)) as [s1|] eqn:E1; cbn [bind] in E; [|discriminate].
  destruct (Hb (fresh sC) s1 E1 HS) as (code1 & Ec1 & HS1 & A1). cbn [fresh w_c ck_code stmts_app] in Ec1.
  exists code1.
  destruct (seq_eqb sC s1) eqn:Es.
  { injection E as <-. rsimp. split; [rewrite Ec1; reflexivity|]. split; [exact HS1|].
    intros n _ sI sE HI.
    eapply agree_mono; [intros x y Hxy; exact (Inv_transfer sC s1 x y Es Hxy)|].
    apply agree_iter; [|exact HI].
    intros x y Hxy. eapply agree_mono; [intros x' y' Hxy'; exact (Inv_transfer_back sC s1 x' y' Es Hxy')|].
    apply A1. exact Hxy. }
  destruct allow2; [|discriminate].
  destruct (bodyC (fresh s1)) as [s2|] eqn:E2; cbn [bind] in E; [|discriminate].
  destruct (seq_eqb s1 s2 && stmts_eqb (ck_code (w_c s1)) (ck_code (w_c s2))) eqn:Es2; [|discriminate].
  apply andb_prop in Es2 as [Es2 Ecode]. apply stmts_eqb_sound in Ecode.
  destruct (Hb (fresh s1) s2 E2 HS1) as (code2 & Ec2 & HS2 & A2). cbn [fresh w_c ck_code stmts_app] in Ec2.
  assert (Hcc : code2 = code1) by congruence. rewrite Hcc in A2. clear Hcc Ec2.
  injection E as <-. rsimp. split; [rewrite Ec1; reflexivity|]. split; [exact HS1|].
  intros n Hn sI sE HI.
  destruct (N.eq_dec n 0) as [->|Hn0]; [exfalso; apply (Hn eq_refl); reflexivity|].
  rewrite <- (N.succ_pred n Hn0). rewrite !iter_res_succ_l.
  eapply agree_bind; [apply A1; exact HI|].
  intros x y Hxy. apply agree_iter; [|exact Hxy].
  intros x' y' Hxy'. eapply agree_mono; [intros a b Hab; exact (Inv_transfer_back s1 s2 a b Es2 Hab)|].
  apply A2. exact Hxy'.
Qed.

Lemma chk_loop_core allow2 ln bodyC bodyI sC sC' :
  simc bodyC bodyI -> chk_loop allow2 ln bodyC sC = Ok sC' -> StatInv (w_r sC) (ck_ndef (w_c sC)) ->
  exists code1,
    ck_code (w_c sC') = stmts_app (ck_code (w_c sC)) (SCons (SLoop ln code1) SNil) /\
    StatInv (w_r sC') (ck_ndef (w_c sC')) /\
    forall n, (allow2 = true -> n <> 0%N) ->
      forall sI sE, Inv sC sI sE -> agree (Inv sC') (iter_res n bodyI sI) (iter_res n (exec code1) sE).
Proof.
  intros Hb E HS. unfold chk_loop in E.
  destruct (bodyC (fresh sC)) as [s1|] eqn:E1; cbn [bind] in E; [|discriminate].
  destruct (chk_loop1_core _ _ _ _ _ _ Hb E HS) as (code1 & Ec & HS' & A).
  exists code1. split; [exact Ec|]. split; [exact HS'|].
  intros n Hn sI sE (Hc & HR & HN). apply A; [exact Hn|].
  split; [exact Hc|]. split; [exact HR|]. cbn [set_c33 w_c ck_c33]. intros X.
  apply orb_false_elim in X as [X _]. exact (HN X).
Qed.

Lemma fixed_simc n bodyC bodyI : simc bodyC bodyI -> simc (h_fixed HC n bodyC) (h_fixed H n bodyI).
Proof.
  intros Hb sC sC' E HS. cbn [chk_handlers h_fixed] in E.
  destruct (chk_loop_core _ _ _ _ _ _ Hb E HS) as (code1 & Ec & HS' & A).
  exists (SCons (SLoop (LFixed n) code1) SNil). split; [exact Ec|]. split; [exact HS'|].
  intros sI sE HI. rewrite exec_stmts_one. cbn [exec_stmt io_handlers h_fixed].
  apply A; [|exact HI]. intros Ha ->. discriminate Ha.
Qed.

Lemma delayed_simc bodyC bodyI : simc bodyC bodyI -> simc (h_delayed HC bodyC) (h_delayed H bodyI).
Proof.
  intros Hb sC sC' E HS. cbn [chk_handlers h_delayed] in E.
  destruct (chk_loop_core _ _ _ _ _ _ Hb E HS) as (code1 & Ec & HS' & A).
  exists (SCons (SLoop LDynamic code1) SNil). split; [exact Ec|]. split; [exact HS'|].
  intros sI sE HI. rewrite exec_stmts_one. cbn [exec_stmt io_handlers h_delayed].
  pose proof HI as [Hc _]. rewrite Hc.
  destruct (p_factor P (io_c (w_c sE))) as [n|e] eqn:Ef; cbn [bind agree]; [|reflexivity].
  apply A; [|exact HI]. intros Ha. exact (Hnz Ha _ _ Ef).
Qed.

(* ---- the walk ------------------------------------------------------------------------ *)
Theorem walk_simc :
  (forall d, simc (walk HC chk_add_link d) (walk H io_add_link d)) /\
  (forall ms, simc (walk_list HC chk_add_link ms) (walk_list H io_add_link ms)).
Proof.
  apply desc_descs_ind.
  - intros e. cbn [walk]. apply do_element_simc. reflexivity.
  - intros id ms IH. cbn [walk]. apply fixed_simc. exact IH.
  - intros id f _ ms IH sC. cbn [walk].
    destruct f; try apply simc_at_err.
    apply simc_at_bind; [apply do_element_simc; reflexivity|]. apply delayed_simc. exact IH.
  - intros id. cbn [walk]. apply do_operator_simc.
  - intros id ms IH. exact IH.
  - intros id sC. apply simc_at_err.
  - intros id sC. apply simc_at_err.
  - intros sC. apply simc_at_ret.
  - intros d IHd ds IHds sC.
    change (simc_at sC (bind (member_step HC d (walk HC chk_add_link d) sC) (walk_list HC chk_add_link ds))
                    (fun s => bind (member_step H d (walk H io_add_link d) s) (walk_list H io_add_link ds))).
    apply simc_at_bind; [apply member_step_simc; exact IHd|exact IHds].
Qed.

End Equiv.
