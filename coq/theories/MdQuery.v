(* MdQuery.v — model of pybufrkit/mdquery.py: the '%[k.]name' expression parser
   as coded (str.strip, leading '%', split('.'), int()) and the first-match
   lookup over the sections of a (Frame.v) message.
   Strings are ASCII byte lists (codes < 128); str.strip() and int() are
   modelled on that domain: strip() removes 9-13, 28-31, 32; int() accepts
   surrounding 9-13/32, one sign, decimal digits with single underscores
   between digits. *)
From PBK Require Import Base Bits Frame.

Definition is_space (c : byte) : bool :=        (* str.isspace() on ASCII *)
  ((9 <=? c) && (c <=? 13) || (28 <=? c) && (c <=? 32))%N.
Definition is_int_space (c : byte) : bool :=    (* Py_ISSPACE, used by int() *)
  ((9 <=? c) && (c <=? 13) || (c =? 32))%N.
Definition is_digit (c : byte) : bool := ((48 <=? c) && (c <=? 57))%N.

Fixpoint lstrip_with (f : byte -> bool) (s : list byte) : list byte :=
  match s with
  | [] => []
  | c :: r => if f c then lstrip_with f r else s
  end.
Definition strip_with (f : byte -> bool) (s : list byte) : list byte :=
  rev (lstrip_with f (rev (lstrip_with f s))).
Definition strip := strip_with is_space.

(* digit (('_')? digit)*  — [pending] = an underscore was just read *)
Fixpoint digits_val (acc : N) (pending : bool) (s : list byte) : option N :=
  match s with
  | [] => if pending then None else Some acc
  | c :: r =>
      if is_digit c then digits_val (10 * acc + (c - 48)) false r
      else if (c =? 95)%N && negb pending then digits_val acc true r
      else None
  end.

(* int(s) for an ASCII str: None = ValueError *)
Definition py_int (s : list byte) : option Z :=
  let t := strip_with is_int_space s in
  let (neg, body) :=
    match t with
    | c :: r => if (c =? 45)%N then (true, r) else if (c =? 43)%N then (false, r) else (false, t)
    | [] => (false, t)
    end in
  match body with
  | c :: r =>
      if is_digit c then
        match digits_val (c - 48) false r with
        | Some n => Some (if neg then (- Z.of_N n)%Z else Z.of_N n)
        | None => None
        end
      else None
  | [] => None
  end.

(* s.split('.') *)
Fixpoint split_dot (s : list byte) : list (list byte) :=
  match s with
  | [] => [[]]
  | c :: r =>
      if (c =? 46)%N then [] :: split_dot r
      else match split_dot r with
           | h :: t => (c :: h) :: t
           | [] => [[c]]
           end
  end.

(* MetadataExprParser.parse: '' -> IndexError (metadata_expr[0]); not '%' ->
   MetadataExprParsingError; two or more dots -> ValueError (tuple unpacking);
   non-numeric index -> MetadataExprParsingError *)
Definition md_parse (e : list byte) : result (option Z * list byte) :=
  match strip e with
  | [] => Err EIndex
  | c :: rest =>
      if negb (c =? 37)%N then Err EMetadataExpr else
      if existsb (N.eqb 46) (c :: rest) then
        match split_dot rest with
        | [a; b] =>
            match py_int a with
            | Some k => Ok (Some k, b)
            | None => Err EMetadataExpr
            end
        | _ => Err EValue
        end
      else Ok (None, rest)
  end.

(* for parameter in section: if parameter.name == metadata_name *)
Fixpoint lookup_name (name : list byte) (vals : list (pname * pvalue)) : option pvalue :=
  match vals with
  | [] => None
  | (k, v) :: r => if bytes_eqb (name_str k) name then Some v else lookup_name name r
  end.

Definition index_matches (idx : option Z) (s : section) : bool :=
  match idx with
  | None => true
  | Some k => (Z.of_N (sec_index s) =? k)%Z
  end.

(* MetadataQuerent.query after parsing: sections filtered by index (all when
   None), first parameter with that name in the first section that has one *)
Fixpoint md_lookup (idx : option Z) (name : list byte) (secs : list section) : option pvalue :=
  match secs with
  | [] => None
  | s :: r =>
      if index_matches idx s then
        match lookup_name name (sec_values s) with
        | Some v => Some v
        | None => md_lookup idx name r
        end
      else md_lookup idx name r
  end.

Definition md_query (m : message) (expr : list byte) : result (option pvalue) :=
  let* (idx, name) := md_parse expr in
  Ok (md_lookup idx name (m_sections m)).
