(* CompileEquivBase.v — groundwork for CompileEquiv.v: soundness of the
   executable equalities of CompileChk.v, the [agree] relation on results and
   its closure under bind / iteration, [exec_stmts] over concatenated code. *)
From Coq Require Import ZifyBool ZifyNat ZifyN.
From PBK Require Import Base Descr Walk Coder Compile CompileChk.

(* ---- soundness of the boolean equalities ------------------------------------ *)
Lemma list_eqb_sound {A} (eqb : A -> A -> bool) :
  (forall x y, eqb x y = true -> x = y) -> forall a b, list_eqb eqb a b = true -> a = b.
Proof.
  intros Hs. induction a as [|x a IH]; intros [|y b] E; cbn in E; try discriminate; [reflexivity|].
  apply andb_prop in E as [E1 E2]. f_equal; [apply Hs; exact E1|apply IH; exact E2].
Qed.

Lemma Neqb_sound x y : (x =? y)%N = true -> x = y.
Proof. apply N.eqb_eq. Qed.
Lemma Zeqb_sound x y : (x =? y)%Z = true -> x = y.
Proof. apply Z.eqb_eq. Qed.

Lemma elem_eqb_sound a b : elem_eqb a b = true -> a = b.
Proof.
  unfold elem_eqb. intros E.
  apply andb_prop in E as [E E5]. apply andb_prop in E as [E E4].
  apply andb_prop in E as [E E3]. apply andb_prop in E as [E1 E2].
  destruct a, b; cbn in *.
  apply Neqb_sound in E1. apply (list_eqb_sound _ Neqb_sound) in E2.
  apply Zeqb_sound in E3, E4, E5. congruence.
Qed.

Lemma ddesc_eqb_sound a b : ddesc_eqb a b = true -> a = b.
Proof.
  destruct a, b; cbn; intros E; try discriminate.
  - f_equal. apply elem_eqb_sound; exact E.
  - apply andb_prop in E as [E1 E2]. apply Neqb_sound in E1. apply Zeqb_sound in E2. congruence.
  - apply andb_prop in E as [E1 E2]. apply Neqb_sound in E1. apply Zeqb_sound in E2. congruence.
  - apply andb_prop in E as [E1 E2]. apply elem_eqb_sound in E1. apply Neqb_sound in E2. congruence.
  - apply Neqb_sound in E. congruence.
Qed.

Lemma bsr_eqb_sound a b : bsr_eqb a b = true -> a = b.
Proof.
  unfold bsr_eqb. intros E. apply andb_prop in E as [E E3]. apply andb_prop in E as [E1 E2].
  destruct a, b; cbn in *. apply Zeqb_sound in E1, E2, E3. congruence.
Qed.

Lemma sprops_eqb_sound a b : sprops_eqb a b = true -> a = b.
Proof.
  unfold sprops_eqb. intros E. apply andb_prop in E as [E E4]. apply andb_prop in E as [E E3].
  apply andb_prop in E as [E1 E2]. destruct a, b; cbn in *.
  apply Zeqb_sound in E1, E2, E3. apply bsr_eqb_sound in E4. congruence.
Qed.

Lemma loopn_eqb_sound a b : loopn_eqb a b = true -> a = b.
Proof. destruct a, b; cbn; intros E; try discriminate; [apply Neqb_sound in E; congruence|reflexivity]. Qed.

Ltac split_andb E :=
  repeat match type of E with
  | (_ && _)%bool = true => let E' := fresh E in apply andb_prop in E as [E E']
  end.

Lemma stmt_stmts_eqb_sound :
  (forall x y, stmt_eqb x y = true -> x = y) /\ (forall x y, stmts_eqb x y = true -> x = y).
Proof.
  apply stmt_stmts_ind.
  - intros d a b c [] E; cbn in E; try discriminate.
    apply andb_prop in E as [E E4]. apply andb_prop in E as [E E3]. apply andb_prop in E as [E1 E2].
    apply ddesc_eqb_sound in E1. apply Zeqb_sound in E2, E3, E4. congruence.
  - intros d a b c [] E; cbn in E; try discriminate.
    apply andb_prop in E as [E E4]. apply andb_prop in E as [E E3]. apply andb_prop in E as [E1 E2].
    apply ddesc_eqb_sound in E1. apply Zeqb_sound in E2, E3, E4. congruence.
  - intros d a [] E; cbn in E; try discriminate.
    apply andb_prop in E as [E1 E2]. apply ddesc_eqb_sound in E1. apply Zeqb_sound in E2. congruence.
  - intros d a b [] E; cbn in E; try discriminate.
    apply andb_prop in E as [E E3]. apply andb_prop in E as [E1 E2].
    apply ddesc_eqb_sound in E1. apply Zeqb_sound in E2, E3. congruence.
  - intros d a [] E; cbn in E; try discriminate.
    apply andb_prop in E as [E1 E2]. apply ddesc_eqb_sound in E1. apply Zeqb_sound in E2. congruence.
  - intros d a [] E; cbn in E; try discriminate.
    apply andb_prop in E as [E1 E2]. apply ddesc_eqb_sound in E1. apply Zeqb_sound in E2. congruence.
  - intros r [] E; cbn in E; try discriminate. apply eqb_prop in E. congruence.
  - intros i p [] E; cbn in E; try discriminate.
    apply andb_prop in E as [E1 E2]. apply Neqb_sound in E1. apply sprops_eqb_sound in E2. congruence.
  - intros [] E; cbn in E; try discriminate; reflexivity.
  - intros [] E; cbn in E; try discriminate; reflexivity.
  - intros [] E; cbn in E; try discriminate; reflexivity.
  - intros [] E; cbn in E; try discriminate; reflexivity.
  - intros [] E; cbn in E; try discriminate; reflexivity.
  - intros [] E; cbn in E; try discriminate; reflexivity.
  - intros [] E; cbn in E; try discriminate; reflexivity.
  - intros n b IH [] E; cbn in E; try discriminate.
    apply andb_prop in E as [E1 E2]. apply loopn_eqb_sound in E1. apply IH in E2. congruence.
  - intros [] E; cbn in E; try discriminate; reflexivity.
  - intros x IHx r IHr [] E; cbn in E; try discriminate.
    apply andb_prop in E as [E1 E2]. apply IHx in E1. apply IHr in E2. congruence.
Qed.

Definition stmts_eqb_sound := proj2 stmt_stmts_eqb_sound.

(* ---- stmts_app ---------------------------------------------------------------- *)
Lemma stmts_app_nil_r a : stmts_app a SNil = a.
Proof. induction a as [|x a IH]; cbn; [reflexivity|rewrite IH; reflexivity]. Qed.

Lemma stmts_app_assoc a b c : stmts_app (stmts_app a b) c = stmts_app a (stmts_app b c).
Proof. induction a as [|x a IH]; cbn; [reflexivity|rewrite IH; reflexivity]. Qed.

(* ---- iteration ---------------------------------------------------------------- *)
Lemma iter_res_0 {A} (f : A -> result A) a : iter_res 0 f a = Ok a.
Proof. reflexivity. Qed.

Lemma iter_res_succ {A} n (f : A -> result A) a :
  iter_res (N.succ n) f a = bind (iter_res n f a) f.
Proof. unfold iter_res. rewrite N.iter_succ. reflexivity. Qed.

Lemma iter_err {A} n (f : A -> result A) e :
  N.iter n (fun r => bind r f) (Err e) = Err e.
Proof.
  induction n as [|n IH] using N.peano_ind; [reflexivity|].
  rewrite N.iter_succ, IH. reflexivity.
Qed.

Lemma iter_res_succ_l {A} n (f : A -> result A) a :
  iter_res (N.succ n) f a = bind (f a) (iter_res n f).
Proof.
  unfold iter_res. rewrite N.iter_succ_r. cbn [bind].
  destruct (f a) as [b|e]; cbn [bind]; [reflexivity|apply iter_err].
Qed.

(* ---- agreement of two runs ------------------------------------------------------ *)
Section Agree.
Context {A B : Type}.

Definition agree (Q : A -> B -> Prop) (a : result A) (b : result B) : Prop :=
  match a, b with
  | Ok x, Ok y => Q x y
  | Err e1, Err e2 => e1 = e2
  | _, _ => False
  end.

Lemma agree_mono (Q Q' : A -> B -> Prop) a b :
  (forall x y, Q x y -> Q' x y) -> agree Q a b -> agree Q' a b.
Proof. intros HQ. destruct a, b; cbn; auto. Qed.
End Agree.

Lemma agree_bind {A B A' B'} (Q : A -> B -> Prop) (Q' : A' -> B' -> Prop) a b f g :
  agree Q a b -> (forall x y, Q x y -> agree Q' (f x) (g y)) -> agree Q' (bind a f) (bind b g).
Proof. intros Hab Hfg. destruct a, b; cbn in *; try contradiction; auto. Qed.

Lemma agree_iter {A B} (Q : A -> B -> Prop) n f g :
  (forall x y, Q x y -> agree Q (f x) (g y)) ->
  forall x y, Q x y -> agree Q (iter_res n f x) (iter_res n g y).
Proof.
  intros Hfg x y Hxy. induction n as [|n IH] using N.peano_ind; [exact Hxy|].
  rewrite !iter_res_succ. eapply agree_bind; [exact IH|exact Hfg].
Qed.

(* ---- exec over concatenated code ---------------------------------------------- *)
Section ExecApp.
Context {C : Type} (P : prims C) (fk : bool).

Lemma exec_stmts_cons x r s :
  exec_stmts P fk (SCons x r) s = bind (exec_stmt P fk x s) (exec_stmts P fk r).
Proof. reflexivity. Qed.

Lemma exec_stmts_app a b s :
  exec_stmts P fk (stmts_app a b) s = bind (exec_stmts P fk a s) (exec_stmts P fk b).
Proof.
  revert s. induction a as [|x a IH]; intros s; [reflexivity|].
  cbn [stmts_app]. rewrite !exec_stmts_cons.
  destruct (exec_stmt P fk x s) as [s1|e]; cbn [bind]; [apply IH|reflexivity].
Qed.

Lemma exec_stmts_one x s : exec_stmts P fk (SCons x SNil) s = exec_stmt P fk x s.
Proof. rewrite exec_stmts_cons. destruct (exec_stmt P fk x s); reflexivity. Qed.

Lemma exec_stmts_nil s : exec_stmts P fk SNil s = Ok s.
Proof. reflexivity. Qed.
End ExecApp.
