(* SpecC.v — the canonical FM-94 layout of a COMPRESSED data section, made
   explicit.  Walking a template over the value lists of all subsets yields one
   COLUMN per decoded element, in template order (replications expanded); the
   canonical bit stream is the concatenation of the columns' fields, MSB first
   (Bits.write_fields).

   A column over n subsets is laid out as
     - the MINIMUM of the present values in the element's width (all ones when
       every subset is missing),
     - a 6-bit width NBINC of the increments: 0 when all values of the column
       are equal, otherwise the least width whose all-ones pattern lies strictly
       above max - min + 1 (so that the all-ones increment is free for missing),
     - unless NBINC = 0, one increment per subset: value - minimum, all ones for
       a missing value.
   Character columns: the base is the common string (all ones when missing) with
   NBINC = 0 when all strings are equal, otherwise NUL octets, NBINC = the
   field's length in OCTETS, and every string in full (space padded / cut, all
   ones for missing).  203YYY reference values: sign, magnitude, NBINC = 0.

   The definitions below are written down declaratively (minimum / maximum over
   the present values, width by its defining property) and do NOT use the column
   encoders of Column.v (enc_col_*, minmax, nbits_for_uint, col_diffs ...). *)
From PBK Require Import Base Bits Descr Walk Coder Float53 Decode Encode DecodeC.

(* ---- one column ------------------------------------------------------------- *)
Inductive column :=
  | ColNum (w : Z) (all_equal : bool) (raws : list (option Z))
      (* numeric and code/flag elements, associated fields, skipped local
         descriptors: the integers to be stored (after scale / reference value),
         None = missing; all_equal = "all subsets gave the same value" *)
  | ColStr (nbytes : Z) (all_equal : bool) (strs : list (option (list byte)))
  | ColRef (w : Z) (z : Z).            (* 203YYY: a new reference value *)

Definition all_ones (w : Z) : Z := (2 ^ w - 1)%Z.

(* the present values of a column *)
Definition present (raws : list (option Z)) : list Z :=
  flat_map (fun v => match v with Some x => [x] | None => [] end) raws.

Definition zmin_list (l : list Z) : option Z :=
  match l with [] => None | x :: r => Some (fold_right Z.min x r) end.
Definition zmax_list (l : list Z) : option Z :=
  match l with [] => None | x :: r => Some (fold_right Z.max x r) end.

(* the base field: the minimum of the present values, all ones if there is none *)
Definition col_min (w : Z) (raws : list (option Z)) : Z :=
  match zmin_list (present raws) with Some mn => mn | None => all_ones w end.

(* max - min over the present values *)
Definition col_spread (raws : list (option Z)) : N :=
  match zmin_list (present raws), zmax_list (present raws) with
  | Some mn, Some mx => Z.to_N (mx - mn)
  | _, _ => 0%N
  end.

(* the width of the increments for a spread D: the number of binary digits of
   D + 2, i.e. the LEAST k with D + 2 < 2^k (SpecCProofs.canon_width_spec):
   every increment 0..D and D + 1 lie strictly below the all-ones pattern *)
Definition canon_width (D : N) : N := N.size (D + 2).

Definition inc_field (wd base : Z) (v : option Z) : field :=
  FUint wd (match v with None => all_ones wd | Some x => x - base end)%Z.

Definition NBINC_BITS : Z := 6.

Definition num_fields (w : Z) (all_equal : bool) (raws : list (option Z)) : list field :=
  let base := col_min w raws in
  if all_equal then [FUint w base; FUint NBINC_BITS 0]
  else
    let wd := Z.of_N (canon_width (col_spread raws)) in
    FUint w base :: FUint NBINC_BITS wd :: map (inc_field wd base) raws.

(* a string, or the all-ones string of the field's length *)
Definition str_val (nbytes : Z) (v : option (list byte)) : list byte :=
  match v with None => repeat 255%N (Z.to_nat nbytes) | Some s => s end.

Definition str_fields (nbytes : Z) (all_equal : bool) (strs : list (option (list byte))) : list field :=
  if all_equal then [FBytes nbytes (str_val nbytes (hd None strs)); FUint NBINC_BITS 0]
  else FBytes nbytes (repeat 0%N (Z.to_nat nbytes)) :: FUint NBINC_BITS nbytes
       :: map (fun v => FBytes nbytes (str_val nbytes v)) strs.

(* sign-magnitude: a sign bit, then the magnitude in w - 1 bits; no increments *)
Definition ref_fields (w z : Z) : list field :=
  [FBool (z <? 0)%Z; FUint (w - 1) (Z.abs z); FUint NBINC_BITS 0].

Definition col_fields (c : column) : list field :=
  match c with
  | ColNum w ae raws => num_fields w ae raws
  | ColStr nb ae strs => str_fields nb ae strs
  | ColRef w z => ref_fields w z
  end.

(* a value that does not fit its field is refused; character fields are padded /
   cut to the field, only a negative length is refused *)
Definition emit_ok (f : field) : bool :=
  match f with FBytes n _ => (0 <=? n)%Z | _ => field_ok f end.

(* ---- the walk ----------------------------------------------------------------- *)
Record cstate := mkCS {
  cs_cols : list column;          (* the columns laid out so far *)
  cs_vals : list (list value);    (* the values, per subset *)
  cs_idx : nat                    (* index of the next value (the same in every subset) *)
}.

(* the i-th value of every subset; every subset must have one *)
Definition column_of (i : nat) (vals : list (list value)) : result (list value) :=
  if forallb (fun l => (i <? length l)%nat) vals then Ok (map (fun l => nth i l VNone) vals)
  else Err EIndex.

(* the next column and whether all its values are equal (Python's ==) *)
Definition cs_next (s : cstate) : result (list value * bool * cstate) :=
  let* col := column_of (cs_idx s) (cs_vals s) in
  match col with
  | [] => Err EIndex              (* no subsets *)
  | v0 :: _ => Ok (col, forallb (value_eqb v0) col, mkCS (cs_cols s) (cs_vals s) (S (cs_idx s)))
  end.

Definition cs_emit (c : column) (s : cstate) : result cstate :=
  if forallb emit_ok (col_fields c) then Ok (mkCS (cs_cols s ++ [c]) (cs_vals s) (cs_idx s))
  else Err EValue.

Fixpoint all_res {A B} (f : A -> result B) (l : list A) : result (list B) :=
  match l with
  | [] => Ok []
  | x :: r => let* y := f x in let* ys := all_res f r in Ok (y :: ys)
  end.

Definition all_missing {A} (l : list (option A)) : bool :=
  forallb (fun v => match v with None => true | Some _ => false end) l.

(* a column whose values are all equal is represented by its first value *)
Definition col_raws {A} (f : value -> result (option A)) (all_equal : bool) (col : list value)
  : result (list (option A)) :=
  if all_equal then let* r0 := f (hd VNone col) in Ok (repeat r0 (length col))
  else all_res f col.

Definition raw_numeric (scale refval : Z) (v : value) : result (option Z) :=
  match v with VNone => Ok None | _ => let* x := scaled_int v scale refval in Ok (Some x) end.

Definition raw_codeflag (v : value) : result (option Z) :=
  match v with
  | VNone => Ok None
  | VInt z => Ok (Some z)
  | VDyad m ex => Ok (Some (trunc (m, ex)))
  | _ => Err EType
  end.

Definition raw_string (v : value) : result (option (list byte)) :=
  match v with VNone => Ok None | VBytes b => Ok (Some b) | _ => Err EType end.

(* numeric and code/flag columns: when the values differ, one of them is present *)
Definition specc_num_col (w : Z) (ae : bool) (raws : list (option Z)) (s : cstate) : result cstate :=
  if negb ae && all_missing raws then Err EType else cs_emit (ColNum w ae raws) s.

Definition specc_numeric (nbits scale refval : Z) (s : cstate) : result cstate :=
  let* (p, s1) := cs_next s in
  let '(col, ae) := p in
  let* raws := col_raws (raw_numeric scale refval) ae col in
  specc_num_col nbits ae raws s1.

Definition specc_codeflag (nbits dnbits : Z) (s : cstate) : result cstate :=
  let* (p, s1) := cs_next s in
  let '(col, ae) := p in
  let* raws := col_raws raw_codeflag ae col in
  specc_num_col nbits ae raws s1.

Definition specc_string (nbytes : Z) (s : cstate) : result cstate :=
  let* (p, s1) := cs_next s in
  let '(col, ae) := p in
  let* strs := col_raws raw_string ae col in
  cs_emit (ColStr nbytes ae strs) s1.

(* a new reference value is the same integer in every subset *)
Definition specc_new_refval (nbits : Z) (s : cstate) : result (Z * cstate) :=
  let* (p, s1) := cs_next s in
  let '(col, ae) := p in
  match col with
  | VInt z :: _ => if ae then let* s2 := cs_emit (ColRef nbits z) s1 in Ok (z, s2) else Err EAssert
  | _ => Err EAssert
  end.

(* operators that stand for a value (222000 ...): no bits, the value is checked *)
Definition specc_constant (z : Z) (s : cstate) : result cstate :=
  let* (p, s1) := cs_next s in
  let '(col, ae) := p in
  if ae && value_eq_int (hd VNone col) z then Ok s1 else Err EAssert.

(* a delayed replication factor is the column just laid out; it is the same in
   every subset where it is present *)
Definition specc_factor (s : cstate) : result N :=
  match cs_idx s with
  | O => Err EOther
  | S k =>
      let* col := column_of k (cs_vals s) in
      let* _ := assert_equal_present col in
      match col with [] => Err EIndex | v :: _ => factor_of_value v end
  end.

(* a bitmap is read off the first subset: the last n values, as "== 0" flags *)
Definition specc_bitmap (n : Z) (s : cstate) : result (list bool) :=
  let i := cs_idx s in
  let k := Z.to_nat n in
  match cs_vals s with
  | [] => Err EIndex
  | l :: _ => if (i <? k)%nat then Err EOther else Ok (map value_is_zero (firstn k (skipn (i - k) l)))
  end.

Definition specc_prims : prims cstate :=
  mkPrims cstate specc_numeric specc_string specc_codeflag specc_new_refval specc_constant
          specc_factor specc_bitmap.

(* the columns of a whole compressed data section, in template order; the
   descriptors and links are shared by all subsets *)
Definition layout_cols (T : descs) (vals : list (list value)) : result (list subset_out * list column) :=
  let* (outs, s) := run_compressed specc_prims T (length vals) (mkCS [] vals 0) in
  Ok (outs, cs_cols s).

Definition fields_of (cols : list column) : list field := flat_map col_fields cols.

Definition layout_c (T : descs) (vals : list (list value)) : result (list subset_out * list field) :=
  let* (outs, cols) := layout_cols T vals in Ok (outs, fields_of cols).

Definition canonical_bits_c (T : descs) (vals : list (list value)) : result bits :=
  let* (_, fs) := layout_c T vals in write_fields fs [].
