(* Template.v — templates from descriptor lists (pybufrkit/tables.py l.62-151,
   271-342; descriptors.py l.337-457; utils.generate_quiet).  Model only.

   Tables are DATA: Table B is a list of entries, Table D a list of layers (one
   per JSON file loaded: WMO, local, extra entries), each a list of
   (sequence id, member ids).  Python loads the files in the order WMO, local,
   extras into one dict, so a later file overrides an earlier one
   (dict.update / item assignment: later wins).  The model keeps the LATEST
   loaded entry FIRST, so "first match" = "later wins". *)
From PBK Require Import Base Descr.

(* ---- Table B ---------------------------------------------------------------- *)
Definition tabB := list elem.                       (* latest loaded first *)

(* entries given in load order (file order, WMO then local then extras) *)
Definition mk_tabB (wmo local extras : list elem) : tabB := rev (wmo ++ local ++ extras).

Definition find_elem (tb : tabB) (id : N) : option elem :=
  find (fun e => (e_id e =? id)%N) tb.

(* TableB.lookup: the entry, or an UndefinedElementDescriptor placeholder *)
Definition lookup_b (tb : tabB) (id : N) : desc :=
  match find_elem tb id with Some e => DElem e | None => DUndefElem id end.

(* ---- Table D as data -------------------------------------------------------- *)
Definition layerD := list (N * list N).             (* latest defined first *)
Definition tabD := list layerD.                     (* latest loaded file first *)

(* files in load order, entries of each file in sorted-key order (as TableD.__init__
   iterates them) *)
Definition mk_tabD (files : list (list (N * list N))) : tabD := rev (map (@rev _) files).

Definition assoc_d (id : N) (l : layerD) : option (list N) :=
  match find (fun p => (fst p =? id)%N) l with Some p => Some (snd p) | None => None end.

Fixpoint defined_d (ls : tabD) (id : N) : bool :=
  match ls with
  | [] => false
  | l :: older => match assoc_d id l with Some _ => true | None => defined_d older id end
  end.

Definition is_replication (id : N) : bool := (100000 <=? id)%N && (id <? 200000)%N.
Definition is_delayed (id : N) : bool := is_replication id && (id mod 1000 =? 0)%N.
Definition n_items (id : N) : nat := N.to_nat (desc_X id).     (* (id // 1000) % 100 *)

(* ---- _descriptors_from_ids_iter --------------------------------------------- *)
(* The Python function pulls ids from a shared stream through [next_id].  At the
   top level the stream is the whole list.  For the members of a replication
   descriptor the nested call gets
       functools.partial(next, generate_quiet(range(n_items), next_id))
   i.e. the SAME stream, cut off after n_items ids; generators nest, so a
   replication nested inside consumes from the cut-off stream and is itself cut
   off by the smaller of its own n_items and what is left of the enclosing
   allowance.  generate_quiet checks its range BEFORE pulling, so an exhausted
   allowance consumes nothing.  All enclosing allowances decrease together, so the
   state of the stream is: the remaining ids and ONE number, the smallest
   remaining allowance ([n]; the top level uses the list length, i.e. no limit).
   The nested loop runs until its stream stops, so it returns with either its
   allowance used up or the list empty; in the second case the enclosing
   allowance no longer matters, which is why the continuation may use
   [n - n_items] in both cases.

   The factor of a delayed replication is [b.lookup(next_id())]: when the
   stream has stopped there (list ended or enclosing allowance used up) the
   library error "No replication factor follows ..." is raised: [Err ELib]
   (before "fix: a delayed replication descriptor without a factor ..." the
   StopIteration escaped).
   The factor is whatever Table B lookup returns for the next id, whatever that
   id is.

   Returns the descriptors built and the ids NOT consumed. *)
Section Build.
  Variable tb : tabB.
  Variable ld : N -> result desc.      (* TableD.lookup (members already expanded) *)

  Fixpoint build_s (fuel : nat) (n : nat) (ids : list N) {struct fuel}
    : result (descs * list N) :=
    match fuel with
    | O => Err EFuel
    | S f =>
      match n, ids with
      | O, _ => Ok (DNil, ids)                       (* allowance used up: StopIteration -> break *)
      | _, [] => Ok (DNil, [])                       (* list ended: StopIteration -> break *)
      | S n1, id :: rest =>
        if (300000 <=? id)%N then
          let* d := ld id in
          let* (ds, r) := build_s f n1 rest in Ok (DCons d ds, r)
        else if (200000 <=? id)%N then
          let* (ds, r) := build_s f n1 rest in Ok (DCons (DOper id) ds, r)
        else if (100000 <=? id)%N then
          if (id mod 1000 =? 0)%N then
            match n1, rest with
            | S n2, fid :: rest2 =>
              let* (ms, r1) := build_s f (Nat.min (n_items id) n2) rest2 in
              let* (ds, r2) := build_s f (n2 - n_items id) r1 in
              Ok (DCons (DDelayed id (lookup_b tb fid) ms) ds, r2)
            | _, _ => Err ELib
            end
          else
            let* (ms, r1) := build_s f (Nat.min (n_items id) n1) rest in
            let* (ds, r2) := build_s f (n1 - n_items id) r1 in
            Ok (DCons (DFixed id ms) ds, r2)
        else
          let* (ds, r) := build_s f n1 rest in Ok (DCons (lookup_b tb id) ds, r)
      end
    end.

  (* _descriptors_from_ids: the whole list, no limit *)
  Definition build (ids : list N) : result descs :=
    let* (ds, _) := build_s (S (length ids)) (length ids) ids in Ok ds.

  (* The same function written with explicit ownership ("the next X ids"):
     used only as the right-hand side of theorem [build_s_owns]. *)
  Fixpoint build_a (fuel : nat) (ids : list N) {struct fuel} : result descs :=
    match fuel with
    | O => Err EFuel
    | S f =>
      match ids with
      | [] => Ok DNil
      | id :: rest =>
        if (300000 <=? id)%N then
          let* d := ld id in let* ds := build_a f rest in Ok (DCons d ds)
        else if (200000 <=? id)%N then
          let* ds := build_a f rest in Ok (DCons (DOper id) ds)
        else if (100000 <=? id)%N then
          if (id mod 1000 =? 0)%N then
            match rest with
            | fid :: rest2 =>
              let* ms := build_a f (firstn (n_items id) rest2) in
              let* ds := build_a f (skipn (n_items id) rest2) in
              Ok (DCons (DDelayed id (lookup_b tb fid) ms) ds)
            | [] => Err ELib
            end
          else
            let* ms := build_a f (firstn (n_items id) rest) in
            let* ds := build_a f (skipn (n_items id) rest) in
            Ok (DCons (DFixed id ms) ds)
        else
          let* ds := build_a f rest in Ok (DCons (lookup_b tb id) ds)
      end
    end.
End Build.

(* ---- TableD.__init__: two-pass loading --------------------------------------- *)
(* Pass 1 creates an (empty) SequenceDescriptor object for every id of the file
   being loaded, replacing objects of earlier files; pass 2 builds the member
   lists with lookups in the dict as it is THEN: the files loaded so far.  A
   member that is a sequence is therefore the object of the latest file loaded
   so far that defines it (its own members filled in by the same pass), or an
   UndefinedSequenceDescriptor placeholder.  Objects are shared in Python; the
   model re-expands.  A cyclic definition gives a cyclic object graph in Python
   (flat_member_ids would not terminate); here the fuel runs out: [Err EFuel].
   Table B is complete before Table D is loaded, so element lookups see the
   final Table B. *)
Fixpoint expand_seq (tb : tabB) (fuel : nat) (ls : tabD) (id : N) {struct fuel} : result desc :=
  match fuel with
  | O => Err EFuel
  | S f =>
    (fix go (ls : tabD) : result desc :=
       match ls with
       | [] => Ok (DUndefSeq id)                         (* TableD.lookup: KeyError -> placeholder *)
       | l :: older =>
         match assoc_d id l with
         | Some mids =>
           let* ms := build tb (expand_seq tb f ls) mids in Ok (DSeq id ms)
         | None => go older
         end
       end) ls
  end.

Definition tabD_size (ls : tabD) : nat := length (concat ls).
Definition default_fuel (ls : tabD) : nat := S (tabD_size ls).

(* TableD.lookup on a loaded table *)
Definition lookup_d (tb : tabB) (ls : tabD) (id : N) : result desc :=
  expand_seq tb (default_fuel ls) ls id.

(* loading fails as a whole when one entry fails (library error from a member list
   ending in a delayed replication descriptor) *)
Definition all_ids_d (ls : tabD) : list N := map fst (concat ls).
Fixpoint first_err {A} (rs : list (result A)) : result unit :=
  match rs with [] => Ok tt | Ok _ :: r => first_err r | Err e :: _ => Err e end.
(* entries are built file by file: every entry of a file with the lookups of the
   files loaded so far *)
Fixpoint load_d_check (tb : tabB) (fuel : nat) (ls : tabD) : result unit :=
  match ls with
  | [] => Ok tt
  | l :: older =>
    let* _ := load_d_check tb fuel older in
    first_err (map (fun p => expand_seq tb fuel ls (fst p)) (rev l))
  end.

(* template_from_ids (no extra entries: _fix_ncep_descriptors not applied) *)
Definition template_from_ids (tb : tabB) (ls : tabD) (ids : list N) : result descs :=
  let* _ := load_d_check tb (default_fuel ls) ls in
  build tb (lookup_d tb ls) ids.

(* ---- BufrTemplate.original_descriptor_ids ------------------------------------ *)
Fixpoint desc_size (d : desc) : nat :=
  match d with
  | DFixed _ ms => S (descs_size ms)
  | DDelayed _ _ ms => S (descs_size ms)
  | _ => 1
  end
with descs_size (ds : descs) : nat :=
  match ds with DNil => O | DCons d r => desc_size d + descs_size r end.

(* as coded: a worklist; members of a replication descriptor are put in front *)
Fixpoint orig_wl (fuel : nat) (wl : descs) {struct fuel} : list N :=
  match fuel with
  | O => []
  | S f =>
    match wl with
    | DNil => []
    | DCons m rest =>
      match m with
      | DFixed id ms => id :: orig_wl f (descs_app ms rest)
      | DDelayed id fac ms => id :: desc_id fac :: orig_wl f (descs_app ms rest)
      | _ => desc_id m :: orig_wl f rest
      end
    end
  end.
Definition original_ids (ds : descs) : list N := orig_wl (S (descs_size ds)) ds.

(* the structural reading (theorem original_ids_structural: the same list) *)
Fixpoint orig_flat (ds : descs) : list N :=
  match ds with DNil => [] | DCons d r => orig_flat_d d ++ orig_flat r end
with orig_flat_d (d : desc) : list N :=
  match d with
  | DFixed id ms => id :: orig_flat ms
  | DDelayed id fac ms => id :: desc_id fac :: orig_flat ms
  | _ => [desc_id d]
  end.

(* ---- descriptors.flat_member_ids ----------------------------------------------- *)
Fixpoint flat_ids (ds : descs) : list N :=
  match ds with DNil => [] | DCons d r => flat_ids_d d ++ flat_ids r end
with flat_ids_d (d : desc) : list N :=
  match d with
  | DSeq _ ms => flat_ids ms                               (* isinstance SequenceDescriptor *)
  | DFixed id ms => id :: flat_ids ms
  | DDelayed id fac ms => id :: desc_id fac :: flat_ids ms
  | _ => [desc_id d]                                       (* incl. UndefinedSequenceDescriptor *)
  end.

(* the argument must have .members: AttributeError otherwise *)
Definition flat_member_ids (d : desc) : result (list N) :=
  match d with
  | DSeq _ ms | DFixed _ ms | DDelayed _ _ ms => Ok (flat_ids ms)
  | _ => Err EAttr
  end.

(* the elements of a tree with their attributes, in flat order (sequences expanded,
   factors included) *)
Fixpoint flat_elems (ds : descs) : list elem :=
  match ds with DNil => [] | DCons d r => flat_elems_d d ++ flat_elems r end
with flat_elems_d (d : desc) : list elem :=
  match d with
  | DElem e => [e]
  | DSeq _ ms => flat_elems ms
  | DFixed _ ms => flat_elems ms
  | DDelayed _ fac ms => flat_elems_d fac ++ flat_elems ms
  | _ => []
  end.

(* ---- the reference: direct expansion of the table data --------------------------- *)
(* Independent of [build]: no tree is built; a member id that is a sequence defined
   in the table (as loaded so far) is replaced by its own expansion, every other id
   stands for itself. *)
Fixpoint expand_ids (ex : N -> result (list N)) (def : N -> bool) (mids : list N)
  : result (list N) :=
  match mids with
  | [] => Ok []
  | m :: r =>
    let* a := (if (300000 <=? m)%N && def m then ex m else Ok [m]) in
    let* b := expand_ids ex def r in Ok (a ++ b)
  end.

Fixpoint expand_direct (fuel : nat) (ls : tabD) (id : N) {struct fuel} : result (list N) :=
  match fuel with
  | O => Err EFuel
  | S f =>
    (fix go (ls : tabD) : result (list N) :=
       match ls with
       | [] => Err EAttr                                (* not a sequence of the table *)
       | l :: older =>
         match assoc_d id l with
         | Some mids => expand_ids (expand_direct f ls) (defined_d ls) mids
         | None => go older
         end
       end) ls
  end.

(* a delayed replication descriptor is followed by a non-sequence id (its factor) *)
Fixpoint factors_ok (ids : list N) : bool :=
  match ids with
  | [] => true
  | id :: rest =>
    match rest with
    | fid :: _ => (if is_delayed id then (fid <? 300000)%N else true) && factors_ok rest
    | [] => true
    end
  end.
Definition tabD_factors_ok (ls : tabD) : bool :=
  forallb (fun l => forallb (fun p => factors_ok (snd p)) l) ls.

(* ---- well-formed descriptor lists ---------------------------------------------- *)
(* every 1XXYYY is followed (after its factor when YYY = 0) by X further ids; nested
   replications are counted in the flat list and must fit inside their owner's X *)
Fixpoint wf_ids_f (fuel : nat) (ids : list N) {struct fuel} : bool :=
  match fuel with
  | O => false
  | S f =>
    match ids with
    | [] => true
    | id :: rest =>
      if is_replication id then
        if (id mod 1000 =? 0)%N then
          match rest with
          | [] => false
          | _ :: rest2 =>
            (n_items id <=? length rest2)%nat
            && wf_ids_f f (firstn (n_items id) rest2) && wf_ids_f f (skipn (n_items id) rest2)
          end
        else
          (n_items id <=? length rest)%nat
          && wf_ids_f f (firstn (n_items id) rest) && wf_ids_f f (skipn (n_items id) rest)
      else wf_ids_f f rest
    end
  end.
Definition wf_ids (ids : list N) : bool := wf_ids_f (S (length ids)) ids.

(* every replication node owns exactly X ids of the flat list *)
Fixpoint exact_members (ds : descs) : bool :=
  match ds with DNil => true | DCons d r => exact_members_d d && exact_members r end
with exact_members_d (d : desc) : bool :=
  match d with
  | DFixed id ms => (length (orig_flat ms) =? n_items id)%nat && exact_members ms
  | DDelayed id _ ms => (length (orig_flat ms) =? n_items id)%nat && exact_members ms
  | _ => true
  end.

(* ---- UnknownDescriptor ------------------------------------------------------------ *)
(* Coder.process_members dispatches on the exact type of each member and raises
   UnknownDescriptor for anything else (coder.py l.349-351): the two placeholder
   classes.  [reaches_undefined] says a placeholder sits in member position
   somewhere in the tree (inside sequences and replications too); [undef_scan] is
   the dispatch alone: members in order, every replication entered. *)
Fixpoint reaches_undefined (ds : descs) : bool :=
  match ds with DNil => false | DCons d r => reaches_undefined_d d || reaches_undefined r end
with reaches_undefined_d (d : desc) : bool :=
  match d with
  | DUndefElem _ | DUndefSeq _ => true
  | DSeq _ ms | DFixed _ ms | DDelayed _ _ ms => reaches_undefined ms
  | _ => false
  end.

Fixpoint undef_scan (ds : descs) : result unit :=
  match ds with
  | DNil => Ok tt
  | DCons d r => let* _ := undef_scan_d d in undef_scan r
  end
with undef_scan_d (d : desc) : result unit :=
  match d with
  | DUndefElem _ | DUndefSeq _ => Err EUnknownDescriptor
  | DSeq _ ms | DFixed _ ms | DDelayed _ _ ms => undef_scan ms
  | _ => Ok tt
  end.

(* member-position ids of a tree (replications entered, sequences not) *)
Fixpoint member_ids (ds : descs) : list N :=
  match ds with DNil => [] | DCons d r => member_ids_d d ++ member_ids r end
with member_ids_d (d : desc) : list N :=
  match d with
  | DFixed id ms => id :: member_ids ms
  | DDelayed id _ ms => id :: member_ids ms
  | _ => [desc_id d]
  end.

Definition unknown_id (tb : tabB) (ls : tabD) (id : N) : bool :=
  if (300000 <=? id)%N then negb (defined_d ls id)
  else if (100000 <=? id)%N then false
  else match find_elem tb id with Some _ => false | None => true end.

(* ---- table version selection ------------------------------------------------------ *)
Definition DEFAULT_MASTER_TABLE_NUMBER : N := 0.
Definition DEFAULT_ORIGINATING_CENTRE : N := 0.
Definition DEFAULT_ORIGINATING_SUBCENTRE : N := 0.
Definition DEFAULT_MASTER_TABLE_VERSION : N := 33.
Definition DEFAULT_LOCAL_TABLE_VERSION : N := 0.

(* a table directory <root>/<number>/<centre>_<subcentre>/<version> *)
Definition sn := (N * (N * N) * N)%type.
Definition sn_eqb (a b : sn) : bool :=
  let '(n1, (c1, s1), v1) := a in let '(n2, (c2, s2), v2) := b in
  (n1 =? n2)%N && (c1 =? c2)%N && (s1 =? s2)%N && (v1 =? v2)%N.

(* the directory listing, as data: which <root>/<number> exist and which table
   directories exist (os.path.isdir) *)
Record listing := mkListing { l_numbers : list N; l_dirs : list sn }.
Definition isdir_number (L : listing) (n : N) : bool := existsb (N.eqb n) (l_numbers L).
Definition isdir_sn (L : listing) (d : sn) : bool := existsb (sn_eqb d) (l_dirs L).

Definition get_tables_sn (number centre subcentre mtv ltv : N) : sn * option sn :=
  ((number, (0, 0), mtv)%N,
   if (ltv =? 0)%N then None else Some (number, (centre, subcentre), ltv)).

Definition normalize_tables_sn (L : listing) (number centre subcentre mtv ltv : N)
  : sn * option sn :=
  let number' := if isdir_number L number then number else DEFAULT_MASTER_TABLE_NUMBER in
  let wmo := if isdir_sn L (number', (0, 0), mtv)%N then (number', (0, 0), mtv)%N
             else (number', (0, 0), DEFAULT_MASTER_TABLE_VERSION)%N in
  let loc :=
    if (ltv =? 0)%N then None
    else if isdir_sn L (number', (centre, subcentre), ltv) then Some (number', (centre, subcentre), ltv)
    else if isdir_sn L (number', (centre, DEFAULT_ORIGINATING_SUBCENTRE), ltv)
         then Some (number', (centre, DEFAULT_ORIGINATING_SUBCENTRE), ltv)
    else None in
  (wmo, loc).

(* [x or DEFAULT]: None and 0 are both falsy *)
Definition or_default (x : option N) (d : N) : N :=
  match x with None => d | Some v => if (v =? 0)%N then d else v end.

(* TableGroupCacheManager.get_table_group with normalize=True (the decoder's
   path): the key (root directory left out); arguments may be None. *)
Definition table_group_key (L : listing) (number centre subcentre mtv ltv : option N)
  : sn * option sn :=
  normalize_tables_sn L
    (or_default number DEFAULT_MASTER_TABLE_NUMBER)
    (or_default centre DEFAULT_ORIGINATING_CENTRE)
    (or_default subcentre DEFAULT_ORIGINATING_SUBCENTRE)
    (or_default mtv DEFAULT_MASTER_TABLE_VERSION)
    (or_default ltv DEFAULT_LOCAL_TABLE_VERSION).
