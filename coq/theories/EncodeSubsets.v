(* EncodeSubsets.v — C06, encoder side: in an uncompressed message the bits, the
   descriptors and the links produced for a subset do not depend on the subsets
   that precede it: encoding s1..sn together writes the bits of s1 encoded alone
   followed by the bits of s2..sn encoded on their own. *)
From PBK Require Import Base Bits Descr Walk Coder WalkSim CoderSim Float53 Decode Encode DecodeProofs.
From Coq Require Import ZifyBool ZifyNat ZifyN.

(* the encoder on the left has already written [p] and holds the value lists [Q]-related *)
Definition Rpre (p : bits) (Q : list (list value) -> list (list value) -> Prop) (e1 e2 : estate) : Prop :=
  e_w e1 = p ++ e_w e2 /\ e_idx e1 = e_idx e2 /\ e_cur_vals e1 = e_cur_vals e2 /\
  Q (e_vals e1) (e_vals e2).

Lemma write_uint_pre v w p o o1 : write_uint v w (p ++ o) = Ok o1 ->
  exists o2, write_uint v w o = Ok o2 /\ o1 = p ++ o2.
Proof.
  unfold write_uint. destruct (w <=? 0)%Z; [discriminate|]. destruct (v <? 0)%Z; [discriminate|].
  destruct (2 ^ w <=? v)%Z; [discriminate|]. intros E; injection E as <-.
  eexists; split; [reflexivity|]. rewrite app_assoc. reflexivity.
Qed.

Lemma write_int_pre v w p o o1 : write_int v w (p ++ o) = Ok o1 ->
  exists o2, write_int v w o = Ok o2 /\ o1 = p ++ o2.
Proof.
  unfold write_int, write_bool. cbn [bind]. rewrite <- app_assoc. apply write_uint_pre.
Qed.

Lemma write_bytes_pre v n p o o1 : write_bytes v n (p ++ o) = Ok o1 ->
  exists o2, write_bytes v n o = Ok o2 /\ o1 = p ++ o2.
Proof.
  unfold write_bytes. destruct (n <? 0)%Z; [discriminate|]. intros E; injection E as <-.
  eexists; split; [reflexivity|]. rewrite app_assoc. reflexivity.
Qed.

Lemma next_value_pre p Q e1 e2 v e1' : Rpre p Q e1 e2 -> next_value e1 = Ok (v, e1') ->
  exists e2', next_value e2 = Ok (v, e2') /\ Rpre p Q e1' e2' /\ e_w e1' = e_w e1 /\ e_w e2' = e_w e2.
Proof.
  intros (Hw & Hi & Hc & HQ). unfold next_value. rewrite <- Hc, <- Hi.
  destruct (nth_error (e_cur_vals e1) (e_idx e1)) as [x|]; [|discriminate].
  intros E; injection E as <- <-. eexists; split; [reflexivity|].
  split; [|split; reflexivity]. repeat split; cbn; try assumption; try congruence.
Qed.

Lemma Rpre_with_w p Q e1 e2 o2 : Rpre p Q e1 e2 -> Rpre p Q (with_w e1 (p ++ o2)) (with_w e2 o2).
Proof. intros (Hw & Hi & Hc & HQ). repeat split; cbn; assumption. Qed.

Lemma enc_walk_pre p Q :
  forall ms, simf (Rio (Rpre p Q)) (walk_list (io_handlers enc_prims) io_add_link ms)
                                    (walk_list (io_handlers enc_prims) io_add_link ms).
Proof.
  apply io_walk_sim; cbn [enc_prims p_numeric p_string p_codeflag p_constant p_new_refval p_factor p_bitmap].
  - intros a b c c1 c2 c1' HR E. unfold enc_numeric in *.
    destruct (next_value c1) as [[v e1]|] eqn:E1; cbn [bind] in E; [|discriminate].
    destruct (next_value_pre _ _ _ _ _ _ HR E1) as (e2 & E2 & HR' & Hw1 & Hw2). rewrite E2. cbn [bind].
    destruct (match v with VNone => missing_for a | _ => scaled_int v b c end) as [raw|]; cbn [bind] in E |- *; [|discriminate].
    destruct (write_uint raw a (e_w e1)) as [w|] eqn:Ew; cbn [bind] in E; [|discriminate]. injection E as <-.
    pose proof HR' as (Hw & _). rewrite Hw in Ew. destruct (write_uint_pre _ _ _ _ _ Ew) as (o2 & -> & ->).
    cbn [bind]. eexists; split; [reflexivity|apply Rpre_with_w; exact HR'].
  - intros a c1 c2 c1' HR E. unfold enc_string in *.
    destruct (next_value c1) as [[v e1]|] eqn:E1; cbn [bind] in E; [|discriminate].
    destruct (next_value_pre _ _ _ _ _ _ HR E1) as (e2 & E2 & HR' & Hw1 & Hw2). rewrite E2. cbn [bind].
    destruct (match v with VNone => Ok (repeat 255%N (Z.to_nat a)) | VBytes b => Ok b | _ => Err EType end) as [b|];
      cbn [bind] in E |- *; [|discriminate].
    destruct (write_bytes b a (e_w e1)) as [w|] eqn:Ew; cbn [bind] in E; [|discriminate]. injection E as <-.
    pose proof HR' as (Hw & _). rewrite Hw in Ew. destruct (write_bytes_pre _ _ _ _ _ Ew) as (o2 & -> & ->).
    cbn [bind]. eexists; split; [reflexivity|apply Rpre_with_w; exact HR'].
  - intros a b c1 c2 c1' HR E. unfold enc_codeflag in *.
    destruct (next_value c1) as [[v e1]|] eqn:E1; cbn [bind] in E; [|discriminate].
    destruct (next_value_pre _ _ _ _ _ _ HR E1) as (e2 & E2 & HR' & Hw1 & Hw2). rewrite E2. cbn [bind].
    destruct (match v with VNone => missing_for a | VInt z => Ok z | VDyad m ex => Ok (trunc (m, ex)) | _ => Err EType end)
      as [raw|]; cbn [bind] in E |- *; [|discriminate].
    destruct (write_uint raw a (e_w e1)) as [w|] eqn:Ew; cbn [bind] in E; [|discriminate]. injection E as <-.
    pose proof HR' as (Hw & _). rewrite Hw in Ew. destruct (write_uint_pre _ _ _ _ _ Ew) as (o2 & -> & ->).
    cbn [bind]. eexists; split; [reflexivity|apply Rpre_with_w; exact HR'].
  - intros a c1 c2 c1' HR E. unfold enc_constant in *.
    destruct (next_value c1) as [[v e1]|] eqn:E1; cbn [bind] in E; [|discriminate].
    destruct (next_value_pre _ _ _ _ _ _ HR E1) as (e2 & E2 & HR' & Hw1 & Hw2). rewrite E2. cbn [bind].
    destruct (value_eq_int v a); [|discriminate]. injection E as <-. eexists; split; [reflexivity|exact HR'].
  - intros a c1 c2 z c1' HR E. unfold enc_new_refval in *.
    destruct (next_value c1) as [[v e1]|] eqn:E1; cbn [bind] in E; [|discriminate].
    destruct (next_value_pre _ _ _ _ _ _ HR E1) as (e2 & E2 & HR' & Hw1 & Hw2). rewrite E2. cbn [bind].
    destruct v as [x| | | |]; try discriminate.
    destruct (write_int x a (e_w e1)) as [w|] eqn:Ew; cbn [bind] in E; [|discriminate]. injection E as <- <-.
    pose proof HR' as (Hw & _). rewrite Hw in Ew. destruct (write_int_pre _ _ _ _ _ Ew) as (o2 & -> & ->).
    cbn [bind]. eexists; split; [reflexivity|apply Rpre_with_w; exact HR'].
  - intros c1 c2 n (Hw & Hi & Hc & HQ). unfold enc_factor. rewrite Hi, Hc. auto.
  - intros a c1 c2 bm (Hw & Hi & Hc & HQ). unfold enc_bitmap. rewrite Hi, Hc. auto.
Qed.

(* C06 (encoder): n+1 subsets encoded together = the first encoded alone, then
   the others encoded on their own, bits concatenated.  By induction the bits,
   descriptors and links of every subset are those of that subset encoded alone. *)
Theorem encode_subsets_split T v1 vs outs w :
  encode_uncompressed T (v1 :: vs) = Ok (outs, w) ->
  exists o1 w1 outs' w2,
    encode_uncompressed T [v1] = Ok ([o1], w1) /\
    encode_uncompressed T vs = Ok (outs', w2) /\
    outs = o1 :: outs' /\ w = w1 ++ w2.
Proof.
  unfold encode_uncompressed. intros E. cbn [length] in *.
  destruct (run_subsets enc_prims T enc_switch 0 (S (length vs)) _ []) as [[o e]|] eqn:E0; cbn [bind] in E; [|discriminate].
  injection E as <- <-.
  cbn [run_subsets] in E0. unfold run_template in E0.
  destruct (walk_list (io_handlers enc_prims) io_add_link T _) as [s1|] eqn:E1; cbn [bind] in E0; [|discriminate].
  (* the first subset, alone *)
  set (Q1 := fun a b : list (list value) => a = v1 :: vs /\ b = [v1]).
  assert (HR1 : Rst (Rio (Rpre [] Q1))
             (mkWs regs0 (mkIo [] [] (enc_switch 0 (mkE [] (v1 :: vs) 0 0))))
             (mkWs regs0 (mkIo [] [] (enc_switch 0 (mkE [] [v1] 0 0))))).
  { split; cbn; [reflexivity|]. repeat split; cbn. }
  destruct (enc_walk_pre [] Q1 T _ _ _ HR1 E1) as (s2 & E2 & Hr & Hdd & Hl & (Hw1 & Hi1 & Hc1 & Hq1a & Hq1b)).
  cbn [run_subsets]. unfold run_template. rewrite E2. cbn [bind app] in *.
  (* the remaining subsets *)
  rewrite run_subsets_shift in E0.
  destruct (run_subsets_acc _ _ _ _ _ _ _ _ _ E0) as (outs' & -> & E3).
  set (p := e_w (io_c (w_c s2))).
  set (Q2 := fun a b : list (list value) => a = v1 :: b).
  set (R0 := fun c1 c2 : estate => e_w c1 = p ++ e_w c2 /\ e_vals c1 = v1 :: e_vals c2).
  assert (HR2 : R0 (io_c (w_c s1)) (mkE [] vs 0 0)).
  { split; cbn; [rewrite app_nil_r; exact Hw1|exact Hq1a]. }
  destruct (run_subsets_sim enc_prims enc_prims (Rpre p Q2) R0 (fun k => enc_switch (S k)) enc_switch
              (enc_walk_pre p Q2)
              (fun i c1 c2 H => match H with conj a b0 =>
                 conj a (conj eq_refl (conj (f_equal (fun l => nth (S i) l []) b0) b0)) end)
              (fun c1 c2 H => match H with conj a (conj _ (conj _ b0)) => conj a b0 end)
              T (length vs) 0 _ _ [] _ _ HR2 E3) as (d2 & E4 & (Hw4 & Hv4)).
  exists (mkSubsetOut (io_dd (w_c s1)) (io_links (w_c s1))), p, outs', (e_w d2).
  rewrite <- Hdd, <- Hl. split; [reflexivity|].
  rewrite E4. cbn [bind]. repeat split. exact Hw4.
Qed.

(* ---- the converse: single encodes can be joined --------------------------------- *)
Definition Rpre' p Q (e2 e1 : estate) := Rpre p Q e1 e2.

Lemma write_uint_pre' v w p o o2 : write_uint v w o = Ok o2 -> write_uint v w (p ++ o) = Ok (p ++ o2).
Proof.
  unfold write_uint. destruct (w <=? 0)%Z; [discriminate|]. destruct (v <? 0)%Z; [discriminate|].
  destruct (2 ^ w <=? v)%Z; [discriminate|]. intros E; injection E as <-. rewrite app_assoc. reflexivity.
Qed.

Lemma write_int_pre' v w p o o2 : write_int v w o = Ok o2 -> write_int v w (p ++ o) = Ok (p ++ o2).
Proof. unfold write_int, write_bool. cbn [bind]. rewrite <- app_assoc. apply write_uint_pre'. Qed.

Lemma write_bytes_pre' v n p o o2 : write_bytes v n o = Ok o2 -> write_bytes v n (p ++ o) = Ok (p ++ o2).
Proof.
  unfold write_bytes. destruct (n <? 0)%Z; [discriminate|]. intros E; injection E as <-. rewrite app_assoc. reflexivity.
Qed.

Lemma next_value_pre' p Q e1 e2 v e2' : Rpre p Q e1 e2 -> next_value e2 = Ok (v, e2') ->
  exists e1', next_value e1 = Ok (v, e1') /\ Rpre p Q e1' e2'.
Proof.
  intros (Hw & Hi & Hc & HQ). unfold next_value. rewrite Hc, Hi.
  destruct (nth_error (e_cur_vals e2) (e_idx e2)) as [x|]; [|discriminate].
  intros E; injection E as <- <-. eexists; split; [reflexivity|].
  repeat split; cbn; try assumption; try congruence.
Qed.

Lemma enc_walk_pre' p Q :
  forall ms, simf (Rio (Rpre' p Q)) (walk_list (io_handlers enc_prims) io_add_link ms)
                                     (walk_list (io_handlers enc_prims) io_add_link ms).
Proof.
  apply io_walk_sim; cbn [enc_prims p_numeric p_string p_codeflag p_constant p_new_refval p_factor p_bitmap]; unfold Rpre'.
  - intros a b c c2 c1 c2' HR E. unfold enc_numeric in *.
    destruct (next_value c2) as [[v e2]|] eqn:E2; cbn [bind] in E; [|discriminate].
    destruct (next_value_pre' _ _ _ _ _ _ HR E2) as (e1 & E1 & HR'). rewrite E1. cbn [bind].
    destruct (match v with VNone => missing_for a | _ => scaled_int v b c end) as [raw|]; cbn [bind] in E |- *; [|discriminate].
    destruct (write_uint raw a (e_w e2)) as [w|] eqn:Ew; cbn [bind] in E; [|discriminate]. injection E as <-.
    pose proof HR' as (Hw & _). rewrite Hw, (write_uint_pre' _ _ p _ _ Ew).
    cbn [bind]. eexists; split; [reflexivity|apply Rpre_with_w; exact HR'].
  - intros a c2 c1 c2' HR E. unfold enc_string in *.
    destruct (next_value c2) as [[v e2]|] eqn:E2; cbn [bind] in E; [|discriminate].
    destruct (next_value_pre' _ _ _ _ _ _ HR E2) as (e1 & E1 & HR'). rewrite E1. cbn [bind].
    destruct (match v with VNone => Ok (repeat 255%N (Z.to_nat a)) | VBytes b => Ok b | _ => Err EType end) as [b|];
      cbn [bind] in E |- *; [|discriminate].
    destruct (write_bytes b a (e_w e2)) as [w|] eqn:Ew; cbn [bind] in E; [|discriminate]. injection E as <-.
    pose proof HR' as (Hw & _). rewrite Hw, (write_bytes_pre' _ _ p _ _ Ew).
    cbn [bind]. eexists; split; [reflexivity|apply Rpre_with_w; exact HR'].
  - intros a b c2 c1 c2' HR E. unfold enc_codeflag in *.
    destruct (next_value c2) as [[v e2]|] eqn:E2; cbn [bind] in E; [|discriminate].
    destruct (next_value_pre' _ _ _ _ _ _ HR E2) as (e1 & E1 & HR'). rewrite E1. cbn [bind].
    destruct (match v with VNone => missing_for a | VInt z => Ok z | VDyad m ex => Ok (trunc (m, ex)) | _ => Err EType end)
      as [raw|]; cbn [bind] in E |- *; [|discriminate].
    destruct (write_uint raw a (e_w e2)) as [w|] eqn:Ew; cbn [bind] in E; [|discriminate]. injection E as <-.
    pose proof HR' as (Hw & _). rewrite Hw, (write_uint_pre' _ _ p _ _ Ew).
    cbn [bind]. eexists; split; [reflexivity|apply Rpre_with_w; exact HR'].
  - intros a c2 c1 c2' HR E. unfold enc_constant in *.
    destruct (next_value c2) as [[v e2]|] eqn:E2; cbn [bind] in E; [|discriminate].
    destruct (next_value_pre' _ _ _ _ _ _ HR E2) as (e1 & E1 & HR'). rewrite E1. cbn [bind].
    destruct (value_eq_int v a); [|discriminate]. injection E as <-. eexists; split; [reflexivity|exact HR'].
  - intros a c2 c1 z c2' HR E. unfold enc_new_refval in *.
    destruct (next_value c2) as [[v e2]|] eqn:E2; cbn [bind] in E; [|discriminate].
    destruct (next_value_pre' _ _ _ _ _ _ HR E2) as (e1 & E1 & HR'). rewrite E1. cbn [bind].
    destruct v as [x| | | |]; try discriminate.
    destruct (write_int x a (e_w e2)) as [w|] eqn:Ew; cbn [bind] in E; [|discriminate]. injection E as <- <-.
    pose proof HR' as (Hw & _). rewrite Hw, (write_int_pre' _ _ p _ _ Ew).
    cbn [bind]. eexists; split; [reflexivity|apply Rpre_with_w; exact HR'].
  - intros c2 c1 n (Hw & Hi & Hc & HQ). unfold enc_factor. rewrite Hi, Hc. auto.
  - intros a c2 c1 bm (Hw & Hi & Hc & HQ). unfold enc_bitmap. rewrite Hi, Hc. auto.
Qed.

Theorem encode_subsets_join T v1 vs o1 w1 outs' w2 :
  encode_uncompressed T [v1] = Ok ([o1], w1) ->
  encode_uncompressed T vs = Ok (outs', w2) ->
  encode_uncompressed T (v1 :: vs) = Ok (o1 :: outs', w1 ++ w2).
Proof.
  unfold encode_uncompressed. intros Ea Eb. cbn [length] in *.
  destruct (run_subsets enc_prims T enc_switch 0 1 _ []) as [[oa ea]|] eqn:E0; cbn [bind] in Ea; [|discriminate].
  injection Ea as -> <-.
  cbn [run_subsets] in E0. unfold run_template in E0.
  destruct (walk_list (io_handlers enc_prims) io_add_link T _) as [s2|] eqn:E2; cbn [bind] in E0; [|discriminate].
  cbn [app] in E0. injection E0 as E0o E0e.
  destruct (run_subsets enc_prims T enc_switch 0 (length vs) _ []) as [[ob eb]|] eqn:E3; cbn [bind] in Eb; [|discriminate].
  injection Eb as -> <-.
  set (Q1 := fun a b : list (list value) => a = v1 :: vs /\ b = [v1]).
  assert (HR1 : Rst (Rio (Rpre' [] Q1))
             (mkWs regs0 (mkIo [] [] (enc_switch 0 (mkE [] [v1] 0 0))))
             (mkWs regs0 (mkIo [] [] (enc_switch 0 (mkE [] (v1 :: vs) 0 0))))).
  { split; cbn; [reflexivity|]. repeat split; cbn. }
  destruct (enc_walk_pre' [] Q1 T _ _ _ HR1 E2) as (s1 & E1 & Hr & Hdd & Hl & (Hw1 & Hi1 & Hc1 & Hq1a & Hq1b)).
  cbn [run_subsets]. unfold run_template. rewrite E1. cbn [bind app] in *.
  rewrite run_subsets_shift.
  set (p := e_w (io_c (w_c s2))).
  set (Q2 := fun a b : list (list value) => a = v1 :: b).
  set (R0 := fun c2 c1 : estate => e_w c1 = p ++ e_w c2 /\ e_vals c1 = v1 :: e_vals c2).
  assert (HR2 : R0 (mkE [] vs 0 0) (io_c (w_c s1))).
  { split; cbn; [rewrite app_nil_r; exact Hw1|exact Hq1a]. }
  destruct (run_subsets_sim enc_prims enc_prims (Rpre' p Q2) R0 enc_switch (fun k => enc_switch (S k))
              (enc_walk_pre' p Q2)
              (fun i c2 c1 H => match H with conj a b0 =>
                 conj a (conj eq_refl (conj (f_equal (fun l => nth (S i) l []) b0) b0)) end)
              (fun c2 c1 H => match H with conj a (conj _ (conj _ b0)) => conj a b0 end)
              T (length vs) 0 _ _ [] _ _ HR2 E3) as (d1 & E4 & (Hw4 & Hv4)).
  rewrite run_subsets_acc_eq, E4. cbn [bind]. rewrite Hw4. unfold p. subst ea.
  f_equal. f_equal. cbn [app]. f_equal. subst o1. rewrite Hdd, Hl. reflexivity.
Qed.

(* every subset on its own: the joint encoding is the concatenation of the single encodings *)
Theorem encode_subsets_each T : forall vs outs w,
  encode_uncompressed T vs = Ok (outs, w) <->
  exists singles : list (subset_out * writer),
    Forall2 (fun v s => encode_uncompressed T [v] = Ok ([fst s], snd s)) vs singles /\
    outs = map fst singles /\ w = concat (map snd singles).
Proof.
  induction vs as [|v1 vs IH]; intros outs w.
  - split.
    + intros E. cbv in E. injection E as <- <-. exists []. repeat split. constructor.
    + intros (singles & HF & -> & ->). inversion HF; subst. reflexivity.
  - split.
    + intros E. destruct (encode_subsets_split _ _ _ _ _ E) as (o1 & w1 & outs' & w2 & E1 & E2 & -> & ->).
      destruct (proj1 (IH _ _) E2) as (singles & HF & -> & ->).
      exists ((o1, w1) :: singles). repeat split. constructor; [exact E1|exact HF].
    + intros (singles & HF & -> & ->). inversion HF as [|v s vs' ss E1 HF' Ev Es]; subst.
      cbn [map concat]. apply encode_subsets_join; [destruct s; exact E1|].
      apply IH. exists ss. repeat split. exact HF'.
Qed.
