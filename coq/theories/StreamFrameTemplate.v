(* StreamFrameTemplate.v — the end-to-end stream theorems (C11, C12) with the REAL
   template decoders plugged into the framing model (FramePrefixData.dd_template:
   Decode.decode_uncompressed / DecodeC.decode_compressed over the full template
   walk).  No hypothesis about any decoder is left: what remains are the
   executable well-formedness conditions on the encoded messages (item_okb) and
   on the separators (nosigb).  Concrete streams computed as non-vacuity. *)
From PBK Require Import Base Bits BitsProofs Descr Walk Coder Decode Frame FrameProofs FrameRoundtrip FrameExamples
  FramePrefix FramePrefixEnc Column DecodeC FramePrefixData
  Stream StreamProofs StreamFrame StreamFrameProofs StreamFrameDamage StreamFrameOverrun StreamFrameRefused StreamFrameDamageStream.

(* a sound, executable test for "the real template decoders refuse these
   attributes whatever the data bits": the expanded template BEGINS with an
   undefined descriptor (and, uncompressed, there is at least one subset) *)
Definition undef_first (T : descs) : bool :=
  match T with
  | DCons (DUndefElem _) _ | DCons (DUndefSeq _) _ => true
  | _ => false
  end.

Definition template_refusesb (T_of : list (pname * pvalue) -> descs) (n_of : list (pname * pvalue) -> nat)
    (c_of : list (pname * pvalue) -> bool) (props : list (pname * pvalue)) : bool :=
  undef_first (T_of props) && (c_of props || (0 <? n_of props)%nat).

Lemma template_refusesb_sound T_of n_of c_of props :
  template_refusesb T_of n_of c_of props = true ->
  forall r, dd_template T_of n_of c_of props r = Err EUnknownDescriptor.
Proof.
  unfold template_refusesb, dd_template, consumed. intros H r. apply andb_true_iff in H as [Hu Hn].
  destruct (T_of props) as [|d rest]; [discriminate|].
  destruct (c_of props).
  - unfold decode_compressed, run_compressed, run_template.
    destruct d; try discriminate; reflexivity.
  - cbn [orb] in Hn. destruct (n_of props) as [|k]; [discriminate|].
    unfold decode_uncompressed. cbn [run_subsets]. unfold run_template.
    destruct d; try discriminate; reflexivity.
Qed.

Section RealScanner.
Variables (T_of : list (pname * pvalue) -> descs) (n_of : list (pname * pvalue) -> nat)
          (c_of : list (pname * pvalue) -> bool).
Variable view : message -> list N.
Variable tdp : msginfo -> result unit.
Variable filt : msginfo -> result bool.
Notation dd := (dd_template T_of n_of c_of).
Notation Hp := (dd_template_prefix T_of n_of c_of).
Notation Hs := (dd_template_suffix T_of n_of c_of).
Notation Hc := (dd_template_cuts T_of n_of c_of).
Notation rfb := (template_refusesb T_of n_of c_of).
Notation Hr := (template_refusesb_sound T_of n_of c_of).

(* H1-H3 of the scanner, for one encoded message *)
Theorem encoded_full_ok_template : forall ign json m,
  encode_message ign json = Ok m -> msg_wfb dd m = true -> msg_quietb m = true ->
  full_ok (frame_process dd view false) (frame_hook tdp) (m_bytes m).
Proof.
  intros ign json m Henc Hwf Hq. destruct (msg_wfb_sound dd Hp Hs _ Hwf) as (H1 & H2 & H3).
  exact (encoded_full_ok dd Hp Hs view tdp ign json m Henc H1 H2 H3 Hq).
Qed.

Theorem encoded_info_ok_template : forall ign json m,
  encode_message ign json = Ok m -> msg_wfb dd m = true ->
  info_ok (frame_process dd view true) (m_bytes m).
Proof.
  intros ign json m Henc Hwf. destruct (msg_wfb_sound dd Hp Hs _ Hwf) as (H1 & H2 & H3).
  exact (encoded_info_ok dd Hp Hs Hc view ign json m Henc H1 H2 H3).
Qed.

Theorem encoded_filt_ok_template : forall ign json m io b,
  encode_message ign json = Ok m -> msg_wfb dd m = true ->
  verdict dd view filt (m_bytes m) = Some b ->
  (io = false -> b = true -> msg_quietb m = true) ->
  filt_ok (frame_process dd view false) (frame_process dd view true) filt (frame_hook tdp) io (m_bytes m) b.
Proof.
  intros ign json m io b Henc Hwf Hv Hq. destruct (msg_wfb_sound dd Hp Hs _ Hwf) as (H1 & H2 & H3).
  exact (encoded_filt_ok dd Hp Hs Hc view tdp filt ign json m io b Henc H1 H2 H3 Hv Hq).
Qed.

Theorem damaged_stop_hyps_template : forall ign json m x4,
  encode_message ign json = Ok m -> msg_wfb dd m = true -> bad_stopb x4 = true ->
  let d := replace_stop (m_bytes m) x4 in
  starts_sig d /\ length d = length (m_bytes m) /\ ends_7777b d = false /\
  full_fails (frame_process dd view false) d ELib /\
  info_ok (frame_process dd view true) d.
Proof. exact (damaged_stop_hyps dd Hp Hs Hc view). Qed.

Theorem damaged_len4_hyps_template : forall ign json m sl nd v,
  encode_message ign json = Ok m -> msg_wfb dd m = true ->
  sec4_info m = Some (sl, nd) -> bad_len4b sl nd v = true ->
  starts_sig (dmg_len4 (m_bytes m) sl v) /\
  length (dmg_len4 (m_bytes m) sl v) = length (m_bytes m) /\
  full_fails (frame_process dd view false) (dmg_len4 (m_bytes m) sl v) ELib /\
  info_ok (frame_process dd view true) (dmg_len4 (m_bytes m) sl v).
Proof. exact (damaged_len4_hyps dd Hp Hs Hc view). Qed.

Theorem damaged_hyps_template : forall ign json m d,
  encode_message ign json = Ok m -> msg_wfb dd m = true -> damage_okb m d = true ->
  starts_sig (damage_bytes m d) /\ length (damage_bytes m d) = length (m_bytes m) /\
  full_fails (frame_process dd view false) (damage_bytes m d) (damage_err d) /\
  info_ok (frame_process dd view true) (damage_bytes m d).
Proof. exact (damaged_hyps dd Hp Hs Hc view). Qed.

Theorem refused_item_hyps_template : forall ign json m,
  encode_message ign json = Ok m -> refused_okb rfb m = true ->
  starts_sig (m_bytes m) /\ full_fails (frame_process dd view false) (m_bytes m) EUnknownDescriptor /\
  info_ok (frame_process dd view true) (m_bytes m).
Proof. exact (refused_item_hyps dd rfb Hr view). Qed.

(* the streams *)
Theorem e2e_scan_exact_template : forall io coe sep0 items,
  nosigb sep0 = true -> forallb (item_okb dd io) items = true ->
  frame_generate dd view tdp filt io coe false (sep0 ++ assemble (stream_of items))
  = (map item_bytes items, None).
Proof. exact (e2e_scan_exact dd Hp Hs Hc view tdp filt). Qed.

Theorem e2e_concat_pieces_template : forall io coe sep0 items,
  nosigb sep0 = true -> forallb (item_okb dd io) items = true ->
  concat (fst (frame_generate dd view tdp filt io coe false (sep0 ++ assemble (stream_of items))))
  = concat (map item_bytes items).
Proof. exact (e2e_concat_pieces dd Hp Hs Hc view tdp filt). Qed.

Theorem e2e_scan_filter_template : forall io coe sep0 items,
  nosigb sep0 = true -> forallb (item_filt_okb dd view filt io) items = true ->
  frame_generate dd view tdp filt io coe true (sep0 ++ assemble (stream_of items))
  = (filter (matches dd view filt) (map item_bytes items), None).
Proof. exact (e2e_scan_filter dd Hp Hs Hc view tdp filt). Qed.

Theorem e2e_continue_skips_damaged_template : forall sep0 items,
  nosigb sep0 = true -> forallb (dmg_okb dd rfb false) items = true ->
  frame_generate dd view tdp filt false true false (sep0 ++ assemble (dmg_stream items))
  = (map dmg_bytes (filter undamaged items), None).
Proof. exact (e2e_continue_skips_damaged dd Hp Hs Hc rfb Hr view tdp filt). Qed.

Theorem e2e_stops_at_damaged_template : forall sep0 items it d rest,
  nosigb sep0 = true -> forallb (item_okb dd false) items = true ->
  dmg_okb dd rfb false (it, Some d) = true ->
  frame_generate dd view tdp filt false false false
    (sep0 ++ assemble (stream_of items) ++ dmg_bytes (it, Some d) ++ rest)
  = (map item_bytes items, Some (damage_err d)).
Proof. exact (e2e_stops_at_damaged dd Hp Hs Hc rfb Hr view tdp filt). Qed.

Theorem e2e_info_mode_delivers_damaged_template : forall coe sep0 items,
  nosigb sep0 = true -> forallb (dmg_okb dd rfb true) items = true ->
  frame_generate dd view tdp filt true coe false (sep0 ++ assemble (dmg_stream items))
  = (map dmg_bytes items, None).
Proof. exact (e2e_info_mode_delivers_damaged dd Hp Hs Hc rfb Hr view tdp filt). Qed.
End RealScanner.

(* the same for the template-decoder stub of the correspondence runs *)
Theorem e2e_scan_exact_stub : forall view tdp filt io coe sep0 items,
  nosigb sep0 = true -> forallb (item_okb stub_dd io) items = true ->
  frame_generate stub_dd view tdp filt io coe false (sep0 ++ assemble (stream_of items))
  = (map item_bytes items, None).
Proof. intros view tdp filt. exact (e2e_scan_exact stub_dd stub_dd_prefix stub_dd_suffix stub_dd_cuts view tdp filt). Qed.

Theorem e2e_continue_skips_damaged_stub : forall view tdp filt sep0 items,
  nosigb sep0 = true -> forallb (dmg_okb stub_dd stub_refusesb false) items = true ->
  frame_generate stub_dd view tdp filt false true false (sep0 ++ assemble (dmg_stream items))
  = (map dmg_bytes (filter undamaged items), None).
Proof.
  intros view tdp filt.
  exact (e2e_continue_skips_damaged stub_dd stub_dd_prefix stub_dd_suffix stub_dd_cuts stub_refusesb stub_refusesb_sound view tdp filt).
Qed.

(* ------------------------------------------------------------------------ *)
(* non-vacuity: concrete streams, everything computed                        *)
(* ------------------------------------------------------------------------ *)
(* edition 4, no section 2, template exT (FramePrefixData), two subsets *)
Definition e2e_json4 (cat : Z) (compressed : bool) (data : bits) : list (list pvalue) :=
  [[PBytes sig_BUFR; PUint 0; PUint 4];
   [PUint 0; PUint 0; PUint 7; PUint 0; PUint 0; PBool false; PBin (zeros 7); PUint cat; PUint 0; PUint 0;
    PUint 33; PUint 0; PUint 2024; PUint 5; PUint 17; PUint 12; PUint 30; PUint 0];
   [PUint 0; PBin (zeros 8); PUint 2; PBool true; PBool compressed; PBin (zeros 6);
    PDescs [4001; 101000; 31001; 12001; 1015]];
   [PUint 0; PBin (zeros 8); PData data];
   [PBytes sig_7777]]%Z.

(* edition 3 with section 2 (local bits), same template, uncompressed *)
Definition e2e_json3 (cat : Z) : list (list pvalue) :=
  [[PBytes sig_BUFR; PUint 0; PUint 3];
   [PUint 0; PUint 0; PUint 7; PUint 98; PUint 0; PBool true; PBin (zeros 7); PUint cat; PUint 0;
    PUint 33; PUint 0; PUint 24; PUint 5; PUint 17; PUint 12; PUint 30; PUint 0];
   [PUint 0; PBin (zeros 8); PBin [true; false; true; true; false]];
   [PUint 0; PBin (zeros 8); PUint 2; PBool true; PBool false; PBin (zeros 6);
    PDescs [4001; 101000; 31001; 12001; 1015]];
   [PUint 0; PBin (zeros 8); PData ex_data];
   [PBytes sig_7777]]%Z.

(* table lookup for the examples: the descriptor list of the examples expands to
   exT; a list starting with anything else than 004001 starts with an undefined
   descriptor *)
Definition e2e_T_of (props : list (pname * pvalue)) : descs :=
  match prop_get Nunexpanded_descriptors props with
  | Some (PDescs (id :: _)) => if (id =? 4001)%Z then exT else DCons (DUndefElem (Z.to_N id)) exT
  | _ => exT
  end.
Definition e2e_dd := dd_template e2e_T_of exn_of exc_of.
Definition e2e_rfb := template_refusesb e2e_T_of exn_of exc_of.
(* the filter looks at the data category: data_category == 2 *)
Definition e2e_filt (mi : msginfo) : result bool :=
  match mi_meta mi with dc :: _ => Ok (dc =? 2)%N | [] => Err EAttr end.
Definition e2e_view (_ : message) : list N := [].
Definition e2e_tdp (_ : msginfo) : result unit := Err EOther.   (* never reached on quiet messages *)

(* separators: a GTS-like header, 'BUF' (a partial signature right before a
   message), 'BU' + noise, an empty one *)
Definition e2e_items : list enc_item :=
  [(true, e2e_json4 2 false ex_data, [13; 13; 10; 66; 85; 70]%N);
   (true, e2e_json3 0, []);
   (true, e2e_json4 2 true ex_data_c, [66; 85; 0; 55; 55; 55; 55]%N)].
Definition e2e_sep0 : list byte := [1; 13; 13; 10; 48; 48; 49; 66]%N.

Definition outcome_eqb (a b : outcome) : bool :=
  (length (fst a) =? length (fst b))%nat &&
  forallb (fun xy => bytes_eqb (fst xy) (snd xy)) (combine (fst a) (fst b)) &&
  match snd a, snd b with
  | None, None => true
  | Some e1, Some e2 => (err_code e1 =? err_code e2)%N
  | _, _ => false
  end.

(* the hypotheses of e2e_scan_exact_template hold (full and metadata-only mode),
   the stream really holds three messages of 60..70 octets, and running the
   concrete scanner gives them (computed, both modes, and the filter) *)
Example e2e_scan_nonvacuous :
  nosigb e2e_sep0 = true /\
  forallb (item_okb e2e_dd false) e2e_items = true /\ forallb (item_okb e2e_dd true) e2e_items = true /\
  forallb (item_filt_okb e2e_dd e2e_view e2e_filt false) e2e_items = true /\
  map (fun it => (40 <? length (item_bytes it))%nat) e2e_items = [true; true; true] /\
  map (matches e2e_dd e2e_view e2e_filt) (map item_bytes e2e_items) = [true; false; true] /\
  outcome_eqb (frame_generate e2e_dd e2e_view e2e_tdp e2e_filt false false false
                 (e2e_sep0 ++ assemble (stream_of e2e_items)))
              (map item_bytes e2e_items, None) = true /\
  outcome_eqb (frame_generate e2e_dd e2e_view e2e_tdp e2e_filt true false false
                 (e2e_sep0 ++ assemble (stream_of e2e_items)))
              (map item_bytes e2e_items, None) = true /\
  outcome_eqb (frame_generate e2e_dd e2e_view e2e_tdp e2e_filt false false true
                 (e2e_sep0 ++ assemble (stream_of e2e_items)))
              (filter (matches e2e_dd e2e_view e2e_filt) (map item_bytes e2e_items), None) = true.
Proof. repeat split; vm_compute; reflexivity. Qed.

(* the "quiet" condition is not vacuous: a table-definition message (data
   category 11, two subsets) is refused by the full-mode condition and accepted
   by the metadata-only one *)
Example e2e_tabledef_not_quiet :
  item_okb e2e_dd false (true, e2e_json4 11 false ex_data, []) = false /\
  item_okb e2e_dd true (true, e2e_json4 11 false ex_data, []) = true.
Proof. split; vm_compute; reflexivity. Qed.

(* edition 4, the first descriptor of section 3 replaced by the undefined 063255 *)
Definition e2e_json_undef : list (list pvalue) :=
  [[PBytes sig_BUFR; PUint 0; PUint 4];
   [PUint 0; PUint 0; PUint 7; PUint 0; PUint 0; PBool false; PBin (zeros 7); PUint 2; PUint 0; PUint 0;
    PUint 33; PUint 0; PUint 2024; PUint 5; PUint 17; PUint 12; PUint 30; PUint 0];
   [PUint 0; PBin (zeros 8); PUint 2; PBool true; PBool false; PBin (zeros 6);
    PDescs [63255; 101000; 31001; 12001; 1015]];
   [PUint 0; PBin (zeros 8); PData ex_data];
   [PBytes sig_7777]]%Z.

(* C12: the second message's stop signature overwritten with '7778' (a
   table-definition message may be among the damaged ones), the fourth's with
   NULs, the fifth's section 4 (16 octets: 4 + 96 data bits) declared 8 octets long,
   the sixth (edition 3, section 4 of 16 octets) declared 15, the seventh with an
   undefined first descriptor *)
Definition e2e_dmg_items : list dmg_item :=
  [((true, e2e_json4 2 false ex_data, [13; 13; 10; 66; 85; 70]%N), None);
   ((true, e2e_json4 11 false ex_data, []), Some (DStop [55; 55; 55; 56]%N));
   ((true, e2e_json3 0, [10]%N), None);
   ((true, e2e_json4 2 true ex_data_c, [66; 85; 0; 55; 55; 55; 55]%N), Some (DStop [0; 0; 0; 0]%N));
   ((true, e2e_json4 3 false ex_data, [66]%N), Some (DLen4 8));
   ((true, e2e_json3 5, []), Some (DLen4 15));
   ((true, e2e_json_undef, [7; 7]%N), Some DRefused);
   ((true, e2e_json3 7, []), None)].

Example e2e_damage_nonvacuous :
  forallb (dmg_okb e2e_dd e2e_rfb false) e2e_dmg_items = true /\
  map undamaged e2e_dmg_items = [true; false; true; false; false; false; false; true] /\
  map (fun it => match item_msg (fst it) with Ok m => sec4_info m | Err _ => None end) e2e_dmg_items =
    [Some (16%Z, 96%nat); Some (16%Z, 96%nat); Some (16%Z, 96%nat); Some (14%Z, 80%nat); Some (16%Z, 96%nat);
     Some (16%Z, 96%nat); Some (16%Z, 96%nat); Some (16%Z, 96%nat)] /\
  outcome_eqb (frame_generate e2e_dd e2e_view e2e_tdp e2e_filt false true false
                 (e2e_sep0 ++ assemble (dmg_stream e2e_dmg_items)))
              (map dmg_bytes (filter undamaged e2e_dmg_items), None) = true /\
  outcome_eqb (frame_generate e2e_dd e2e_view e2e_tdp e2e_filt false false false
                 (e2e_sep0 ++ assemble (dmg_stream e2e_dmg_items)))
              (map dmg_bytes (firstn 1 e2e_dmg_items), Some ELib) = true /\
  forallb (dmg_okb e2e_dd e2e_rfb true) e2e_dmg_items = true /\
  outcome_eqb (frame_generate e2e_dd e2e_view e2e_tdp e2e_filt true false false
                 (e2e_sep0 ++ assemble (dmg_stream e2e_dmg_items)))
              (map dmg_bytes e2e_dmg_items, None) = true.
Proof. repeat split; vm_compute; reflexivity. Qed.

Example e2e_refused_nonvacuous :
  match encode_message true e2e_json_undef with Ok m => refused_okb e2e_rfb m | Err _ => false end = true /\
  outcome_eqb (frame_generate e2e_dd e2e_view e2e_tdp e2e_filt false false false
                 (e2e_sep0 ++ assemble (dmg_stream (skipn 6 e2e_dmg_items))))
              ([], Some EUnknownDescriptor) = true.
Proof. split; vm_compute; reflexivity. Qed.

(* ---- the stub template decoder (templates of 031031 only) ---------------------- *)
(* edition 4, two subsets of two descriptors, the second one the undefined 063255 *)
Definition ex4_json_undef : list (list pvalue) :=
  [[PBytes sig_BUFR; PUint 0; PUint 4];
   [PUint 0; PUint 0; PUint 7; PUint 0; PUint 0; PBool false; PBin (zeros 7); PUint 2; PUint 0; PUint 0;
    PUint 33; PUint 0; PUint 2024; PUint 5; PUint 17; PUint 12; PUint 30; PUint 0];
   [PUint 0; PBin (zeros 8); PUint 2; PBool true; PBool false; PBin (zeros 6); PDescs [31031; 63255]];
   [PUint 0; PBin (zeros 8); PData [true; false; true; true]];
   [PBytes sig_7777]]%Z.

Definition stub_dmg_items : list dmg_item :=
  [((true, ex_json 0 0 0 0, [66; 85]%N), None);
   ((true, ex4_json, []), Some (DStop [0; 0; 0; 0]%N));
   ((true, ex2_json, [10]%N), None);
   ((true, ex4_json_undef, [66; 85; 70]%N), Some DRefused);
   ((true, ex4_json, []), Some (DLen4 4));
   ((true, ex4_json, [13; 10]%N), None)].

Example e2e_stub_nonvacuous :
  forallb (dmg_okb stub_dd stub_refusesb false) stub_dmg_items = true /\
  forallb (dmg_okb stub_dd stub_refusesb true) stub_dmg_items = true /\
  forallb (item_okb stub_dd false) (map fst (filter undamaged stub_dmg_items)) = true /\
  outcome_eqb (frame_generate stub_dd e2e_view e2e_tdp e2e_filt false true false
                 (e2e_sep0 ++ assemble (dmg_stream stub_dmg_items)))
              (map dmg_bytes (filter undamaged stub_dmg_items), None) = true /\
  outcome_eqb (frame_generate stub_dd e2e_view e2e_tdp e2e_filt false false false
                 (e2e_sep0 ++ assemble (stream_of (map fst (filter undamaged stub_dmg_items)))))
              (map item_bytes (map fst (filter undamaged stub_dmg_items)), None) = true.
Proof. repeat split; vm_compute; reflexivity. Qed.
