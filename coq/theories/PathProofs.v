(* PathProofs.v — the parser model refines the grammar (C15). *)
From PBK Require Import Base PathParser PathGrammar.
From Coq Require Import ZifyBool ZifyNat ZifyN.

Local Open Scope N_scope.

(* ------------------------------------------------------------------------- *)
(* characters                                                                 *)
(* ------------------------------------------------------------------------- *)
Lemma is_sep_cases c : is_sep c = true -> c = ch_slash \/ c = ch_dot \/ c = ch_gt.
Proof. unfold is_sep, ch_slash, ch_dot, ch_gt. lia. Qed.

Lemma classify_spec c :
  match classify c with
  | KWs => is_ws c = true
  | KAt => c = ch_at
  | KLb => c = ch_lb
  | KColon => c = ch_colon
  | KRb => c = ch_rb
  | KSep => is_sep c = true /\ is_ws c = false
  | KOther => idchar c = true
  end.
Proof.
  unfold classify, idchar, is_struct, is_sep.
  destruct (is_ws c) eqn:W; [reflexivity|].
  destruct (c =? ch_at) eqn:E1; [apply N.eqb_eq in E1; exact E1|].
  destruct (c =? ch_lb) eqn:E2; [apply N.eqb_eq in E2; exact E2|].
  destruct (c =? ch_colon) eqn:E3; [apply N.eqb_eq in E3; exact E3|].
  destruct (c =? ch_rb) eqn:E4; [apply N.eqb_eq in E4; exact E4|].
  destruct ((c =? ch_slash) || (c =? ch_dot) || (c =? ch_gt)) eqn:E5.
  - split; first [exact E5|reflexivity].
  - cbn. apply Bool.orb_false_iff in E5 as [E5 E7]. apply Bool.orb_false_iff in E5 as [E5 E6].
    rewrite E5, E6, E7. reflexivity.
Qed.

Lemma idchar_classify c : idchar c = true -> classify c = KOther.
Proof.
  unfold idchar, is_struct, classify. intros H.
  apply Bool.andb_true_iff in H as [W S]. apply Bool.negb_true_iff in W. apply Bool.negb_true_iff in S.
  rewrite W.
  destruct (c =? ch_at); [discriminate|]. destruct (c =? ch_lb); [discriminate|].
  destruct (c =? ch_rb); [discriminate|]. destruct (c =? ch_colon); [discriminate|].
  cbn in S. rewrite S. reflexivity.
Qed.

Lemma idchar_not_ws c : idchar c = true -> is_ws c = false.
Proof. unfold idchar. intros H. apply Bool.andb_true_iff in H as [W _]. now apply Bool.negb_true_iff in W. Qed.

Definition no_ws (l : list char) : Prop := forallb (fun c => negb (is_ws c)) l = true.

Lemma no_ws_cons c l : no_ws (c :: l) <-> is_ws c = false /\ no_ws l.
Proof.
  unfold no_ws. cbn. rewrite Bool.andb_true_iff, Bool.negb_true_iff. reflexivity.
Qed.

Lemma no_ws_app a b : no_ws (a ++ b) <-> no_ws a /\ no_ws b.
Proof. unfold no_ws. rewrite forallb_app, Bool.andb_true_iff. reflexivity. Qed.

Lemma no_ws_strip s : no_ws (strip_ws s).
Proof.
  unfold no_ws, strip_ws. apply forallb_forall. intros c H. apply filter_In in H. tauto.
Qed.

(* ------------------------------------------------------------------------- *)
(* span                                                                        *)
(* ------------------------------------------------------------------------- *)
Lemma span_spec f l a r : span f l = (a, r) ->
  l = a ++ r /\ forallb f a = true /\ match r with [] => True | h :: _ => f h = false end.
Proof.
  revert a r. induction l as [|c l IH]; intros a r H; cbn in H.
  - injection H as <- <-. auto.
  - destruct (f c) eqn:F.
    + destruct (span f l) as [a' b'] eqn:S. injection H as <- <-.
      destruct (IH _ _ eq_refl) as (E & A & R). subst l. cbn. rewrite F. auto.
    + injection H as <- <-. cbn. rewrite F. auto.
Qed.

Lemma span_app_all f t r : forallb f t = true ->
  span f (t ++ r) = let '(a, b) := span f r in (t ++ a, b).
Proof.
  induction t as [|c t IH]; intros H; cbn.
  - destruct (span f r); reflexivity.
  - cbn in H. apply Bool.andb_true_iff in H as [Hc Ht]. rewrite Hc, (IH Ht).
    destruct (span f r); reflexivity.
Qed.

Lemma span_length f l a r : span f l = (a, r) -> (length r <= length l)%nat.
Proof. intros H. apply span_spec in H as (E & _ & _). subst l. rewrite app_length. lia. Qed.

(* ------------------------------------------------------------------------- *)
(* running the machine                                                         *)
(* ------------------------------------------------------------------------- *)
Definition run_finish (p : pstate) (l : list char) : result path :=
  let* q := run p l in finish q.

Definition lift (o : option path) : result path :=
  match o with Some p => Ok p | None => Err EPathExpr end.

Lemma run_finish_nil p : run_finish p [] = finish p.
Proof. reflexivity. Qed.

Lemma run_finish_cons p c l :
  run_finish p (c :: l) = match step p c with Ok p' => run_finish p' l | Err e => Err e end.
Proof. unfold run_finish. cbn. destruct (step p c); reflexivity. Qed.

Lemma run_finish_app p a b q : run p a = Ok q -> run_finish p (a ++ b) = run_finish q b.
Proof.
  revert p. induction a as [|c a IH]; intros p H; cbn in H.
  - injection H as <-. reflexivity.
  - cbn [app]. rewrite run_finish_cons. destruct (step p c) as [p'|e]; [|discriminate]. now apply IH.
Qed.

Definition accum (st : pst) : bool :=
  match st with StId | StSubSl0 | StSubSlX | StSl0 | StSlX => true | _ => false end.

Lemma step_idchar st tok id sep es sub cs c :
  accum st = true -> idchar c = true ->
  step (mkP st tok id sep es sub cs) c = Ok (mkP st (tok ++ [c]) id sep es sub cs).
Proof.
  intros A I. unfold step. rewrite (idchar_classify _ I). destruct st; try discriminate; reflexivity.
Qed.

Lemma run_idchars a : forall st tok id sep es sub cs,
  accum st = true -> forallb idchar a = true ->
  run (mkP st tok id sep es sub cs) a = Ok (mkP st (tok ++ a) id sep es sub cs).
Proof.
  induction a as [|c a IH]; intros st tok id sep es sub cs A H.
  - cbn. now rewrite app_nil_r.
  - cbn in H. apply Bool.andb_true_iff in H as [Hc Ha]. cbn [run].
    rewrite (step_idchar _ _ _ _ _ _ _ _ A Hc), (IH _ _ _ _ _ _ _ A Ha), <- app_assoc. reflexivity.
Qed.

(* white space is a no-op of the loop *)
Lemma run_strip_ws s : forall p, run p s = run p (strip_ws s).
Proof.
  induction s as [|c s IH]; intros p; [reflexivity|].
  cbn [strip_ws filter]. destruct (is_ws c) eqn:W; cbn [negb].
  - cbn [run]. unfold step, classify. rewrite W. apply IH.
  - cbn [run]. destruct (step p c); [apply IH|reflexivity].
Qed.

(* ------------------------------------------------------------------------- *)
(* more than three slice parts: the machine can only fail from here           *)
(* ------------------------------------------------------------------------- *)
Definition doomed (p : pstate) : Prop :=
  match cur_state p with
  | StSlX | StSubSlX => (3 <= length (cur_elems p))%nat
  | StStop | StSubStop => (4 <= length (cur_elems p))%nat
  | _ => False
  end.

Lemma create_slice_4 es : (4 <= length es)%nat -> create_slice_object es = perr.
Proof. destruct es as [|a [|b [|c [|d es]]]]; cbn; intros; try lia; reflexivity. Qed.

Lemma convert_slice_element_cases tok :
  convert_slice_element tok = perr \/ exists e, convert_slice_element tok = Ok e.
Proof.
  unfold convert_slice_element. destruct tok; [right; eauto|]. destruct (py_int _); [right; eauto|left; reflexivity].
Qed.

Lemma doomed_step p c : doomed p -> step p c = perr \/ exists p', step p c = Ok p' /\ doomed p'.
Proof.
  destruct p as [st tok id sep es sub cs]. unfold doomed. cbn [cur_state cur_elems]. intros D.
  unfold step. destruct (classify c) eqn:K; cbn [cur_state].
  - right. eexists; split; [reflexivity|exact D].
  - destruct st; try contradiction; left; reflexivity.
  - destruct st; try contradiction; left; reflexivity.
  - destruct st; try contradiction; try (left; reflexivity); cbn [handle_colon_rb andb]; rewrite ?Bool.andb_false_r;
      destruct (convert_slice_element_cases tok) as [E|[e E]]; rewrite E; cbn [bind];
      try (left; reflexivity); right; eexists; (split; [reflexivity|]); cbn; rewrite app_length; cbn; lia.
  - destruct st; try contradiction; try (left; reflexivity); cbn [handle_colon_rb andb]; rewrite ?Bool.andb_false_r;
      destruct (convert_slice_element_cases tok) as [E|[e E]]; rewrite E; cbn [bind];
      try (left; reflexivity); right; eexists; (split; [reflexivity|]); cbn; rewrite app_length; cbn; lia.
  - destruct st; try contradiction; try (left; reflexivity); left; cbn [handle_separator add_new_path_component];
      rewrite (create_slice_4 _ D); [destruct (c =? ch_dot); reflexivity | reflexivity].
  - destruct st; try contradiction; try (left; reflexivity). 
    all: right; eexists; (split; [reflexivity|]); exact D.
Qed.

Lemma doomed_finish p : doomed p -> finish p = perr.
Proof.
  destruct p as [st tok id sep es sub cs]. unfold doomed, finish. cbn [cur_state cur_elems]. intros D.
  destruct st; try contradiction; try reflexivity.
  cbn [add_new_path_component]. rewrite (create_slice_4 _ D). reflexivity.
Qed.

Lemma doomed_run l : forall p, doomed p -> run_finish p l = perr.
Proof.
  induction l as [|c l IH]; intros p D.
  - rewrite run_finish_nil. now apply doomed_finish.
  - rewrite run_finish_cons. destruct (doomed_step p c D) as [E|(p' & E & D')]; rewrite E; [reflexivity|now apply IH].
Qed.

Definition slice_state (st : pst) : bool :=
  match st with StSl0 | StSlX | StSubSl0 | StSubSlX => true | _ => false end.
Definition st_colon (st : pst) : pst :=
  match st with StSubSl0 => StSubSlX | StSl0 => StSlX | _ => st end.
Definition st_rb (st : pst) : pst :=
  match st with StSubSl0 | StSubSlX => StSubStop | _ => StStop end.
Definition st_first (st : pst) : bool :=
  match st with StSl0 | StSubSl0 => true | _ => false end.
Definition is_none {A} (a : option A) : bool := match a with None => true | _ => false end.

Lemma slice_state_accum st : slice_state st = true -> accum st = true.
Proof. destruct st; cbn; congruence. Qed.

(* one index of a slice: the token and the character that ends it *)
Lemma part st id sep es sub cs l :
  slice_state st = true -> no_ws l ->
  run_finish (mkP st [] id sep es sub cs) l =
  match g_oint l with
  | None => perr
  | Some (a, r) =>
    match r with
    | [] => perr
    | h :: r' =>
      if h =? ch_rb then
        (if st_first st && is_none a then perr
         else run_finish (mkP (st_rb st) [] id sep (es ++ [a]) sub cs) r')
      else if h =? ch_colon then run_finish (mkP (st_colon st) [] id sep (es ++ [a]) sub cs) r'
      else perr
    end
  end.
Proof.
  intros SS NW. unfold g_oint. destruct (span idchar l) as [t r] eqn:S.
  apply span_spec in S as (E & T & R). subst l.
  rewrite (run_finish_app _ t r _ (run_idchars t _ _ _ _ _ _ _ (slice_state_accum _ SS) T)). cbn [app].
  apply no_ws_app in NW as [_ NW].
  destruct r as [|h r'].
  - rewrite run_finish_nil. unfold finish. cbn [cur_state].
    destruct t; [|destruct (py_int _)]; destruct st; try discriminate; reflexivity.
  - apply no_ws_cons in NW as [W NW]. rewrite run_finish_cons. unfold step.
    pose proof (classify_spec h) as CS. destruct (classify h) eqn:K.
    + congruence.
    + subst h. cbn [cur_state]. change (ch_at =? ch_rb) with false. change (ch_at =? ch_colon) with false.
      destruct t; [|destruct (py_int _)]; destruct st; try discriminate; reflexivity.
    + subst h. change (ch_lb =? ch_rb) with false. change (ch_lb =? ch_colon) with false.
      destruct t; [|destruct (py_int _)]; destruct st; try discriminate; reflexivity.
    + subst h. change (ch_colon =? ch_rb) with false. change (ch_colon =? ch_colon) with true.
      destruct t as [|c0 t]; [|cbn [handle_colon_rb convert_slice_element andb is_nil]; destruct (py_int _)];
        destruct st; try discriminate; reflexivity.
    + subst h. change (ch_rb =? ch_rb) with true.
      destruct t as [|c0 t]; [|cbn [handle_colon_rb convert_slice_element andb is_nil]; destruct (py_int _)];
        destruct st; try discriminate; reflexivity.
    + destruct CS as [CS _]. apply is_sep_cases in CS as [-> | [-> | ->]]; cbn;
        (destruct t; [|destruct (py_int _)]); destruct st; try discriminate; reflexivity.
    + congruence.
Qed.

Lemma g_oint_rest l a r : g_oint l = Some (a, r) -> exists t, l = t ++ r.
Proof.
  unfold g_oint. destruct (span idchar l) as [t r0] eqn:S. apply span_spec in S as (E & _ & _).
  destruct t; [|destruct (py_int _)]; intros H; try discriminate; injection H as <- <-; eauto.
Qed.

Lemma g_oint_no_ws l a r : g_oint l = Some (a, r) -> no_ws l -> no_ws r.
Proof. intros H NW. apply g_oint_rest in H as [t ->]. now apply no_ws_app in NW. Qed.

Lemma slice_run (sb : bool) id sep sub cs l :
  no_ws l ->
  run_finish (mkP (if sb then StSubSl0 else StSl0) [] id sep [] sub cs) l =
  match g_slice l with
  | Some (es, r') => run_finish (mkP (if sb then StSubStop else StStop) [] id sep es sub cs) r'
  | None => perr
  end.
Proof.
  intros NW. rewrite part; [|destruct sb; reflexivity|exact NW]. unfold g_slice.
  destruct (g_oint l) as [[a r]|] eqn:G1; [|reflexivity].
  pose proof (g_oint_no_ws _ _ _ G1 NW) as NW1.
  destruct r as [|h r']; [reflexivity|]. apply no_ws_cons in NW1 as [_ NW1].
  destruct (h =? ch_rb).
  { destruct a; destruct sb; reflexivity. }
  destruct (h =? ch_colon); [|reflexivity].
  rewrite part; [|destruct sb; reflexivity|exact NW1].
  destruct (g_oint r') as [[b r2]|] eqn:G2; [|reflexivity].
  pose proof (g_oint_no_ws _ _ _ G2 NW1) as NW2.
  destruct r2 as [|h2 r2']; [reflexivity|]. apply no_ws_cons in NW2 as [_ NW2].
  destruct (h2 =? ch_rb).
  { destruct sb; reflexivity. }
  destruct (h2 =? ch_colon); [|reflexivity].
  rewrite part; [|destruct sb; reflexivity|exact NW2].
  destruct (g_oint r2') as [[c r3]|] eqn:G3; [|reflexivity].
  pose proof (g_oint_no_ws _ _ _ G3 NW2) as NW3.
  destruct r3 as [|h3 r3']; [reflexivity|].
  destruct (h3 =? ch_rb).
  { destruct sb; reflexivity. }
  destruct (h3 =? ch_colon); [|reflexivity].
  apply doomed_run. destruct sb; cbn; lia.
Qed.

Lemma create_slice_of_int k : create_slice_object [Some k] = Ok (slice_of_int k).
Proof. unfold create_slice_object, slice_of_int. destruct (0 <=? k)%Z, (k =? -1)%Z; reflexivity. Qed.

Lemma g_slice_ok l es r' : g_slice l = Some (es, r') ->
  (exists s, slice_of_elems es = Some s /\ create_slice_object es = Ok s) /\
  (length r' < length l)%nat /\ (no_ws l -> no_ws r').
Proof.
  unfold g_slice.
  destruct (g_oint l) as [[a r]|] eqn:G1; [|discriminate].
  destruct (g_oint_rest _ _ _ G1) as [t1 E1].
  destruct r as [|h r1]; [discriminate|].
  destruct (h =? ch_rb).
  { destruct a as [k|]; [|discriminate]. intros H; injection H as <- <-. split; [|split].
    - eexists; split; [reflexivity|apply create_slice_of_int].
    - subst l. rewrite app_length. cbn. lia.
    - subst l. intros NW. apply no_ws_app in NW as [_ NW]. now apply no_ws_cons in NW. }
  destruct (h =? ch_colon); [|discriminate].
  destruct (g_oint r1) as [[b r2]|] eqn:G2; [|discriminate].
  destruct (g_oint_rest _ _ _ G2) as [t2 E2].
  destruct r2 as [|h2 r3]; [discriminate|].
  destruct (h2 =? ch_rb).
  { intros H; injection H as <- <-. split; [|split].
    - destruct a; eexists; split; reflexivity.
    - subst l r1. rewrite !app_length. cbn. rewrite !app_length. cbn. lia.
    - subst l r1. intros NW. apply no_ws_app in NW as [_ NW]. apply no_ws_cons in NW as [_ NW].
      apply no_ws_app in NW as [_ NW]. now apply no_ws_cons in NW. }
  destruct (h2 =? ch_colon); [|discriminate].
  destruct (g_oint r3) as [[c r4]|] eqn:G3; [|discriminate].
  destruct (g_oint_rest _ _ _ G3) as [t3 E3].
  destruct r4 as [|h4 r5]; [discriminate|].
  destruct (h4 =? ch_rb); [|discriminate].
  intros H; injection H as <- <-. split; [|split].
  - destruct a; eexists; split; reflexivity.
  - subst l r1 r3. rewrite !app_length. cbn. rewrite !app_length. cbn. rewrite !app_length. cbn. lia.
  - subst l r1 r3. intros NW. apply no_ws_app in NW as [_ NW]. apply no_ws_cons in NW as [_ NW].
    apply no_ws_app in NW as [_ NW]. apply no_ws_cons in NW as [_ NW].
    apply no_ws_app in NW as [_ NW]. now apply no_ws_cons in NW.
Qed.

Lemma is_sep_classify c : is_sep c = true -> classify c = KSep.
Proof. intros H. apply is_sep_cases in H as [-> | [-> | ->]]; reflexivity. Qed.

Lemma not_sep_g_comps f h r : classify h <> KSep -> g_comps f (h :: r) = None.
Proof.
  intros K. destruct f; [reflexivity|]. cbn [g_comps].
  destruct (is_sep h) eqn:S; [apply is_sep_classify in S; congruence|reflexivity].
Qed.

Lemma sep_not_lb c : is_sep c = true -> (c =? ch_lb) = false.
Proof. intros H. apply is_sep_cases in H as [-> | [-> | ->]]; reflexivity. Qed.

Lemma g_comps_nil f : g_comps f [] = Some [].
Proof. destruct f; reflexivity. Qed.

Lemma comps_loop fuel : forall r t id0 sep sub cs,
  no_ws r -> forallb idchar t = true -> is_sep sep = true -> (length r < fuel)%nat ->
  run_finish (mkP StId t id0 sep [] sub cs) r =
  match g_comps fuel (sep :: t ++ r) with
  | Some cs' => Ok (mkPath sub (cs ++ cs'))
  | None => perr
  end.
Proof.
  induction fuel as [|f IH]; intros r t id0 sep sub cs NW T SEP LEN; [lia|].
  cbn [g_comps]. rewrite SEP. rewrite (span_app_all _ _ _ T).
  destruct (span idchar r) as [a r1] eqn:S. apply span_spec in S as (E & A & R). subst r.
  rewrite (run_finish_app _ a r1 _ (run_idchars a StId t id0 sep [] sub cs eq_refl A)).
  apply no_ws_app in NW as [_ NW]. rewrite app_length in LEN.
  remember (t ++ a) as id eqn:ID. clear ID T A.
  destruct r1 as [|h r1'].
  - rewrite run_finish_nil. destruct id; [reflexivity|]. cbn [g_oslice]. rewrite g_comps_nil. reflexivity.
  - apply no_ws_cons in NW as [W NW]. rewrite run_finish_cons. unfold step.
    pose proof (classify_spec h) as CS. destruct (classify h) eqn:K.
    + congruence.
    + subst h. cbn [cur_state]. destruct id; [reflexivity|]. cbn [g_oslice]. change (ch_at =? ch_lb) with false.
      cbn match. rewrite not_sep_g_comps; [reflexivity|discriminate].
    + (* '[' *) subst h. destruct id as [|i0 id]; [reflexivity|].
      cbn [handle_left_bracket convert_id bind]. rewrite (slice_run false) by exact NW.
      cbn [g_oslice]. change (ch_lb =? ch_lb) with true. cbn match. unfold g_slice_val.
      destruct (g_slice r1') as [[es r2]|] eqn:GS; [|reflexivity].
      destruct (g_slice_ok _ _ _ GS) as ((s & SE & CE) & LEN2 & NW2). specialize (NW2 NW). rewrite SE.
      destruct r2 as [|h2 r3].
      * rewrite run_finish_nil. unfold finish. cbn [cur_state add_new_path_component]. rewrite CE, g_comps_nil. reflexivity.
      * apply no_ws_cons in NW2 as [W2 NW2]. rewrite run_finish_cons. unfold step.
        pose proof (classify_spec h2) as CS2. destruct (classify h2) eqn:K2;
          try (rewrite not_sep_g_comps by congruence; reflexivity).
        { congruence. }
        destruct CS2 as [CS2 _]. cbn [handle_separator add_new_path_component]. rewrite CE. cbn [bind].
        rewrite (IH r3 [] _ h2 sub _ NW2 eq_refl CS2) by (cbn in LEN, LEN2; lia).
        cbn [app]. destruct (g_comps f (h2 :: r3)); [|reflexivity]. rewrite <- app_assoc. reflexivity.
    + subst h. cbn [cur_state]. destruct id; [reflexivity|]. cbn [g_oslice]. change (ch_colon =? ch_lb) with false.
      cbn match. rewrite not_sep_g_comps; [reflexivity|discriminate].
    + subst h. cbn [cur_state]. destruct id; [reflexivity|]. cbn [g_oslice]. change (ch_rb =? ch_lb) with false.
      cbn match. rewrite not_sep_g_comps; [reflexivity|discriminate].
    + (* separator *) destruct CS as [CS _]. destruct id as [|i0 id]; [reflexivity|].
      cbn [handle_separator convert_id add_new_path_component create_slice_object bind].
      rewrite (IH r1' [] _ h sub _ NW eq_refl CS) by (cbn in LEN; lia).
      cbn [g_oslice]. rewrite (sep_not_lb _ CS). cbn [app].
      destruct (g_comps f (h :: r1')); [|reflexivity]. rewrite <- app_assoc. reflexivity.
    + congruence.
Qed.

Lemma rstrip_head f c r : f c = false -> exists r', rstrip f (c :: r) = c :: r'.
Proof. intros F. cbn. destruct (rstrip f r); rewrite ?F; eauto. Qed.

Lemma precheck_strip_ws s :
  precheck is_ws s = match strip_ws s with [] => false | c :: _ => first_ok c end.
Proof.
  unfold precheck, strip. induction s as [|c s IH]; [reflexivity|].
  cbn [lstrip strip_ws filter]. destruct (is_ws c) eqn:W; cbn [negb].
  - exact IH.
  - destruct (rstrip_head is_ws c s W) as [r' ->]. reflexivity.
Qed.

Lemma not_lb c : classify c <> KLb -> (c =? ch_lb) = false.
Proof. intros K. destruct (c =? ch_lb) eqn:E; [|reflexivity]. apply N.eqb_eq in E. subst c. now elim K. Qed.
Lemma not_at c : classify c <> KAt -> (c =? ch_at) = false.
Proof. intros K. destruct (c =? ch_at) eqn:E; [|reflexivity]. apply N.eqb_eq in E. subst c. now elim K. Qed.
Lemma not_sep1 c : classify c <> KSep -> is_sep1 c = false.
Proof.
  intros K. destruct (is_sep1 c) eqn:E; [|reflexivity]. elim K. apply is_sep_classify.
  unfold is_sep1 in E. unfold is_sep. lia.
Qed.

Theorem parse_eq_grammar s : parse s = lift (grammar s).
Proof.
  unfold parse, grammar. rewrite precheck_strip_ws, run_strip_ws.
  change (let* p := run init_state (strip_ws s) in finish p) with (run_finish init_state (strip_ws s)).
  pose proof (no_ws_strip s) as NW. destruct (strip_ws s) as [|c r]; [reflexivity|].
  apply no_ws_cons in NW as [W NW]. unfold gparse.
  pose proof (classify_spec c) as CS. rewrite run_finish_cons. unfold step, init_state.
  destruct (classify c) eqn:K.
  - congruence.
  - (* '@' *) subst c. change (first_ok ch_at) with true. change (ch_at =? ch_at) with true. cbn [cur_state].
    destruct r as [|c1 r1]; [reflexivity|]. apply no_ws_cons in NW as [W1 NW].
    rewrite run_finish_cons. unfold step.
    pose proof (classify_spec c1) as CS1. destruct (classify c1) eqn:K1;
      try (rewrite (not_lb c1) by congruence; reflexivity).
    { congruence. }
    subst c1. change (ch_lb =? ch_lb) with true. cbn [handle_left_bracket].
    rewrite (slice_run true) by exact NW. unfold g_slice_val.
    destruct (g_slice r1) as [[es r2]|] eqn:GS; [|reflexivity].
    destruct (g_slice_ok _ _ _ GS) as ((sl & SE & CE) & LEN2 & NW2). specialize (NW2 NW). rewrite SE.
    destruct r2 as [|c2 r3]; [reflexivity|]. apply no_ws_cons in NW2 as [W2 NW2].
    rewrite run_finish_cons. unfold step.
    pose proof (classify_spec c2) as CS2. destruct (classify c2) eqn:K2;
      try (rewrite (not_sep1 c2) by congruence; reflexivity).
    { congruence. }
    destruct CS2 as [CS2 _]. apply is_sep_cases in CS2 as [-> | [-> | ->]].
    + change (is_sep1 ch_slash) with true. cbn [handle_separator]. change (ch_slash =? ch_dot) with false. cbn match.
      rewrite CE. cbn [bind].
      rewrite (comps_loop (S (length (ch_slash :: r3))) r3 [] _ ch_slash _ _ NW2 eq_refl eq_refl) by (cbn; unfold char; lia).
      cbn [app]; destruct (g_comps _ _); reflexivity.
    + reflexivity.
    + change (is_sep1 ch_gt) with true. cbn [handle_separator]. change (ch_gt =? ch_dot) with false. cbn match.
      rewrite CE. cbn [bind].
      rewrite (comps_loop (S (length (ch_gt :: r3))) r3 [] _ ch_gt _ _ NW2 eq_refl eq_refl) by (cbn; unfold char; lia).
      cbn [app]; destruct (g_comps _ _); reflexivity.
  - subst c. reflexivity.
  - subst c. reflexivity.
  - subst c. reflexivity.
  - destruct CS as [CS _]. apply is_sep_cases in CS as [-> | [-> | ->]].
    + change (first_ok ch_slash) with true. cbn [handle_separator negb create_slice_object bind].
      change (ch_slash =? ch_dot) with false. cbn [negb bind].
      rewrite (comps_loop (S (length (ch_slash :: r))) r [] _ ch_slash _ _ NW eq_refl eq_refl) by (cbn; unfold char; lia).
      cbn [app]; destruct (g_comps _ _); reflexivity.
    + reflexivity.
    + change (first_ok ch_gt) with true. cbn [handle_separator negb create_slice_object bind].
      change (ch_gt =? ch_dot) with false. cbn [negb bind].
      rewrite (comps_loop (S (length (ch_gt :: r))) r [] _ ch_gt _ _ NW eq_refl eq_refl) by (cbn; unfold char; lia).
      cbn [app]; destruct (g_comps _ _); reflexivity.
  - rewrite (not_at c) by congruence. rewrite (not_sep1 c) by congruence.
    assert (F : first_ok c = id0_start c).
    { unfold first_ok, id0_start. rewrite (not_at c) by congruence.
      pose proof (not_sep1 c) as N1. unfold is_sep1 in N1. apply Bool.orb_false_iff in N1 as [-> ->]; [|congruence].
      reflexivity. }
    rewrite F. destruct (id0_start c); [|reflexivity].
    cbn [cur_state handle_separator negb create_slice_object bind]. change (ch_gt =? ch_dot) with false. cbn [negb bind app].
    assert (T : forallb idchar [c] = true) by (cbn; rewrite CS; reflexivity).
    rewrite (comps_loop (S (S (length (c :: r)))) r [c] _ ch_gt _ _ NW T eq_refl) by (cbn; unfold char; lia).
    cbn [app]; destruct (g_comps _ _); reflexivity.
Qed.
