(* PathProofs.v — the parser model refines the grammar (C15). *)
From PBK Require Import Base PathParser PathGrammar.
From Coq Require Import ZifyBool ZifyNat ZifyN.

Local Open Scope N_scope.

(* ------------------------------------------------------------------------- *)
(* characters                                                                 *)
(* ------------------------------------------------------------------------- *)
Lemma is_sep_cases c : is_sep c = true -> c = ch_slash \/ c = ch_dot \/ c = ch_gt.
Proof. unfold is_sep, ch_slash, ch_dot, ch_gt. lia. Qed.

Lemma classify_spec c :
  match classify c with
  | KWs => is_ws c = true
  | KAt => c = ch_at
  | KLb => c = ch_lb
  | KColon => c = ch_colon
  | KRb => c = ch_rb
  | KSep => is_sep c = true /\ is_ws c = false
  | KOther => idchar c = true
  end.
Proof.
  unfold classify, idchar, is_struct, is_sep.
  destruct (is_ws c) eqn:W; [reflexivity|].
  destruct (c =? ch_at) eqn:E1; [apply N.eqb_eq in E1; exact E1|].
  destruct (c =? ch_lb) eqn:E2; [apply N.eqb_eq in E2; exact E2|].
  destruct (c =? ch_colon) eqn:E3; [apply N.eqb_eq in E3; exact E3|].
  destruct (c =? ch_rb) eqn:E4; [apply N.eqb_eq in E4; exact E4|].
  destruct ((c =? ch_slash) || (c =? ch_dot) || (c =? ch_gt)) eqn:E5.
  - split; first [exact E5|reflexivity].
  - cbn. apply Bool.orb_false_iff in E5 as [E5 E7]. apply Bool.orb_false_iff in E5 as [E5 E6].
    rewrite E5, E6, E7. reflexivity.
Qed.

Lemma idchar_classify c : idchar c = true -> classify c = KOther.
Proof.
  unfold idchar, is_struct, classify. intros H.
  apply Bool.andb_true_iff in H as [W S]. apply Bool.negb_true_iff in W. apply Bool.negb_true_iff in S.
  rewrite W.
  destruct (c =? ch_at); [discriminate|]. destruct (c =? ch_lb); [discriminate|].
  destruct (c =? ch_rb); [discriminate|]. destruct (c =? ch_colon); [discriminate|].
  cbn in S. rewrite S. reflexivity.
Qed.

Lemma idchar_not_ws c : idchar c = true -> is_ws c = false.
Proof. unfold idchar. intros H. apply Bool.andb_true_iff in H as [W _]. now apply Bool.negb_true_iff in W. Qed.

Definition no_ws (l : list char) : Prop := forallb (fun c => negb (is_ws c)) l = true.

Lemma no_ws_cons c l : no_ws (c :: l) <-> is_ws c = false /\ no_ws l.
Proof.
  unfold no_ws. cbn. rewrite Bool.andb_true_iff, Bool.negb_true_iff. reflexivity.
Qed.

Lemma no_ws_app a b : no_ws (a ++ b) <-> no_ws a /\ no_ws b.
Proof. unfold no_ws. rewrite forallb_app, Bool.andb_true_iff. reflexivity. Qed.

Lemma no_ws_strip s : no_ws (strip_ws s).
Proof.
  unfold no_ws, strip_ws. apply forallb_forall. intros c H. apply filter_In in H. tauto.
Qed.

(* ------------------------------------------------------------------------- *)
(* span                                                                        *)
(* ------------------------------------------------------------------------- *)
Lemma span_spec f l a r : span f l = (a, r) ->
  l = a ++ r /\ forallb f a = true /\ match r with [] => True | h :: _ => f h = false end.
Proof.
  revert a r. induction l as [|c l IH]; intros a r H; cbn in H.
  - injection H as <- <-. auto.
  - destruct (f c) eqn:F.
    + destruct (span f l) as [a' b'] eqn:S. injection H as <- <-.
      destruct (IH _ _ eq_refl) as (E & A & R). subst l. cbn. rewrite F. auto.
    + injection H as <- <-. cbn. rewrite F. auto.
Qed.

Lemma span_app_all f t r : forallb f t = true ->
  span f (t ++ r) = let '(a, b) := span f r in (t ++ a, b).
Proof.
  induction t as [|c t IH]; intros H; cbn.
  - destruct (span f r); reflexivity.
  - cbn in H. apply Bool.andb_true_iff in H as [Hc Ht]. rewrite Hc, (IH Ht).
    destruct (span f r); reflexivity.
Qed.

Lemma span_length f l a r : span f l = (a, r) -> (length r <= length l)%nat.
Proof. intros H. apply span_spec in H as (E & _ & _). subst l. rewrite app_length. lia. Qed.

(* ------------------------------------------------------------------------- *)
(* running the machine                                                         *)
(* ------------------------------------------------------------------------- *)
Definition run_finish (p : pstate) (l : list char) : result path :=
  let* q := run p l in finish q.

Definition lift (o : option path) : result path :=
  match o with Some p => Ok p | None => Err EPathExpr end.

Lemma run_finish_nil p : run_finish p [] = finish p.
Proof. reflexivity. Qed.

Lemma run_finish_cons p c l :
  run_finish p (c :: l) = match step p c with Ok p' => run_finish p' l | Err e => Err e end.
Proof. unfold run_finish. cbn. destruct (step p c); reflexivity. Qed.

Lemma run_finish_app p a b q : run p a = Ok q -> run_finish p (a ++ b) = run_finish q b.
Proof.
  revert p. induction a as [|c a IH]; intros p H; cbn in H.
  - injection H as <-. reflexivity.
  - cbn [app]. rewrite run_finish_cons. destruct (step p c) as [p'|e]; [|discriminate]. now apply IH.
Qed.

Definition accum (st : pst) : bool :=
  match st with StId | StSubSl0 | StSubSlX | StSl0 | StSlX => true | _ => false end.

Lemma step_idchar st tok id sep es sub cs c :
  accum st = true -> idchar c = true ->
  step (mkP st tok id sep es sub cs) c = Ok (mkP st (tok ++ [c]) id sep es sub cs).
Proof.
  intros A I. unfold step. rewrite (idchar_classify _ I). destruct st; try discriminate; reflexivity.
Qed.

Lemma run_idchars a : forall st tok id sep es sub cs,
  accum st = true -> forallb idchar a = true ->
  run (mkP st tok id sep es sub cs) a = Ok (mkP st (tok ++ a) id sep es sub cs).
Proof.
  induction a as [|c a IH]; intros st tok id sep es sub cs A H.
  - cbn. now rewrite app_nil_r.
  - cbn in H. apply Bool.andb_true_iff in H as [Hc Ha]. cbn [run].
    rewrite (step_idchar _ _ _ _ _ _ _ _ A Hc), (IH _ _ _ _ _ _ _ A Ha), <- app_assoc. reflexivity.
Qed.

(* white space is a no-op of the loop *)
Lemma run_strip_ws s : forall p, run p s = run p (strip_ws s).
Proof.
  induction s as [|c s IH]; intros p; [reflexivity|].
  cbn [strip_ws filter]. destruct (is_ws c) eqn:W; cbn [negb].
  - cbn [run]. unfold step, classify. rewrite W. apply IH.
  - cbn [run]. destruct (step p c); [apply IH|reflexivity].
Qed.

(* ------------------------------------------------------------------------- *)
(* more than three slice parts: the machine can only fail from here           *)
(* ------------------------------------------------------------------------- *)
Definition doomed (p : pstate) : Prop :=
  match cur_state p with
  | StSlX | StSubSlX => (3 <= length (cur_elems p))%nat
  | StStop | StSubStop => (4 <= length (cur_elems p))%nat
  | _ => False
  end.

Lemma create_slice_4 es : (4 <= length es)%nat -> create_slice_object es = perr.
Proof. destruct es as [|a [|b [|c [|d es]]]]; cbn; intros; try lia; reflexivity. Qed.

Lemma convert_slice_element_cases tok :
  convert_slice_element tok = perr \/ exists e, convert_slice_element tok = Ok e.
Proof.
  unfold convert_slice_element. destruct tok; [right; eauto|]. destruct (py_int _); [right; eauto|left; reflexivity].
Qed.

Lemma doomed_step p c : doomed p -> step p c = perr \/ exists p', step p c = Ok p' /\ doomed p'.
Proof.
  destruct p as [st tok id sep es sub cs]. unfold doomed. cbn [cur_state cur_elems]. intros D.
  unfold step. destruct (classify c) eqn:K; cbn [cur_state].
  - right. eexists; split; [reflexivity|exact D].
  - destruct st; try contradiction; left; reflexivity.
  - destruct st; try contradiction; left; reflexivity.
  - destruct st; try contradiction; try (left; reflexivity); cbn [handle_colon_rb andb]; rewrite ?Bool.andb_false_r;
      destruct (convert_slice_element_cases tok) as [E|[e E]]; rewrite E; cbn [bind];
      try (left; reflexivity); right; eexists; (split; [reflexivity|]); cbn; rewrite app_length; cbn; lia.
  - destruct st; try contradiction; try (left; reflexivity); cbn [handle_colon_rb andb]; rewrite ?Bool.andb_false_r;
      destruct (convert_slice_element_cases tok) as [E|[e E]]; rewrite E; cbn [bind];
      try (left; reflexivity); right; eexists; (split; [reflexivity|]); cbn; rewrite app_length; cbn; lia.
  - destruct st; try contradiction; try (left; reflexivity); left; cbn [handle_separator add_new_path_component];
      rewrite (create_slice_4 _ D); [destruct (c =? ch_dot); reflexivity | reflexivity].
  - destruct st; try contradiction; try (left; reflexivity). 
    all: right; eexists; (split; [reflexivity|]); exact D.
Qed.

Lemma doomed_finish p : doomed p -> finish p = perr.
Proof.
  destruct p as [st tok id sep es sub cs]. unfold doomed, finish. cbn [cur_state cur_elems]. intros D.
  destruct st; try contradiction; try reflexivity.
  cbn [add_new_path_component]. rewrite (create_slice_4 _ D). reflexivity.
Qed.

Lemma doomed_run l : forall p, doomed p -> run_finish p l = perr.
Proof.
  induction l as [|c l IH]; intros p D.
  - rewrite run_finish_nil. now apply doomed_finish.
  - rewrite run_finish_cons. destruct (doomed_step p c D) as [E|(p' & E & D')]; rewrite E; [reflexivity|now apply IH].
Qed.

Definition slice_state (st : pst) : bool :=
  match st with StSl0 | StSlX | StSubSl0 | StSubSlX => true | _ => false end.
Definition st_colon (st : pst) : pst :=
  match st with StSubSl0 => StSubSlX | StSl0 => StSlX | _ => st end.
Definition st_rb (st : pst) : pst :=
  match st with StSubSl0 | StSubSlX => StSubStop | _ => StStop end.
Definition st_first (st : pst) : bool :=
  match st with StSl0 | StSubSl0 => true | _ => false end.
Definition is_none {A} (a : option A) : bool := match a with None => true | _ => false end.

Lemma slice_state_accum st : slice_state st = true -> accum st = true.
Proof. destruct st; cbn; congruence. Qed.

(* one index of a slice: the token and the character that ends it *)
Lemma part st id sep es sub cs l :
  slice_state st = true -> no_ws l ->
  run_finish (mkP st [] id sep es sub cs) l =
  match g_oint l with
  | None => perr
  | Some (a, r) =>
    match r with
    | [] => perr
    | h :: r' =>
      if h =? ch_rb then
        (if st_first st && is_none a then perr
         else run_finish (mkP (st_rb st) [] id sep (es ++ [a]) sub cs) r')
      else if h =? ch_colon then run_finish (mkP (st_colon st) [] id sep (es ++ [a]) sub cs) r'
      else perr
    end
  end.
Proof.
  intros SS NW. unfold g_oint. destruct (span idchar l) as [t r] eqn:S.
  apply span_spec in S as (E & T & R). subst l.
  rewrite (run_finish_app _ t r _ (run_idchars t _ _ _ _ _ _ _ (slice_state_accum _ SS) T)). cbn [app].
  apply no_ws_app in NW as [_ NW].
  destruct r as [|h r'].
  - rewrite run_finish_nil. unfold finish. cbn [cur_state].
    destruct t; [|destruct (py_int _)]; destruct st; try discriminate; reflexivity.
  - apply no_ws_cons in NW as [W NW]. rewrite run_finish_cons. unfold step.
    pose proof (classify_spec h) as CS. destruct (classify h) eqn:K.
    + congruence.
    + subst h. cbn [cur_state]. change (ch_at =? ch_rb) with false. change (ch_at =? ch_colon) with false.
      destruct t; [|destruct (py_int _)]; destruct st; try discriminate; reflexivity.
    + subst h. change (ch_lb =? ch_rb) with false. change (ch_lb =? ch_colon) with false.
      destruct t; [|destruct (py_int _)]; destruct st; try discriminate; reflexivity.
    + subst h. change (ch_colon =? ch_rb) with false. change (ch_colon =? ch_colon) with true.
      destruct t as [|c0 t]; [|cbn [handle_colon_rb convert_slice_element andb is_nil]; destruct (py_int _)];
        destruct st; try discriminate; reflexivity.
    + subst h. change (ch_rb =? ch_rb) with true.
      destruct t as [|c0 t]; [|cbn [handle_colon_rb convert_slice_element andb is_nil]; destruct (py_int _)];
        destruct st; try discriminate; reflexivity.
    + destruct CS as [CS _]. apply is_sep_cases in CS as [-> | [-> | ->]]; cbn;
        (destruct t; [|destruct (py_int _)]); destruct st; try discriminate; reflexivity.
    + congruence.
Qed.

Lemma g_oint_rest l a r : g_oint l = Some (a, r) -> exists t, l = t ++ r.
Proof.
  unfold g_oint. destruct (span idchar l) as [t r0] eqn:S. apply span_spec in S as (E & _ & _).
  destruct t; [|destruct (py_int _)]; intros H; try discriminate; injection H as <- <-; eauto.
Qed.

Lemma g_oint_no_ws l a r : g_oint l = Some (a, r) -> no_ws l -> no_ws r.
Proof. intros H NW. apply g_oint_rest in H as [t ->]. now apply no_ws_app in NW. Qed.

Lemma slice_run (sb : bool) id sep sub cs l :
  no_ws l ->
  run_finish (mkP (if sb then StSubSl0 else StSl0) [] id sep [] sub cs) l =
  match g_slice l with
  | Some (es, r') => run_finish (mkP (if sb then StSubStop else StStop) [] id sep es sub cs) r'
  | None => perr
  end.
Proof.
  intros NW. rewrite part; [|destruct sb; reflexivity|exact NW]. unfold g_slice.
  destruct (g_oint l) as [[a r]|] eqn:G1; [|reflexivity].
  pose proof (g_oint_no_ws _ _ _ G1 NW) as NW1.
  destruct r as [|h r']; [reflexivity|]. apply no_ws_cons in NW1 as [_ NW1].
  destruct (h =? ch_rb).
  { destruct a; destruct sb; reflexivity. }
  destruct (h =? ch_colon); [|reflexivity].
  rewrite part; [|destruct sb; reflexivity|exact NW1].
  destruct (g_oint r') as [[b r2]|] eqn:G2; [|reflexivity].
  pose proof (g_oint_no_ws _ _ _ G2 NW1) as NW2.
  destruct r2 as [|h2 r2']; [reflexivity|]. apply no_ws_cons in NW2 as [_ NW2].
  destruct (h2 =? ch_rb).
  { destruct sb; reflexivity. }
  destruct (h2 =? ch_colon); [|reflexivity].
  rewrite part; [|destruct sb; reflexivity|exact NW2].
  destruct (g_oint r2') as [[c r3]|] eqn:G3; [|reflexivity].
  pose proof (g_oint_no_ws _ _ _ G3 NW2) as NW3.
  destruct r3 as [|h3 r3']; [reflexivity|].
  destruct (h3 =? ch_rb).
  { destruct sb; reflexivity. }
  destruct (h3 =? ch_colon); [|reflexivity].
  apply doomed_run. destruct sb; cbn; lia.
Qed.

Lemma create_slice_of_int k : create_slice_object [Some k] = Ok (slice_of_int k).
Proof. unfold create_slice_object, slice_of_int. destruct (0 <=? k)%Z, (k =? -1)%Z; reflexivity. Qed.

Lemma g_slice_ok l es r' : g_slice l = Some (es, r') ->
  (exists s, slice_of_elems es = Some s /\ create_slice_object es = Ok s) /\
  (length r' < length l)%nat /\ (no_ws l -> no_ws r').
Proof.
  unfold g_slice.
  destruct (g_oint l) as [[a r]|] eqn:G1; [|discriminate].
  destruct (g_oint_rest _ _ _ G1) as [t1 E1].
  destruct r as [|h r1]; [discriminate|].
  destruct (h =? ch_rb).
  { destruct a as [k|]; [|discriminate]. intros H; injection H as <- <-. split; [|split].
    - eexists; split; [reflexivity|apply create_slice_of_int].
    - subst l. rewrite app_length. cbn. lia.
    - subst l. intros NW. apply no_ws_app in NW as [_ NW]. now apply no_ws_cons in NW. }
  destruct (h =? ch_colon); [|discriminate].
  destruct (g_oint r1) as [[b r2]|] eqn:G2; [|discriminate].
  destruct (g_oint_rest _ _ _ G2) as [t2 E2].
  destruct r2 as [|h2 r3]; [discriminate|].
  destruct (h2 =? ch_rb).
  { intros H; injection H as <- <-. split; [|split].
    - destruct a; eexists; split; reflexivity.
    - subst l r1. rewrite !app_length. cbn. rewrite !app_length. cbn. lia.
    - subst l r1. intros NW. apply no_ws_app in NW as [_ NW]. apply no_ws_cons in NW as [_ NW].
      apply no_ws_app in NW as [_ NW]. now apply no_ws_cons in NW. }
  destruct (h2 =? ch_colon); [|discriminate].
  destruct (g_oint r3) as [[c r4]|] eqn:G3; [|discriminate].
  destruct (g_oint_rest _ _ _ G3) as [t3 E3].
  destruct r4 as [|h4 r5]; [discriminate|].
  destruct (h4 =? ch_rb); [|discriminate].
  intros H; injection H as <- <-. split; [|split].
  - destruct a; eexists; split; reflexivity.
  - subst l r1 r3. rewrite !app_length. cbn. rewrite !app_length. cbn. rewrite !app_length. cbn. lia.
  - subst l r1 r3. intros NW. apply no_ws_app in NW as [_ NW]. apply no_ws_cons in NW as [_ NW].
    apply no_ws_app in NW as [_ NW]. apply no_ws_cons in NW as [_ NW].
    apply no_ws_app in NW as [_ NW]. now apply no_ws_cons in NW.
Qed.

Lemma is_sep_classify c : is_sep c = true -> classify c = KSep.
Proof. intros H. apply is_sep_cases in H as [-> | [-> | ->]]; reflexivity. Qed.

Lemma not_sep_g_comps f h r : classify h <> KSep -> g_comps f (h :: r) = None.
Proof.
  intros K. destruct f; [reflexivity|]. cbn [g_comps].
  destruct (is_sep h) eqn:S; [apply is_sep_classify in S; congruence|reflexivity].
Qed.

Lemma sep_not_lb c : is_sep c = true -> (c =? ch_lb) = false.
Proof. intros H. apply is_sep_cases in H as [-> | [-> | ->]]; reflexivity. Qed.

Lemma g_comps_nil f : g_comps f [] = Some [].
Proof. destruct f; reflexivity. Qed.

Lemma comps_loop fuel : forall r t id0 sep sub cs,
  no_ws r -> forallb idchar t = true -> is_sep sep = true -> (length r < fuel)%nat ->
  run_finish (mkP StId t id0 sep [] sub cs) r =
  match g_comps fuel (sep :: t ++ r) with
  | Some cs' => Ok (mkPath sub (cs ++ cs'))
  | None => perr
  end.
Proof.
  induction fuel as [|f IH]; intros r t id0 sep sub cs NW T SEP LEN; [lia|].
  cbn [g_comps]. rewrite SEP. rewrite (span_app_all _ _ _ T).
  destruct (span idchar r) as [a r1] eqn:S. apply span_spec in S as (E & A & R). subst r.
  rewrite (run_finish_app _ a r1 _ (run_idchars a StId t id0 sep [] sub cs eq_refl A)).
  apply no_ws_app in NW as [_ NW]. rewrite app_length in LEN.
  remember (t ++ a) as id eqn:ID. clear ID T A.
  destruct r1 as [|h r1'].
  - rewrite run_finish_nil. destruct id; [reflexivity|]. cbn [g_oslice]. rewrite g_comps_nil. reflexivity.
  - apply no_ws_cons in NW as [W NW]. rewrite run_finish_cons. unfold step.
    pose proof (classify_spec h) as CS. destruct (classify h) eqn:K.
    + congruence.
    + subst h. cbn [cur_state]. destruct id; [reflexivity|]. cbn [g_oslice]. change (ch_at =? ch_lb) with false.
      cbn match. rewrite not_sep_g_comps; [reflexivity|discriminate].
    + (* '[' *) subst h. destruct id as [|i0 id]; [reflexivity|].
      cbn [handle_left_bracket convert_id bind]. rewrite (slice_run false) by exact NW.
      cbn [g_oslice]. change (ch_lb =? ch_lb) with true. cbn match. unfold g_slice_val.
      destruct (g_slice r1') as [[es r2]|] eqn:GS; [|reflexivity].
      destruct (g_slice_ok _ _ _ GS) as ((s & SE & CE) & LEN2 & NW2). specialize (NW2 NW). rewrite SE.
      destruct r2 as [|h2 r3].
      * rewrite run_finish_nil. unfold finish. cbn [cur_state add_new_path_component]. rewrite CE, g_comps_nil. reflexivity.
      * apply no_ws_cons in NW2 as [W2 NW2]. rewrite run_finish_cons. unfold step.
        pose proof (classify_spec h2) as CS2. destruct (classify h2) eqn:K2;
          try (rewrite not_sep_g_comps by congruence; reflexivity).
        { congruence. }
        destruct CS2 as [CS2 _]. cbn [handle_separator add_new_path_component]. rewrite CE. cbn [bind].
        rewrite (IH r3 [] _ h2 sub _ NW2 eq_refl CS2) by (cbn in LEN, LEN2; lia).
        cbn [app]. destruct (g_comps f (h2 :: r3)); [|reflexivity]. rewrite <- app_assoc. reflexivity.
    + subst h. cbn [cur_state]. destruct id; [reflexivity|]. cbn [g_oslice]. change (ch_colon =? ch_lb) with false.
      cbn match. rewrite not_sep_g_comps; [reflexivity|discriminate].
    + subst h. cbn [cur_state]. destruct id; [reflexivity|]. cbn [g_oslice]. change (ch_rb =? ch_lb) with false.
      cbn match. rewrite not_sep_g_comps; [reflexivity|discriminate].
    + (* separator *) destruct CS as [CS _]. destruct id as [|i0 id]; [reflexivity|].
      cbn [handle_separator convert_id add_new_path_component create_slice_object bind].
      rewrite (IH r1' [] _ h sub _ NW eq_refl CS) by (cbn in LEN; lia).
      cbn [g_oslice]. rewrite (sep_not_lb _ CS). cbn [app].
      destruct (g_comps f (h :: r1')); [|reflexivity]. rewrite <- app_assoc. reflexivity.
    + congruence.
Qed.

Lemma rstrip_head f c r : f c = false -> exists r', rstrip f (c :: r) = c :: r'.
Proof. intros F. cbn. destruct (rstrip f r); rewrite ?F; eauto. Qed.

Lemma precheck_strip_ws s :
  precheck is_ws s = match strip_ws s with [] => false | c :: _ => first_ok c end.
Proof.
  unfold precheck, strip. induction s as [|c s IH]; [reflexivity|].
  cbn [lstrip strip_ws filter]. destruct (is_ws c) eqn:W; cbn [negb].
  - exact IH.
  - destruct (rstrip_head is_ws c s W) as [r' ->]. reflexivity.
Qed.

Lemma not_lb c : classify c <> KLb -> (c =? ch_lb) = false.
Proof. intros K. destruct (c =? ch_lb) eqn:E; [|reflexivity]. apply N.eqb_eq in E. subst c. now elim K. Qed.
Lemma not_at c : classify c <> KAt -> (c =? ch_at) = false.
Proof. intros K. destruct (c =? ch_at) eqn:E; [|reflexivity]. apply N.eqb_eq in E. subst c. now elim K. Qed.
Lemma not_sep1 c : classify c <> KSep -> is_sep1 c = false.
Proof.
  intros K. destruct (is_sep1 c) eqn:E; [|reflexivity]. elim K. apply is_sep_classify.
  unfold is_sep1 in E. unfold is_sep. lia.
Qed.

Theorem parse_eq_grammar s : parse s = lift (grammar s).
Proof.
  unfold parse, grammar. rewrite precheck_strip_ws, run_strip_ws.
  change (let* p := run init_state (strip_ws s) in finish p) with (run_finish init_state (strip_ws s)).
  pose proof (no_ws_strip s) as NW. destruct (strip_ws s) as [|c r]; [reflexivity|].
  apply no_ws_cons in NW as [W NW]. unfold gparse.
  pose proof (classify_spec c) as CS. rewrite run_finish_cons. unfold step, init_state.
  destruct (classify c) eqn:K.
  - congruence.
  - (* '@' *) subst c. change (first_ok ch_at) with true. change (ch_at =? ch_at) with true. cbn [cur_state].
    destruct r as [|c1 r1]; [reflexivity|]. apply no_ws_cons in NW as [W1 NW].
    rewrite run_finish_cons. unfold step.
    pose proof (classify_spec c1) as CS1. destruct (classify c1) eqn:K1;
      try (rewrite (not_lb c1) by congruence; reflexivity).
    { congruence. }
    subst c1. change (ch_lb =? ch_lb) with true. cbn [handle_left_bracket].
    rewrite (slice_run true) by exact NW. unfold g_slice_val.
    destruct (g_slice r1) as [[es r2]|] eqn:GS; [|reflexivity].
    destruct (g_slice_ok _ _ _ GS) as ((sl & SE & CE) & LEN2 & NW2). specialize (NW2 NW). rewrite SE.
    destruct r2 as [|c2 r3]; [reflexivity|]. apply no_ws_cons in NW2 as [W2 NW2].
    rewrite run_finish_cons. unfold step.
    pose proof (classify_spec c2) as CS2. destruct (classify c2) eqn:K2;
      try (rewrite (not_sep1 c2) by congruence; reflexivity).
    { congruence. }
    destruct CS2 as [CS2 _]. apply is_sep_cases in CS2 as [-> | [-> | ->]].
    + change (is_sep1 ch_slash) with true. cbn [handle_separator]. change (ch_slash =? ch_dot) with false. cbn match.
      rewrite CE. cbn [bind].
      rewrite (comps_loop (S (length (ch_slash :: r3))) r3 [] _ ch_slash _ _ NW2 eq_refl eq_refl) by (cbn; unfold char; lia).
      cbn [app]; destruct (g_comps _ _); reflexivity.
    + reflexivity.
    + change (is_sep1 ch_gt) with true. cbn [handle_separator]. change (ch_gt =? ch_dot) with false. cbn match.
      rewrite CE. cbn [bind].
      rewrite (comps_loop (S (length (ch_gt :: r3))) r3 [] _ ch_gt _ _ NW2 eq_refl eq_refl) by (cbn; unfold char; lia).
      cbn [app]; destruct (g_comps _ _); reflexivity.
  - subst c. reflexivity.
  - subst c. reflexivity.
  - subst c. reflexivity.
  - destruct CS as [CS _]. apply is_sep_cases in CS as [-> | [-> | ->]].
    + change (first_ok ch_slash) with true. cbn [handle_separator negb create_slice_object bind].
      change (ch_slash =? ch_dot) with false. cbn [negb bind].
      rewrite (comps_loop (S (length (ch_slash :: r))) r [] _ ch_slash _ _ NW eq_refl eq_refl) by (cbn; unfold char; lia).
      cbn [app]; destruct (g_comps _ _); reflexivity.
    + reflexivity.
    + change (first_ok ch_gt) with true. cbn [handle_separator negb create_slice_object bind].
      change (ch_gt =? ch_dot) with false. cbn [negb bind].
      rewrite (comps_loop (S (length (ch_gt :: r))) r [] _ ch_gt _ _ NW eq_refl eq_refl) by (cbn; unfold char; lia).
      cbn [app]; destruct (g_comps _ _); reflexivity.
  - rewrite (not_at c) by congruence. rewrite (not_sep1 c) by congruence.
    assert (F : first_ok c = id0_start c).
    { unfold first_ok, id0_start. rewrite (not_at c) by congruence.
      pose proof (not_sep1 c) as N1. unfold is_sep1 in N1. apply Bool.orb_false_iff in N1 as [-> ->]; [|congruence].
      reflexivity. }
    rewrite F. destruct (id0_start c); [|reflexivity].
    cbn [cur_state handle_separator negb create_slice_object bind]. change (ch_gt =? ch_dot) with false. cbn [negb bind app].
    assert (T : forallb idchar [c] = true) by (cbn; rewrite CS; reflexivity).
    rewrite (comps_loop (S (S (length (c :: r)))) r [c] _ ch_gt _ _ NW T eq_refl) by (cbn; unfold char; lia).
    cbn [app]; destruct (g_comps _ _); reflexivity.
Qed.

(* ------------------------------------------------------------------------- *)
(* the recogniser decides the relation                                         *)
(* ------------------------------------------------------------------------- *)
Definition stops (r : list char) : Prop :=
  match r with [] => True | h :: _ => idchar h = false end.

Lemma span_exact f t r : forallb f t = true ->
  match r with [] => True | h :: _ => f h = false end -> span f (t ++ r) = (t, r).
Proof.
  intros T R. rewrite (span_app_all _ _ _ T).
  destruct r as [|h r]; cbn; [now rewrite app_nil_r|]. rewrite R. now rewrite app_nil_r.
Qed.

Lemma g_oint_sound l a r : g_oint l = Some (a, r) -> exists t, l = t ++ r /\ OInt t a /\ stops r.
Proof.
  unfold g_oint. destruct (span idchar l) as [t r0] eqn:S. apply span_spec in S as (E & T & R).
  destruct t as [|c t].
  - intros H; injection H as <- <-. exists []. repeat split; [exact E|constructor|exact R].
  - destruct (py_int (c :: t)) eqn:P; intros H; [|discriminate]. injection H as <- <-.
    exists (c :: t). repeat split; [exact E| now constructor |exact R].
Qed.

Lemma g_oint_complete t a r : OInt t a -> stops r -> g_oint (t ++ r) = Some (a, r).
Proof.
  intros H R. unfold g_oint. destruct H as [|t k T P].
  - rewrite (span_exact idchar [] r eq_refl R). reflexivity.
  - rewrite (span_exact idchar t r T R). destruct t; [discriminate P|]. rewrite P. reflexivity.
Qed.

Lemma stops_rb r : stops (ch_rb :: r). Proof. reflexivity. Qed.
Lemma stops_colon r : stops (ch_colon :: r). Proof. reflexivity. Qed.

Lemma g_slice_sound l es r' s : g_slice l = Some (es, r') -> slice_of_elems es = Some s ->
  exists body, l = body ++ r' /\ SliceStr (ch_lb :: body) s.
Proof.
  unfold g_slice.
  destruct (g_oint l) as [[a r]|] eqn:G1; [|discriminate].
  destruct (g_oint_sound _ _ _ G1) as (t1 & E1 & O1 & _).
  destruct r as [|h r1]; [discriminate|].
  destruct (h =? ch_rb) eqn:H1.
  { apply N.eqb_eq in H1. subst h. destruct a as [k|]; [|discriminate]. intros H; injection H as <- <-.
    cbn. intros H; injection H as <-. exists (t1 ++ [ch_rb]). split.
    - rewrite <- app_assoc. exact E1.
    - apply (SS_1 t1 k O1). }
  destruct (h =? ch_colon) eqn:H2; [|discriminate]. apply N.eqb_eq in H2. subst h.
  destruct (g_oint r1) as [[b r2]|] eqn:G2; [|discriminate].
  destruct (g_oint_sound _ _ _ G2) as (t2 & E2 & O2 & _).
  destruct r2 as [|h2 r3]; [discriminate|].
  destruct (h2 =? ch_rb) eqn:H3.
  { apply N.eqb_eq in H3. subst h2. intros H; injection H as <- <-.
    intros H. assert (s = SSlice a b None) by (destruct a; cbn in H; congruence). subst s.
    exists (t1 ++ [ch_colon] ++ t2 ++ [ch_rb]). split.
    - subst l r1. rewrite <- !app_assoc. reflexivity.
    - apply (SS_2 t1 a t2 b O1 O2). }
  destruct (h2 =? ch_colon) eqn:H4; [|discriminate]. apply N.eqb_eq in H4. subst h2.
  destruct (g_oint r3) as [[c r4]|] eqn:G3; [|discriminate].
  destruct (g_oint_sound _ _ _ G3) as (t3 & E3 & O3 & _).
  destruct r4 as [|h4 r5]; [discriminate|].
  destruct (h4 =? ch_rb) eqn:H5; [|discriminate]. apply N.eqb_eq in H5. subst h4.
  intros H; injection H as <- <-.
  intros H. assert (s = SSlice a b c) by (destruct a; cbn in H; congruence). subst s.
  exists (t1 ++ [ch_colon] ++ t2 ++ [ch_colon] ++ t3 ++ [ch_rb]). split.
  - subst l r1 r3. rewrite <- !app_assoc. reflexivity.
  - apply (SS_3 t1 a t2 b t3 c O1 O2 O3).
Qed.

Lemma g_slice_complete sl s : SliceStr sl s -> forall r' : list char,
  exists body : list char, sl = ch_lb :: body /\ g_slice_val (body ++ r') = Some (s, r').
Proof.
  intros H r'. unfold g_slice_val, g_slice. destruct H as [t k O|ta a tb b Oa Ob|ta a tb b tc c Oa Ob Oc].
  - exists (t ++ [ch_rb]). split; [reflexivity|]. rewrite <- app_assoc. cbn [app]. 
    rewrite (g_oint_complete _ _ _ O (stops_rb r')). reflexivity.
  - exists (ta ++ [ch_colon] ++ tb ++ [ch_rb]). split; [reflexivity|]. rewrite <- !app_assoc. cbn [app].
    rewrite (g_oint_complete _ _ _ Oa (stops_colon _)). cbn match.
    change (ch_colon =? ch_rb) with false. change (ch_colon =? ch_colon) with true. cbn match.
    rewrite (g_oint_complete _ _ _ Ob (stops_rb r')). change (ch_rb =? ch_rb) with true. cbn match.
    destruct a; reflexivity.
  - exists (ta ++ [ch_colon] ++ tb ++ [ch_colon] ++ tc ++ [ch_rb]). split; [reflexivity|].
    rewrite <- !app_assoc. cbn [app].
    rewrite (g_oint_complete _ _ _ Oa (stops_colon _)). cbn match.
    change (ch_colon =? ch_rb) with false. change (ch_colon =? ch_colon) with true. cbn match.
    rewrite (g_oint_complete _ _ _ Ob (stops_colon _)). cbn match.
    change (ch_colon =? ch_rb) with false. change (ch_colon =? ch_colon) with true. cbn match.
    rewrite (g_oint_complete _ _ _ Oc (stops_rb r')). change (ch_rb =? ch_rb) with true. cbn match.
    destruct a; reflexivity.
Qed.

Lemma sep_not_idchar c : is_sep c = true -> idchar c = false.
Proof. intros H. apply is_sep_cases in H as [-> | [-> | ->]]; reflexivity. Qed.

Lemma comps_stops l cs : Comps l cs -> stops l.
Proof. intros H. destruct H; cbn; [exact I|now apply sep_not_idchar]. Qed.

Lemma comps_not_lb l cs : Comps l cs -> match l with [] => True | h :: _ => (h =? ch_lb) = false end.
Proof. intros H. destruct H; cbn; [exact I|now apply sep_not_lb]. Qed.

Lemma slicestr_head sl s : SliceStr sl s -> exists body, sl = ch_lb :: body.
Proof. intros H. destruct H; eexists; reflexivity. Qed.

Lemma g_oslice_sound l s r : g_oslice l = Some (s, r) -> exists sl, l = sl ++ r /\ OSlice sl s.
Proof.
  unfold g_oslice. destruct l as [|c l].
  - intros H; injection H as <- <-. exists []. split; [reflexivity|constructor].
  - destruct (c =? ch_lb) eqn:E.
    + apply N.eqb_eq in E. subst c. unfold g_slice_val.
      destruct (g_slice l) as [[es r']|] eqn:G; [|discriminate].
      destruct (slice_of_elems es) as [s'|] eqn:SE; [|discriminate].
      intros H; injection H as <- <-.
      destruct (g_slice_sound _ _ _ _ G SE) as (body & E & SS).
      exists (ch_lb :: body). split; [cbn; now rewrite E|now constructor].
    + intros H; injection H as <- <-. exists []. split; [reflexivity|constructor].
Qed.

Lemma g_comps_sound fuel : forall l cs, g_comps fuel l = Some cs -> Comps l cs.
Proof.
  induction fuel as [|f IH]; intros l cs; destruct l as [|c r]; cbn [g_comps].
  - intros H; injection H as <-. constructor.
  - discriminate.
  - intros H; injection H as <-. constructor.
  - destruct (is_sep c) eqn:SEP; [|discriminate].
    destruct (span idchar r) as [id r1] eqn:S. apply span_spec in S as (E & ID & _).
    destruct id as [|i0 id]; [discriminate|].
    destruct (g_oslice r1) as [[s r2]|] eqn:GO; [|discriminate].
    destruct (g_comps f r2) as [cs'|] eqn:GC; [|discriminate].
    intros H; injection H as <-.
    destruct (g_oslice_sound _ _ _ GO) as (sl & E2 & OS).
    subst r r1. apply C_cons; [exact SEP|split; [discriminate|exact ID]|exact OS|now apply IH].
Qed.

Lemma g_comps_complete l cs : Comps l cs -> forall fuel, (length l < fuel)%nat -> g_comps fuel l = Some cs.
Proof.
  induction 1 as [|sep id sl s rest cs SEP [NE ID] OS CR IH]; intros fuel LEN.
  - apply g_comps_nil.
  - destruct fuel as [|f]; [lia|]. cbn [g_comps]. rewrite SEP.
    cbn [length] in LEN. rewrite !app_length in LEN.
    assert (ST : stops (sl ++ rest)).
    { destruct OS as [|sl s SS]; [exact (comps_stops _ _ CR)|].
      destruct (slicestr_head _ _ SS) as [body ->]. reflexivity. }
    rewrite (span_exact idchar id (sl ++ rest) ID ST).
    destruct id as [|i0 id]; [now elim NE|].
    assert (GO : g_oslice (sl ++ rest) = Some (s, rest)).
    { destruct OS as [|sl s SS].
      - cbn [app]. pose proof (comps_not_lb _ _ CR) as NL. unfold g_oslice. destruct rest; [reflexivity|]. now rewrite NL.
      - destruct (g_slice_complete _ _ SS rest) as (body & -> & G). cbn [app g_oslice].
        change (ch_lb =? ch_lb) with true. exact G. }
    rewrite GO, IH by lia. reflexivity.
Qed.

Theorem gparse_iff_query w p : gparse w = Some p <-> Query w p.
Proof.
  split.
  - unfold gparse. destruct w as [|c r]; [discriminate|].
    destruct (c =? ch_at) eqn:A.
    { apply N.eqb_eq in A. subst c. destruct r as [|c1 r1]; [discriminate|].
      destruct (c1 =? ch_lb) eqn:B; [|discriminate]. apply N.eqb_eq in B. subst c1.
      unfold g_slice_val. destruct (g_slice r1) as [[es r2]|] eqn:G; [|discriminate].
      destruct (slice_of_elems es) as [s|] eqn:SE; [|discriminate].
      destruct r2 as [|c2 r3]; [discriminate|].
      destruct (is_sep1 c2) eqn:S1; [|discriminate].
      destruct (g_comps _ (c2 :: r3)) as [cs|] eqn:GC; [|discriminate].
      intros H; injection H as <-.
      destruct (g_slice_sound _ _ _ _ G SE) as (body & E & SS). subst r1.
      apply g_comps_sound in GC. inversion GC; subst.
      apply (Q_subset (ch_lb :: body) s _ _ _ SS GC). exact S1. }
    destruct (is_sep1 c) eqn:S1.
    { destruct (g_comps _ (c :: r)) as [cs|] eqn:GC; [|discriminate].
      intros H; injection H as <-. apply g_comps_sound in GC. inversion GC; subst.
      apply Q_sep; [exact GC|exact S1]. }
    destruct (id0_start c) eqn:I0; [|discriminate].
    destruct (g_comps _ (ch_gt :: c :: r)) as [cs|] eqn:GC; [|discriminate].
    intros H; injection H as <-. apply g_comps_sound in GC. now apply Q_bare.
  - intros H. destruct H as [sl s w c0 cs SS CM S1|w c0 cs CM S1|c w cs I0 CM].
    + destruct (g_slice_complete _ _ SS w) as (body & -> & G). cbn [app gparse].
      change (ch_at =? ch_at) with true. change (ch_lb =? ch_lb) with true. cbn match. rewrite G.
      inversion CM; subst. cbn [c_sep] in S1. rewrite S1.
      rewrite (g_comps_complete _ _ CM) by lia. reflexivity.
    + inversion CM; subst. cbn [c_sep] in S1. unfold gparse.
      assert (A : (sep =? ch_at) = false) by (unfold is_sep1, ch_slash, ch_gt, ch_at in *; lia).
      rewrite A, S1. rewrite (g_comps_complete _ _ CM) by lia. reflexivity.
    + unfold gparse.
      assert (A : (c =? ch_at) = false) by (unfold id0_start, is_digit, is_upper, ch_at in *; lia).
      assert (B : is_sep1 c = false) by (unfold id0_start, is_digit, is_upper, is_sep1, ch_slash, ch_gt in *; lia).
      rewrite A, B, I0. rewrite (g_comps_complete _ _ CM) by (cbn; lia). reflexivity.
Qed.

(* ------------------------------------------------------------------------- *)
(* the main theorems                                                           *)
(* ------------------------------------------------------------------------- *)
Theorem parse_iff_grammar s p : parse s = Ok p <-> Query (strip_ws s) p.
Proof.
  rewrite parse_eq_grammar. unfold grammar. rewrite <- gparse_iff_query.
  destruct (gparse (strip_ws s)); cbn; split; congruence.
Qed.

Theorem parse_error_class s e : parse s = Err e -> e = EPathExpr.
Proof. rewrite parse_eq_grammar. destruct (grammar s); cbn; congruence. Qed.

Corollary parse_assert_unreachable s : parse s <> Err EAssert.
Proof. intros H. apply parse_error_class in H. discriminate. Qed.

(* a string is rejected exactly when it is not in the grammar *)
Corollary parse_rejects_iff s : parse s = Err EPathExpr <-> forall p, ~ Query (strip_ws s) p.
Proof.
  split.
  - intros H p Q. apply parse_iff_grammar in Q. congruence.
  - intros H. destruct (parse s) as [p|e] eqn:P.
    + apply parse_iff_grammar in P. now elim (H p).
    + now rewrite (parse_error_class _ _ P).
Qed.

Lemma query_functional w p q : Query w p -> Query w q -> p = q.
Proof. rewrite <- !gparse_iff_query. congruence. Qed.

(* white space anywhere is ignored *)
Corollary parse_ignores_ws s : parse s = parse (strip_ws s).
Proof.
  rewrite !parse_eq_grammar. unfold grammar. f_equal. f_equal.
  unfold strip_ws. induction s as [|c s IH]; [reflexivity|]. cbn [filter].
  destruct (is_ws c) eqn:W; cbn [negb filter]; [exact IH|]. rewrite W. cbn [negb]. now rewrite <- IH.
Qed.

(* ------------------------------------------------------------------------- *)
(* D11: the code as found                                                      *)
(* ------------------------------------------------------------------------- *)
(* '@[0]' is accepted although it is not in the grammar; the result has no
   component and no subset slice, and its printout '' does not parse *)
Theorem parse_orig_accepts_unterminated_refuted :
  exists s p, parse_orig s = Ok p /\ (forall q, ~ Query (strip_ws s) q) /\
              parse_orig (to_string p) <> Ok p /\ parse s = Err EPathExpr.
Proof.
  exists [ch_at; ch_lb; ch_0; ch_rb], (mkPath None []).
  split; [vm_compute; reflexivity|]. split; [|split; [vm_compute; discriminate|vm_compute; reflexivity]].
  intros q Q. apply gparse_iff_query in Q. vm_compute in Q. discriminate.
Qed.

(* '/1[:' : the unterminated component is silently dropped *)
Theorem parse_orig_drops_component_refuted :
  exists s p, parse_orig s = Ok p /\ p_comps p = [] /\ (forall q, ~ Query (strip_ws s) q) /\
              parse s = Err EPathExpr.
Proof.
  exists [ch_slash; 49; ch_lb; ch_colon], (mkPath (Some slice_all) []).
  split; [vm_compute; reflexivity|]. split; [reflexivity|]. split; [|vm_compute; reflexivity].
  intros q Q. apply gparse_iff_query in Q. vm_compute in Q. discriminate.
Qed.

(* '\x1cA': str.strip() removes U+001C before the first-character test, the loop
   does not ignore it: the id is "\x1cA" *)
Theorem parse_orig_strip_refuted :
  exists s p, parse_orig s = Ok p /\ (forall q, ~ Query (strip_ws s) q) /\ parse s = Err EPathExpr.
Proof.
  exists [28; 65], (mkPath (Some slice_all) [mkComp ch_gt [28; 65] slice_all]).
  split; [vm_compute; reflexivity|]. split; [|vm_compute; reflexivity].
  intros q Q. apply gparse_iff_query in Q. vm_compute in Q. discriminate.
Qed.

(* ------------------------------------------------------------------------- *)
(* bounded sweeps inside Coq (independent of the inductive proof above)        *)
(* ------------------------------------------------------------------------- *)
Lemma strings_complete A n : forall s, length s = n -> (forall c, In c s -> In c A) -> In s (strings A n).
Proof.
  induction n as [|n IH]; intros s L H.
  - destruct s; [left; reflexivity|discriminate].
  - destruct s as [|c w]; [discriminate|]. cbn [strings]. apply in_flat_map. exists w. split.
    + apply IH; [now injection L|]. intros x X. apply H. now right.
    + apply (in_map (fun c => c :: w) A c). apply H. now left.
Qed.

Lemma sweep_lift (P : list char -> bool) n :
  forallb (fun k => forallb P (strings alphabet12 k)) (seq 0 (S n)) = true ->
  forall s, (length s <= n)%nat -> (forall c, In c s -> In c alphabet12) -> P s = true.
Proof.
  intros H s L A. rewrite forallb_forall in H. specialize (H (length s)).
  rewrite forallb_forall in H. apply H; [apply in_seq; lia|]. now apply strings_complete.
Qed.

Lemma sweep_agrees_5 : forallb (fun k => forallb agrees (strings alphabet12 k)) (seq 0 6) = true.
Proof. vm_compute. reflexivity. Qed.

Lemma sweep_reparses_5 : forallb (fun k => forallb reparses (strings alphabet12 k)) (seq 0 6) = true.
Proof. vm_compute. reflexivity. Qed.

(* every string of length <= 5 over { @ [ ] : / . > - 0 1 A space }: the parser's
   answer is exactly the recogniser's (same path, or EPathExpr) *)
Theorem parse_iff_grammar_upto5 : forall s, (length s <= 5)%nat ->
  (forall c, In c s -> In c alphabet12) -> agrees s = true.
Proof. exact (sweep_lift agrees 5 sweep_agrees_5). Qed.

Theorem parse_to_string_upto5 : forall s, (length s <= 5)%nat ->
  (forall c, In c s -> In c alphabet12) -> reparses s = true.
Proof. exact (sweep_lift reparses 5 sweep_reparses_5). Qed.
