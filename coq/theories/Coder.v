(* Coder.v — the run-time instance of the walker shared by Decoder and Encoder:
   decoded_descriptors / bitmap_links bookkeeping, the default CoderState
   methods, build_bitmapped_descriptors, and the per-subset loop of
   process_template_data (with switch_subset_context). *)
From PBK Require Import Base Descr Walk.

Record io (C : Type) := mkIo {
  io_dd : list ddesc;             (* decoded_descriptors of the current subset *)
  io_links : list (N * N);        (* bitmap_links: attribute index -> owner index *)
  io_c : C }.
Arguments mkIo {C}. Arguments io_dd {C}. Arguments io_links {C}. Arguments io_c {C}.

(* the eight abstract methods of Coder, as far as they concern bits and values *)
Record prims (C : Type) := mkPrims {
  p_numeric : Z -> Z -> Z -> C -> result C;            (* nbits scale refval *)
  p_string : Z -> C -> result C;                       (* nbytes *)
  p_codeflag : Z -> Z -> C -> result C;                (* nbits, descriptor.nbits *)
  p_new_refval : Z -> C -> result (Z * C);             (* nbits; returns the value defined *)
  p_constant : Z -> C -> result C;
  p_factor : C -> result N;                            (* get_value_for_delayed_replication_factor *)
  p_bitmap : Z -> C -> result (list bool)              (* the last n_031031 values, as "== 0" flags *)
}.
Arguments p_numeric {C}. Arguments p_string {C}. Arguments p_codeflag {C}.
Arguments p_new_refval {C}. Arguments p_constant {C}. Arguments p_factor {C}. Arguments p_bitmap {C}.

Section IO.
Context {C : Type} (P : prims C).
Notation st := (ws (io C)).

Definition ndesc (s : st) : N := N.of_nat (length (io_dd (w_c s))).

Definition push_dd (d : ddesc) (s : st) : st :=
  mkWs (w_r s) (mkIo (io_dd (w_c s) ++ [d]) (io_links (w_c s)) (io_c (w_c s))).

Definition with_c (s : st) (c : C) : st :=
  mkWs (w_r s) (mkIo (io_dd (w_c s)) (io_links (w_c s)) c).

Definition lift (d : ddesc) (f : C -> result C) (s : st) : result st :=
  let s1 := push_dd d s in
  let* c := f (io_c (w_c s1)) in Ok (with_c s1 c).

Definition io_add_link (idx : N) (s : st) : result st :=
  Ok (mkWs (w_r s) (mkIo (io_dd (w_c s)) (io_links (w_c s) ++ [(ndesc s, idx)]) (io_c (w_c s)))).

(* plain ElementDescriptors among the first [boundary] decoded descriptors, with
   their indices, in descending index order *)
Fixpoint elems_indexed (i : N) (l : list ddesc) : list backref :=
  match l with
  | [] => []
  | DDElem e :: r => (i, e) :: elems_indexed (i + 1) r
  | _ :: r => elems_indexed (i + 1) r
  end.

Definition collect_backrefs (boundary : N) (nbits : nat) (dd : list ddesc) : list backref :=
  let desc_order := rev (elems_indexed 0 (firstn (N.to_nat boundary) dd)) in
  (* the loop breaks when the count reaches len(bitmap); the test comes after an
     insertion, so an empty bitmap never stops it *)
  rev (match nbits with O => desc_order | _ => firstn nbits desc_order end).

Fixpoint select_zero (bitmap : list bool) (refs : list backref) : list backref :=
  match bitmap, refs with
  | b :: bm, x :: rs => if b then x :: select_zero bm rs else select_zero bm rs
  | _, _ => []
  end.

(* the back references in force: kept once built, otherwise collected now *)
Definition get_backrefs (r : regs) (dd : list ddesc) (nbits : nat) : result (list backref) :=
  match r_backrefs r with
  | Some ((_ :: _) as l) => Ok l
  | _ => if (N.of_nat (length dd) <? r_boundary r)%N then Err EIndex
         else Ok (collect_backrefs (r_boundary r) nbits dd)
  end.

(* CoderState.build_bitmapped_descriptors; [bitmap] holds the "bit == 0" flags *)
Definition build_bitmapped (bitmap : list bool) (s : st) : result st :=
  let* refs := get_backrefs (w_r s) (io_dd (w_c s)) (length bitmap) in
  let s1 := upd_r (set_backrefs (Some refs)) s in
  if negb (length refs =? length bitmap)%nat then Err ELib
  else
    let bd := select_zero bitmap refs in
    Ok (upd_r (fun r => set_next_bm (Some bd) (set_bitmapped (Some bd) r)) s1).

Definition io_handlers : handlers (io C) := {|
  h_numeric := fun dd nbits scale refval => lift dd (p_numeric P nbits scale refval);
  h_numeric_new_refval := fun dd nbits scale factor s =>
    match refval_lookup (dd_id dd) (r_new_refvals (w_r s)) with
    | None => Err EKey
    | Some None => Err EType
    | Some (Some v) => lift dd (p_numeric P nbits scale (v * factor)%Z) s
    end;
  h_string := fun dd nbytes => lift dd (p_string P nbytes);
  h_codeflag := fun dd nbits dnbits => lift dd (p_codeflag P nbits dnbits);
  h_new_refval := fun dd nbits s =>
    let s1 := push_dd dd s in
    let* (v, c) := p_new_refval P nbits (io_c (w_c s1)) in
    Ok (upd_r (fun r => set_new_refvals (refval_set (dd_id dd) (Some v) (r_new_refvals r)) r) (with_c s1 c));
  h_constant := fun dd v => lift dd (p_constant P v);
  h_define_bitmap := fun reuse s =>
    let* bm := p_bitmap P (r_n031031 (w_r s)) (io_c (w_c s)) in
    let s1 := if reuse then upd_r (set_bitmap_set true) s else s in
    build_bitmapped bm s1;
  h_mark_boundary := fun s => Ok (upd_r (set_boundary (ndesc s)) s);
  h_recall_bitmap := fun s =>
    match r_bitmapped (w_r s) with
    | None => Err ELib                        (* no bitmap is defined for recall *)
    | Some l => Ok (upd_r (set_next_bm (Some l)) s)
    end;
  h_cancel_bitmap := fun s => Ok (upd_r (set_bitmap_set false) s);
  h_cancel_backrefs := fun s =>
    Ok (upd_r (fun r => set_bitmapped None (set_bitmap_set false (set_backrefs None r))) s);
  h_add_bitmap_link := fun s =>
    let* (b, r') := next_bitmapped (w_r s) in
    io_add_link (fst b) (mkWs r' (w_c s));
  h_bitmap_def_wrap := fun f => f;
  h_fixed := fun n body => iter_res n body;
  h_delayed := fun body s => let* n := p_factor P (io_c (w_c s)) in iter_res n body s;
  h_bitmapped := fun id body => body
|}.

Definition run_template (T : descs) (s : st) : result st :=
  walk_list io_handlers io_add_link T s.

(* ---- process_template_data: the loop over subsets ---------------------------
   [switch i c] is what switch_subset_context does to the client (select the
   value list of subset i; reset idx_value for the encoder).  After the repair
   "fix: reset operator and bitmap state at the start of each subset" the whole
   register file is reset to its initial value. *)
Record subset_out := mkSubsetOut { so_dd : list ddesc; so_links : list (N * N) }.

Fixpoint run_subsets (T : descs) (switch : nat -> C -> C) (i n : nat) (c : C)
    (acc : list subset_out) : result (list subset_out * C) :=
  match n with
  | O => Ok (acc, c)
  | S k =>
      let s0 := mkWs regs0 (mkIo [] [] (switch i c)) in
      let* s1 := run_template T s0 in
      run_subsets T switch (S i) k (io_c (w_c s1))
                  (acc ++ [mkSubsetOut (io_dd (w_c s1)) (io_links (w_c s1))])
  end.

(* compressed data: one walk; every subset shares the descriptor list and links *)
Definition run_compressed (T : descs) (nsub : nat) (c : C) : result (list subset_out * C) :=
  let* s1 := run_template T (mkWs regs0 (mkIo [] [] c)) in
  Ok (repeat (mkSubsetOut (io_dd (w_c s1)) (io_links (w_c s1))) nsub, io_c (w_c s1)).

End IO.

(* ---- labels: str(descriptor) ------------------------------------------------ *)
(* As a pair (prefix code, id): 0 = plain six digits, otherwise the ASCII code of
   the prefix letter followed by five digits. *)
Definition dd_label (d : ddesc) : N * N :=
  (match d with
  | DDElem e => (0, e_id e)
  | DDOper id => (0, id)
  | DDAssoc id _ => (65, id)                    (* 'A' *)
  | DDSkipped id _ => (83, id)                  (* 'S' *)
  | DDMarker e m =>
      (if (m =? 223255) then 84                 (* 'T' *)
       else if (m =? 224255) then 70            (* 'F' *)
       else if (m =? 225255) then 68            (* 'D' *)
       else if (m =? 232255) then 82            (* 'R' *)
       else 77, e_id e)                         (* 'M' *)
  end)%N.
