(* TextFmtWire.v — two facts about the attribute relation TemplateData.wire builds,
   needed by the nested-text parser (C09):
   - every attribute index lies below next_index (attrs_in_range);
   - a node that carries an associated field is never itself an attribute of
     another node (attrs_depth_ok), so '-> A...' lines occur only directly below
     a member line, where insert(-1, v) puts the value before its owner. *)
From PBK Require Import Base Descr Walk Wire WireProofs TextFmt TextFmtSpec.
From Coq Require Import ZifyBool ZifyNat ZifyN.

Definition is_attr_in (L : list attr) (i : N) : Prop := exists o b, In (o, i, b) L.
Definition assoc_owner_in (L : list attr) (i : N) : Prop := exists a, In (i, a, true) L.
Definition ptr_of (s : wst) (m : N) : Prop := x_am s = Some m \/ x_fm s = Some m \/ x_dm s = Some m.

Definition K (s : wst) : Prop :=
  (forall o a b, In (o, a, b) (x_attrs s) -> (a < x_next s)%N /\ (b = true -> (o < x_next s)%N)) /\
  (forall o a, In (o, a, true) (x_attrs s) -> ~ is_attr_in (x_attrs s) o) /\
  (forall m, ptr_of s m -> (m < x_next s)%N /\ ~ assoc_owner_in (x_attrs s) m).

Definition KStep (s s' : wst) : Prop := K s -> K s' /\ (x_next s <= x_next s')%N.

Lemma KStep_refl s : KStep s s.
Proof. intros H; split; [exact H|lia]. Qed.

Lemma KStep_trans s1 s2 s3 : KStep s1 s2 -> KStep s2 s3 -> KStep s1 s3.
Proof. intros H1 H2 HK. destruct (H1 HK) as [HK2 L1]. destruct (H2 HK2) as [HK3 L2]. split; [exact HK3|lia]. Qed.

(* next_index grows, attributes unchanged, the pointers change only to given fresh-enough values *)
Lemma K_mono s t : K s -> (x_next s <= x_next t)%N -> x_attrs t = x_attrs s ->
  (forall m, ptr_of t m -> ptr_of s m \/ ((m < x_next t)%N /\ ~ assoc_owner_in (x_attrs s) m)) -> K t.
Proof.
  intros (R & D & P) Hn Ha Hp. unfold K. rewrite Ha. repeat split.
  - destruct (R _ _ _ H). lia.
  - intros Hb. destruct (R _ _ _ H) as [_ Hr]. specialize (Hr Hb). lia.
  - exact D.
  - destruct (Hp _ H) as [H0|[H0 _]]; [destruct (P _ H0); lia|exact H0].
  - destruct (Hp _ H) as [H0|[_ H0]]; [apply (P _ H0)|exact H0].
Qed.

Lemma KStep_same s t : x_next t = x_next s -> x_attrs t = x_attrs s ->
  x_am t = x_am s -> x_fm t = x_fm s -> x_dm t = x_dm s -> KStep s t.
Proof.
  intros Hn Ha H1 H2 H3 HK. split; [|lia]. apply (K_mono s t HK); [lia|exact Ha|].
  intros m Hm. left. unfold ptr_of in *. rewrite H1, H2, H3 in Hm. exact Hm.
Qed.

(* one attribute more *)
Lemma K_add s t o a b : K s -> x_next t = x_next s -> x_attrs t = x_attrs s ++ [(o, a, b)] ->
  x_am t = x_am s -> x_fm t = x_fm s -> x_dm t = x_dm s ->
  (a < x_next s)%N -> ~ assoc_owner_in (x_attrs s) a ->
  (b = true -> (o < x_next s)%N /\ ~ is_attr_in (x_attrs s) o /\ o <> a /\ ~ ptr_of s o) -> K t.
Proof.
  intros (R & D & P) Hn Ha H1 H2 H3 Haa Hna Hb. unfold K. rewrite Hn, Ha. repeat split.
  - apply in_app_or in H as [H|[H|[]]]; [apply (R _ _ _ H)|injection H as <- <- <-; exact Haa].
  - intros Hbt. apply in_app_or in H as [H|[H|[]]]; [apply (R _ _ _ H); exact Hbt|].
    injection H as E1 E2 E3. rewrite <- E3 in Hbt. rewrite <- E1. apply (Hb Hbt).
  - intros o1 a1 Hin (o2 & b2 & Hat).
    apply in_app_or in Hin as [Hin|[Hin|[]]]; apply in_app_or in Hat as [Hat|[Hat|[]]].
    + apply (D _ _ Hin). exists o2, b2. exact Hat.
    + injection Hat as <- <- <-. apply Hna. exists a1. exact Hin.
    + injection Hin as E1 E2 E3. subst o1 a1 b. destruct (Hb eq_refl) as (_ & Hb1 & _). apply Hb1. exists o2, b2. exact Hat.
    + injection Hin as E1 E2 E3. subst o1 a1 b. injection Hat as _ E _. destruct (Hb eq_refl) as (_ & _ & Hb2 & _). congruence.
  - assert (Hm : ptr_of s m) by (unfold ptr_of in *; rewrite H1, H2, H3 in H; exact H). apply (P _ Hm).
  - assert (Hm : ptr_of s m) by (unfold ptr_of in *; rewrite H1, H2, H3 in H; exact H).
    intros (a1 & Hin). apply in_app_or in Hin as [Hin|[Hin|[]]].
    + apply (proj2 (P _ Hm)). exists a1. exact Hin.
    + injection Hin as E1 E2 E3. subst m a1 b. destruct (Hb eq_refl) as (_ & _ & _ & Hb3). exact (Hb3 Hm).
Qed.

(* an index at or above next_index occurs nowhere *)
Lemma K_fresh s i : K s -> (x_next s <= i)%N ->
  ~ is_attr_in (x_attrs s) i /\ ~ assoc_owner_in (x_attrs s) i /\ ~ ptr_of s i.
Proof.
  intros (R & D & P) Hi. repeat split.
  - intros (o & b & H). destruct (R _ _ _ H). lia.
  - intros (a & H). destruct (R _ _ _ H) as [_ Hr]. specialize (Hr eq_refl). lia.
  - intros H. destruct (P _ H). lia.
Qed.

Section W.
Context (ndesc : N) (vals : list value) (links : list (N * N)).

Lemma next_idx_spec s i s' : next_idx ndesc s = Ok (i, s') ->
  i = x_next s /\ x_next s' = (x_next s + 1)%N /\ x_attrs s' = x_attrs s /\
  x_am s' = x_am s /\ x_fm s' = x_fm s /\ x_dm s' = x_dm s /\ x_assoc s' = x_assoc s.
Proof.
  unfold next_idx. destruct (ndesc <=? x_next s)%N; [discriminate|]. intros E; injection E as <- <-. cbn. repeat split.
Qed.

Lemma value_node_spec s i s' : value_node ndesc s = Ok (i, s') ->
  i = x_next s /\ x_next s' = (x_next s + 1)%N /\ x_attrs s' = x_attrs s /\
  x_am s' = x_am s /\ x_fm s' = x_fm s /\ x_dm s' = x_dm s.
Proof.
  unfold value_node. destruct (next_idx ndesc s) as [[j s1]|] eqn:E; cbn [bind]; [|discriminate].
  intros E2; injection E2 as <- <-. apply next_idx_spec in E as (-> & Hn & Ha & H1 & H2 & H3 & _). cbn. repeat split; assumption.
Qed.

Lemma KStep_value s i s' : value_node ndesc s = Ok (i, s') -> KStep s s'.
Proof.
  intros E HK. apply value_node_spec in E as (-> & Hn & Ha & H1 & H2 & H3). split; [|lia].
  apply (K_mono s s' HK); [lia|exact Ha|]. intros m Hm. left. unfold ptr_of in *. rewrite H1, H2, H3 in Hm. exact Hm.
Qed.

(* a freshly made value node whose index is then recorded as a meaning pointer *)
Lemma K_set_ptr s t i : K s -> (i < x_next s)%N -> ~ assoc_owner_in (x_attrs s) i ->
  x_next t = x_next s -> x_attrs t = x_attrs s ->
  (forall m, ptr_of t m -> ptr_of s m \/ m = i) -> K t.
Proof.
  intros HK Hi Hna Hn Ha Hp. apply (K_mono s t HK); [lia|exact Ha|].
  intros m Hm. destruct (Hp _ Hm) as [H|E]; [left; exact H|subst m; right; split; [lia|exact Hna]].
Qed.

Lemma bitmap_attr_K i s s' : wire_bitmap_attribute links i s = Ok s' -> K s ->
  (i < x_next s)%N -> ~ assoc_owner_in (x_attrs s) i -> K s' /\ x_next s' = x_next s.
Proof.
  unfold wire_bitmap_attribute. destruct (link_of links i) as [o|] eqn:El; [|discriminate].
  destruct (existsb (N.eqb o) (x_known s)) eqn:Ek; [|discriminate]. intros E HK Hi Hna; injection E as <-.
  split; [|reflexivity].
  eapply (K_add s _ o i false HK); try reflexivity; try assumption. discriminate.
Qed.

End W.

Lemma assoc_owner_snoc_false L o a i : assoc_owner_in (L ++ [(o, a, false)]) i -> assoc_owner_in L i.
Proof. intros (x & H). apply in_app_or in H as [H|[H|[]]]; [exists x; exact H|discriminate]. Qed.

Tactic Notation "kbind" hyp(E) "as" simple_intropattern(p) "into" ident(H) :=
  match type of E with bind ?r _ = _ => destruct r as [p|] eqn:H; cbn [bind] in E; [|discriminate] end.

Section W2.
Context (ndesc : N) (vals : list value) (links : list (N * N)).

Lemma wire_element_K e s n s' : wire_element ndesc links e s = Ok (n, s') -> KStep s s'.
Proof.
  intros E HK. unfold wire_element in E. cbv zeta in E.
  destruct (x_assoc s) as [|z zs] eqn:Ea.
  - destruct ((desc_X (e_id e) =? 33)%N && x_qa s).
    + kbind E as [i s1] into Ev. kbind E as s2 into Eb. injection E as <- <-.
      destruct (KStep_value _ _ _ _ Ev HK) as [HK1 L1].
      pose proof (value_node_spec _ _ _ _ Ev) as (-> & Hn & Ha & _).
      destruct (K_fresh s (x_next s) HK) as (_ & F2 & _); [lia|].
      destruct (bitmap_attr_K links _ _ _ Eb HK1) as [HK2 Hn2]; [lia|rewrite Ha; exact F2|]. split; [exact HK2|lia].
    + kbind E as [i s1] into Ev.
      destruct (KStep_value _ _ _ _ Ev HK) as [HK1 L1].
      pose proof (value_node_spec _ _ _ _ Ev) as (-> & Hn & Ha & _).
      destruct (K_fresh s (x_next s) HK) as (_ & F2 & _); [lia|].
      destruct ((e_id e =? 8023)%N && x_w1 s1).
      { injection E as <- <-. split; [|cbn; lia].
        apply (K_set_ptr s1 _ (x_next s) HK1); [lia|rewrite Ha; exact F2|reflexivity|reflexivity|].
        intros m [H|[H|H]]; cbn in H; [left; left; exact H|right; congruence|left; right; right; exact H]. }
      destruct ((e_id e =? 8024)%N && x_wd s1).
      { injection E as <- <-. split; [|cbn; lia].
        apply (K_set_ptr s1 _ (x_next s) HK1); [lia|rewrite Ha; exact F2|reflexivity|reflexivity|].
        intros m [H|[H|H]]; cbn in H; [left; left; exact H|left; right; left; exact H|right; congruence]. }
      injection E as <- <-. split; [exact HK1|lia].
  - destruct (negb (desc_X (e_id e) =? 31)%N).
    + unfold next_idx in E.
      destruct (ndesc <=? x_next s)%N; cbn [bind] in E; [discriminate|]. cbn [x_am] in E.
      destruct (x_am s) as [m|] eqn:Eam; [|discriminate].
      cbn [add_attr x_next] in E. destruct (ndesc <=? x_next s + 1)%N; cbn [bind] in E; [discriminate|].
      injection E as <- <-. split; [|cbn; lia].
      pose proof HK as (R & D & P).
      assert (Pm : ptr_of s m) by (left; exact Eam). destruct (P _ Pm) as [Pm1 Pm2].
      set (s1 := mkWst (x_next s + 1) (x_assoc s) (x_dnp s) (x_qa s) (x_w1 s) (x_wd s) (x_am s) (x_fm s) (x_dm s)
                       (x_attrs s) (x_known s) (x_def s)).
      assert (K1 : K s1).
      { apply (K_mono s s1 HK); [cbn; lia|reflexivity|]. intros x Hx. left. exact Hx. }
      set (s2 := add_attr (x_next s) m false s1).
      assert (K2 : K s2).
      { apply (K_add s1 s2 (x_next s) m false K1); try reflexivity; [cbn; lia|exact Pm2|discriminate]. }
      set (s3 := mkWst (x_next s + 1 + 1) (x_assoc s) (x_dnp s) (x_qa s) (x_w1 s) (x_wd s) (x_am s) (x_fm s) (x_dm s)
                       (x_attrs s ++ [(x_next s, m, false)]) (x_known s) (x_def s)).
      assert (K3 : K s3).
      { apply (K_mono s2 s3 K2); [cbn; lia|reflexivity|]. intros x Hx. left. exact Hx. }
      destruct (K_fresh s (x_next s) HK) as (_ & F2 & _); [lia|].
      destruct (K_fresh s2 (x_next s + 1)%N K2) as (G1 & _ & G3); [cbn; lia|].
      set (s4 := add_attr (x_next s + 1) (x_next s) true s3).
      assert (K4 : K s4).
      { apply (K_add s3 s4 (x_next s + 1)%N (x_next s) true K3); try reflexivity.
        - cbn; lia.
        - cbn [s3 x_attrs]. intros H. apply assoc_owner_snoc_false in H. exact (F2 H).
        - intros _. split; [cbn; lia|]. split; [exact G1|]. split; [lia|exact G3]. }
      refine (proj1 (KStep_same s4 _ _ _ _ _ _ K4)); try reflexivity. cbn. symmetry. exact Eam.
    + kbind E as [i s1] into Ev.
      destruct (KStep_value _ _ _ _ Ev HK) as [HK1 L1].
      pose proof (value_node_spec _ _ _ _ Ev) as (-> & Hn & Ha & _).
      destruct (K_fresh s (x_next s) HK) as (_ & F2 & _); [lia|].
      destruct (e_id e =? 31021)%N; injection E as <- <-.
      * split; [|cbn; lia].
        apply (K_set_ptr s1 _ (x_next s) HK1); [lia|rewrite Ha; exact F2|reflexivity|reflexivity|].
        intros m [H|[H|H]]; cbn in H; [right; congruence|left; right; left; exact H|left; right; right; exact H].
      * split; [exact HK1|lia].
Qed.

Lemma wire_marker_K mg s n s' : wire_marker ndesc links mg s = Ok (n, s') ->
  (forall m, mg = Some (Some m) -> ptr_of s m) -> KStep s s'.
Proof.
  intros E Hm HK. unfold wire_marker in E.
  kbind E as [i s1] into Ev.
  destruct (KStep_value _ _ _ _ Ev HK) as [HK1 L1].
  pose proof (value_node_spec _ _ _ _ Ev) as (-> & Hn & Ha & H1 & H2 & H3).
  destruct (K_fresh s (x_next s) HK) as (_ & F2 & _); [lia|].
  destruct mg as [[m|]|]; cbn [bind] in E; try discriminate.
  - kbind E as s3 into Eb. injection E as <- <-.
    destruct HK as (R & D & P). destruct (P m (Hm m eq_refl)) as [Pm1 Pm2].
    assert (HK2 : K (add_attr (x_next s) m false s1)).
    { apply (K_add s1 _ (x_next s) m false HK1); try reflexivity; [lia|rewrite Ha; exact Pm2|discriminate]. }
    destruct (bitmap_attr_K links _ _ _ Eb HK2) as [HK3 Hn3].
    + cbn. lia.
    + cbn [add_attr x_attrs]. rewrite Ha. intros H. apply assoc_owner_snoc_false in H. exact (F2 H).
    + split; [exact HK3|cbn in Hn3; lia].
  - kbind E as s3 into Eb. injection E as <- <-.
    destruct (bitmap_attr_K links _ _ _ Eb HK1) as [HK3 Hn3]; [lia|rewrite Ha; exact F2|]. split; [exact HK3|lia].
Qed.

Definition keeps (f : wst -> wst) : Prop :=
  forall t, x_next (f t) = x_next t /\ x_attrs (f t) = x_attrs t /\ x_am (f t) = x_am t /\ x_fm (f t) = x_fm t /\ x_dm (f t) = x_dm t.

Lemma K_keeps f s : keeps f -> K s -> K (f s).
Proof.
  intros Hf HK. destruct (Hf s) as (Hn & Ha & H1 & H2 & H3).
  destruct (KStep_same s (f s) Hn Ha H1 H2 H3 HK) as [H _]. exact H.
Qed.

Lemma wire_operator_K id s n s' : wire_operator ndesc links id s = Ok (n, s') -> KStep s s'.
Proof.
  intros E HK. unfold wire_operator in E. cbv zeta in E.
  assert (P : forall (f : wst -> wst), keeps f ->
             forall n0 s0, (let* (i, s1) := value_node ndesc (f s) in Ok (WValue i, s1)) = Ok (n0, s0) ->
             K s0 /\ (x_next s <= x_next s0)%N).
  { intros f Hf n0 s0 E0. destruct (value_node ndesc (f s)) as [[i s1]|] eqn:Ev; cbn [bind] in E0; [|discriminate].
    injection E0 as <- <-. destruct (KStep_value _ _ _ _ Ev (K_keeps f s Hf HK)) as [H L]. destruct (Hf s) as (Hn & _). split; [exact H|lia]. }
  assert (M : forall (f : wst -> wst), keeps f ->
             forall mg n0 s0, (forall m, mg = Some (Some m) -> ptr_of s m) ->
             wire_marker ndesc links mg (f s) = Ok (n0, s0) -> K s0 /\ (x_next s <= x_next s0)%N).
  { intros f Hf mg n0 s0 Hm E0. destruct (Hf s) as (Hn & Ha & H1 & H2 & H3).
    destruct (wire_marker_K _ _ _ _ E0) as (H & L); [|apply K_keeps; assumption|split; [exact H|lia]].
    intros m Em. specialize (Hm m Em). unfold ptr_of in *. rewrite H1, H2, H3. exact Hm. }
  assert (Hid : keeps (fun t => t)) by (intros t; repeat split).
  assert (HN : forall m : N, @None (option N) = Some (Some m) -> ptr_of s m) by (intros m Hx; discriminate).
  assert (HF : forall m : N, Some (x_fm s) = Some (Some m) -> ptr_of s m) by (intros m Hx; injection Hx as Hx; right; left; exact Hx).
  assert (HD : forall m : N, Some (x_dm s) = Some (Some m) -> ptr_of s m) by (intros m Hx; injection Hx as Hx; right; right; exact Hx).
  destruct ((id / 1000 =? 201)%N || (id / 1000 =? 202)%N || (id / 1000 =? 206)%N
            || (id / 1000 =? 207)%N || (id / 1000 =? 208)%N).
  { injection E as <- <-. apply KStep_refl, HK. }
  destruct (id / 1000 =? 203)%N; [injection E as <- <-; apply (KStep_same s); try reflexivity; exact HK|].
  destruct (id / 1000 =? 204)%N.
  { destruct (Z.of_N (id mod 1000) =? 0)%Z.
    - destruct (x_assoc s); [discriminate|]. injection E as <- <-. apply (KStep_same s); try reflexivity. exact HK.
    - injection E as <- <-. apply (KStep_same s); try reflexivity. exact HK. }
  destruct (id / 1000 =? 205)%N; [exact (P (fun t => t) Hid _ _ E)|].
  destruct (id / 1000 =? 221)%N; [injection E as <- <-; apply (KStep_same s); try reflexivity; exact HK|].
  destruct (id / 1000 =? 222)%N; [apply (P (set_xqa true) (fun t => ltac:(repeat split)) _ _ E)|].
  destruct (id / 1000 =? 223)%N.
  { destruct (Z.of_N (id mod 1000) =? 0)%Z.
    - apply (P (set_xqa false) (fun t => ltac:(repeat split)) _ _ E).
    - apply (M (set_xqa false) (fun t => ltac:(repeat split)) None _ _ HN E). }
  destruct (id / 1000 =? 224)%N.
  { destruct (Z.of_N (id mod 1000) =? 0)%Z.
    - apply (P (fun t => set_xw1 true (set_xqa false t)) (fun t => ltac:(repeat split)) _ _ E).
    - apply (M (set_xqa false) (fun t => ltac:(repeat split)) (Some (x_fm s)) _ _ HF E). }
  destruct (id / 1000 =? 225)%N.
  { destruct (Z.of_N (id mod 1000) =? 0)%Z.
    - apply (P (fun t => set_xwd true (set_xqa false t)) (fun t => ltac:(repeat split)) _ _ E).
    - apply (M (set_xqa false) (fun t => ltac:(repeat split)) (Some (x_dm s)) _ _ HD E). }
  destruct (id / 1000 =? 232)%N.
  { destruct (Z.of_N (id mod 1000) =? 0)%Z.
    - apply (P (set_xqa false) (fun t => ltac:(repeat split)) _ _ E).
    - apply (M (set_xqa false) (fun t => ltac:(repeat split)) None _ _ HN E). }
  destruct (id / 1000 =? 235)%N; [injection E as <- <-; apply (KStep_same s); try reflexivity; exact HK|].
  destruct (id / 1000 =? 236)%N; [exact (P (fun t => t) Hid _ _ E)|].
  destruct (id / 1000 =? 237)%N; [exact (P (fun t => t) Hid _ _ E)|discriminate].
Qed.

Definition KStepAcc (f : wres -> result wres) : Prop :=
  forall acc s acc' s', f (acc, s) = Ok (acc', s') -> KStep s s'.

Lemma iter_w_K n f : KStepAcc f -> KStepAcc (iter_w n f).
Proof.
  intros Hf. unfold iter_w. induction n as [|n IH] using N.peano_ind.
  - intros acc s acc' s' E. cbn in E. injection E as <- <-. apply KStep_refl.
  - intros acc s acc' s' E. rewrite N.iter_succ in E. cbv beta in E.
    match type of E with context [N.iter n ?g ?a0] => destruct (N.iter n g a0) as [[acc1 s1]|] eqn:E1 end; cbn [bind] in E; [|discriminate].
    eapply KStep_trans; [eapply IH; exact E1|eapply Hf; exact E].
Qed.

Theorem wire_K :
  (forall d s n s', wire_one ndesc vals links d s = Ok (n, s') -> KStep s s') /\
  (forall ms, KStepAcc (wire_list ndesc vals links ms)).
Proof.
  apply desc_descs_ind.
  - intros e s n s' E. cbn [wire_one] in E. eapply wire_element_K; exact E.
  - intros id ms IH s n s' E. cbn [wire_one] in E. kbind E as [nodes s1] into E1. injection E as <- <-.
    eapply iter_w_K; [exact IH|exact E1].
  - intros id f _ ms IH s n s' E. cbn [wire_one] in E. kbind E as [fi s0] into Ev.
    destruct (count_of_value _) as [cnt|]; cbn [bind] in E; [|discriminate].
    kbind E as [nodes s1] into E1. injection E as <- <-.
    eapply KStep_trans; [eapply KStep_value; exact Ev|eapply iter_w_K; [exact IH|exact E1]].
  - intros id s n s' E. cbn [wire_one] in E. eapply wire_operator_K; exact E.
  - intros id ms IH s n s' E. cbn [wire_one] in E. kbind E as [nodes s1] into E1. injection E as <- <-.
    eapply IH; exact E1.
  - intros id s n s' E. cbn [wire_one] in E. kbind E as [i s1] into Ev. injection E as <- <-. eapply KStep_value; exact Ev.
  - intros id s n s' E. discriminate.
  - intros acc s acc' s' E. cbn [wire_list] in E. injection E as <- <-. apply KStep_refl.
  - intros d IHd ds IHds acc s acc' s' E. cbn [wire_list] in E. cbv zeta in E.
    set (s0 := if (x_dnp s =? 0)%Z then s else set_xdnp (x_dnp s - 1) s) in *.
    assert (S0 : KStep s s0) by (unfold s0; destruct (x_dnp s =? 0)%Z; [apply KStep_refl|apply KStep_same; reflexivity]).
    destruct (negb (x_dnp s =? 0)%Z && dnp_skips d).
    + eapply KStep_trans; [exact S0|eapply IHds; exact E].
    + destruct (x_def s0 && is_plain_elem d).
      * kbind E as [i s1] into Ev.
        eapply KStep_trans; [exact S0|]. eapply KStep_trans; [eapply KStep_value; exact Ev|eapply IHds; exact E].
      * kbind E as [n s1] into E1.
        eapply KStep_trans; [exact S0|]. eapply KStep_trans; [eapply IHd; exact E1|eapply IHds; exact E].
Qed.

(* the two structural side conditions of the nested-text theorem hold of every wired tree *)
Theorem wire_attrs_text T nodes s :
  wire ndesc vals links T = Ok (nodes, s) ->
  attrs_in_range (x_next s) (x_attrs s) = true /\ attrs_depth_ok (x_attrs s) = true.
Proof.
  intros E. unfold wire in E.
  assert (K0 : K wst0).
  { repeat split; try (intros; contradiction).
    - destruct H as [H|[H|H]]; discriminate.
    - destruct H as [H|[H|H]]; discriminate. }
  destruct (proj2 wire_K T _ _ _ _ E K0) as [(R & D & _) _]. split.
  - unfold attrs_in_range. apply forallb_forall. intros [[o a] b] Hin. cbn [fst snd]. destruct (R _ _ _ Hin). lia.
  - unfold attrs_depth_ok. apply forallb_forall. intros [[o a] b] Hin. cbn [fst snd].
    destruct b; [|reflexivity]. cbn [negb orb]. apply negb_true_iff.
    destruct (existsb _ (x_attrs s)) eqn:Ex; [|reflexivity]. exfalso.
    apply existsb_exists in Ex as ([[o2 a2] b2] & Hin2 & Heq). cbn [fst snd] in Heq. apply N.eqb_eq in Heq. subst a2.
    apply (D _ _ Hin). exists o2, b2. exact Hin2.
Qed.

End W2.
