(* NcepFixProofs.v — what the NCEP repair does and does not change. *)
From PBK Require Import Base Descr.
From PBK Require Import NcepFix.

Fixpoint descs_all (P : desc -> Prop) (ds : descs) : Prop :=
  match ds with DNil => True | DCons d r => P d /\ descs_all P r end.

Definition tailQ (Q : descs -> Prop) (ds : descs) : Prop :=
  match ds with DNil => True | DCons _ r => Q r end.

(* induction over the tree where the list case also knows P of every element and Q of the tail's tail
   (the adoption step looks two elements ahead) *)
Lemma desc_descs_ind2 (P : desc -> Prop) (Q : descs -> Prop) :
  (forall e, P (DElem e)) ->
  (forall id ms, Q ms -> P (DFixed id ms)) ->
  (forall id f ms, P f -> Q ms -> P (DDelayed id f ms)) ->
  (forall id, P (DOper id)) ->
  (forall id ms, Q ms -> P (DSeq id ms)) ->
  (forall id, P (DUndefElem id)) ->
  (forall id, P (DUndefSeq id)) ->
  Q DNil ->
  (forall d r, P d -> Q r -> descs_all P r -> tailQ Q r -> Q (DCons d r)) ->
  (forall d, P d) /\ (forall ds, Q ds).
Proof.
  intros H1 H2 H3 H4 H5 H6 H7 H8 H9.
  assert (A : (forall d, P d) /\ (forall ds, descs_all P ds /\ Q ds /\ tailQ Q ds)).
  { apply desc_descs_ind.
    - exact H1.
    - intros id ms [_ [Hq _]]. apply H2; exact Hq.
    - intros id f Hf ms [_ [Hq _]]. apply H3; assumption.
    - exact H4.
    - intros id ms [_ [Hq _]]. apply H5; exact Hq.
    - exact H6.
    - exact H7.
    - cbn. repeat split; assumption.
    - intros d Hd r [Ha [Hq Ht]]. cbn. repeat split; try assumption.
      apply H9; assumption. }
  destruct A as [A1 A2]. split; [exact A1|]. intro ds. apply (A2 ds).
Qed.

Lemma unwrap_spec d rep : unwrap d = Some rep ->
  is_empty_rep rep = true /\
  ((exists id, d = DSeq id (DCons rep DNil)) \/ d = rep).
Proof.
  destruct d as [e|id ms|id f ms|id|id ms|id|id]; cbn; try discriminate.
  - destruct ms; [|discriminate]. intro H; inversion H; subst. split; [reflexivity|right; reflexivity].
  - destruct ms; [|discriminate]. intro H; inversion H; subst. split; [reflexivity|right; reflexivity].
  - destruct ms as [|r [|x y]]; try discriminate.
    destruct (is_empty_rep r) eqn:E; [|discriminate].
    intro H; inversion H; subst. split; [exact E|left; exists id; reflexivity].
Qed.

Lemma empty_rep_shape rep : is_empty_rep rep = true ->
  (exists id, rep = DFixed id DNil) \/ (exists id f, rep = DDelayed id f DNil).
Proof.
  destruct rep as [e|id ms|id f ms|id|id ms|id|id]; cbn; try discriminate.
  - destruct ms; [|discriminate]. intros _. left. exists id. reflexivity.
  - destruct ms; [|discriminate]. intros _. right. exists id, f. reflexivity.
Qed.

Lemma unwrap_none_clean d : clean d = true -> unwrap d = None.
Proof.
  destruct d as [e|id ms|id f ms|id|id ms|id|id]; cbn; try reflexivity.
  - destruct ms; [discriminate|reflexivity].
  - destruct ms; [discriminate|reflexivity].
  - destruct ms as [|r [|x y]]; try reflexivity.
    cbn. destruct r as [e|i m|i f m|i|i m|i|i]; cbn; try reflexivity.
    + destruct m; [discriminate|reflexivity].
    + destruct m; [discriminate|reflexivity].
Qed.

(* ---- 1. after the repair nothing is left to repair -------------------------- *)
Theorem fix_clean_orig :
  (forall d d', fixd_orig d = Ok d' -> clean d' = true) /\
  (forall ds ds', fixl_orig ds = Ok ds' -> cleanl ds' = true /\ (ds <> DNil -> ds' <> DNil)).
Proof.
  apply desc_descs_ind2.
  - intros e d' H. inversion H. reflexivity.
  - intros id ms IH d' H. cbn in H. destruct ms as [|m0 mr].
    + destruct (desc_X id =? 1)%N; discriminate.
    + destruct (fixl_orig (DCons m0 mr)) as [ms'|] eqn:E; [|discriminate]. cbn in H. inversion H; subst.
      destruct (IH _ eq_refl) as [Hc Hn]. cbn. destruct ms'; [exfalso; apply Hn; [discriminate|reflexivity]|exact Hc].
  - intros id f ms _ IH d' H. cbn in H. destruct ms as [|m0 mr].
    + destruct (desc_X id =? 1)%N; discriminate.
    + destruct (fixl_orig (DCons m0 mr)) as [ms'|] eqn:E; [|discriminate]. cbn in H. inversion H; subst.
      destruct (IH _ eq_refl) as [Hc Hn]. cbn. destruct ms'; [exfalso; apply Hn; [discriminate|reflexivity]|exact Hc].
  - intros id d' H. inversion H. reflexivity.
  - intros id ms IH d' H. cbn [fixd_orig] in H. destruct (unwrap (DSeq id ms)) as [r|] eqn:U.
    + destruct (desc_X (desc_id r) =? 1)%N; discriminate.
    + destruct (fixl_orig ms) as [ms'|] eqn:E; [|discriminate]. cbn in H. inversion H; subst.
      cbn. apply (IH _ eq_refl).
  - intros id d' H. inversion H. reflexivity.
  - intros id d' H. inversion H. reflexivity.
  - intros ds' H. inversion H. split; [reflexivity|intro A; exfalso; apply A; reflexivity].
  - intros d r Pd Qr Ar Tr ds' H. cbn [fixl_orig] in H. destruct (unwrap d) as [rep|] eqn:U.
    + destruct (negb (desc_X (desc_id rep) =? 1)%N); [discriminate|].
      destruct r as [|a r']; [discriminate|].
      destruct (fixd_orig a) as [m|] eqn:Ea; [|discriminate]. cbn [bind] in H.
      destruct (fixl_orig r') as [rest|] eqn:Er; [|discriminate]. cbn [bind] in H. inversion H; subst.
      destruct Ar as [Pa _]. cbn in Tr.
      split; [|intros _; discriminate].
      destruct (unwrap_spec _ _ U) as [He _].
      destruct (empty_rep_shape _ He) as [[i ->]|[i [f ->]]]; cbn;
        rewrite (Pa _ Ea); cbn; apply (Tr _ Er).
    + destruct (fixd_orig d) as [x|] eqn:Ed; [|discriminate]. cbn [bind] in H.
      destruct (fixl_orig r) as [rest|] eqn:Er; [|discriminate]. cbn [bind] in H. inversion H; subst.
      split; [|intros _; discriminate].
      cbn. rewrite (Pd _ eq_refl). cbn. apply (Qr _ eq_refl).
Qed.

(* ---- 2. a template with nothing to repair is left as it is ------------------- *)
Theorem fix_identity_orig :
  (forall d, clean d = true -> fixd_orig d = Ok d) /\
  (forall ds, cleanl ds = true -> fixl_orig ds = Ok ds).
Proof.
  apply desc_descs_ind.
  - reflexivity.
  - intros id ms IH H. cbn in H. destruct ms as [|m0 mr]; [discriminate|].
    cbn [fixd_orig]. rewrite (IH H). reflexivity.
  - intros id f _ ms IH H. cbn in H. destruct ms as [|m0 mr]; [discriminate|].
    cbn [fixd_orig]. rewrite (IH H). reflexivity.
  - reflexivity.
  - intros id ms IH H. cbn [fixd_orig]. rewrite (unwrap_none_clean _ H). cbn in H. rewrite (IH H). reflexivity.
  - reflexivity.
  - reflexivity.
  - reflexivity.
  - intros d IHd r IHr H. cbn in H. apply andb_prop in H. destruct H as [Hd Hr].
    cbn [fixl_orig]. rewrite (unwrap_none_clean _ Hd). rewrite (IHd Hd). cbn [bind]. rewrite (IHr Hr). reflexivity.
Qed.

Corollary fix_idempotent_orig ds ds' : fixl_orig ds = Ok ds' -> fixl_orig ds' = Ok ds'.
Proof. intro H. apply (proj2 fix_identity_orig). apply (proj2 fix_clean_orig _ _ H). Qed.

(* ---- 3. the processing order of the descriptors is unchanged: only ownership moves ---- *)
Lemma leaves_unwrap d rep : unwrap d = Some rep -> leaves d = leaves rep.
Proof.
  intro U. destruct (unwrap_spec _ _ U) as [_ [[id ->]| ->]]; [|reflexivity].
  cbn. apply app_nil_r.
Qed.

Theorem fix_leaves_orig :
  (forall d d', fixd_orig d = Ok d' -> leaves d' = leaves d) /\
  (forall ds ds', fixl_orig ds = Ok ds' -> leavesl ds' = leavesl ds).
Proof.
  apply desc_descs_ind2.
  - intros e d' H. inversion H. reflexivity.
  - intros id ms IH d' H. cbn in H. destruct ms as [|m0 mr].
    + destruct (desc_X id =? 1)%N; discriminate.
    + destruct (fixl_orig (DCons m0 mr)) as [ms'|] eqn:E; [|discriminate]. cbn in H. inversion H; subst.
      cbn [leaves]. rewrite (IH _ eq_refl). reflexivity.
  - intros id f ms _ IH d' H. cbn in H. destruct ms as [|m0 mr].
    + destruct (desc_X id =? 1)%N; discriminate.
    + destruct (fixl_orig (DCons m0 mr)) as [ms'|] eqn:E; [|discriminate]. cbn in H. inversion H; subst.
      cbn [leaves]. rewrite (IH _ eq_refl). reflexivity.
  - intros id d' H. inversion H. reflexivity.
  - intros id ms IH d' H. cbn [fixd_orig] in H. destruct (unwrap (DSeq id ms)) as [r|] eqn:U.
    + destruct (desc_X (desc_id r) =? 1)%N; discriminate.
    + destruct (fixl_orig ms) as [ms'|] eqn:E; [|discriminate]. cbn in H. inversion H; subst.
      cbn [leaves]. apply (IH _ eq_refl).
  - intros id d' H. inversion H. reflexivity.
  - intros id d' H. inversion H. reflexivity.
  - intros ds' H. inversion H. reflexivity.
  - intros d r Pd Qr Ar Tr ds' H. cbn [fixl_orig] in H. destruct (unwrap d) as [rep|] eqn:U.
    + destruct (negb (desc_X (desc_id rep) =? 1)%N); [discriminate|].
      destruct r as [|a r']; [discriminate|].
      destruct (fixd_orig a) as [m|] eqn:Ea; [|discriminate]. cbn [bind] in H.
      destruct (fixl_orig r') as [rest|] eqn:Er; [|discriminate]. cbn [bind] in H. inversion H; subst.
      destruct Ar as [Pa _]. cbn in Tr.
      cbn [leavesl]. rewrite (leaves_unwrap _ _ U).
      destruct (unwrap_spec _ _ U) as [He _].
      destruct (empty_rep_shape _ He) as [[i ->]|[i [f ->]]]; cbn [set_members leaves leavesl];
        rewrite (Pa _ Ea), (Tr _ Er), app_nil_r; cbn; rewrite <- ?app_assoc; reflexivity.
    + destruct (fixd_orig d) as [x|] eqn:Ed; [|discriminate]. cbn [bind] in H.
      destruct (fixl_orig r) as [rest|] eqn:Er; [|discriminate]. cbn [bind] in H. inversion H; subst.
      cbn [leavesl]. rewrite (Pd _ eq_refl), (Qr _ eq_refl). reflexivity.
Qed.

(* ---- 4. the adoption rule itself --------------------------------------------- *)
Theorem fix_adopts_next_orig sid rep a r m rest :
  is_empty_rep rep = true -> desc_X (desc_id rep) = 1%N ->
  fixd_orig a = Ok m -> fixl_orig r = Ok rest ->
  fixl_orig (DCons (DSeq sid (DCons rep DNil)) (DCons a r)) = Ok (DCons (set_members rep (DCons m DNil)) rest).
Proof.
  intros He Hx Ha Hr. cbn [fixl_orig unwrap]. rewrite He. rewrite Hx. cbn [N.eqb Pos.eqb negb].
  rewrite Ha. cbn [bind]. rewrite Hr. reflexivity.
Qed.

(* a replication-only sequence with nothing after it in its list, or replicating more than one descriptor, is refused
   (IndexError / AssertionError in Python: not library errors) *)
Theorem fix_nothing_to_adopt_orig sid rep :
  is_empty_rep rep = true -> desc_X (desc_id rep) = 1%N ->
  fixl_orig (DCons (DSeq sid (DCons rep DNil)) DNil) = Err EIndex.
Proof. intros He Hx. cbn [fixl_orig unwrap]. rewrite He, Hx. reflexivity. Qed.


(* ==== the repaired repair (current /repo) ======================================== *)

(* wherever the original did not raise, the current one gives the same template *)
Theorem fix_agrees_orig :
  (forall d d', fixd_orig d = Ok d' -> fixd d = Ok d') /\
  (forall ds ds', fixl_orig ds = Ok ds' -> fixl ds = Ok ds').
Proof.
  apply desc_descs_ind2.
  - intros e d' H. exact H.
  - intros id ms IH d' H. cbn in H |- *. destruct ms as [|m0 mr].
    + destruct (desc_X id =? 1)%N; discriminate.
    + destruct (fixl_orig (DCons m0 mr)) as [ms'|] eqn:E; [|discriminate]. rewrite (IH _ eq_refl). exact H.
  - intros id f ms _ IH d' H. cbn in H |- *. destruct ms as [|m0 mr].
    + destruct (desc_X id =? 1)%N; discriminate.
    + destruct (fixl_orig (DCons m0 mr)) as [ms'|] eqn:E; [|discriminate]. rewrite (IH _ eq_refl). exact H.
  - intros id d' H. exact H.
  - intros id ms IH d' H. cbn [fixd_orig] in H. cbn [fixd]. destruct (unwrap (DSeq id ms)) as [r|] eqn:U.
    + destruct (desc_X (desc_id r) =? 1)%N; discriminate.
    + destruct (fixl_orig ms) as [ms'|] eqn:E; [|discriminate]. rewrite (IH _ eq_refl). exact H.
  - intros id d' H. exact H.
  - intros id d' H. exact H.
  - intros ds' H. exact H.
  - intros d r Pd Qr Ar Tr ds' H. cbn [fixl_orig] in H. cbn [fixl]. destruct (unwrap d) as [rep|] eqn:U.
    + destruct (desc_X (desc_id rep) =? 1)%N; cbn [negb] in H; [|discriminate].
      destruct r as [|a r']; [discriminate|].
      destruct (fixd_orig a) as [m|] eqn:Ea; [|discriminate]. cbn [bind] in H.
      destruct (fixl_orig r') as [rest|] eqn:Er; [|discriminate]. cbn [bind] in H.
      destruct Ar as [Pa _]. cbn in Tr.
      rewrite (Pa _ Ea). cbn [bind]. rewrite (Tr _ Er). exact H.
    + destruct (fixd_orig d) as [x|] eqn:Ed; [|discriminate]. cbn [bind] in H.
      destruct (fixl_orig r) as [rest|] eqn:Er; [|discriminate]. cbn [bind] in H.
      rewrite (Pd _ eq_refl). cbn [bind]. rewrite (Qr _ eq_refl). exact H.
Qed.

(* the current repair never raises *)
Theorem fix_total :
  (forall d, exists d', fixd d = Ok d') /\ (forall ds, exists ds', fixl ds = Ok ds').
Proof.
  apply desc_descs_ind2.
  - intros e. eexists; reflexivity.
  - intros id ms [ms' E]. cbn [fixd]. destruct ms as [|m0 mr]; [eexists; reflexivity|]. rewrite E. eexists; reflexivity.
  - intros id f ms _ [ms' E]. cbn [fixd]. destruct ms as [|m0 mr]; [eexists; reflexivity|]. rewrite E. eexists; reflexivity.
  - intros id. eexists; reflexivity.
  - intros id ms [ms' E]. cbn [fixd]. destruct (unwrap (DSeq id ms)); [eexists; reflexivity|]. rewrite E. eexists; reflexivity.
  - intros id. eexists; reflexivity.
  - intros id. eexists; reflexivity.
  - eexists; reflexivity.
  - intros d r [x Ex] [rest Er] Ar Tr. cbn [fixl]. destruct (unwrap d) as [rep|].
    + destruct (desc_X (desc_id rep) =? 1)%N.
      * destruct r as [|a r']; [eexists; reflexivity|]. destruct Ar as [[m Ea] _]. cbn in Tr. destruct Tr as [rest' Er'].
        rewrite Ea. cbn [bind]. rewrite Er'. eexists; reflexivity.
      * rewrite Er. eexists; reflexivity.
    + rewrite Ex. cbn [bind]. rewrite Er. eexists; reflexivity.
Qed.

Theorem fix_identity : forall ds, cleanl ds = true -> fixl ds = Ok ds.
Proof. intros ds H. apply (proj2 fix_agrees_orig). apply (proj2 fix_identity_orig). exact H. Qed.

(* the processing order is unchanged, also where nothing could be adopted *)
Lemma leaves_empty_rep rep ms : is_empty_rep rep = true -> leaves (set_members rep ms) = leaves rep ++ leavesl ms.
Proof.
  intro He. destruct (empty_rep_shape _ He) as [[i ->]|[i [f ->]]]; cbn; reflexivity.
Qed.

Theorem fix_leaves :
  (forall d d', fixd d = Ok d' -> leaves d' = leaves d) /\
  (forall ds ds', fixl ds = Ok ds' -> leavesl ds' = leavesl ds).
Proof.
  apply desc_descs_ind2.
  - intros e d' H. inversion H. reflexivity.
  - intros id ms IH d' H. cbn in H. destruct ms as [|m0 mr].
    + inversion H. reflexivity.
    + destruct (fixl (DCons m0 mr)) as [ms'|] eqn:E; [|discriminate]. cbn in H. inversion H; subst.
      cbn [leaves]. rewrite (IH _ eq_refl). reflexivity.
  - intros id f ms _ IH d' H. cbn in H. destruct ms as [|m0 mr].
    + inversion H. reflexivity.
    + destruct (fixl (DCons m0 mr)) as [ms'|] eqn:E; [|discriminate]. cbn in H. inversion H; subst.
      cbn [leaves]. rewrite (IH _ eq_refl). reflexivity.
  - intros id d' H. inversion H. reflexivity.
  - intros id ms IH d' H. cbn [fixd] in H. destruct (unwrap (DSeq id ms)) as [r|] eqn:U.
    + inversion H; subst. symmetry. apply (leaves_unwrap _ _ U).
    + destruct (fixl ms) as [ms'|] eqn:E; [|discriminate]. cbn in H. inversion H; subst.
      cbn [leaves]. apply (IH _ eq_refl).
  - intros id d' H. inversion H. reflexivity.
  - intros id d' H. inversion H. reflexivity.
  - intros ds' H. inversion H. reflexivity.
  - intros d r Pd Qr Ar Tr ds' H. cbn [fixl] in H. destruct (unwrap d) as [rep|] eqn:U.
    + destruct (unwrap_spec _ _ U) as [He _].
      destruct (desc_X (desc_id rep) =? 1)%N.
      * destruct r as [|a r'].
        { inversion H; subst. cbn [leavesl]. rewrite (leaves_unwrap _ _ U). reflexivity. }
        destruct (fixd a) as [m|] eqn:Ea; [|discriminate]. cbn [bind] in H.
        destruct (fixl r') as [rest|] eqn:Er; [|discriminate]. cbn [bind] in H. inversion H; subst.
        destruct Ar as [Pa _]. cbn in Tr.
        cbn [leavesl]. rewrite (leaves_unwrap _ _ U), (leaves_empty_rep _ _ He). cbn [leavesl].
        rewrite (Pa _ Ea), (Tr _ Er), app_nil_r, <- app_assoc. reflexivity.
      * destruct (fixl r) as [rest|] eqn:Er; [|discriminate]. cbn [bind] in H. inversion H; subst.
        cbn [leavesl]. rewrite (leaves_unwrap _ _ U), (Qr _ eq_refl). reflexivity.
    + destruct (fixd d) as [x|] eqn:Ed; [|discriminate]. cbn [bind] in H.
      destruct (fixl r) as [rest|] eqn:Er; [|discriminate]. cbn [bind] in H. inversion H; subst.
      cbn [leavesl]. rewrite (Pd _ eq_refl), (Qr _ eq_refl). reflexivity.
Qed.

(* where the layout is a proper NCEP layout (the original repair would not have raised), nothing is left to repair *)
Theorem fix_clean ds ds' : is_ok (fixl_orig ds) = true -> fixl ds = Ok ds' -> cleanl ds' = true.
Proof.
  intros Ho H. destruct (fixl_orig ds) as [x|] eqn:E; [|discriminate].
  pose proof (proj2 fix_agrees_orig _ _ E) as A. rewrite A in H. inversion H; subst.
  apply (proj2 fix_clean_orig _ _ E).
Qed.

Theorem fix_idempotent ds ds' : is_ok (fixl_orig ds) = true -> fixl ds = Ok ds' -> fixl ds' = Ok ds'.
Proof. intros Ho H. apply fix_identity. apply (fix_clean _ _ Ho H). Qed.

Theorem fix_adopts_next sid rep a r m rest :
  is_empty_rep rep = true -> desc_X (desc_id rep) = 1%N ->
  fixd a = Ok m -> fixl r = Ok rest ->
  fixl (DCons (DSeq sid (DCons rep DNil)) (DCons a r)) = Ok (DCons (set_members rep (DCons m DNil)) rest).
Proof.
  intros He Hx Ha Hr. cbn [fixl unwrap]. rewrite He. rewrite Hx. cbn [N.eqb Pos.eqb].
  rewrite Ha. cbn [bind]. rewrite Hr. reflexivity.
Qed.

(* the defect of the original: a template that ends with a replication-only sequence (or a bare replication) made
   template_from_ids raise IndexError, which is not a library error *)
Theorem fix_orig_refuted : exists ds e, fixl_orig ds = Err e /\ is_lib_err e = false /\ is_ok (fixl ds) = true.
Proof.
  exists (DCons (DElem (mkElem 1001 [] 0 0 7)) (DCons (DDelayed 101000 (DElem (mkElem 31001 [] 0 0 8)) DNil) DNil)), EIndex.
  vm_compute. repeat split; reflexivity.
Qed.
