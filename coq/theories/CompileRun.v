(* CompileRun.v — decoding / encoding through a compiled template
   (Decoder / Encoder with compiled_template_cache_max set). *)
From PBK Require Import Base Bits Descr Walk Coder Decode Encode Column DecodeC EncodeC Compile.

Definition decode_uncompressed_c (T : descs) (n : nat) (bits : reader)
  : result (list subset_out * list (list value) * reader) :=
  let* code := compile T in
  let* (outs, d) := run_subsets_c dec_prims true code dec_switch 0 n (mkD bits (repeat [] n) 0) [] in
  Ok (outs, d_vals d, d_r d).

Definition decode_compressed_c (T : descs) (n : nat) (bits : reader)
  : result (list subset_out * list (list value) * reader) :=
  let* code := compile T in
  let* (outs, d) := run_compressed_c decc_prims true code n (mkD bits (repeat [] n) 0) in
  Ok (outs, d_vals d, d_r d).

Definition encode_uncompressed_c (T : descs) (vals : list (list value)) : result (list subset_out * writer) :=
  let* code := compile T in
  let* (outs, e) := run_subsets_c enc_prims true code enc_switch 0 (length vals) (mkE [] vals 0 0) [] in
  Ok (outs, e_w e).

Definition encode_compressed_c (T : descs) (vals : list (list value)) : result (list subset_out * writer) :=
  let* code := compile T in
  let* (outs, e) := run_compressed_c encc_prims true code (length vals) (mkE [] vals 0 0) in
  Ok (outs, e_w e).

(* through save / load: the statements are reloaded with the given Table B *)
Definition decode_uncompressed_l (lookup_b : N -> option elem) (T : descs) (n : nat) (bits : reader)
  : result (list subset_out * list (list value) * reader) :=
  let* code := compile T in
  let* (outs, d) := run_subsets_c dec_prims true (reload_stmts lookup_b code) dec_switch 0 n (mkD bits (repeat [] n) 0) [] in
  Ok (outs, d_vals d, d_r d).
