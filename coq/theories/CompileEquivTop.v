(* CompileEquivTop.v — the compilation theorem (C08) for the compiler of
   Compile.v and for the concrete coders of CompileRun.v. *)
From Coq Require Import ZifyBool ZifyNat ZifyN.
From PBK Require Import Base Bits Descr Walk Coder WalkSim Decode Encode Column DecodeC EncodeC
  Compile CompileRun CompileProofs CompileChk CompileEquivBase CompileEquivInv CompileEquiv.

(* ---- the checking compiler records what the compiler records -------------------- *)
Definition Rck (a : cks) (b : cstate) : Prop := ck_code a = b.

Lemma sim_cemit x : simf Rck (cemit x) (emit x).
Proof.
  intros s1 s2 s1' [Hr Hc] E. unfold cemit in E. injection E as <-. unfold emit.
  eexists; split; [reflexivity|]. split; cbn; [exact Hr|]. unfold Rck in *. cbn. congruence.
Qed.

Lemma sim_chk_loop1 allow2 ln f1 f2 :
  simf Rck f1 f2 ->
  simf Rck (chk_loop1 allow2 ln f1)
    (fun s => let* s1 := f2 (mkWs (w_r s) SNil) in
              Ok (mkWs (w_r s1) (stmts_snoc (w_c s) (SLoop ln (w_c s1))))).
Proof.
  intros Hf s1 s2 s1' [Hr Hc] E. unfold chk_loop1 in E.
  destruct (f1 (fresh s1)) as [t1|] eqn:E1; cbn [bind] in E; [|discriminate].
  assert (HR0 : Rst Rck (fresh s1) (mkWs (w_r s2) SNil)).
  { split; cbn; [exact Hr|reflexivity]. }
  destruct (Hf _ _ _ HR0 E1) as (t2 & E2 & [Hr2 Hc2]). rewrite E2. cbn [bind].
  assert (HX : s1' = mkWs (w_r t1) (mkCk (stmts_snoc (ck_code (w_c s1)) (SLoop ln (ck_code (w_c t1)))) (ck_ndef (w_c t1))
                                        (ck_c33 (w_c t1)))).
  { destruct (seq_eqb s1 t1); [congruence|]. destruct allow2; [|discriminate].
    destruct (f1 (fresh t1)) as [t3|]; cbn [bind] in E; [|discriminate].
    destruct (seq_eqb t1 t3 && stmts_eqb (ck_code (w_c t1)) (ck_code (w_c t3))); [congruence|discriminate]. }
  subst s1'. eexists; split; [reflexivity|]. split; cbn; [exact Hr2|]. unfold Rck in *. cbn. congruence.
Qed.

Lemma sim_chk_loop allow2 ln f1 f2 :
  simf Rck f1 f2 ->
  simf Rck (chk_loop allow2 ln f1)
    (fun s => let* s1 := f2 (mkWs (w_r s) SNil) in
              Ok (mkWs (w_r s1) (stmts_snoc (w_c s) (SLoop ln (w_c s1))))).
Proof.
  intros Hf s1 s2 s1' HR E. unfold chk_loop in E.
  destruct (f1 (fresh s1)) as [t1|] eqn:E1; cbn [bind] in E; [|discriminate].
  eapply (sim_chk_loop1 allow2 ln f1 f2 Hf); [|exact E].
  destruct HR as [Hr Hc]. split; [exact Hr|exact Hc].
Qed.

Theorem chk_walk_compile nzf :
  (forall d, simf Rck (walk (chk_handlers nzf) chk_add_link d) (walk comp_handlers comp_add_link d)) /\
  (forall ms, simf Rck (walk_list (chk_handlers nzf) chk_add_link ms) (walk_list comp_handlers comp_add_link ms)).
Proof.
  apply walk_sim; cbn [chk_handlers comp_handlers h_numeric h_numeric_new_refval h_string h_codeflag h_new_refval
    h_constant h_define_bitmap h_mark_boundary h_recall_bitmap h_cancel_bitmap h_cancel_backrefs
    h_add_bitmap_link h_bitmap_def_wrap h_fixed h_delayed h_bitmapped].
  - intros; apply sim_cemit.
  - intros; apply sim_cemit.
  - intros; apply sim_cemit.
  - intros; apply sim_cemit.
  - intros dd a s1 s2 s1' [Hr Hc] E. injection E as <-. unfold emit, upd_r. cbn.
    eexists; split; [reflexivity|]. split; cbn; [rewrite Hr; reflexivity|]. unfold Rck in *. cbn. rewrite <- Hc. reflexivity.
  - intros; apply sim_cemit.
  - intros; apply sim_cemit.
  - apply sim_cemit.
  - apply sim_cemit.
  - apply sim_cemit.
  - apply sim_cemit.
  - apply sim_cemit.
  - (* wrap *)
    intros f1 f2 Hf s1 s2 s1' HR E. cbv zeta in E |- *. pose proof HR as [Hr _].
    destruct (f1 s1) as [t1|] eqn:E1; cbn [bind] in E; [|discriminate].
    destruct (Hf _ _ _ HR E1) as (t2 & E2 & HR2). rewrite E2. cbn [bind].
    pose proof HR2 as [Hr2 _]. rewrite <- Hr, <- Hr2.
    destruct (r_n031031 (w_r t1) =? 0)%Z; [eapply sim_cemit; eassumption|].
    destruct (r_n031031 (w_r t1) =? r_n031031 (w_r s1) + 1)%Z; [eapply sim_cemit; eassumption|].
    destruct (r_n031031 (w_r t1) =? r_n031031 (w_r s1))%Z; [|discriminate].
    injection E as <-. eauto.
  - intros n f1 f2 Hf. apply sim_chk_loop. exact Hf.
  - intros f1 f2 Hf. apply sim_chk_loop. exact Hf.
  - (* bitmapped *)
    intros id f1 f2 _ s1 s2 s1' HR E. cbv zeta in E |- *. pose proof HR as [Hr _].
    destruct (r_assoc (w_r s1)); [|discriminate].
    destruct (((r_qa (w_r s1) =? QA_INFO_NA)%N || ((r_qa (w_r s1) =? QA_INFO_WAITING)%N && negb (ck_c33 (w_c s1))))
              && negb (dirty s1)); [|discriminate].
    rewrite <- Hr. eapply sim_cemit; eassumption.
  - intros idx s1 s2 s1' HR E. unfold chk_add_link in E. injection E as <-. unfold comp_add_link. eauto.
Qed.

Lemma chk_run_compile nzf c33 T sC : chk_run nzf c33 T = Ok sC -> compile T = Ok (ck_code (w_c sC)).
Proof.
  unfold chk_run, compile. intros E.
  assert (HR0 : Rst Rck (mkWs regs0 (mkCk SNil 0 c33)) (mkWs regs0 SNil)) by (split; reflexivity).
  destruct (proj2 (chk_walk_compile nzf) T _ _ _ HR0 E) as (s2 & E2 & [_ Hc]).
  rewrite E2. cbn [bind]. unfold Rck in Hc. cbn in Hc. rewrite <- Hc. reflexivity.
Qed.

(* ---- the theorem ------------------------------------------------------------------ *)
Definition same_io {C} (a b : ws (io C)) : Prop := w_c a = w_c b.

Lemma InvR_init : InvR regs0 0 regs0 regs0.
Proof.
  constructor; try reflexivity; try (intros; reflexivity); cbn; intros X; discriminate X.
Qed.

Section Top.
Context {C : Type} (P : prims C).

Lemma compile_exec_gen nzf c33 :
  (nzf = true -> forall c n, p_factor P c = Ok n -> n <> 0%N) ->
  forall T, is_ok (chk_run nzf c33 T) = true ->
  exists code, compile T = Ok code /\
    forall c0 : io C, (c33 = false -> Forall no33_dd (io_dd c0)) ->
      agree same_io (walk_list (io_handlers P) io_add_link T (mkWs regs0 c0))
                    (exec_stmts P true code (mkWs regs0 c0)).
Proof.
  intros Hnz T Hok. destruct (chk_run nzf c33 T) as [sC|] eqn:E; [|discriminate].
  exists (ck_code (w_c sC)). split; [apply (chk_run_compile nzf c33); exact E|].
  intros c0 H0. unfold chk_run in E.
  assert (HS0 : StatInv regs0 0) by (split; [left; reflexivity|cbn; lia]).
  destruct (proj2 (walk_simc P nzf Hnz) T _ _ E HS0) as (code & Ec & _ & A).
  cbn [w_c ck_code stmts_app] in Ec. rewrite Ec.
  eapply agree_mono; [|apply A].
  - intros x y [Hc _]. exact Hc.
  - split; [reflexivity|]. cbn [w_r w_c ck_ndef ck_c33]. split; [exact InvR_init|].
    intros X. split; [exact (H0 X)|]. cbn. auto.
Qed.

(* FULL STATEMENT of C08's compile/exec equivalence, for every primitive family;
   the start state holds no decoded class 33 element descriptor (e.g. none at all) *)
Theorem compile_exec_equiv T :
  ok_c08 T = true ->
  exists code, compile T = Ok code /\
    forall c0 : io C, Forall no33_dd (io_dd c0) ->
      agree same_io (walk_list (io_handlers P) io_add_link T (mkWs regs0 c0))
                    (exec_stmts P true code (mkWs regs0 c0)).
Proof.
  intros Hok. destruct (compile_exec_gen false false (fun X => False_ind _ (Bool.diff_false_true X)) T Hok) as (code & Ec & A).
  exists code. split; [exact Ec|]. intros c0 H0. apply A. intros _. exact H0.
Qed.

(* ... and for an arbitrary start state *)
Theorem compile_exec_equiv_any T :
  ok_c08_any T = true ->
  exists code, compile T = Ok code /\
    forall c0 : io C,
      agree same_io (walk_list (io_handlers P) io_add_link T (mkWs regs0 c0))
                    (exec_stmts P true code (mkWs regs0 c0)).
Proof.
  intros Hok. destruct (compile_exec_gen false true (fun X => False_ind _ (Bool.diff_false_true X)) T Hok) as (code & Ec & A).
  exists code. split; [exact Ec|]. intros c0. apply A. intros X; discriminate X.
Qed.

End Top.

(* with replication factors that are never 0, delayed replications may define
   bitmaps / class 33 attributes as well *)
Theorem compile_exec_equiv_nz {C} (P : prims C) T :
  ok_c08_nz T = true ->
  exists code, compile T = Ok code /\
    forall c0 : io C, Forall no33_dd (io_dd c0) ->
      agree same_io (walk_list (io_handlers (nz_prims P)) io_add_link T (mkWs regs0 c0))
                    (exec_stmts (nz_prims P) true code (mkWs regs0 c0)).
Proof.
  intros Hok.
  assert (Hnz : true = true -> forall c n, p_factor (nz_prims P) c = Ok n -> n <> 0%N).
  { intros _ c n E. cbn [nz_prims p_factor] in E.
    destruct (p_factor P c) as [m|]; cbn [bind] in E; [|discriminate].
    destruct (m =? 0)%N eqn:Em; [discriminate|]. injection E as <-. lia. }
  destruct (compile_exec_gen (nz_prims P) true false Hnz T Hok) as (code & Ec & A).
  exists code. split; [exact Ec|]. intros c0 H0. apply A. intros _. exact H0.
Qed.

(* ---- the loops over subsets --------------------------------------------------------- *)
Section Subsets.
Context {C : Type} (P : prims C) (T : descs) (code : stmts).
Hypothesis Hagree : forall c0 : io C, Forall no33_dd (io_dd c0) ->
  agree same_io (walk_list (io_handlers P) io_add_link T (mkWs regs0 c0))
                (exec_stmts P true code (mkWs regs0 c0)).

Lemma run_subsets_c_eq sw : forall n i c acc,
  run_subsets_c P true code sw i n c acc = run_subsets P T sw i n c acc.
Proof.
  induction n as [|n IH]; intros i c acc; cbn [run_subsets_c run_subsets]; [reflexivity|].
  unfold run_template. pose proof (Hagree (mkIo [] [] (sw i c)) (Forall_nil _)) as A. unfold agree, same_io in A.
  destruct (walk_list (io_handlers P) io_add_link T _) as [s1|e1], (exec_stmts P true code _) as [s2|e2];
    cbn [bind]; try contradiction.
  - rewrite <- A. apply IH.
  - congruence.
Qed.

Lemma run_compressed_c_eq n c : run_compressed_c P true code n c = run_compressed P T n c.
Proof.
  unfold run_compressed_c, run_compressed, run_template.
  pose proof (Hagree (mkIo [] [] c) (Forall_nil _)) as A. unfold agree, same_io in A.
  destruct (walk_list (io_handlers P) io_add_link T _) as [s1|e1], (exec_stmts P true code _) as [s2|e2];
    cbn [bind]; try contradiction.
  - rewrite <- A. reflexivity.
  - congruence.
Qed.
End Subsets.

(* ---- the concrete coders --------------------------------------------------------------- *)
Theorem decode_uncompressed_c_eq T n b :
  ok_c08 T = true -> decode_uncompressed_c T n b = decode_uncompressed T n b.
Proof.
  intros Hok. destruct (compile_exec_equiv dec_prims T Hok) as (code & Ec & A).
  unfold decode_uncompressed_c, decode_uncompressed. rewrite Ec. cbn [bind].
  rewrite (run_subsets_c_eq dec_prims T code A). reflexivity.
Qed.

Theorem decode_compressed_c_eq T n b :
  ok_c08 T = true -> decode_compressed_c T n b = decode_compressed T n b.
Proof.
  intros Hok. destruct (compile_exec_equiv decc_prims T Hok) as (code & Ec & A).
  unfold decode_compressed_c, decode_compressed. rewrite Ec. cbn [bind].
  rewrite (run_compressed_c_eq decc_prims T code A). reflexivity.
Qed.

Theorem encode_uncompressed_c_eq T vals :
  ok_c08 T = true -> encode_uncompressed_c T vals = encode_uncompressed T vals.
Proof.
  intros Hok. destruct (compile_exec_equiv enc_prims T Hok) as (code & Ec & A).
  unfold encode_uncompressed_c, encode_uncompressed. rewrite Ec. cbn [bind].
  rewrite (run_subsets_c_eq enc_prims T code A). reflexivity.
Qed.

Theorem encode_compressed_c_eq T vals :
  ok_c08 T = true -> encode_compressed_c T vals = encode_compressed T vals.
Proof.
  intros Hok. destruct (compile_exec_equiv encc_prims T Hok) as (code & Ec & A).
  unfold encode_compressed_c, encode_compressed. rewrite Ec. cbn [bind].
  rewrite (run_compressed_c_eq encc_prims T code A). reflexivity.
Qed.

(* ---- the hypotheses are satisfiable; the recorded findings are excluded ------------- *)
Definition u_pct : list byte := [37]%N.                          (* '%' *)
Definition e033007 := mkElem 33007 u_pct 0 0 7.
Definition e031001 := mkElem 31001 [78;117;109;101;114;105;99]%N 0 0 8.   (* 'Numeric' *)

(* operators, nested replication, a bitmap defined by a fixed replication, quality
   information (class 33) and a marker operator with 201/207/208 in force *)
Definition T_ok : descs :=
  dl [DElem e012001; DOper 201130; DElem e012001; DOper 201000;
      DFixed 102002 (dl [DElem e007001; DOper 204008; DElem e031021; DElem e008023; DOper 204000]);
      DOper 203012; DElem e007001; DOper 203255; DElem e007001;
      DOper 222000; DOper 236000; DFixed 101004 (dl [DElem e031031]); DFixed 101002 (dl [DElem e033007]);
      DOper 224000; DOper 237000; DElem e008023; DOper 207002; DOper 224255; DOper 207000;
      DDelayed 101000 (DElem e031001) (dl [DOper 221001; DElem e012001])].

Example ok_c08_example : ok_c08 T_ok = true /\ Compile.scoped T_ok = true.
Proof. vm_compute. split; reflexivity. Qed.

Example ok_c08_example_runs :
  is_ok (decode_uncompressed T_ok 2 (repeat false 400)) = true /\
  decode_uncompressed_c T_ok 2 (repeat false 400) = decode_uncompressed T_ok 2 (repeat false 400).
Proof. vm_compute. split; reflexivity. Qed.

(* the witnesses of D14 and D5 are rejected by the side condition *)
Example ok_c08_rejects_d14 : ok_c08 T_d14 = false.
Proof. vm_compute. reflexivity. Qed.
Example ok_c08_rejects_d5 : ok_c08 T_d5 = false.
Proof. vm_compute. reflexivity. Qed.

(* D19: a bitmap defined by a DELAYED replication is accepted only for coders whose
   factors are never 0 *)
Definition T_d19 : descs :=
  dl [DElem e012001; DElem e007001; DOper 222000; DOper 236000;
      DDelayed 101000 (DElem e031001) (dl [DElem e031031]); DFixed 101002 (dl [DElem e033007])].
Example ok_c08_d19 : ok_c08 T_d19 = false /\ ok_c08_nz T_d19 = true.
Proof. vm_compute. split; reflexivity. Qed.

(* a marker operator while the 222000 status is "waiting": accepted when no class 33
   element can be among the back references, rejected for an arbitrary start state
   and when a class 33 element precedes *)
Definition T_waiting : descs :=
  dl [DElem e012001; DElem e012001; DOper 222000; DOper 236000; DFixed 101002 (dl [DElem e031031]);
      DOper 224255; DElem e033007].
Definition T_waiting33 : descs :=
  dl [DElem e012001; DElem e033007; DOper 222000; DOper 236000; DFixed 101002 (dl [DElem e031031]);
      DOper 224255; DOper 224255].
Example ok_c08_waiting :
  ok_c08 T_waiting = true /\ ok_c08_any T_waiting = false /\ ok_c08 T_waiting33 = false /\
  ok_c08_any T_ok = true.
Proof. vm_compute. repeat split. Qed.
