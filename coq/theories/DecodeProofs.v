(* DecodeProofs.v — consequences of the simulation theorem for the decoder:
   suffix independence (bytes after the data never influence decoding) and
   subset independence (each subset is a fresh application of the template). *)
From PBK Require Import Base Bits BitsProofs Descr Walk Coder WalkSim CoderSim Decode.
From Coq Require Import ZifyBool ZifyNat ZifyN.

(* ---- single reads with a suffix ------------------------------------------ *)
Lemma read_bool_suffix r v r' t : read_bool r = Ok (v, r') -> read_bool (r ++ t) = Ok (v, r' ++ t).
Proof. destruct r as [|x r]; cbn; [discriminate|]. intros E; injection E as <- <-. reflexivity. Qed.

Lemma read_int_suffix w r v r' t : read_int w r = Ok (v, r') -> read_int w (r ++ t) = Ok (v, r' ++ t).
Proof.
  unfold read_int. intros E.
  destruct (read_bool r) as [[s r1]|] eqn:E1; cbn [bind] in E; [|discriminate].
  rewrite (read_bool_suffix _ _ _ t E1). cbn [bind].
  destruct (read_uint (w - 1) r1) as [[m r2]|] eqn:E2; cbn [bind] in E; [|discriminate].
  rewrite (read_uint_suffix _ _ _ _ t E2). cbn [bind]. injection E as <- <-. reflexivity.
Qed.

Lemma read_bytes_suffix n r v r' t : read_bytes n r = Ok (v, r') -> read_bytes n (r ++ t) = Ok (v, r' ++ t).
Proof.
  unfold read_bytes. destruct (n <? 0)%Z; [discriminate|]. intros E.
  destruct (take_bits _ r) as [[b rr]|] eqn:E1; cbn [bind] in E; [|discriminate].
  rewrite (take_bits_suffix _ _ _ _ t E1). cbn [bind]. injection E as <- <-. reflexivity.
Qed.

Lemma read_uint_or_none_suffix w r v r' t :
  read_uint_or_none w r = Ok (v, r') -> read_uint_or_none w (r ++ t) = Ok (v, r' ++ t).
Proof.
  unfold read_uint_or_none. intros E.
  destruct (read_uint w r) as [[x r1]|] eqn:E1; cbn [bind] in E; [|discriminate].
  rewrite (read_uint_suffix _ _ _ _ t E1). cbn [bind].
  destruct (1 <? w)%Z; [|injection E as <- <-; reflexivity].
  destruct (64 <? w)%Z; [discriminate|].
  destruct (x =? missing_value (Z.to_N w))%N; injection E as <- <-; reflexivity.
Qed.

(* ---- suffix independence of the decoder's primitives -------------------------- *)
Definition Rsuffix (t : bits) (d1 d2 : dstate) : Prop :=
  d_r d2 = d_r d1 ++ t /\ d_vals d2 = d_vals d1 /\ d_cur d2 = d_cur d1.

Lemma Rsuffix_append t v d1 d2 r' :
  Rsuffix t d1 d2 -> Rsuffix t (d_append v d1 r') (d_append v d2 (r' ++ t)).
Proof. intros (Hr & Hv & Hc). unfold d_append. repeat split; cbn; congruence. Qed.

Ltac dec_prim Hlem :=
  let c1 := fresh "c1" in let c2 := fresh "c2" in let c1' := fresh "c1'" in
  let HR := fresh "HR" in let E := fresh "E" in let E1 := fresh "E1" in
  let Hr := fresh "Hr" in let Hv := fresh "Hv" in let Hc := fresh "Hc" in
  let x := fresh "x" in let r1 := fresh "r1" in
  intros c1 c2 c1' HR E; pose proof HR as (Hr & Hv & Hc);
  match type of E with
  | bind ?rd _ = _ => destruct rd as [[x r1]|] eqn:E1; cbn [bind] in E; [|discriminate]
  end;
  rewrite Hr; rewrite (Hlem _ _ _ _ E1); cbn [bind]; injection E as <-;
  eexists; split; [reflexivity|apply Rsuffix_append; exact HR].

Lemma dec_walk_suffix t :
  (forall d, simf (Rio (Rsuffix t)) (walk (io_handlers dec_prims) io_add_link d) (walk (io_handlers dec_prims) io_add_link d)) /\
  (forall ms, simf (Rio (Rsuffix t)) (walk_list (io_handlers dec_prims) io_add_link ms) (walk_list (io_handlers dec_prims) io_add_link ms)).
Proof.
  apply io_walk_sim; cbn [dec_prims p_numeric p_string p_codeflag p_constant p_new_refval p_factor p_bitmap].
  - intros a b c. unfold simp, dec_numeric. dec_prim (fun w r v r' E => read_uint_or_none_suffix w r v r' t E).
  - intros a. unfold simp, dec_string. dec_prim (fun w r v r' E => read_bytes_suffix w r v r' t E).
  - intros a b. unfold simp, dec_codeflag. dec_prim (fun w r v r' E => read_uint_or_none_suffix w r v r' t E).
  - intros a c1 c2 c1' HR E. unfold dec_constant in *. injection E as <-.
    pose proof HR as (Hr & Hv & Hc). rewrite Hr. eexists; split; [reflexivity|].
    apply Rsuffix_append. exact HR.
  - intros a c1 c2 z c1' HR E. unfold dec_new_refval in *. pose proof HR as (Hr & Hv & Hc).
    destruct (read_int a (d_r c1)) as [[v r1]|] eqn:E1; cbn [bind] in E; [|discriminate].
    rewrite Hr, (read_int_suffix _ _ _ _ t E1). cbn [bind]. injection E as <- <-.
    eexists; split; [reflexivity|apply Rsuffix_append; exact HR].
  - intros c1 c2 n (Hr & Hv & Hc). unfold dec_factor, cur_vals. rewrite Hv, Hc. auto.
  - intros a c1 c2 bm (Hr & Hv & Hc). unfold dec_bitmap, cur_vals. rewrite Hv, Hc. auto.
Qed.

Lemma Rsuffix_switch t i c1 c2 : Rsuffix t c1 c2 -> Rsuffix t (dec_switch i c1) (dec_switch i c2).
Proof. intros (Hr & Hv & Hc). repeat split; cbn; assumption. Qed.

(* Bits that follow the data section never influence its decoding: whatever is
   decoded from [b] is decoded, identically, from [b ++ t], and exactly [t] more
   is left over. *)
Theorem decode_suffix_independent T n b t outs vals rest :
  decode_uncompressed T n b = Ok (outs, vals, rest) ->
  decode_uncompressed T n (b ++ t) = Ok (outs, vals, rest ++ t).
Proof.
  unfold decode_uncompressed. intros E.
  destruct (run_subsets dec_prims T dec_switch 0 n (mkD b (repeat [] n) 0) []) as [[o d]|] eqn:E1;
    cbn [bind] in E; [|discriminate].
  injection E as <- <- <-.
  assert (HR : Rsuffix t (mkD b (repeat [] n) 0) (mkD (b ++ t) (repeat [] n) 0)) by (repeat split).
  destruct (run_subsets_sim dec_prims dec_prims (Rsuffix t) (Rsuffix t) _ _
              (proj2 (dec_walk_suffix t))
              (Rsuffix_switch t) (fun _ _ H => H)
              T n 0 _ _ [] _ _ HR E1) as (d2 & E2 & (Hr & Hv & Hc)).
  rewrite E2. cbn [bind]. rewrite Hr, Hv. reflexivity.
Qed.

(* ======================================================================== *)
(* Subset independence (C06)                                                 *)
(* ======================================================================== *)

Lemma upd_nth_length {A} i (f : A -> A) l : length (upd_nth i f l) = length l.
Proof.
  unfold upd_nth. rewrite app_length, firstn_length.
  pose proof (skipn_length i l) as Hs.
  destruct (skipn i l) as [|x r] eqn:E; cbn [length] in *; lia.
Qed.

Lemma upd_nth_upd_nth {A} i (f g : A -> A) l :
  upd_nth i f (upd_nth i g l) = upd_nth i (fun x => f (g x)) l.
Proof.
  unfold upd_nth.
  destruct (Nat.lt_ge_cases i (length l)) as [Hi|Hi].
  - assert (Hl : length (firstn i l) = i) by (rewrite firstn_length; lia).
    rewrite (firstn_app_exact i) by exact Hl. rewrite (skipn_app_exact i) by exact Hl.
    destruct (skipn i l) as [|x r] eqn:E.
    + pose proof (skipn_length i l) as Hs. rewrite E in Hs. cbn in Hs. lia.
    + reflexivity.
  - rewrite (skipn_all2 l) by lia. rewrite !app_nil_r.
    rewrite (firstn_all2 l) by lia. rewrite (firstn_all2 l) by lia. rewrite (skipn_all2 l) by lia.
    rewrite app_nil_r. reflexivity.
Qed.

Lemma nth_upd_nth {A} i (f : A -> A) l d : (i < length l)%nat -> nth i (upd_nth i f l) d = f (nth i l d).
Proof.
  intros Hi. unfold upd_nth.
  assert (Hl : length (firstn i l) = i) by (rewrite firstn_length; lia).
  rewrite app_nth2 by lia. rewrite Hl, Nat.sub_diag.
  rewrite <- (firstn_skipn i l) at 2. rewrite app_nth2 by lia. rewrite Hl, Nat.sub_diag.
  destruct (skipn i l) as [|x r] eqn:E.
  - pose proof (skipn_length i l) as Hs. rewrite E in Hs. cbn in Hs. lia.
  - reflexivity.
Qed.

Lemma upd_nth_ext {A} i (f g : A -> A) l : (forall x, f x = g x) -> upd_nth i f l = upd_nth i g l.
Proof. intros H. unfold upd_nth. destruct (skipn i l); [reflexivity|]. rewrite H. reflexivity. Qed.

Lemma upd_nth_cons {A} i (f : A -> A) x l : upd_nth (S i) f (x :: l) = x :: upd_nth i f l.
Proof. reflexivity. Qed.

(* One subset decoded at index i of a message with several subsets behaves as
   the same subset decoded alone: same reads, same values, same descriptors. *)
Definition Rone (i : nat) (vals0 : list (list value)) (d1 d2 : dstate) : Prop :=
  d_r d1 = d_r d2 /\ d_cur d1 = i /\ d_cur d2 = O /\
  exists l, d_vals d2 = [l] /\ d_vals d1 = upd_nth i (fun _ => l) vals0.

Lemma Rone_cur i vals0 d1 d2 : (i < length vals0)%nat -> Rone i vals0 d1 d2 -> cur_vals d1 = cur_vals d2.
Proof.
  intros Hi (Hr & Hc1 & Hc2 & l & Hv2 & Hv1). unfold cur_vals. rewrite Hc1, Hc2, Hv1, Hv2.
  rewrite nth_upd_nth by exact Hi. reflexivity.
Qed.

Lemma Rone_append i vals0 v d1 d2 r' :
  Rone i vals0 d1 d2 -> Rone i vals0 (d_append v d1 r') (d_append v d2 r').
Proof.
  intros (Hr & Hc1 & Hc2 & l & Hv2 & Hv1). unfold d_append. repeat split; cbn; try assumption.
  exists (l ++ [v]). rewrite Hc1, Hc2, Hv1, Hv2. split; [reflexivity|].
  rewrite upd_nth_upd_nth. reflexivity.
Qed.

Ltac one_prim :=
  let c1 := fresh "c1" in let c2 := fresh "c2" in let c1' := fresh "c1'" in
  let HR := fresh "HR" in let E := fresh "E" in let E1 := fresh "E1" in
  let x := fresh "x" in let r1 := fresh "r1" in let Hr := fresh "Hr" in
  intros c1 c2 c1' HR E; pose proof HR as (Hr & _);
  match type of E with
  | bind ?rd _ = _ => destruct rd as [[x r1]|] eqn:E1; cbn [bind] in E; [|discriminate]
  end;
  rewrite <- Hr, E1; cbn [bind]; injection E as <-;
  eexists; split; [reflexivity|apply Rone_append; exact HR].

Lemma dec_walk_one i vals0 : (i < length vals0)%nat ->
  (forall ms, simf (Rio (Rone i vals0)) (walk_list (io_handlers dec_prims) io_add_link ms)
                                         (walk_list (io_handlers dec_prims) io_add_link ms)).
Proof.
  intros Hi. apply io_walk_sim; cbn [dec_prims p_numeric p_string p_codeflag p_constant p_new_refval p_factor p_bitmap].
  - intros a b c. unfold simp, dec_numeric. one_prim.
  - intros a. unfold simp, dec_string. one_prim.
  - intros a b. unfold simp, dec_codeflag. one_prim.
  - intros a c1 c2 c1' HR E. unfold dec_constant in *. injection E as <-.
    pose proof HR as (Hr & _). rewrite <- Hr. eexists; split; [reflexivity|apply Rone_append; exact HR].
  - intros a c1 c2 z c1' HR E. unfold dec_new_refval in *. pose proof HR as (Hr & _).
    destruct (read_int a (d_r c1)) as [[v r1]|] eqn:E1; cbn [bind] in E; [|discriminate].
    rewrite <- Hr, E1. cbn [bind]. injection E as <- <-.
    eexists; split; [reflexivity|apply Rone_append; exact HR].
  - intros c1 c2 n HR. unfold dec_factor. rewrite (Rone_cur _ _ _ _ Hi HR). auto.
  - intros a c1 c2 bm HR. unfold dec_bitmap. rewrite (Rone_cur _ _ _ _ Hi HR). auto.
Qed.

(* Shifting: the remaining subsets of a joint decode behave as a decode of their own *)
Definition Rshift (v1 : list value) (d1 d2 : dstate) : Prop :=
  d_r d1 = d_r d2 /\ d_vals d1 = v1 :: d_vals d2 /\ d_cur d1 = S (d_cur d2).

Definition Rshift0 (v1 : list value) (d1 d2 : dstate) : Prop :=
  d_r d1 = d_r d2 /\ d_vals d1 = v1 :: d_vals d2.

Lemma Rshift_append v1 v d1 d2 r' :
  Rshift v1 d1 d2 -> Rshift v1 (d_append v d1 r') (d_append v d2 r').
Proof.
  intros (Hr & Hv & Hc). unfold d_append. repeat split; cbn; try assumption.
  rewrite Hc, Hv. apply upd_nth_cons.
Qed.

Lemma Rshift_cur v1 d1 d2 : Rshift v1 d1 d2 -> cur_vals d1 = cur_vals d2.
Proof. intros (Hr & Hv & Hc). unfold cur_vals. rewrite Hc, Hv. reflexivity. Qed.

Ltac shift_prim :=
  let c1 := fresh "c1" in let c2 := fresh "c2" in let c1' := fresh "c1'" in
  let HR := fresh "HR" in let E := fresh "E" in let E1 := fresh "E1" in
  let x := fresh "x" in let r1 := fresh "r1" in let Hr := fresh "Hr" in
  intros c1 c2 c1' HR E; pose proof HR as (Hr & _);
  match type of E with
  | bind ?rd _ = _ => destruct rd as [[x r1]|] eqn:E1; cbn [bind] in E; [|discriminate]
  end;
  rewrite <- Hr, E1; cbn [bind]; injection E as <-;
  eexists; split; [reflexivity|apply Rshift_append; exact HR].

Lemma dec_walk_shift v1 :
  (forall ms, simf (Rio (Rshift v1)) (walk_list (io_handlers dec_prims) io_add_link ms)
                                      (walk_list (io_handlers dec_prims) io_add_link ms)).
Proof.
  apply io_walk_sim; cbn [dec_prims p_numeric p_string p_codeflag p_constant p_new_refval p_factor p_bitmap].
  - intros a b c. unfold simp, dec_numeric. shift_prim.
  - intros a. unfold simp, dec_string. shift_prim.
  - intros a b. unfold simp, dec_codeflag. shift_prim.
  - intros a c1 c2 c1' HR E. unfold dec_constant in *. injection E as <-.
    pose proof HR as (Hr & _). rewrite <- Hr. eexists; split; [reflexivity|apply Rshift_append; exact HR].
  - intros a c1 c2 z c1' HR E. unfold dec_new_refval in *. pose proof HR as (Hr & _).
    destruct (read_int a (d_r c1)) as [[v r1]|] eqn:E1; cbn [bind] in E; [|discriminate].
    rewrite <- Hr, E1. cbn [bind]. injection E as <- <-.
    eexists; split; [reflexivity|apply Rshift_append; exact HR].
  - intros c1 c2 n HR. unfold dec_factor. rewrite (Rshift_cur _ _ _ HR). auto.
  - intros a c1 c2 bm HR. unfold dec_bitmap. rewrite (Rshift_cur _ _ _ HR). auto.
Qed.

Lemma run_subsets_shift {C} (P : prims C) T (sw : nat -> C -> C) n : forall i c acc,
  run_subsets P T sw (S i) n c acc = run_subsets P T (fun k => sw (S k)) i n c acc.
Proof.
  induction n as [|n IH]; intros i c acc; cbn [run_subsets]; [reflexivity|].
  destruct (run_template P T _); cbn [bind]; [apply IH|reflexivity].
Qed.

Lemma run_subsets_acc_eq {C} (P : prims C) T (sw : nat -> C -> C) n : forall i c acc,
  run_subsets P T sw i n c acc =
  match run_subsets P T sw i n c [] with
  | Ok (o, c') => Ok (acc ++ o, c')
  | Err e => Err e
  end.
Proof.
  induction n as [|n IH]; intros i c acc; cbn [run_subsets].
  - rewrite app_nil_r. reflexivity.
  - destruct (run_template P T _) as [s1|]; cbn [bind]; [|reflexivity].
    rewrite (IH (S i) _ (acc ++ _)). rewrite (IH (S i) _ ([] ++ _)).
    destruct (run_subsets P T sw (S i) n (io_c (w_c s1)) []) as [[o c']|]; [|reflexivity].
    rewrite <- !app_assoc. reflexivity.
Qed.

Lemma run_subsets_acc {C} (P : prims C) T (sw : nat -> C -> C) n i c acc outs c' :
  run_subsets P T sw i n c acc = Ok (outs, c') ->
  exists outs', outs = acc ++ outs' /\ run_subsets P T sw i n c [] = Ok (outs', c').
Proof.
  rewrite run_subsets_acc_eq.
  destruct (run_subsets P T sw i n c []) as [[o cc]|]; [|discriminate].
  intros E; injection E as <- <-. eauto.
Qed.

(* C06: decoding n+1 subsets together = decoding the first alone, then the
   remaining n from where the first one stopped.  By induction every subset of a
   joint decode equals the decode of that subset alone. *)
Theorem decode_subsets_split T n b outs vals rest :
  decode_uncompressed T (S n) b = Ok (outs, vals, rest) ->
  exists o1 v1 r1 outs' vals',
    decode_uncompressed T 1 b = Ok ([o1], [v1], r1) /\
    decode_uncompressed T n r1 = Ok (outs', vals', rest) /\
    outs = o1 :: outs' /\ vals = v1 :: vals'.
Proof.
  unfold decode_uncompressed. intros E.
  destruct (run_subsets dec_prims T dec_switch 0 (S n) _ []) as [[o d]|] eqn:E0; cbn [bind] in E; [|discriminate].
  injection E as <- <- <-.
  cbn [run_subsets] in E0. unfold run_template in E0.
  destruct (walk_list (io_handlers dec_prims) io_add_link T _) as [s1|] eqn:E1; cbn [bind] in E0; [|discriminate].
  (* the first subset, alone *)
  assert (HR1 : Rst (Rio (Rone 0 (repeat [] (S n))))
             (mkWs regs0 (mkIo [] [] (dec_switch 0 (mkD b (repeat [] (S n)) 0))))
             (mkWs regs0 (mkIo [] [] (dec_switch 0 (mkD b (repeat [] 1) 0))))).
  { split; cbn; [reflexivity|]. repeat split; cbn. exists []. split; reflexivity. }
  destruct (dec_walk_one 0 (repeat [] (S n)) ltac:(cbn; lia) T _ _ _ HR1 E1)
    as (s2 & E2 & Hr & Hdd & Hl & (Hrd & Hc1 & Hc2 & l & Hv2 & Hv1)).
  cbn [run_subsets]. unfold run_template. rewrite E2. cbn [bind].
  (* the remaining subsets *)
  rewrite run_subsets_shift in E0.
  destruct (run_subsets_acc _ _ _ _ _ _ _ _ _ E0) as (outs' & -> & E3).
  assert (HR2 : Rshift0 l (io_c (w_c s1)) (mkD (d_r (io_c (w_c s1))) (repeat [] n) 0)).
  { split; [reflexivity|]. cbn. rewrite Hv1. reflexivity. }
  destruct (run_subsets_sim dec_prims dec_prims (Rshift l) (Rshift0 l) (fun k => dec_switch (S k)) dec_switch
              (dec_walk_shift l)
              (fun i c1 c2 H => match H with conj a b0 => conj a (conj b0 eq_refl) end)
              (fun c1 c2 H => match H with conj a (conj b0 _) => conj a b0 end)
              T n 0 _ _ [] _ _ HR2 E3) as (d2 & E4 & (Hr4 & Hv4)).
  exists (mkSubsetOut (io_dd (w_c s1)) (io_links (w_c s1))), l, (d_r (io_c (w_c s1))), outs', (d_vals d2).
  rewrite <- Hdd, <- Hl, <- Hrd, Hv2. split; [reflexivity|].
  rewrite E4. cbn [bind]. rewrite <- Hr4. repeat split; assumption.
Qed.

(* ---- the converse: single decodes can be joined ------------------------------ *)
Definition Rone' i vals0 (d2 d1 : dstate) := Rone i vals0 d1 d2.
Definition Rshift' v1 (d2 d1 : dstate) := Rshift v1 d1 d2.
Definition Rshift0' v1 (d2 d1 : dstate) := Rshift0 v1 d1 d2.

Ltac rev_prim Happ :=
  let c1 := fresh "c1" in let c2 := fresh "c2" in let c1' := fresh "c1'" in
  let HR := fresh "HR" in let E := fresh "E" in let E1 := fresh "E1" in
  let x := fresh "x" in let r1 := fresh "r1" in let Hr := fresh "Hr" in
  intros c1 c2 c1' HR E; pose proof HR as (Hr & _);
  match type of E with
  | bind ?rd _ = _ => destruct rd as [[x r1]|] eqn:E1; cbn [bind] in E; [|discriminate]
  end;
  rewrite Hr, E1; cbn [bind]; injection E as <-;
  eexists; split; [reflexivity|apply Happ; exact HR].

Lemma dec_walk_one_rev i vals0 : (i < length vals0)%nat ->
  (forall ms, simf (Rio (Rone' i vals0)) (walk_list (io_handlers dec_prims) io_add_link ms)
                                          (walk_list (io_handlers dec_prims) io_add_link ms)).
Proof.
  intros Hi. apply io_walk_sim; cbn [dec_prims p_numeric p_string p_codeflag p_constant p_new_refval p_factor p_bitmap].
  - intros a b c. unfold simp, dec_numeric, Rone'. rev_prim Rone_append.
  - intros a. unfold simp, dec_string, Rone'. rev_prim Rone_append.
  - intros a b. unfold simp, dec_codeflag, Rone'. rev_prim Rone_append.
  - intros a c1 c2 c1' HR E. unfold dec_constant, Rone' in *. injection E as <-.
    pose proof HR as (Hr & _). rewrite Hr. eexists; split; [reflexivity|apply Rone_append; exact HR].
  - intros a c1 c2 z c1' HR E. unfold dec_new_refval, Rone' in *. pose proof HR as (Hr & _).
    destruct (read_int a (d_r c1)) as [[v r1]|] eqn:E1; cbn [bind] in E; [|discriminate].
    rewrite Hr, E1. cbn [bind]. injection E as <- <-.
    eexists; split; [reflexivity|apply Rone_append; exact HR].
  - intros c1 c2 n HR. unfold dec_factor, Rone' in *. rewrite <- (Rone_cur _ _ _ _ Hi HR). auto.
  - intros a c1 c2 bm HR. unfold dec_bitmap, Rone' in *. rewrite <- (Rone_cur _ _ _ _ Hi HR). auto.
Qed.

Lemma dec_walk_shift_rev v1 :
  (forall ms, simf (Rio (Rshift' v1)) (walk_list (io_handlers dec_prims) io_add_link ms)
                                       (walk_list (io_handlers dec_prims) io_add_link ms)).
Proof.
  apply io_walk_sim; cbn [dec_prims p_numeric p_string p_codeflag p_constant p_new_refval p_factor p_bitmap].
  - intros a b c. unfold simp, dec_numeric, Rshift'. rev_prim Rshift_append.
  - intros a. unfold simp, dec_string, Rshift'. rev_prim Rshift_append.
  - intros a b. unfold simp, dec_codeflag, Rshift'. rev_prim Rshift_append.
  - intros a c1 c2 c1' HR E. unfold dec_constant, Rshift' in *. injection E as <-.
    pose proof HR as (Hr & _). rewrite Hr. eexists; split; [reflexivity|apply Rshift_append; exact HR].
  - intros a c1 c2 z c1' HR E. unfold dec_new_refval, Rshift' in *. pose proof HR as (Hr & _).
    destruct (read_int a (d_r c1)) as [[v r1]|] eqn:E1; cbn [bind] in E; [|discriminate].
    rewrite Hr, E1. cbn [bind]. injection E as <- <-.
    eexists; split; [reflexivity|apply Rshift_append; exact HR].
  - intros c1 c2 n HR. unfold dec_factor, Rshift' in *. rewrite <- (Rshift_cur _ _ _ HR). auto.
  - intros a c1 c2 bm HR. unfold dec_bitmap, Rshift' in *. rewrite <- (Rshift_cur _ _ _ HR). auto.
Qed.

Theorem decode_subsets_join T n b o1 v1 r1 outs' vals' rest :
  decode_uncompressed T 1 b = Ok ([o1], [v1], r1) ->
  decode_uncompressed T n r1 = Ok (outs', vals', rest) ->
  decode_uncompressed T (S n) b = Ok (o1 :: outs', v1 :: vals', rest).
Proof.
  unfold decode_uncompressed. intros Ea Eb.
  destruct (run_subsets dec_prims T dec_switch 0 1 _ []) as [[oa da]|] eqn:E0; cbn [bind] in Ea; [|discriminate].
  injection Ea as -> Hva Hra.
  destruct (run_subsets dec_prims T dec_switch 0 n _ []) as [[ob db]|] eqn:E5; cbn [bind] in Eb; [|discriminate].
  injection Eb as -> Hvb Hrb.
  cbn [run_subsets] in E0 |- *. unfold run_template in *.
  destruct (walk_list (io_handlers dec_prims) io_add_link T _) as [s2|] eqn:E2; cbn [bind] in E0; [|discriminate].
  injection E0 as Ho Hd. subst da.
  assert (HR1 : Rst (Rio (Rone' 0 (repeat [] (S n))))
             (mkWs regs0 (mkIo [] [] (dec_switch 0 (mkD b (repeat [] 1) 0))))
             (mkWs regs0 (mkIo [] [] (dec_switch 0 (mkD b (repeat [] (S n)) 0))))).
  { split; cbn; [reflexivity|]. repeat split; cbn. exists []. split; reflexivity. }
  destruct (dec_walk_one_rev 0 (repeat [] (S n)) ltac:(cbn; lia) T _ _ _ HR1 E2)
    as (s1 & E1 & Hr & Hdd & Hl & (Hrd & Hc1 & Hc2 & l & Hv2 & Hv1)).
  rewrite E1. cbn [bind].
  rewrite run_subsets_shift, run_subsets_acc_eq.
  assert (HR2 : Rshift0' l (mkD r1 (repeat [] n) 0) (io_c (w_c s1))).
  { unfold Rshift0', Rshift0. cbn. rewrite Hrd, Hra. split; [reflexivity|]. rewrite Hv1. reflexivity. }
  destruct (run_subsets_sim dec_prims dec_prims (Rshift' l) (Rshift0' l) dec_switch (fun k => dec_switch (S k))
              (dec_walk_shift_rev l)
              (fun i c1 c2 H => match H with conj a b0 => conj a (conj b0 eq_refl) end)
              (fun c1 c2 H => match H with conj a (conj b0 _) => conj a b0 end)
              T n 0 _ _ [] _ _ HR2 E5) as (d2 & E4 & (Hr4 & Hv4)).
  rewrite E4. cbn [bind app]. rewrite Hr4, Hv4, Hrb, Hvb.
  rewrite Hv2 in Hva. injection Hva as ->. rewrite <- Hdd, <- Hl, Ho. reflexivity.
Qed.
