(* MdQueryProofs.v — theorems for C17: the '%[k.]name' parser, first-match
   lookup, and metadata-only decoding (Frame.v's decode_message with info_only). *)
From PBK Require Import Base Bits BitsProofs Frame FrameProofs MdQuery.
From Coq Require Import ZifyBool ZifyNat ZifyN.

(* ------------------------------------------------------------------------ *)
(* parser                                                                    *)
(* ------------------------------------------------------------------------ *)
Definition no_dot (s : list byte) : bool := negb (existsb (N.eqb 46) s).
Definition all_space (s : list byte) : bool := forallb is_space s.
Definition ends_clean (s : list byte) : bool :=
  match rev s with [] => true | c :: _ => negb (is_space c) end.

Lemma lstrip_spaces f ws s : forallb f ws = true -> lstrip_with f (ws ++ s) = lstrip_with f s.
Proof.
  induction ws as [|c ws IH]; [reflexivity|]. cbn [forallb app lstrip_with].
  intros H. apply andb_true_iff in H as [H1 H2]. rewrite H1. apply IH, H2.
Qed.

Lemma lstrip_stop f c s : f c = false -> lstrip_with f (c :: s) = c :: s.
Proof. intros H. cbn [lstrip_with]. rewrite H. reflexivity. Qed.

Lemma forallb_rev {A} (f : A -> bool) l : forallb f (rev l) = forallb f l.
Proof.
  induction l as [|x l IH]; [reflexivity|]. cbn [rev forallb]. rewrite forallb_app, IH. cbn [forallb].
  rewrite andb_true_r, andb_comm. reflexivity.
Qed.

(* strip of  ws1 ++ c :: body ++ ws2  when c and the end of (c :: body) are not spaces *)
Lemma strip_with_sandwich f ws1 c body ws2 :
  forallb f ws1 = true -> forallb f ws2 = true -> f c = false ->
  match rev body with [] => true | d :: _ => negb (f d) end = true ->
  strip_with f (ws1 ++ (c :: body) ++ ws2) = c :: body.
Proof.
  intros H1 H2 Hc Hend. unfold strip_with. rewrite lstrip_spaces by exact H1.
  cbn [app]. rewrite lstrip_stop by exact Hc.
  change (c :: body ++ ws2) with ((c :: body) ++ ws2). rewrite rev_app_distr.
  rewrite lstrip_spaces by (rewrite forallb_rev; exact H2).
  cbn [rev]. destruct (rev body) as [|d rb] eqn:Er.
  - cbn [app]. rewrite lstrip_stop by exact Hc. cbn [rev app].
    apply (f_equal (@rev byte)) in Er. rewrite rev_involutive in Er. rewrite Er. reflexivity.
  - cbn [app]. apply negb_true_iff in Hend. rewrite lstrip_stop by exact Hend.
    change (d :: rb ++ [c]) with ((d :: rb) ++ [c]). rewrite <- Er, rev_app_distr, rev_involutive. reflexivity.
Qed.

Lemma split_dot_no_dot s : no_dot s = true -> split_dot s = [s].
Proof.
  unfold no_dot. induction s as [|c s IH]; [reflexivity|]. cbn [existsb split_dot].
  intros H. apply negb_true_iff, orb_false_iff in H as [H1 H2]. rewrite N.eqb_sym in H1. rewrite H1.
  rewrite IH by (apply negb_true_iff; exact H2). reflexivity.
Qed.

Lemma split_dot_one a b : no_dot a = true -> no_dot b = true -> split_dot (a ++ 46%N :: b) = [a; b].
Proof.
  unfold no_dot. intros Ha Hb. induction a as [|c a IH].
  - cbn [app split_dot]. change (46 =? 46)%N with true. cbv iota. rewrite split_dot_no_dot by exact Hb. reflexivity.
  - cbn [existsb] in Ha. apply negb_true_iff, orb_false_iff in Ha as [H1 H2]. rewrite N.eqb_sym in H1.
    cbn [app split_dot]. rewrite H1. rewrite IH by (apply negb_true_iff; exact H2). reflexivity.
Qed.

(* a plain decimal numeral: its value by the usual left fold *)
Definition numeral_value (ds : list byte) : N := fold_left (fun acc d => (10 * acc + (d - 48))%N) ds 0%N.

Lemma digits_val_plain ds : forall acc, forallb is_digit ds = true ->
  digits_val acc false ds = Some (fold_left (fun a d => (10 * a + (d - 48))%N) ds acc).
Proof.
  induction ds as [|d ds IH]; intros acc; [reflexivity|]. cbn [forallb digits_val fold_left].
  intros H. apply andb_true_iff in H as [H1 H2]. rewrite H1. apply IH, H2.
Qed.

Lemma digit_not_space c : is_digit c = true -> is_int_space c = false /\ is_space c = false /\
  (c =? 45)%N = false /\ (c =? 43)%N = false /\ (c =? 46)%N = false.
Proof. unfold is_digit, is_int_space, is_space. intros H. repeat split; lia. Qed.

Lemma py_int_numeral ds : ds <> [] -> forallb is_digit ds = true ->
  py_int ds = Some (Z.of_N (numeral_value ds)).
Proof.
  intros Hne Hd. unfold py_int.
  assert (Hs : strip_with is_int_space ds = ds).
  { destruct ds as [|c body]; [contradiction|].
    cbn [forallb] in Hd. apply andb_true_iff in Hd as [Hc Hb].
    pose proof (strip_with_sandwich is_int_space [] c body [] eq_refl eq_refl) as H.
    cbn [app] in H. rewrite app_nil_r in H. apply H; [apply digit_not_space, Hc|].
    destruct (rev body) as [|d rb] eqn:Er; [reflexivity|].
    assert (Hin : In d body) by (apply in_rev; rewrite Er; left; reflexivity).
    rewrite forallb_forall in Hb. apply negb_true_iff, digit_not_space, Hb, Hin. }
  rewrite Hs. destruct ds as [|c body]; [contradiction|].
  cbn [forallb] in Hd. apply andb_true_iff in Hd as [Hc Hb].
  destruct (digit_not_space c Hc) as (_ & _ & H45 & H43 & _). rewrite H45, H43, Hc.
  rewrite digits_val_plain by exact Hb. unfold numeral_value. cbn [fold_left]. reflexivity.
Qed.

(* C17 md_parse_spec.
   (1) '%name' (surrounded by any whitespace, name without '.', not ending in
       whitespace): no section index, that name;
   (2) '%<numeral>.name': that index and name;
   (3) anything whose first non-blank character is not '%' is rejected with the
       metadata-parsing error;
   (4) a section index that int() rejects is the metadata-parsing error;
   (5) observed, outside the property's claim: two dots -> ValueError, empty -> IndexError *)
Theorem md_parse_spec :
  (forall ws1 ws2 name,
     all_space ws1 = true -> all_space ws2 = true -> no_dot name = true -> ends_clean name = true ->
     md_parse (ws1 ++ (37%N :: name) ++ ws2) = Ok (None, name)) /\
  (forall ws1 ws2 ds name,
     all_space ws1 = true -> all_space ws2 = true -> ds <> [] -> forallb is_digit ds = true ->
     no_dot name = true -> ends_clean name = true ->
     md_parse (ws1 ++ (37%N :: ds ++ 46%N :: name) ++ ws2) = Ok (Some (Z.of_N (numeral_value ds)), name)) /\
  (forall e c rest, strip e = c :: rest -> c <> 37%N -> md_parse e = Err EMetadataExpr) /\
  (forall e rest a b, strip e = 37%N :: rest -> split_dot rest = [a; b] -> py_int a = None ->
     md_parse e = Err EMetadataExpr) /\
  (forall e rest a b c l, strip e = 37%N :: rest -> split_dot rest = a :: b :: c :: l ->
     md_parse e = Err EValue) /\
  (forall e, strip e = [] -> md_parse e = Err EIndex).
Proof.
  assert (Hpct : is_space 37%N = false) by reflexivity.
  split; [|split; [|split; [|split; [|split]]]].
  - intros ws1 ws2 name H1 H2 Hd He. unfold md_parse, strip.
    pose proof (strip_with_sandwich is_space ws1 37%N name ws2 H1 H2 Hpct He) as Hx.
    unfold byte in Hx |- *. rewrite Hx.
    change (37 =? 37)%N with true. cbn [negb existsb]. change (46 =? 37)%N with false. cbn [orb].
    unfold no_dot in Hd. apply negb_true_iff in Hd. rewrite Hd. reflexivity.
  - intros ws1 ws2 ds name H1 H2 Hne Hds Hd He. unfold md_parse, strip.
    assert (He' : match rev (ds ++ 46%N :: name) with [] => true | d :: _ => negb (is_space d) end = true).
    { rewrite rev_app_distr. cbn [rev]. unfold ends_clean in He. destruct (rev name) as [|d rn]; [reflexivity|exact He]. }
    pose proof (strip_with_sandwich is_space ws1 37%N (ds ++ 46%N :: name) ws2 H1 H2 Hpct He') as Hx.
    unfold byte in Hx |- *. rewrite Hx.
    change (37 =? 37)%N with true. cbn [negb existsb]. change (46 =? 37)%N with false. cbn [orb].
    rewrite existsb_app. cbn [existsb]. change (46 =? 46)%N with true. rewrite orb_true_r. cbv iota.
    assert (Hnd : no_dot ds = true).
    { unfold no_dot. apply negb_true_iff. apply not_true_iff_false. intros Hy. apply existsb_exists in Hy as (x & Hin & Hy).
      rewrite forallb_forall in Hds. pose proof (digit_not_space x (Hds x Hin)) as (_ & _ & _ & _ & H46).
      rewrite N.eqb_sym in Hy. congruence. }
    rewrite split_dot_one by assumption. rewrite py_int_numeral by assumption. reflexivity.
  - intros e c rest Hs Hc. unfold md_parse. rewrite Hs. destruct (N.eqb_spec c 37); [contradiction|reflexivity].
  - intros e rest a b Hs Hsp Hi. unfold md_parse. rewrite Hs. change (37 =? 37)%N with true. cbn [negb]. unfold byte in *.
    destruct (existsb (N.eqb 46) (37%N :: rest)) eqn:Ed.
    + rewrite Hsp, Hi. reflexivity.
    + exfalso. cbn [existsb] in Ed. change (46 =? 37)%N with false in Ed. cbn [orb] in Ed.
      rewrite split_dot_no_dot in Hsp by (unfold no_dot; rewrite Ed; reflexivity). discriminate.
  - intros e rest a b c l Hs Hsp. unfold md_parse. rewrite Hs. change (37 =? 37)%N with true. cbn [negb]. unfold byte in *.
    destruct (existsb (N.eqb 46) (37%N :: rest)) eqn:Ed.
    + rewrite Hsp. reflexivity.
    + exfalso. cbn [existsb] in Ed. change (46 =? 37)%N with false in Ed. cbn [orb] in Ed.
      rewrite split_dot_no_dot in Hsp by (unfold no_dot; rewrite Ed; reflexivity). discriminate.
  - intros e Hs. unfold md_parse. rewrite Hs. reflexivity.
Qed.

Example md_parse_examples :
  md_parse [32; 37; 50; 46; 121; 101; 97; 114; 10]%N = Ok (Some 2%Z, [121; 101; 97; 114]%N) /\   (* " %2.year\n" *)
  md_parse [37; 43; 49; 95; 48; 46; 120]%N = Ok (Some 10%Z, [120]%N) /\                          (* "%+1_0.x" *)
  md_parse [121; 101; 97; 114]%N = Err EMetadataExpr /\                                          (* "year" *)
  md_parse [37; 120; 46; 121]%N = Err EMetadataExpr /\                                           (* "%x.y" *)
  md_parse [37; 49; 46; 50; 46; 120]%N = Err EValue.                                             (* "%1.2.x" *)
Proof. repeat split; vm_compute; reflexivity. Qed.

(* ------------------------------------------------------------------------ *)
(* lookup                                                                    *)
(* ------------------------------------------------------------------------ *)
Lemma name_str_inj a b : name_str a = name_str b -> a = b.
Proof. destruct a, b; intros H; try reflexivity; discriminate H. Qed.

Lemma starts_with_eq a : forall b, length a = length b -> starts_with a b = true -> a = b.
Proof.
  induction a as [|x a IH]; intros b Hl H; destruct b as [|y b]; try discriminate; [reflexivity|].
  cbn [starts_with] in H. apply andb_true_iff in H as [H1 H2]. apply N.eqb_eq in H1. subst y.
  f_equal. apply IH; [cbn in Hl; lia|exact H2].
Qed.

Lemma starts_with_refl a : starts_with a a = true.
Proof. induction a as [|x a IH]; [reflexivity|]. cbn [starts_with]. rewrite N.eqb_refl, IH. reflexivity. Qed.

Lemma bytes_eqb_eq a b : bytes_eqb a b = true <-> a = b.
Proof.
  unfold bytes_eqb. split.
  - intros H. apply andb_true_iff in H as [H1 H2]. apply Nat.eqb_eq in H1. apply starts_with_eq; assumption.
  - intros ->. rewrite Nat.eqb_refl, starts_with_refl. reflexivity.
Qed.

Lemma pname_beq_eq a b : pname_beq a b = true <-> a = b.
Proof. split; [apply internal_pname_dec_bl|apply internal_pname_dec_lb]. Qed.

(* looking a name up by its spelling is looking it up by its code *)
Lemma lookup_name_prop_get n vals : lookup_name (name_str n) vals = prop_get n vals.
Proof.
  induction vals as [|[k v] r IH]; [reflexivity|]. cbn [lookup_name prop_get]. rewrite IH.
  destruct (pname_beq k n) eqn:E.
  - apply pname_beq_eq in E. subst k. assert (H : bytes_eqb (name_str n) (name_str n) = true) by (apply bytes_eqb_eq; reflexivity).
    rewrite H. reflexivity.
  - destruct (bytes_eqb (name_str k) (name_str n)) eqn:E2; [|reflexivity].
    apply bytes_eqb_eq, name_str_inj in E2. subst k.
    assert (pname_beq n n = true) by (apply pname_beq_eq; reflexivity). congruence.
Qed.

Lemma lookup_name_unknown name vals : (forall n, name_str n <> name) -> lookup_name name vals = None.
Proof.
  intros H. induction vals as [|[k v] r IH]; [reflexivity|]. cbn [lookup_name].
  destruct (bytes_eqb (name_str k) name) eqn:E; [|exact IH]. apply bytes_eqb_eq in E. exfalso. exact (H k E).
Qed.

Fixpoint first_some {A} (l : list (option A)) : option A :=
  match l with
  | [] => None
  | Some a :: _ => Some a
  | None :: r => first_some r
  end.

(* C17 md_first_match: the value held by the first section, in section order,
   that has the parameter — among all sections for '%name', among the sections
   numbered k for '%k.name' — and None when there is none *)
Theorem md_first_match : forall idx n secs,
  md_lookup idx (name_str n) secs =
  first_some (map (fun s => prop_get n (sec_values s)) (filter (index_matches idx) secs)).
Proof.
  intros idx n secs. induction secs as [|s r IH]; [reflexivity|]. cbn [md_lookup filter].
  destruct (index_matches idx s); [|exact IH]. cbn [map first_some].
  rewrite lookup_name_prop_get. destruct (prop_get n (sec_values s)); [reflexivity|exact IH].
Qed.

Theorem md_lookup_unknown_name : forall idx name secs,
  (forall n, name_str n <> name) -> md_lookup idx name secs = None.
Proof.
  intros idx name secs H. induction secs as [|s r IH]; [reflexivity|]. cbn [md_lookup].
  rewrite (lookup_name_unknown _ _ H). destruct (index_matches idx s); exact IH.
Qed.

(* relational reading of the same thing: Some v iff some matching section holds
   v for that name and no earlier matching section has the name at all *)
Theorem md_lookup_some_iff : forall idx n secs v,
  md_lookup idx (name_str n) secs = Some v <->
  exists s1 s s2, filter (index_matches idx) secs = s1 ++ s :: s2 /\
                  Forall (fun x => prop_get n (sec_values x) = None) s1 /\
                  prop_get n (sec_values s) = Some v.
Proof.
  intros idx n secs v. rewrite md_first_match.
  induction (filter (index_matches idx) secs) as [|s r IH]; cbn [map first_some].
  - split; [discriminate|]. intros (s1 & s & s2 & H & _). destruct s1; discriminate.
  - destruct (prop_get n (sec_values s)) as [w|] eqn:E.
    + split.
      * intros H; injection H as ->. exists [], s, r. auto.
      * intros (s1 & s' & s2 & H & Hall & Hv). destruct s1 as [|x s1].
        -- injection H as -> ->. congruence.
        -- injection H as -> ->. inversion Hall; congruence.
    + rewrite IH. split.
      * intros (s1 & s' & s2 & -> & Hall & Hv). exists (s :: s1), s', s2. repeat split; auto.
      * intros (s1 & s' & s2 & H & Hall & Hv). destruct s1 as [|x s1].
        -- injection H as -> ->. congruence.
        -- injection H as -> ->. inversion Hall; subst. exists s1, s', s2. auto.
Qed.

(* over the bundled layouts: which section answers '%name' for every name, every
   edition 2-4, with and without section 2 (computed from Frame.v's layouts) *)
Definition message_layout (ed : Z) (has2 : bool) : list sconfig :=
  [section0; (if (ed =? 2)%Z then section1_2 else if (ed =? 3)%Z then section1_3 else section1_4)] ++
  (if has2 then [section2] else []) ++ [section3; section4; section5].

Definition owner_of (ed : Z) (has2 : bool) (n : pname) : option N :=
  match find (fun c => has_param n (s_params c)) (message_layout ed has2) with
  | Some c => Some (s_index c)
  | None => None
  end.

(* a message whose sections carry exactly the parameters of those layouts *)
Definition conforms (secs : list section) (layout : list sconfig) : Prop :=
  Forall2 (fun s c => sec_index s = s_index c /\ map fst (sec_values s) = map p_name (s_params c)) secs layout.

Lemma prop_get_none_iff n vals : prop_get n vals = None <-> ~ In n (map fst vals).
Proof.
  induction vals as [|[k v] r IH]; cbn [prop_get map fst In]; [tauto|].
  destruct (pname_beq k n) eqn:E.
  - apply pname_beq_eq in E. split; [discriminate|]. intros H. exfalso. apply H. left. exact E.
  - rewrite IH. split; [|tauto]. intros H [Hk|Hin]; [|tauto]. subst k.
    assert (pname_beq n n = true) by (apply pname_beq_eq; reflexivity). congruence.
Qed.

Lemma has_param_in n ps : has_param n ps = true <-> In n (map p_name ps).
Proof.
  unfold has_param. rewrite existsb_exists. split.
  - intros (p & Hin & Hp). apply pname_beq_eq in Hp. subst n. apply in_map, Hin.
  - intros H. apply in_map_iff in H as (p & <- & Hin). exists p. split; [exact Hin|apply pname_beq_eq; reflexivity].
Qed.

Theorem md_first_match_layouts : forall secs layout n,
  conforms secs layout ->
  md_lookup None (name_str n) secs =
  match find (fun sc => has_param n (s_params (snd sc))) (combine secs layout) with
  | Some (s, _) => prop_get n (sec_values s)
  | None => None
  end /\
  (forall s c, find (fun sc => has_param n (s_params (snd sc))) (combine secs layout) = Some (s, c) ->
     prop_get n (sec_values s) <> None).
Proof.
  intros secs layout n H. rewrite md_first_match.
  assert (Hf : filter (index_matches None) secs = secs).
  { clear. induction secs as [|s r IH]; [reflexivity|]. cbn [filter index_matches]. rewrite IH. reflexivity. }
  rewrite Hf. clear Hf. induction H as [|s c secs layout [Hi Hn] Hrest IH]; [split; [reflexivity|discriminate]|].
  cbn [map first_some combine find snd].
  destruct (has_param n (s_params c)) eqn:Hp.
  - assert (Hsome : prop_get n (sec_values s) <> None).
    { intros Hnone. apply prop_get_none_iff in Hnone. apply Hnone. rewrite Hn. apply has_param_in, Hp. }
    split.
    + destruct (prop_get n (sec_values s)); [reflexivity|contradiction].
    + intros s' c' E. injection E as <- <-. exact Hsome.
  - assert (Hnone : prop_get n (sec_values s) = None).
    { apply prop_get_none_iff. rewrite Hn. intros Hin. apply has_param_in in Hin. congruence. }
    rewrite Hnone. exact IH.
Qed.

(* the table itself, by computation: e.g. section_length is answered by section 1,
   reserved_bits by section 2 when present and section 3 otherwise *)
Example owner_table :
  owner_of 4 true Nsection_length = Some 1%N /\ owner_of 4 true Nreserved_bits = Some 2%N /\
  owner_of 4 false Nreserved_bits = Some 3%N /\ owner_of 3 false Nflag_bits = Some 1%N /\
  owner_of 2 false Noriginating_subcentre = None /\ owner_of 3 true Noriginating_subcentre = Some 1%N /\
  owner_of 4 false Nlocal_bits = None /\ owner_of 4 true Nlocal_bits = Some 2%N /\
  owner_of 2 true Nstop_signature = Some 5%N /\ owner_of 2 true Ndata_i18n_subcategory = None.
Proof. repeat split; vm_compute; reflexivity. Qed.

(* ------------------------------------------------------------------------ *)
(* metadata-only decoding                                                    *)
(* ------------------------------------------------------------------------ *)
Lemma definitions_no_data c : In c definitions -> s_index c <> 4%N -> existsb is_data (s_params c) = false.
Proof.
  unfold definitions. cbn [In]. intros H He.
  repeat (destruct H as [<-|H]; [first [reflexivity | exfalso; apply He; reflexivity]|]). contradiction.
Qed.

Lemma definitions_index4 c : In c definitions -> s_index c = 4%N -> c = section4.
Proof.
  unfold definitions. cbn [In]. intros H He.
  repeat (destruct H as [<-|H]; [try discriminate; try reflexivity|]). contradiction.
Qed.

Lemma get_configuration_4 props : get_configuration definitions props 4 = Ok section4.
Proof.
  destruct (get_configuration definitions props 4) as [c|e] eqn:E.
  - destruct (get_configuration_in _ _ _ _ E) as [Hin Hidx]. f_equal. apply definitions_index4; assumption.
  - exfalso. unfold get_configuration in E.
    change (negb (existsb (fun c => (s_index c =? 4)%N) definitions)) with false in E. cbv iota in E.
    change (config_for definitions 4 0) with (Some section4) in E. cbv iota in E.
    destruct (config_for definitions 4 (section_edition props)); discriminate.
Qed.

Lemma configure_info_same props i ign : i <> 4%N ->
  configure_section definitions props i true ign = configure_section definitions props i false ign.
Proof.
  intros Hi. unfold configure_section. destruct (get_configuration definitions props i) as [c|e] eqn:E; [|reflexivity].
  cbn [bind]. destruct (get_configuration_in _ _ _ _ E) as [Hin Hidx].
  assert (Hc : transform true ign c = transform false ign c).
  { unfold transform, info_configuration. rewrite (definitions_no_data c Hin) by congruence. reflexivity. }
  rewrite Hc. reflexivity.
Qed.

Definition full4 : sconfig := section4.
Definition info4 : sconfig := mkS 4 None true false true
  [mkP Nsection_length 24 TUint None false; mkP Nreserved_bits 8 TBin None false].

Lemma transform_full4 ign : transform false ign section4 = section4.
Proof. destruct ign; reflexivity. Qed.
Lemma transform_info4 ign : transform true ign section4 = info4.
Proof. destruct ign; reflexivity. Qed.

Lemma configure_4 props info ign :
  configure_section definitions props 4 info ign = Ok (Some (transform info ign section4)).
Proof.
  unfold configure_section. rewrite get_configuration_4. cbn [bind].
  destruct info; [rewrite transform_info4|rewrite transform_full4]; reflexivity.
Qed.

Section InfoProofs.
Variable decode_data : list (pname * pvalue) -> reader -> result (bits * reader).
Hypothesis decode_data_prefix : forall p r b r', decode_data p r = Ok (b, r') -> r = b ++ r'.
Hypothesis decode_data_suffix : forall p r b r' s,
  decode_data p r = Ok (b, r') -> decode_data p (r ++ s) = Ok (b, r' ++ s).

(* the section loop, stopped at the end of a list of indices (proof device) *)
Fixpoint run (info ign : bool) (idxs : list N) (props : list (pname * pvalue)) (secs : list section)
    (r : reader) : result (bool * list section * list (pname * pvalue) * reader) :=
  match idxs with
  | [] => Ok (false, secs, props, r)
  | i :: idxs' =>
      let* oc := configure_section definitions props i info ign in
      match oc with
      | None => run info ign idxs' props secs r
      | Some c =>
          let* (sec, props1, r1) := decode_section decode_data c props r in
          if s_end c then Ok (true, secs ++ [sec], props1, r1)
          else run info ign idxs' props1 (secs ++ [sec]) r1
      end
  end.

Lemma decode_sections_split info ign l1 l2 : forall props secs r,
  decode_sections decode_data definitions info ign (l1 ++ l2) props secs r =
  let* (ended, secs1, props1, r1) := run info ign l1 props secs r in
  if (ended : bool) then Ok (secs1, props1, r1)
  else decode_sections decode_data definitions info ign l2 props1 secs1 r1.
Proof.
  induction l1 as [|i l1 IH]; intros props secs r; [reflexivity|].
  cbn [app decode_sections run].
  destruct (configure_section definitions props i info ign) as [[c|]|e]; cbn [bind]; [|apply IH|reflexivity].
  destruct (decode_section decode_data c props r) as [[[sec props1] r1]|e]; cbn [bind]; [|reflexivity].
  destruct (s_end c); [reflexivity|apply IH].
Qed.

Lemma run_info_same ign l : Forall (fun i => i <> 4%N) l -> forall props secs r,
  run true ign l props secs r = run false ign l props secs r.
Proof.
  induction 1 as [|i l Hi Hl IH]; intros props secs r; [reflexivity|].
  cbn [run]. rewrite (configure_info_same props i ign Hi).
  destruct (configure_section definitions props i false ign) as [[c|]|e]; cbn [bind]; [|apply IH|reflexivity].
  destruct (decode_section decode_data c props r) as [[[sec props1] r1]|e]; cbn [bind]; [|reflexivity].
  destruct (s_end c); [reflexivity|apply IH].
Qed.

Lemma decode_sections_indices info ign idxs : forall props secs r secs' props' r',
  decode_sections decode_data definitions info ign idxs props secs r = Ok (secs', props', r') ->
  exists new, secs' = secs ++ new /\ Forall (fun s => In (sec_index s) idxs) new.
Proof.
  induction idxs as [|i idxs IH]; intros props secs r secs' props' r'; cbn [decode_sections]; [discriminate|].
  intros H. apply bind_ok in H as (oc & Hc & H). destruct oc as [c|].
  - apply bind_ok in H as ([[sec props1] r1] & Hs & H).
    assert (Hi : sec_index sec = i).
    { destruct (decode_section_ok decode_data decode_data_prefix decode_data_suffix _ _ _ _ _ _ Hs)
        as (e1 & _ & _ & Hidx & _). rewrite Hidx.
      unfold configure_section in Hc. apply bind_ok in Hc as (c0 & Hg & Hc).
      destruct (existsb bytes_width_bad _); [discriminate|]. apply bind_ok in Hc as (b & _ & Hc).
      destruct b; [|discriminate]. injection Hc as <-. rewrite transform_index.
      apply (get_configuration_in _ _ _ _ Hg). }
    destruct (s_end c).
    + injection H as <- <- <-. exists [sec]. split; [reflexivity|]. constructor; [left; symmetry; exact Hi|constructor].
    + apply IH in H as (new & -> & Hall). exists (sec :: new). rewrite <- app_assoc. split; [reflexivity|].
      constructor; [left; symmetry; exact Hi|]. eapply Forall_impl; [|exact Hall]. intros s Hs'. right. exact Hs'.
  - apply IH in H as (new & -> & Hall). exists new. split; [reflexivity|].
    eapply Forall_impl; [|exact Hall]. intros s Hs'. right. exact Hs'.
Qed.

(* section 4: when the full decode succeeded, the metadata-only decode of the
   same section succeeds, returns the first two values (length, reserved bits)
   and stops at the same place — the declared end of the section *)
Lemma section4_info_from_full props r sec props' r' :
  decode_section decode_data section4 props r = Ok (sec, props', r') ->
  exists seci, decode_section decode_data info4 props r = Ok (seci, props, r') /\
    sec_index seci = 4%N /\ sec_values seci = firstn 2 (sec_values sec) /\ sec_nbits seci = sec_nbits sec.
Proof.
  unfold decode_section. intros H.
  apply bind_ok in H as ([[env props1] r1] & Hp & H).
  cbn [section4 s_params decode_params p_type p_nbits p_name p_prop p_expected] in Hp.
  change (24 =? 0)%Z with false in Hp. change (8 =? 0)%Z with false in Hp. cbv iota in Hp.
  apply bind_ok in Hp as ([v1 ra] & H1 & Hp). unfold add_prop, check_expected in Hp. cbn [p_prop p_expected bind] in Hp.
  apply bind_ok in Hp as ([v2 rb] & H2 & Hp). cbn [p_prop p_expected bind] in Hp.
  apply bind_ok in Hp as ([v3 rc] & H3 & Hp). cbn [p_prop p_expected bind] in Hp.
  injection Hp as <- <- <-.
  apply bind_ok in H3 as ([b rd] & Hd & H3). injection H3 as <- ->.
  apply decode_data_prefix in Hd as Erb.
  pose proof (read_typed_prefix _ _ _ _ _ H1) as (e1 & E1).
  pose proof (read_typed_prefix _ _ _ _ _ H2) as (e2 & E2).
  apply bind_ok in H as (r2 & Hskip & H). injection H as <- <- <-.
  change (has_param Nsection_length (s_params section4)) with true in Hskip. cbv iota in Hskip.
  apply bind_ok in Hskip as (sl & Hsl & Hskip).
  (* the info side *)
  cbn [info4 s_params decode_params p_type p_nbits p_name p_prop p_expected].
  change (24 =? 0)%Z with false. change (8 =? 0)%Z with false. cbv iota.
  rewrite H1. cbn [bind]. unfold add_prop, check_expected. cbn [p_prop p_expected bind].
  rewrite H2. cbn [bind].
  change (has_param Nsection_length [mkP Nsection_length 24 TUint None false; mkP Nreserved_bits 8 TBin None false]) with true.
  cbv iota.
  assert (Hsl' : declared_length [mkP Nsection_length 24 TUint None false; mkP Nreserved_bits 8 TBin None false]
                   (([] ++ [(Nsection_length, v1)]) ++ [(Nreserved_bits, v2)]) = Ok sl).
  { unfold declared_length in *. change (has_param Nsection_length (s_params section4)) with true in Hsl.
    change (has_param Nsection_length [mkP Nsection_length 24 TUint None false; mkP Nreserved_bits 8 TBin None false]) with true.
    cbv iota in Hsl |- *. cbn [app prop_get] in Hsl |- *. exact Hsl. }
  rewrite Hsl'. cbn [bind].
  assert (Lr : length r = (length e1 + length e2 + length b + length rc)%nat).
  { rewrite E1, E2, Erb, !app_length. lia. }
  assert (Lrb : length rb = (length b + length rc)%nat) by (rewrite Erb, app_length; reflexivity).
  assert (Lra : length ra = (length e2 + length b + length rc)%nat) by (rewrite E2, Erb, !app_length; lia).
  replace (Z.of_nat (length r - length rc)) with (Z.of_nat (length e1 + length e2 + length b)) in Hskip by lia.
  replace (Z.of_nat (length r - length rb)) with (Z.of_nat (length e1 + length e2)) by lia.
  destruct (Z.ltb_spec 0 (sl * 8 - Z.of_nat (length e1 + length e2 + length b))) as [Hpos|Hnp].
  - apply bind_ok in Hskip as ([sk r3] & Hrb & Hskip). injection Hskip as ->.
    unfold read_bin in Hrb. destruct (Z.ltb_spec (sl * 8 - Z.of_nat (length e1 + length e2 + length b)) 0); [lia|].
    apply take_bits_ok in Hrb as [Erc Lsk].
    destruct (Z.ltb_spec 0 (sl * 8 - Z.of_nat (length e1 + length e2))); [|lia].
    unfold read_bin. destruct (Z.ltb_spec (sl * 8 - Z.of_nat (length e1 + length e2)) 0); [lia|].
    assert (Et : take_bits (Z.to_nat (sl * 8 - Z.of_nat (length e1 + length e2))) rb = Ok (b ++ sk, r2)).
    { rewrite Erb, Erc, app_assoc.
      replace (Z.to_nat (sl * 8 - Z.of_nat (length e1 + length e2))) with (length (b ++ sk)) by (rewrite app_length; lia).
      apply take_bits_app. }
    rewrite Et. cbn [bind]. eexists. split; [reflexivity|]. cbn [sec_index sec_values sec_nbits].
    split; [reflexivity|]. split; [reflexivity|reflexivity].
  - destruct (Z.ltb_spec (sl * 8 - Z.of_nat (length e1 + length e2 + length b)) 0); [discriminate|].
    injection Hskip as <-.
    destruct (Z.ltb_spec 0 (sl * 8 - Z.of_nat (length e1 + length e2))) as [Hp2|Hp2].
    + unfold read_bin. destruct (Z.ltb_spec (sl * 8 - Z.of_nat (length e1 + length e2)) 0); [lia|].
      assert (Et : take_bits (Z.to_nat (sl * 8 - Z.of_nat (length e1 + length e2))) rb = Ok (b, rc)).
      { rewrite Erb. replace (Z.to_nat (sl * 8 - Z.of_nat (length e1 + length e2))) with (length b) by lia.
        apply take_bits_app. }
      rewrite Et. cbn [bind]. eexists. split; [reflexivity|]. cbn [sec_index sec_values sec_nbits].
      split; [reflexivity|]. split; [reflexivity|reflexivity].
    + destruct (Z.ltb_spec (sl * 8 - Z.of_nat (length e1 + length e2)) 0); [lia|].
      assert (length b = 0%nat) by lia. destruct b; [|discriminate]. cbn [app] in Erb. subst rb.
      cbn [bind]. eexists. split; [reflexivity|]. cbn [sec_index sec_values sec_nbits].
      split; [reflexivity|]. split; [reflexivity|reflexivity].
Qed.

Lemma decode_sections_cons info ign i idxs props secs r :
  decode_sections decode_data definitions info ign (i :: idxs) props secs r =
  let* oc := configure_section definitions props i info ign in
  match oc with
  | None => decode_sections decode_data definitions info ign idxs props secs r
  | Some c =>
      let* (sec, props1, r1) := decode_section decode_data c props r in
      if s_end c then Ok (secs ++ [sec], props1, r1)
      else decode_sections decode_data definitions info ign idxs props1 (secs ++ [sec]) r1
  end.
Proof. reflexivity. Qed.

Lemma configure_index props i info ign c :
  configure_section definitions props i info ign = Ok (Some c) ->
  s_index c = i /\ exists c0, In c0 definitions /\ s_index c0 = i /\ c = transform info ign c0.
Proof.
  unfold configure_section. intros Hc. apply bind_ok in Hc as (c0 & Hg & Hc).
  destruct (existsb bytes_width_bad _); [discriminate|]. apply bind_ok in Hc as (b & _ & Hc).
  destruct b; [|discriminate]. injection Hc as <-. rewrite transform_index.
  destruct (get_configuration_in _ _ _ _ Hg) as [Hin Hidx]. split; [exact Hidx|]. exists c0. auto.
Qed.

Lemma s_end_transform info ign c0 : In c0 definitions -> s_index c0 <> 4%N -> s_index c0 <> 5%N ->
  s_end (transform info ign c0) = false.
Proof.
  intros Hin H4 H5. unfold transform, info_configuration. rewrite (definitions_no_data c0 Hin H4).
  assert (He : s_end c0 = false).
  { destruct (s_end c0) eqn:E; [|reflexivity]. apply definitions_end in E; [|exact Hin]. subst c0. exfalso. apply H5. reflexivity. }
  destruct info, ign; exact He.
Qed.

Lemma run_indices info ign l : Forall (fun i => i <> 4%N /\ i <> 5%N) l ->
  forall props secs r ended secs1 props1 r1,
  run info ign l props secs r = Ok (ended, secs1, props1, r1) ->
  ended = false /\ exists new, secs1 = secs ++ new /\ Forall (fun s => In (sec_index s) l) new.
Proof.
  induction 1 as [|i l [Hi4 Hi5] Hl IH]; intros props secs r ended secs1 props1 r1; cbn [run].
  - intros E; injection E as <- <- <- <-. split; [reflexivity|]. exists []. rewrite app_nil_r. auto.
  - intros H. apply bind_ok in H as (oc & Hc & H). destruct oc as [c|].
    + apply bind_ok in H as ([[sec props2] r2] & Hs & H).
      destruct (configure_index _ _ _ _ _ Hc) as (Hci & c0 & Hin0 & Hi0 & ->).
      rewrite (s_end_transform info ign c0 Hin0) in H by congruence.
      destruct (decode_section_ok decode_data decode_data_prefix decode_data_suffix _ _ _ _ _ _ Hs)
        as (e1 & _ & _ & Hidx & _).
      apply IH in H as (-> & new & -> & Hall). split; [reflexivity|].
      exists (sec :: new). rewrite <- app_assoc. split; [reflexivity|].
      constructor; [left; rewrite Hidx, Hci; reflexivity|]. eapply Forall_impl; [|exact Hall]. intros x Hx. right. exact Hx.
    + apply IH in H as (-> & new & -> & Hall). split; [reflexivity|]. exists new. split; [reflexivity|].
      eapply Forall_impl; [|exact Hall]. intros x Hx. right. exact Hx.
Qed.

Definition lt4 (s : section) : bool := (sec_index s <? 4)%N.

Lemma filter_lt4_new idxs new : Forall (fun i => (4 <= i)%N) idxs ->
  Forall (fun s => In (sec_index s) idxs) new -> filter lt4 new = [].
Proof.
  intros Hi. induction 1 as [|s new Hs Hn IH]; [reflexivity|]. cbn [filter]. unfold lt4 at 1.
  rewrite Forall_forall in Hi. specialize (Hi _ Hs). destruct (N.ltb_spec (sec_index s) 4); [lia|exact IH].
Qed.

(* C17 info_equals_full_on_sections_0_3: whenever the full decode succeeds, the
   metadata-only decode of the same input succeeds, returns the same sections
   0-3 (same parameters, same values, same extents), and a section 4 reduced to
   its length and reserved bits with the values the full decode saw *)
Theorem info_equals_full_on_sections_0_3 : forall sig ign s m,
  decode_message decode_data sig false ign s = Ok m ->
  exists m',
    decode_message decode_data sig true ign s = Ok m' /\
    filter lt4 (m_sections m') = filter lt4 (m_sections m) /\
    (forall s4, In s4 (m_sections m) -> sec_index s4 = 4%N ->
       exists s4', In s4' (m_sections m') /\ sec_index s4' = 4%N /\
                   sec_values s4' = firstn 2 (sec_values s4) /\ sec_nbits s4' = sec_nbits s4).
Proof.
  intros sig ign s m. unfold decode_message, decode_message_with. intros H.
  apply bind_ok in H as (idx & Hidx & H). rewrite Hidx. cbn [bind].
  apply bind_ok in H as ([[secs props] r'] & Hs & H). apply ok_inj in H. subst m. unfold m_sections.
  change section_indices with ([0;1;2;3]%N ++ [4;5;6]%N) in Hs |- *.
  rewrite decode_sections_split in Hs |- *.
  assert (Hn4 : Forall (fun i => i <> 4%N) [0;1;2;3]%N) by (repeat constructor; discriminate).
  rewrite (run_info_same ign _ Hn4).
  destruct (run false ign [0;1;2;3]%N [] [] (bits_of_bytes (skipn idx s))) as [[[[ended secs1] props1] r1]|e] eqn:Erun; [|discriminate].
  assert (H0123 : Forall (fun i => i <> 4%N /\ i <> 5%N) [0;1;2;3]%N) by (repeat constructor; discriminate).
  destruct (run_indices false ign _ H0123 _ _ _ _ _ _ _ Erun) as (-> & new0 & E0 & Hnew0). cbn [app] in E0. subst secs1.
  cbn [bind] in Hs |- *. cbv iota in Hs |- *.
  rewrite decode_sections_cons in Hs |- *. rewrite configure_4 in Hs |- *. cbn [bind] in Hs |- *.
  rewrite transform_full4 in Hs. rewrite transform_info4.
  apply bind_ok in Hs as ([[sec4 props2] r2] & H4 & Hs).
  destruct (section4_info_from_full _ _ _ _ _ H4) as (sec4i & H4i & Hidx4 & Hv4 & Hn4').
  rewrite H4i. cbn [bind]. change (s_end info4) with true. change (s_end section4) with false in Hs. cbv iota in Hs |- *.
  apply decode_sections_indices in Hs as (new & -> & Hnew).
  eexists. split; [reflexivity|]. cbn [m_sections].
  assert (Hi4 : sec_index sec4 = 4%N).
  { destruct (decode_section_ok decode_data decode_data_prefix decode_data_suffix _ _ _ _ _ _ H4)
      as (e1 & _ & _ & Hx & _). exact Hx. }
  split.
  - rewrite !filter_app. cbn [filter]. unfold lt4 at 2 4. rewrite Hidx4, Hi4. change (4 <? 4)%N with false. cbv iota.
    rewrite (filter_lt4_new [5;6]%N new); [rewrite !app_nil_r; reflexivity| |exact Hnew].
    repeat constructor; lia.
  - intros s4 Hin Hs4. exists sec4i. split; [apply in_or_app; right; left; reflexivity|].
    split; [exact Hidx4|].
    apply in_app_or in Hin as [Hin|Hin]; [apply in_app_or in Hin as [Hin|Hin]|].
    + exfalso. rewrite Forall_forall in Hnew0. specialize (Hnew0 _ Hin). rewrite Hs4 in Hnew0.
      cbn [In] in Hnew0. intuition discriminate.
    + destruct Hin as [<-|[]]. split; [exact Hv4|exact Hn4'].
    + exfalso. rewrite Forall_forall in Hnew. specialize (Hnew _ Hin). rewrite Hs4 in Hnew.
      cbn [In] in Hnew. intuition discriminate.
Qed.
End InfoProofs.

(* ------------------------------------------------------------------------ *)
(* the metadata-only decode never invokes the template decoder              *)
(* ------------------------------------------------------------------------ *)
Definition no_data (ps : list param) : bool := forallb (fun p => negb (is_data p)) ps.

Lemma take_until_data_no_data ps : no_data (take_until_data ps) = true.
Proof.
  induction ps as [|p ps IH]; [reflexivity|]. cbn [take_until_data].
  destruct (is_data p) eqn:E; [reflexivity|]. unfold no_data. cbn [forallb]. rewrite E. exact IH.
Qed.

Lemma info_configuration_no_data c : no_data (s_params (info_configuration c)) = true.
Proof.
  unfold info_configuration. destruct (existsb is_data (s_params c)) eqn:E.
  - apply take_until_data_no_data.
  - unfold no_data. apply forallb_forall. intros p Hp. apply negb_true_iff.
    apply not_true_iff_false. intros Hd. assert (existsb is_data (s_params c) = true) by (apply existsb_exists; eauto). congruence.
Qed.

Lemma transform_info_no_data ign c : no_data (s_params (transform true ign c)) = true.
Proof.
  unfold transform. destruct ign; [|apply info_configuration_no_data].
  unfold ignore_value_expectation. cbn [s_params]. unfold no_data. rewrite forallb_forall. intros p Hp.
  apply in_map_iff in Hp as (q & <- & Hq). unfold is_data. cbn [p_type].
  pose proof (info_configuration_no_data c) as H. unfold no_data in H. rewrite forallb_forall in H. exact (H q Hq).
Qed.

Lemma decode_params_no_data dd1 dd2 all ps : no_data ps = true -> forall start env props r,
  decode_params dd1 all ps start env props r = decode_params dd2 all ps start env props r.
Proof.
  induction ps as [|p ps IH]; intros Hn start env props r; [reflexivity|].
  unfold no_data in Hn. cbn [forallb] in Hn. apply andb_true_iff in Hn as [Hp Hn].
  cbn [decode_params]. unfold is_data in Hp.
  destruct (p_type p); try discriminate;
    (match goal with |- bind ?x _ = bind ?x _ => destruct x as [[v r1]|e]; cbn [bind]; [|reflexivity] end;
     destruct (check_expected p v); cbn [bind]; [apply IH, Hn|reflexivity]).
Qed.

Lemma decode_section_no_data dd1 dd2 c props r : no_data (s_params c) = true ->
  decode_section dd1 c props r = decode_section dd2 c props r.
Proof. intros H. unfold decode_section. rewrite (decode_params_no_data dd1 dd2 _ _ H). reflexivity. Qed.

Lemma configure_info_no_data props i ign c :
  configure_section definitions props i true ign = Ok (Some c) -> no_data (s_params c) = true.
Proof.
  intros H. destruct (configure_index _ _ _ _ _ H) as (_ & c0 & _ & _ & ->). apply transform_info_no_data.
Qed.

(* C17 info_does_not_interpret_data (1): with info_only the result is the same
   whatever the template decoder is — it is never called *)
Theorem info_independent_of_template_decoder : forall dd1 dd2 sig ign s,
  decode_message dd1 sig true ign s = decode_message dd2 sig true ign s.
Proof.
  intros dd1 dd2 sig ign s. unfold decode_message, decode_message_with.
  destruct (match sig with Some g => _ | None => _ end) as [idx|e]; cbn [bind]; [|reflexivity].
  assert (H : forall idxs props secs r,
    decode_sections dd1 definitions true ign idxs props secs r = decode_sections dd2 definitions true ign idxs props secs r).
  { induction idxs as [|i idxs IH]; intros props secs r; [reflexivity|]. cbn [decode_sections].
    destruct (configure_section definitions props i true ign) as [[c|]|e] eqn:Ec; cbn [bind]; [|apply IH|reflexivity].
    rewrite (decode_section_no_data dd1 dd2 c props r (configure_info_no_data _ _ _ _ Ec)).
    destruct (decode_section dd2 c props r) as [[[sec props1] r1]|e]; cbn [bind]; [|reflexivity].
    destruct (s_end c); [reflexivity|apply IH]. }
  rewrite H. reflexivity.
Qed.

(* (2) the metadata-only decode of section 4 reads its 4-octet header and skips
   the declared rest: the content bits do not influence the result *)
Theorem info_skips_data_content : forall dd props h c c' rest sec props' r',
  length h = 32%nat -> length c = length c' ->
  decode_section dd info4 props (h ++ c ++ rest) = Ok (sec, props', r') ->
  exists r'', decode_section dd info4 props (h ++ c' ++ rest) = Ok (sec, props', r'') /\
              length r'' = length r' /\
              (length r' <= length rest -> r'' = r').
Proof.
  intros dd props h c c' rest sec props' r' Lh Lc. unfold decode_section.
  cbn [info4 s_params decode_params p_type p_nbits p_name p_prop p_expected].
  change (24 =? 0)%Z with false. change (8 =? 0)%Z with false. cbv iota.
  assert (Hh : exists h1 h2, h = h1 ++ h2 /\ length h1 = 24%nat /\ length h2 = 8%nat).
  { exists (firstn 24 h), (skipn 24 h). rewrite firstn_skipn, firstn_length, skipn_length. split; [reflexivity|lia]. }
  destruct Hh as (h1 & h2 & -> & L1 & L2). rewrite <- !app_assoc.
  assert (R1 : forall x, read_typed TUint 24 (h1 ++ x) = Ok (PUint (Z.of_N (of_bits h1)), x)).
  { intros x. unfold read_typed, read_uint. change (24 <=? 0)%Z with false. cbv iota.
    change (Z.to_nat 24) with 24%nat. rewrite <- L1, take_bits_app. reflexivity. }
  assert (R2 : forall x, read_typed TBin 8 (h2 ++ x) = Ok (PBin h2, x)).
  { intros x. unfold read_typed, read_bin. change (8 <? 0)%Z with false. cbv iota.
    change (Z.to_nat 8) with 8%nat. rewrite <- L2, take_bits_app. reflexivity. }
  rewrite !R1. cbn [bind]. unfold add_prop, check_expected. cbn [p_prop p_expected bind].
  rewrite !R2. cbn [bind].
  change (has_param Nsection_length [mkP Nsection_length 24 TUint None false; mkP Nreserved_bits 8 TBin None false]) with true.
  cbv iota. unfold declared_length.
  change (has_param Nsection_length [mkP Nsection_length 24 TUint None false; mkP Nreserved_bits 8 TBin None false]) with true.
  cbv iota. cbn [app prop_get]. change (pname_beq Nsection_length Nsection_length) with true. cbv iota. cbn [bind].
  set (sl := Z.of_N (of_bits h1)).
  rewrite !app_length, L1, L2.
  replace (Z.of_nat (24 + (8 + (length c + length rest)) - (length c + length rest))) with 32%Z by lia.
  replace (Z.of_nat (24 + (8 + (length c' + length rest)) - (length c' + length rest))) with 32%Z by lia.
  assert (Hrec : forall (a b : nat) i ps v (p : list (pname * pvalue)) (x : reader), a = b ->
            @Ok (section * list (pname * pvalue) * reader) (mkSec i ps a v, p, x) = Ok (mkSec i ps b v, p, x))
    by (intros; subst; reflexivity).
  destruct (Z.ltb_spec 0 (sl * 8 - 32)).
  - unfold read_bin. destruct (Z.ltb_spec (sl * 8 - 32) 0); [lia|].
    unfold take_bits. rewrite !app_length, <- Lc.
    destruct (Nat.ltb_spec (length c + length rest) (Z.to_nat (sl * 8 - 32))); cbn [bind]; [discriminate|].
    intros E. apply ok_inj in E. injection E as <- <- <-.
    exists (skipn (Z.to_nat (sl * 8 - 32)) (c' ++ rest)).
    split; [apply Hrec; rewrite !skipn_length, !app_length, Lc; reflexivity|].
    rewrite !skipn_length, !app_length, <- Lc. split; [reflexivity|].
    intros Hle. rewrite !skipn_app. rewrite <- Lc.
    rewrite (skipn_all2 c) by lia. rewrite (skipn_all2 c') by lia. reflexivity.
  - destruct (Z.ltb_spec (sl * 8 - 32) 0); cbn [bind]; [discriminate|].
    intros E. apply ok_inj in E. injection E as <- <- <-.
    exists (c' ++ rest). split; [apply Hrec; rewrite !app_length, Lc; reflexivity|].
    rewrite !app_length, <- Lc. split; [reflexivity|]. intros Hle. assert (Hc0 : length c = 0%nat) by lia.
    destruct c; [|discriminate]. destruct c'; [reflexivity|discriminate].
Qed.

(* ------------------------------------------------------------------------ *)
(* scanning a stream in metadata-only mode                                   *)
(* ------------------------------------------------------------------------ *)
(* what the scan yields, as a specification: each message starts at the next
   BUFR, is the metadata-only decode of what follows, its bytes are taken from
   the DECLARED total length (cut at the end of the input), and the scan resumes
   right after those bytes *)
Fixpoint scan_spec (dd : list (pname * pvalue) -> reader -> result (bits * reader))
    (s : list byte) (ms : list message) : Prop :=
  match ms with
  | [] => True
  | m :: rest =>
      exists i m0 len,
        find_sig sig_BUFR s = Some i /\
        decode_message dd None true false (skipn i s) = Ok m0 /\
        m_sections m = m_sections m0 /\ m_props m = m_props m0 /\
        prop_get Nlength (m_props m0) = Some (PUint len) /\
        m_bytes m = firstn (Z.to_nat len) (skipn i s) /\
        scan_spec dd (skipn (length (m_bytes m)) (skipn i s)) rest
  end.

(* C17 info_scan_uses_declared_length *)
Theorem info_scan_uses_declared_length : forall dd fuel s ms e,
  scan_info dd fuel s = (ms, e) -> scan_spec dd s ms.
Proof.
  intros dd fuel. induction fuel as [|f IH]; intros s ms e; cbn [scan_info].
  - intros E; injection E as <- <-. exact I.
  - destruct s as [|x s']; [intros E; injection E as <- <-; exact I|].
    destruct (find_sig sig_BUFR (x :: s')) as [i|] eqn:Ei; [|intros E; injection E as <- <-; exact I].
    destruct (decode_message dd None true false (skipn i (x :: s'))) as [m0|err] eqn:Em;
      [|intros E; injection E as <- <-; exact I].
    destruct (prop_get Nlength (m_props m0)) as [[len| | | | |]|] eqn:El;
      try (intros E; injection E as <- <-; exact I).
    destruct (scan_info dd f _) as [ms' e'] eqn:Es. intros E; injection E as <- <-.
    cbn [scan_spec]. exists i, m0, len. cbn [m_sections m_props m_bytes].
    repeat split; auto. eapply IH. exact Es.
Qed.

