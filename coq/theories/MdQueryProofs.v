(* MdQueryProofs.v — theorems for C17: the '%[k.]name' parser, first-match
   lookup, and metadata-only decoding (Frame.v's decode_message with info_only). *)
From PBK Require Import Base Bits BitsProofs Frame FrameProofs MdQuery.
From Coq Require Import ZifyBool ZifyNat ZifyN.

(* ------------------------------------------------------------------------ *)
(* parser                                                                    *)
(* ------------------------------------------------------------------------ *)
Definition no_dot (s : list byte) : bool := negb (existsb (N.eqb 46) s).
Definition all_space (s : list byte) : bool := forallb is_space s.
Definition ends_clean (s : list byte) : bool :=
  match rev s with [] => true | c :: _ => negb (is_space c) end.

Lemma lstrip_spaces f ws s : forallb f ws = true -> lstrip_with f (ws ++ s) = lstrip_with f s.
Proof.
  induction ws as [|c ws IH]; [reflexivity|]. cbn [forallb app lstrip_with].
  intros H. apply andb_true_iff in H as [H1 H2]. rewrite H1. apply IH, H2.
Qed.

Lemma lstrip_stop f c s : f c = false -> lstrip_with f (c :: s) = c :: s.
Proof. intros H. cbn [lstrip_with]. rewrite H. reflexivity. Qed.

Lemma forallb_rev {A} (f : A -> bool) l : forallb f (rev l) = forallb f l.
Proof.
  induction l as [|x l IH]; [reflexivity|]. cbn [rev forallb]. rewrite forallb_app, IH. cbn [forallb].
  rewrite andb_true_r, andb_comm. reflexivity.
Qed.

(* strip of  ws1 ++ c :: body ++ ws2  when c and the end of (c :: body) are not spaces *)
Lemma strip_with_sandwich f ws1 c body ws2 :
  forallb f ws1 = true -> forallb f ws2 = true -> f c = false ->
  match rev body with [] => true | d :: _ => negb (f d) end = true ->
  strip_with f (ws1 ++ (c :: body) ++ ws2) = c :: body.
Proof.
  intros H1 H2 Hc Hend. unfold strip_with. rewrite lstrip_spaces by exact H1.
  cbn [app]. rewrite lstrip_stop by exact Hc.
  change (c :: body ++ ws2) with ((c :: body) ++ ws2). rewrite rev_app_distr.
  rewrite lstrip_spaces by (rewrite forallb_rev; exact H2).
  cbn [rev]. destruct (rev body) as [|d rb] eqn:Er.
  - cbn [app]. rewrite lstrip_stop by exact Hc. cbn [rev app].
    apply (f_equal (@rev byte)) in Er. rewrite rev_involutive in Er. rewrite Er. reflexivity.
  - cbn [app]. apply negb_true_iff in Hend. rewrite lstrip_stop by exact Hend.
    change (d :: rb ++ [c]) with ((d :: rb) ++ [c]). rewrite <- Er, rev_app_distr, rev_involutive. reflexivity.
Qed.

Lemma split_dot_no_dot s : no_dot s = true -> split_dot s = [s].
Proof.
  unfold no_dot. induction s as [|c s IH]; [reflexivity|]. cbn [existsb split_dot].
  intros H. apply negb_true_iff, orb_false_iff in H as [H1 H2]. rewrite N.eqb_sym in H1. rewrite H1.
  rewrite IH by (apply negb_true_iff; exact H2). reflexivity.
Qed.

Lemma split_dot_one a b : no_dot a = true -> no_dot b = true -> split_dot (a ++ 46%N :: b) = [a; b].
Proof.
  unfold no_dot. intros Ha Hb. induction a as [|c a IH].
  - cbn [app split_dot]. change (46 =? 46)%N with true. cbv iota. rewrite split_dot_no_dot by exact Hb. reflexivity.
  - cbn [existsb] in Ha. apply negb_true_iff, orb_false_iff in Ha as [H1 H2]. rewrite N.eqb_sym in H1.
    cbn [app split_dot]. rewrite H1. rewrite IH by (apply negb_true_iff; exact H2). reflexivity.
Qed.

(* a plain decimal numeral: its value by the usual left fold *)
Definition numeral_value (ds : list byte) : N := fold_left (fun acc d => (10 * acc + (d - 48))%N) ds 0%N.

Lemma digits_val_plain ds : forall acc, forallb is_digit ds = true ->
  digits_val acc false ds = Some (fold_left (fun a d => (10 * a + (d - 48))%N) ds acc).
Proof.
  induction ds as [|d ds IH]; intros acc; [reflexivity|]. cbn [forallb digits_val fold_left].
  intros H. apply andb_true_iff in H as [H1 H2]. rewrite H1. apply IH, H2.
Qed.

Lemma digit_not_space c : is_digit c = true -> is_int_space c = false /\ is_space c = false /\
  (c =? 45)%N = false /\ (c =? 43)%N = false /\ (c =? 46)%N = false.
Proof. unfold is_digit, is_int_space, is_space. intros H. repeat split; lia. Qed.

Lemma py_int_numeral ds : ds <> [] -> forallb is_digit ds = true ->
  py_int ds = Some (Z.of_N (numeral_value ds)).
Proof.
  intros Hne Hd. unfold py_int.
  assert (Hs : strip_with is_int_space ds = ds).
  { destruct ds as [|c body]; [contradiction|].
    cbn [forallb] in Hd. apply andb_true_iff in Hd as [Hc Hb].
    pose proof (strip_with_sandwich is_int_space [] c body [] eq_refl eq_refl) as H.
    cbn [app] in H. rewrite app_nil_r in H. apply H; [apply digit_not_space, Hc|].
    destruct (rev body) as [|d rb] eqn:Er; [reflexivity|].
    assert (Hin : In d body) by (apply in_rev; rewrite Er; left; reflexivity).
    rewrite forallb_forall in Hb. apply negb_true_iff, digit_not_space, Hb, Hin. }
  rewrite Hs. destruct ds as [|c body]; [contradiction|].
  cbn [forallb] in Hd. apply andb_true_iff in Hd as [Hc Hb].
  destruct (digit_not_space c Hc) as (_ & _ & H45 & H43 & _). rewrite H45, H43, Hc.
  rewrite digits_val_plain by exact Hb. unfold numeral_value. cbn [fold_left]. reflexivity.
Qed.

(* C17 md_parse_spec.
   (1) '%name' (surrounded by any whitespace, name without '.', not ending in
       whitespace): no section index, that name;
   (2) '%<numeral>.name': that index and name;
   (3) anything whose first non-blank character is not '%' is rejected with the
       metadata-parsing error;
   (4) a section index that int() rejects is the metadata-parsing error;
   (5) observed, outside the property's claim: two dots -> ValueError, empty -> IndexError *)
Theorem md_parse_spec :
  (forall ws1 ws2 name,
     all_space ws1 = true -> all_space ws2 = true -> no_dot name = true -> ends_clean name = true ->
     md_parse (ws1 ++ (37%N :: name) ++ ws2) = Ok (None, name)) /\
  (forall ws1 ws2 ds name,
     all_space ws1 = true -> all_space ws2 = true -> ds <> [] -> forallb is_digit ds = true ->
     no_dot name = true -> ends_clean name = true ->
     md_parse (ws1 ++ (37%N :: ds ++ 46%N :: name) ++ ws2) = Ok (Some (Z.of_N (numeral_value ds)), name)) /\
  (forall e c rest, strip e = c :: rest -> c <> 37%N -> md_parse e = Err EMetadataExpr) /\
  (forall e rest a b, strip e = 37%N :: rest -> split_dot rest = [a; b] -> py_int a = None ->
     md_parse e = Err EMetadataExpr) /\
  (forall e rest a b c l, strip e = 37%N :: rest -> split_dot rest = a :: b :: c :: l ->
     md_parse e = Err EValue) /\
  (forall e, strip e = [] -> md_parse e = Err EIndex).
Proof.
  assert (Hpct : is_space 37%N = false) by reflexivity.
  split; [|split; [|split; [|split; [|split]]]].
  - intros ws1 ws2 name H1 H2 Hd He. unfold md_parse, strip.
    pose proof (strip_with_sandwich is_space ws1 37%N name ws2 H1 H2 Hpct He) as Hx.
    unfold byte in Hx |- *. rewrite Hx.
    change (37 =? 37)%N with true. cbn [negb existsb]. change (46 =? 37)%N with false. cbn [orb].
    unfold no_dot in Hd. apply negb_true_iff in Hd. rewrite Hd. reflexivity.
  - intros ws1 ws2 ds name H1 H2 Hne Hds Hd He. unfold md_parse, strip.
    assert (He' : match rev (ds ++ 46%N :: name) with [] => true | d :: _ => negb (is_space d) end = true).
    { rewrite rev_app_distr. cbn [rev]. unfold ends_clean in He. destruct (rev name) as [|d rn]; [reflexivity|exact He]. }
    pose proof (strip_with_sandwich is_space ws1 37%N (ds ++ 46%N :: name) ws2 H1 H2 Hpct He') as Hx.
    unfold byte in Hx |- *. rewrite Hx.
    change (37 =? 37)%N with true. cbn [negb existsb]. change (46 =? 37)%N with false. cbn [orb].
    rewrite existsb_app. cbn [existsb]. change (46 =? 46)%N with true. rewrite orb_true_r. cbv iota.
    assert (Hnd : no_dot ds = true).
    { unfold no_dot. apply negb_true_iff. apply not_true_iff_false. intros Hy. apply existsb_exists in Hy as (x & Hin & Hy).
      rewrite forallb_forall in Hds. pose proof (digit_not_space x (Hds x Hin)) as (_ & _ & _ & _ & H46).
      rewrite N.eqb_sym in Hy. congruence. }
    rewrite split_dot_one by assumption. rewrite py_int_numeral by assumption. reflexivity.
  - intros e c rest Hs Hc. unfold md_parse. rewrite Hs. destruct (N.eqb_spec c 37); [contradiction|reflexivity].
  - intros e rest a b Hs Hsp Hi. unfold md_parse. rewrite Hs. change (37 =? 37)%N with true. cbn [negb]. unfold byte in *.
    destruct (existsb (N.eqb 46) (37%N :: rest)) eqn:Ed.
    + rewrite Hsp, Hi. reflexivity.
    + exfalso. cbn [existsb] in Ed. change (46 =? 37)%N with false in Ed. cbn [orb] in Ed.
      rewrite split_dot_no_dot in Hsp by (unfold no_dot; rewrite Ed; reflexivity). discriminate.
  - intros e rest a b c l Hs Hsp. unfold md_parse. rewrite Hs. change (37 =? 37)%N with true. cbn [negb]. unfold byte in *.
    destruct (existsb (N.eqb 46) (37%N :: rest)) eqn:Ed.
    + rewrite Hsp. reflexivity.
    + exfalso. cbn [existsb] in Ed. change (46 =? 37)%N with false in Ed. cbn [orb] in Ed.
      rewrite split_dot_no_dot in Hsp by (unfold no_dot; rewrite Ed; reflexivity). discriminate.
  - intros e Hs. unfold md_parse. rewrite Hs. reflexivity.
Qed.

Example md_parse_examples :
  md_parse [32; 37; 50; 46; 121; 101; 97; 114; 10]%N = Ok (Some 2%Z, [121; 101; 97; 114]%N) /\   (* " %2.year\n" *)
  md_parse [37; 43; 49; 95; 48; 46; 120]%N = Ok (Some 10%Z, [120]%N) /\                          (* "%+1_0.x" *)
  md_parse [121; 101; 97; 114]%N = Err EMetadataExpr /\                                          (* "year" *)
  md_parse [37; 120; 46; 121]%N = Err EMetadataExpr /\                                           (* "%x.y" *)
  md_parse [37; 49; 46; 50; 46; 120]%N = Err EValue.                                             (* "%1.2.x" *)
Proof. repeat split; vm_compute; reflexivity. Qed.

(* ------------------------------------------------------------------------ *)
(* lookup                                                                    *)
(* ------------------------------------------------------------------------ *)
Lemma name_str_inj a b : name_str a = name_str b -> a = b.
Proof. destruct a, b; intros H; try reflexivity; discriminate H. Qed.

Lemma starts_with_eq a : forall b, length a = length b -> starts_with a b = true -> a = b.
Proof.
  induction a as [|x a IH]; intros b Hl H; destruct b as [|y b]; try discriminate; [reflexivity|].
  cbn [starts_with] in H. apply andb_true_iff in H as [H1 H2]. apply N.eqb_eq in H1. subst y.
  f_equal. apply IH; [cbn in Hl; lia|exact H2].
Qed.

Lemma starts_with_refl a : starts_with a a = true.
Proof. induction a as [|x a IH]; [reflexivity|]. cbn [starts_with]. rewrite N.eqb_refl, IH. reflexivity. Qed.

Lemma bytes_eqb_eq a b : bytes_eqb a b = true <-> a = b.
Proof.
  unfold bytes_eqb. split.
  - intros H. apply andb_true_iff in H as [H1 H2]. apply Nat.eqb_eq in H1. apply starts_with_eq; assumption.
  - intros ->. rewrite Nat.eqb_refl, starts_with_refl. reflexivity.
Qed.

Lemma pname_beq_eq a b : pname_beq a b = true <-> a = b.
Proof. split; [apply internal_pname_dec_bl|apply internal_pname_dec_lb]. Qed.

(* looking a name up by its spelling is looking it up by its code *)
Lemma lookup_name_prop_get n vals : lookup_name (name_str n) vals = prop_get n vals.
Proof.
  induction vals as [|[k v] r IH]; [reflexivity|]. cbn [lookup_name prop_get]. rewrite IH.
  destruct (pname_beq k n) eqn:E.
  - apply pname_beq_eq in E. subst k. assert (H : bytes_eqb (name_str n) (name_str n) = true) by (apply bytes_eqb_eq; reflexivity).
    rewrite H. reflexivity.
  - destruct (bytes_eqb (name_str k) (name_str n)) eqn:E2; [|reflexivity].
    apply bytes_eqb_eq, name_str_inj in E2. subst k.
    assert (pname_beq n n = true) by (apply pname_beq_eq; reflexivity). congruence.
Qed.

Lemma lookup_name_unknown name vals : (forall n, name_str n <> name) -> lookup_name name vals = None.
Proof.
  intros H. induction vals as [|[k v] r IH]; [reflexivity|]. cbn [lookup_name].
  destruct (bytes_eqb (name_str k) name) eqn:E; [|exact IH]. apply bytes_eqb_eq in E. exfalso. exact (H k E).
Qed.

Fixpoint first_some {A} (l : list (option A)) : option A :=
  match l with
  | [] => None
  | Some a :: _ => Some a
  | None :: r => first_some r
  end.

(* C17 md_first_match: the value held by the first section, in section order,
   that has the parameter — among all sections for '%name', among the sections
   numbered k for '%k.name' — and None when there is none *)
Theorem md_first_match : forall idx n secs,
  md_lookup idx (name_str n) secs =
  first_some (map (fun s => prop_get n (sec_values s)) (filter (index_matches idx) secs)).
Proof.
  intros idx n secs. induction secs as [|s r IH]; [reflexivity|]. cbn [md_lookup filter].
  destruct (index_matches idx s); [|exact IH]. cbn [map first_some].
  rewrite lookup_name_prop_get. destruct (prop_get n (sec_values s)); [reflexivity|exact IH].
Qed.

Theorem md_lookup_unknown_name : forall idx name secs,
  (forall n, name_str n <> name) -> md_lookup idx name secs = None.
Proof.
  intros idx name secs H. induction secs as [|s r IH]; [reflexivity|]. cbn [md_lookup].
  rewrite (lookup_name_unknown _ _ H). destruct (index_matches idx s); exact IH.
Qed.

(* relational reading of the same thing: Some v iff some matching section holds
   v for that name and no earlier matching section has the name at all *)
Theorem md_lookup_some_iff : forall idx n secs v,
  md_lookup idx (name_str n) secs = Some v <->
  exists s1 s s2, filter (index_matches idx) secs = s1 ++ s :: s2 /\
                  Forall (fun x => prop_get n (sec_values x) = None) s1 /\
                  prop_get n (sec_values s) = Some v.
Proof.
  intros idx n secs v. rewrite md_first_match.
  induction (filter (index_matches idx) secs) as [|s r IH]; cbn [map first_some].
  - split; [discriminate|]. intros (s1 & s & s2 & H & _). destruct s1; discriminate.
  - destruct (prop_get n (sec_values s)) as [w|] eqn:E.
    + split.
      * intros H; injection H as ->. exists [], s, r. auto.
      * intros (s1 & s' & s2 & H & Hall & Hv). destruct s1 as [|x s1].
        -- injection H as -> ->. congruence.
        -- injection H as -> ->. inversion Hall; congruence.
    + rewrite IH. split.
      * intros (s1 & s' & s2 & -> & Hall & Hv). exists (s :: s1), s', s2. repeat split; auto.
      * intros (s1 & s' & s2 & H & Hall & Hv). destruct s1 as [|x s1].
        -- injection H as -> ->. congruence.
        -- injection H as -> ->. inversion Hall; subst. exists s1, s', s2. auto.
Qed.

(* over the bundled layouts: which section answers '%name' for every name, every
   edition 2-4, with and without section 2 (computed from Frame.v's layouts) *)
Definition message_layout (ed : Z) (has2 : bool) : list sconfig :=
  [section0; (if (ed =? 2)%Z then section1_2 else if (ed =? 3)%Z then section1_3 else section1_4)] ++
  (if has2 then [section2] else []) ++ [section3; section4; section5].

Definition owner_of (ed : Z) (has2 : bool) (n : pname) : option N :=
  match find (fun c => has_param n (s_params c)) (message_layout ed has2) with
  | Some c => Some (s_index c)
  | None => None
  end.

(* a message whose sections carry exactly the parameters of those layouts *)
Definition conforms (secs : list section) (layout : list sconfig) : Prop :=
  Forall2 (fun s c => sec_index s = s_index c /\ map fst (sec_values s) = map p_name (s_params c)) secs layout.

Lemma prop_get_none_iff n vals : prop_get n vals = None <-> ~ In n (map fst vals).
Proof.
  induction vals as [|[k v] r IH]; cbn [prop_get map fst In]; [tauto|].
  destruct (pname_beq k n) eqn:E.
  - apply pname_beq_eq in E. split; [discriminate|]. intros H. exfalso. apply H. left. exact E.
  - rewrite IH. split; [|tauto]. intros H [Hk|Hin]; [|tauto]. subst k.
    assert (pname_beq n n = true) by (apply pname_beq_eq; reflexivity). congruence.
Qed.

Lemma has_param_in n ps : has_param n ps = true <-> In n (map p_name ps).
Proof.
  unfold has_param. rewrite existsb_exists. split.
  - intros (p & Hin & Hp). apply pname_beq_eq in Hp. subst n. apply in_map, Hin.
  - intros H. apply in_map_iff in H as (p & <- & Hin). exists p. split; [exact Hin|apply pname_beq_eq; reflexivity].
Qed.

Theorem md_first_match_layouts : forall secs layout n,
  conforms secs layout ->
  md_lookup None (name_str n) secs =
  match find (fun sc => has_param n (s_params (snd sc))) (combine secs layout) with
  | Some (s, _) => prop_get n (sec_values s)
  | None => None
  end /\
  (forall s c, find (fun sc => has_param n (s_params (snd sc))) (combine secs layout) = Some (s, c) ->
     prop_get n (sec_values s) <> None).
Proof.
  intros secs layout n H. rewrite md_first_match.
  assert (Hf : filter (index_matches None) secs = secs).
  { clear. induction secs as [|s r IH]; [reflexivity|]. cbn [filter index_matches]. rewrite IH. reflexivity. }
  rewrite Hf. clear Hf. induction H as [|s c secs layout [Hi Hn] Hrest IH]; [split; [reflexivity|discriminate]|].
  cbn [map first_some combine find snd].
  destruct (has_param n (s_params c)) eqn:Hp.
  - assert (Hsome : prop_get n (sec_values s) <> None).
    { intros Hnone. apply prop_get_none_iff in Hnone. apply Hnone. rewrite Hn. apply has_param_in, Hp. }
    split.
    + destruct (prop_get n (sec_values s)); [reflexivity|contradiction].
    + intros s' c' E. injection E as <- <-. exact Hsome.
  - assert (Hnone : prop_get n (sec_values s) = None).
    { apply prop_get_none_iff. rewrite Hn. intros Hin. apply has_param_in in Hin. congruence. }
    rewrite Hnone. exact IH.
Qed.

(* the table itself, by computation: e.g. section_length is answered by section 1,
   reserved_bits by section 2 when present and section 3 otherwise *)
Example owner_table :
  owner_of 4 true Nsection_length = Some 1%N /\ owner_of 4 true Nreserved_bits = Some 2%N /\
  owner_of 4 false Nreserved_bits = Some 3%N /\ owner_of 3 false Nflag_bits = Some 1%N /\
  owner_of 2 false Noriginating_subcentre = None /\ owner_of 3 true Noriginating_subcentre = Some 1%N /\
  owner_of 4 false Nlocal_bits = None /\ owner_of 4 true Nlocal_bits = Some 2%N /\
  owner_of 2 true Nstop_signature = Some 5%N /\ owner_of 2 true Ndata_i18n_subcategory = None.
Proof. repeat split; vm_compute; reflexivity. Qed.
