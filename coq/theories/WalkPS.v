(* WalkPS.v — Instance 2 of the generic simulation theorem: producer/consumer.
   The first walk WRITES a stream (its client state exposes [out1], the output so
   far, which only grows); the second walk READS a stream (its client state has
   an input field with lens [inp2]/[with2]).  [psf f1 f2] says: whatever f1
   appends, f2 consumes exactly that from the front of its input, for any
   continuation [tail] of the input, and the states stay related. *)
From PBK Require Import Base Descr Walk WalkSim.

Section PS.
Context {S1 S2 B : Type} (Rc : S1 -> S2 -> Prop).
Variable out1 : S1 -> list B.
Variable inp2 : S2 -> list B.
Variable with2 : S2 -> list B -> S2.
Hypothesis inp_with : forall c b, inp2 (with2 c b) = b.
Hypothesis with_with : forall c b b', with2 (with2 c b) b' = with2 c b'.
Hypothesis with_inp : forall c, with2 c (inp2 c) = c.
Hypothesis Rc_with : forall c1 c2 b, Rc c1 c2 -> Rc c1 (with2 c2 b).

Definition withw (s : ws S2) (b : list B) : ws S2 := mkWs (w_r s) (with2 (w_c s) b).

Notation R := (Rst Rc).

Definition psf (f1 : ws S1 -> result (ws S1)) (f2 : ws S2 -> result (ws S2)) : Prop :=
  forall s1 s2 s1', R s1 s2 -> f1 s1 = Ok s1' ->
  exists d, out1 (w_c s1') = out1 (w_c s1) ++ d /\
  forall tail, exists s2', f2 (withw s2 (d ++ tail)) = Ok s2' /\ inp2 (w_c s2') = tail /\ R s1' s2'.

Lemma R_withw s1 s2 b : R s1 s2 -> R s1 (withw s2 b).
Proof. intros [Hr Hc]. split; cbn; [exact Hr|apply Rc_with; exact Hc]. Qed.

Lemma withw_inp s : withw s (inp2 (w_c s)) = s.
Proof. destruct s as [r c]. unfold withw. cbn. rewrite with_inp. reflexivity. Qed.

Lemma ps_ret : psf (fun s => Ok s) (fun s => Ok s).
Proof.
  intros s1 s2 s1' HR E. injection E as <-. exists []. split; [rewrite app_nil_r; reflexivity|].
  intros tail. exists (withw s2 tail). cbn. rewrite inp_with. split; [reflexivity|].
  split; [reflexivity|apply R_withw; exact HR].
Qed.

Lemma ps_bind f1 f2 g1 g2 :
  psf f1 f2 -> psf g1 g2 -> psf (fun s => bind (f1 s) g1) (fun s => bind (f2 s) g2).
Proof.
  intros Hf Hg s1 s2 s1' HR E.
  destruct (f1 s1) as [m1|] eqn:E1; cbn [bind] in E; [|discriminate].
  destruct (Hf _ _ _ HR E1) as (d1 & Ho1 & K1).
  destruct (K1 nil) as (m2 & _ & _ & HRm).
  destruct (Hg _ _ _ HRm E) as (d2 & Ho2 & K2).
  exists (d1 ++ d2). split; [rewrite Ho2, Ho1, app_assoc; reflexivity|].
  intros tail. destruct (K1 (d2 ++ tail)) as (m2' & E2 & Hin & HRm').
  rewrite <- app_assoc. rewrite E2. cbn [bind].
  destruct (Hg _ _ _ HRm' E) as (d2' & Ho2' & K2').
  assert (d2' = d2) by (rewrite Ho2 in Ho2'; apply app_inv_head in Ho2'; auto). subst d2'.
  destruct (K2' tail) as (s2' & E3 & Hin3 & HR3).
  exists s2'. split; [|split; assumption].
  rewrite <- Hin in E3. rewrite withw_inp in E3. exact E3.
Qed.

Lemma ps_ext f1 f1' f2 f2' :
  (forall s, f1 s = f1' s) -> (forall s, f2 s = f2' s) -> psf f1 f2 -> psf f1' f2'.
Proof.
  intros X1 X2 Hp s1 s2 s1' HR E. rewrite <- X1 in E.
  destruct (Hp _ _ _ HR E) as (d & Ho & K). exists d. split; [exact Ho|].
  intros tail. destruct (K tail) as (s2' & E2 & Hi & HR'). exists s2'. rewrite <- X2. auto.
Qed.

Lemma ps_upd (f : regs -> regs) : psf (fun s => Ok (upd_r f s)) (fun s => Ok (upd_r f s)).
Proof.
  intros s1 s2 s1' HR E. injection E as <-. exists []. split; [rewrite app_nil_r; reflexivity|].
  intros tail. eexists. split; [reflexivity|]. cbn. rewrite inp_with. split; [reflexivity|].
  apply Rst_upd. apply R_withw. exact HR.
Qed.

Lemma ps_regs (F1 : regs -> ws S1 -> result (ws S1)) (F2 : regs -> ws S2 -> result (ws S2)) :
  (forall r, psf (F1 r) (F2 r)) -> psf (fun s => F1 (w_r s) s) (fun s => F2 (w_r s) s).
Proof.
  intros HF s1 s2 s1' HR E. pose proof HR as [Hr Hc].
  destruct (HF (w_r s1) _ _ _ HR E) as (d & Ho & K). exists d. split; [exact Ho|].
  intros tail. destruct (K tail) as (s2' & E2 & Hi & HR'). exists s2'.
  cbn [withw w_r]. rewrite <- Hr. auto.
Qed.

Lemma ps_err e f2 : psf (fun _ => Err e) f2.
Proof. intros s1 s2 s1' _ E. discriminate. Qed.

Context (H1 : handlers S1) (H2 : handlers S2).
Context (al1 : N -> ws S1 -> result (ws S1)) (al2 : N -> ws S2 -> result (ws S2)).

Definition walk_ps :=
  walk_sim_gen H1 H2 al1 al2 psf ps_ret ps_bind ps_ext ps_upd ps_regs ps_err.

Definition ps_iter := c_iter psf ps_ret ps_bind ps_ext.

End PS.
