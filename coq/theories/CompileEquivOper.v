(* CompileEquivOper.v — operators (including the marker operators, where the
   compiled run re-creates the operator registers from the recorded
   state_properties), and the per-member checks of process_members. *)
From Coq Require Import ZifyBool ZifyNat ZifyN.
From PBK Require Import Base Descr Walk Coder Compile CompileChk CompileEquivBase CompileEquivInv CompileEquivWalk.

Section OperEq.
Context {C : Type} (P : prims C) (nzf : bool).
Notation st := (ws (io C)).
Notation H := (io_handlers P).
Notation HC := (chk_handlers nzf).
Notation simc := (simc P).
Notation simc_at := (simc_at P).
Notation Inv := (Inv (C:=C)).

(* ---- the bitmapped element of a marker operator, on two run-time states ------ *)
Definition same_out (dd : ddesc) (sI sE : st) (a b : st) : Prop :=
  w_c a = w_c b /\ w_r a = w_r sI /\ w_r b = w_r sE /\ io_dd (w_c a) = io_dd (w_c sI) ++ [dd].

Lemma lift_same dd f (sI sE : st) :
  w_c sI = w_c sE -> agree (same_out dd sI sE) (lift dd f sI) (lift dd f sE).
Proof.
  intros Hc. unfold lift, push_dd, with_c. rewrite Hc. rsimp.
  destruct (f (io_c (w_c sE))) as [c|e]; cbn [bind agree]; [|reflexivity].
  repeat split; try reflexivity. rsimp. rewrite Hc. reflexivity.
Qed.

Lemma marker_elem_agree dd e (sI sE : st) :
  dd_id dd = e_id e -> w_c sI = w_c sE ->
  r_assoc (w_r sI) = [] -> r_assoc (w_r sE) = [] ->
  (forall s : st, elem_qa_r H (w_r sI) e s = Ok s) -> (forall s : st, elem_qa_r H (w_r sE) e s = Ok s) ->
  r_new_nbytes (w_r sI) = r_new_nbytes (w_r sE) ->
  r_nbits_offset (w_r sI) = r_nbits_offset (w_r sE) ->
  r_scale_offset (w_r sI) = r_scale_offset (w_r sE) ->
  r_bsr (w_r sI) = r_bsr (w_r sE) ->
  r_new_refvals (w_r sI) = r_new_refvals (w_r sE) ->
  agree (same_out dd sI sE) (do_element H dd e sI) (do_element H dd e sE).
Proof.
  intros Hdd Hc Ha1 Ha2 Hq1 Hq2 Hnb Hno Hso Hbsr Hrv.
  unfold do_element, elem_assoc, elem_assoc_r. rewrite Ha1, Ha2. cbn [bind].
  unfold elem_qa. rewrite Hq1, Hq2. cbn [bind].
  unfold elem_body, elem_body_r. cbv zeta. rewrite Hnb, Hno, Hso, Hbsr, Hrv.
  destruct (kind_of_unit (e_unit e)).
  - cbn [io_handlers h_string]. apply lift_same; exact Hc.
  - cbn [io_handlers h_codeflag]. apply lift_same; exact Hc.
  - destruct (refval_lookup (e_id e) (r_new_refvals (w_r sE))) as [v|] eqn:El.
    + cbn [io_handlers h_numeric_new_refval]. rewrite Hdd, Hrv, El.
      destruct v as [v|]; cbn [agree]; [|reflexivity]. apply lift_same; exact Hc.
    + cbn [io_handlers h_numeric]. apply lift_same; exact Hc.
Qed.

Lemma elem_qa_na r e (s : st) : r_qa r = QA_INFO_NA -> elem_qa_r H r e s = Ok s.
Proof.
  intros Hq. unfold elem_qa_r. rewrite Hq.
  change (QA_INFO_NA =? QA_INFO_WAITING)%N with false. change (QA_INFO_NA =? QA_INFO_PROCESSING)%N with false.
  destruct (desc_X (e_id e) =? 33)%N; reflexivity.
Qed.

Lemma elem_qa_waiting r e (s : st) :
  r_qa r = QA_INFO_WAITING -> (desc_X (e_id e) =? 33)%N = false -> elem_qa_r H r e s = Ok s.
Proof.
  intros Hq HX. unfold elem_qa_r. rewrite Hq, HX.
  change (QA_INFO_WAITING =? QA_INFO_PROCESSING)%N with false. reflexivity.
Qed.

Lemma marker_elem_X id e : desc_X (e_id (marker_elem id e)) = desc_X (e_id e).
Proof. unfold marker_elem. destruct (id =? 225255)%N; reflexivity. Qed.

(* ---- process_marker_operator_descriptor ---------------------------------------- *)
Lemma marker_simc id sC bbC :
  simc_at sC (do_marker_r HC (w_r sC) id bbC sC)
    (fun s => do_marker_r H (w_r s) id (bitmapped_default H io_add_link id) s).
Proof.
  intros sC' E HS. unfold do_marker_r in E.
  destruct (r_assoc (w_r sC)) as [|a0 l0] eqn:Ea.
  2:{ unfold do_assoc, do_assoc_r in E. cbn [chk_handlers h_codeflag h_bitmapped] in E.
      unfold cemit in E. cbn [bind] in E. cbv zeta in E. rsimp_in E. rewrite Ea in E. discriminate. }
  cbn [bind] in E. cbn [chk_handlers h_bitmapped] in E. cbv zeta in E. rewrite Ea in E.
  destruct (((r_qa (w_r sC) =? QA_INFO_NA)%N || ((r_qa (w_r sC) =? QA_INFO_WAITING)%N && negb (ck_c33 (w_c sC))))
            && negb (dirty sC)) eqn:Eq; [|discriminate].
  apply andb_prop in Eq as [Eq Ed]. apply negb_true_iff in Ed.
  unfold cemit in E. injection E as <-.
  eexists (SCons (SBitmapped id _) SNil). split; [reflexivity|]. split; [exact HS|].
  intros sI sE (Hc & HR & HN). rewrite exec_stmts_one. cbn [exec_stmt].
  unfold do_marker_r. rewrite (sa_assoc _ _ _ _ HR), Ea. cbn [bind].
  cbn [io_handlers h_bitmapped].
  unfold bitmapped_default, bitmapped_default_r, next_bitmapped, inject_props. rsimp.
  rewrite (dy_next_bm _ _ _ _ HR).
  destruct (r_next_bm (w_r sI)) as [[|[idx e0] rest]|] eqn:En; cbn [agree]; try reflexivity.
  unfold io_add_link, ndesc. rsimp. cbn [bind]. rewrite Hc.
  assert (HQ : forall s : st, elem_qa_r H (w_r sI) (marker_elem id e0) s = Ok s).
  { intros s. apply orb_prop in Eq as [Eq|Eq].
    - apply N.eqb_eq in Eq. apply elem_qa_na. rewrite (sa_qa _ _ _ _ HR). exact Eq.
    - apply andb_prop in Eq as [Eq Ec]. apply N.eqb_eq in Eq. apply negb_true_iff in Ec.
      apply elem_qa_waiting; [rewrite (sa_qa _ _ _ _ HR); exact Eq|].
      rewrite marker_elem_X. destruct (HN Ec) as (_ & _ & _ & H3). rewrite En in H3. cbn [no33_opt] in H3.
      inversion H3; subst. assumption. }
  eapply agree_mono; [|apply marker_elem_agree]; rsimp.
  - intros a b (Hab & HaI & HbE & Hdd). split; [exact Hab|]. split.
    + rewrite HaI, HbE. rsimp. invr_solve HR.
    + rsimp. intros X. destruct (HN X) as (Hd & H1 & H2 & H3). unfold NoC33. rewrite HaI, Hdd. rsimp.
      rewrite En in H3. cbn [no33_opt] in H3 |- *. inversion H3; subst.
      split; [|auto]. apply Forall_app. split; [rewrite <- Hc; exact Hd|]. constructor; [reflexivity|constructor].
  - destruct id; reflexivity.
  - reflexivity.
  - rewrite (sa_assoc _ _ _ _ HR). exact Ea.
  - exact (dy_assocE _ _ _ _ HR).
  - exact HQ.
  - intros s. apply elem_qa_na. exact (dy_qaE _ _ _ _ HR).
  - exact (sa_new_nbytes _ _ _ _ HR).
  - exact (sa_nbits_offset _ _ _ _ HR).
  - exact (sa_scale_offset _ _ _ _ HR).
  - exact (sa_bsr _ _ _ _ HR).
  - symmetry. apply (dy_clean _ _ _ _ HR). exact Ed.
Qed.

(* ---- process_operator_descriptor ------------------------------------------------- *)
Ltac rw_all :=
  repeat match goal with
  | E : _ = true |- _ => rewrite E
  | E : _ = false |- _ => rewrite E
  end.

Ltac upd_case :=
  apply simc_at_upd; [keeps|]; intros [HB HL]; split;
  [split; [exact HB|exact HL] | intros rI rE HR; invr_solve HR].

Ltac opI HR :=
  intros sI sE (_ & HR & _); unfold do_operator, do_operator_r; cbv zeta; rw_all.

Lemma mark_simc : simc (h_mark_boundary HC) (h_mark_boundary H).
Proof.
  intros sC. cbn [chk_handlers h_mark_boundary]. apply simc_at_emit; [reflexivity|apply mark_agree].
Qed.

Lemma recall_simc : simc (h_recall_bitmap HC) (h_recall_bitmap H).
Proof.
  intros sC. cbn [chk_handlers h_recall_bitmap]. apply simc_at_emit; [reflexivity|apply recall_agree].
Qed.

Lemma cancel_simc : simc (h_cancel_bitmap HC) (h_cancel_bitmap H).
Proof.
  intros sC. cbn [chk_handlers h_cancel_bitmap]. apply simc_at_emit; [reflexivity|apply cancel_agree].
Qed.

Lemma cancel_br_simc : simc (h_cancel_backrefs HC) (h_cancel_backrefs H).
Proof.
  intros sC. cbn [chk_handlers h_cancel_backrefs]. apply simc_at_emit; [reflexivity|apply cancel_br_agree].
Qed.

Lemma do_operator_simc id bbC :
  simc (do_operator HC id bbC) (do_operator H id (bitmapped_default H io_add_link id)).
Proof.
  intros sC. unfold do_operator at 1. unfold do_operator_r. cbv zeta.
  destruct (id / 1000 =? 201)%N eqn:E201.
  { eapply simc_at_extI; [opI HR; reflexivity|]. upd_case. }
  destruct (id / 1000 =? 202)%N eqn:E202.
  { eapply simc_at_extI; [opI HR; reflexivity|]. upd_case. }
  destruct (id / 1000 =? 203)%N eqn:E203.
  { destruct (Z.of_N (id mod 1000) =? 255)%Z eqn:Eo255.
    { eapply simc_at_extI; [opI HR; reflexivity|]. upd_case. }
    destruct (Z.of_N (id mod 1000) =? 0)%Z eqn:Eo0.
    2:{ eapply simc_at_extI; [opI HR; reflexivity|]. upd_case. }
    eapply simc_at_extI; [opI HR; reflexivity|].
    apply simc_at_upd; [keeps|]; intros [HB HL]; split; [split; [exact HB|rsimp; cbn [length]; lia]|].
    intros rI rE HR.
    assert (HE : dirty_of (set_new_refvals [] (set_nbits_new_refval (Z.of_N (id mod 1000)) (w_r sC))) (ck_ndef (w_c sC)) = false ->
                 r_new_refvals rE = []).
    { unfold dirty_of. rsimp. cbn [length]. intros Hd.
      assert (Hnd : ck_ndef (w_c sC) = 0%nat) by lia.
      assert (Hl : r_new_refvals (w_r sC) = []) by (destruct (r_new_refvals (w_r sC)); [reflexivity|cbn [length] in HL; lia]).
      rewrite (dy_clean _ _ _ _ HR); [|unfold dirty_of; rewrite Hl, Hnd; reflexivity].
      pose proof (sa_keys _ _ _ _ HR) as Hk. rewrite Hl in Hk.
      destruct (r_new_refvals rI); [reflexivity|discriminate]. }
    destruct HR; constructor; unfold_consts; rsimp; auto; try (intros; (congruence || lia)).
    intros i Hx. exfalso. apply Hx. reflexivity. }
  destruct (id / 1000 =? 204)%N eqn:E204.
  { destruct (Z.of_N (id mod 1000) =? 0)%Z eqn:Eo0.
    2:{ eapply simc_at_extI; [opI HR; reflexivity|]. upd_case. }
    destruct (r_assoc (w_r sC)) as [|a0 l0] eqn:Ea; [apply simc_at_err|].
    eapply simc_at_extI; [opI HR; rewrite (sa_assoc _ _ _ _ HR), Ea; reflexivity|]. upd_case. }
  destruct (id / 1000 =? 205)%N eqn:E205.
  { eapply simc_at_extI; [opI HR; reflexivity|]. apply string_simc. }
  destruct (id / 1000 =? 206)%N eqn:E206.
  { eapply simc_at_extI; [opI HR; reflexivity|]. upd_case. }
  destruct (id / 1000 =? 207)%N eqn:E207.
  { destruct (Z.of_N (id mod 1000) =? 0)%Z eqn:Eo0.
    - eapply simc_at_extI; [opI HR; reflexivity|]. upd_case.
    - eapply simc_at_extI; [opI HR; reflexivity|]. upd_case. }
  destruct (id / 1000 =? 208)%N eqn:E208.
  { eapply simc_at_extI; [opI HR; reflexivity|]. upd_case. }
  destruct (id / 1000 =? 221)%N eqn:E221.
  { eapply simc_at_extI; [opI HR; reflexivity|]. upd_case. }
  destruct ((id / 1000 =? 222)%N || (id / 1000 =? 223)%N || (id / 1000 =? 224)%N
            || (id / 1000 =? 225)%N || (id / 1000 =? 232)%N) eqn:E22x.
  { destruct (Z.of_N (id mod 1000) =? 0)%Z eqn:Eo0.
    2:{ eapply simc_at_extI; [opI HR; reflexivity|]. apply marker_simc. }
    eapply simc_at_extI; [opI HR; reflexivity|].
    apply simc_at_bind.
    { apply (simc_at_pre_upd P (set_bm_state BITMAP_INDICATOR) sC (h_mark_boundary HC) (h_mark_boundary H));
        [keeps| |apply mark_simc].
      intros [HB HL]; split; [split; [right; left; reflexivity|exact HL]|intros rI rE HR; invr_solve HR]. }
    intros sC2. apply simc_at_bind; [apply constant_simc|].
    intros sC3. destruct (id / 1000 =? 222)%N; [upd_case|apply simc_at_ret]. }
  destruct (id / 1000 =? 235)%N eqn:E235.
  { eapply simc_at_extI; [opI HR; reflexivity|]. apply cancel_br_simc. }
  destruct (id / 1000 =? 236)%N eqn:E236.
  { eapply simc_at_extI; [opI HR; reflexivity|]. apply constant_simc. }
  destruct (id / 1000 =? 237)%N eqn:E237; [|apply simc_at_err].
  destruct (Z.of_N (id mod 1000) =? 0)%Z eqn:Eo0.
  { eapply simc_at_extI; [opI HR; reflexivity|].
    apply simc_at_bind; [apply recall_simc|]. intros sC2. apply constant_simc. }
  destruct (r_reuse (w_r sC)) eqn:Er.
  - eapply simc_at_extI; [opI HR; rewrite (sa_reuse _ _ _ _ HR), Er; reflexivity|].
    apply simc_at_bind; [apply cancel_simc|]. intros sC2. apply constant_simc.
  - eapply simc_at_extI; [opI HR; rewrite (sa_reuse _ _ _ _ HR), Er; reflexivity|].
    apply simc_at_bind; [apply simc_at_ret|]. intros sC2. apply constant_simc.
Qed.

End OperEq.
