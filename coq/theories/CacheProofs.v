(* CacheProofs.v — the caches are transparent: what a lookup returns does not depend
   on the history (C13). *)
From Coq Require Import ZifyBool ZifyNat.
From PBK Require Import Base Cache.

Lemma popitems_forall {A} (P : A -> Prop) : forall n (g g' : list A) b,
  popitems n g = (g', b) -> Forall P g -> Forall P g'.
Proof.
  induction n as [|n IH]; intros g g' b H HF; cbn [popitems] in H.
  - injection H as <- _. exact HF.
  - destruct g as [|x r]; [injection H as <- _; constructor|].
    inversion HF; subst. eapply IH; eassumption.
Qed.

Lemma popitems_ok {A} : forall n (g : list A), n <= length g ->
  exists g', popitems n g = (g', true) /\ length g' = length g - n.
Proof.
  induction n as [|n IH]; intros g H; cbn [popitems].
  - exists g. split; [reflexivity|lia].
  - destruct g as [|x r]; cbn [length] in *; [lia|].
    destruct (IH r ltac:(lia)) as (g' & E & L). exists g'. split; [exact E|lia].
Qed.

Lemma popitems_over {A} : forall n (g : list A), length g < n -> popitems n g = ([], false).
Proof.
  induction n as [|n IH]; intros g H; [lia|]. cbn [popitems].
  destruct g as [|x r]; [reflexivity|]. cbn [length] in H. apply IH. lia.
Qed.

Section TGProofs.
  Variables key group extras : Type.
  Variable key_eqb : key -> key -> bool.
  Variable load : key -> extras -> result group.
  Variable merge : extras -> extras -> extras.
  Hypothesis key_eqb_eq : forall a b, key_eqb a b = true -> a = b.

  Notation cache := (tg_cache key group extras).
  Notation get := (tg_get key group extras key_eqb load).
  Notation run := (tg_run key group extras key_eqb load merge).
  Notation step := (tg_step key group extras key_eqb load merge).

  (* every cached group is what loading its key gives with the CURRENT extras *)
  Definition Inv (c : cache) : Prop :=
    Forall (fun kv => load (fst kv) (tg_extras c) = Ok (snd kv)) (tg_groups c).

  Lemma inv_init : forall e0, Inv (tg_init key group extras e0).
  Proof. intros. constructor. Qed.

  Lemma lookup_in : forall k g v, tg_lookup key group key_eqb k g = Some v -> In (k, v) g.
  Proof.
    intros k g v. induction g as [|[k' v'] r IH]; cbn [tg_lookup]; [discriminate|].
    destruct (key_eqb k k') eqn:E.
    - intros H. injection H as ->. apply key_eqb_eq in E. subst. left. reflexivity.
    - intros H. right. apply IH. exact H.
  Qed.

  Lemma get_extras : forall L k c, tg_extras (fst (get L k c)) = tg_extras c.
  Proof. clear key_eqb_eq.
    intros L k c. unfold tg_get. destruct (tg_lookup key group key_eqb k (tg_groups c)); [reflexivity|].
    destruct (if (L <=? length (tg_groups c))%nat then _ else _) as [g1 ok].
    destruct ok; [|reflexivity]. destruct (load k (tg_extras c)); reflexivity.
  Qed.

  Lemma get_inv : forall L k c, Inv c -> Inv (fst (get L k c)).
  Proof.
    intros L k c HI. unfold tg_get.
    destruct (tg_lookup key group key_eqb k (tg_groups c)); [exact HI|].
    destruct (if (L <=? length (tg_groups c))%nat then _ else _) as [g1 ok] eqn:E.
    assert (HF : Forall (fun kv => load (fst kv) (tg_extras c) = Ok (snd kv)) g1).
    { destruct (L <=? length (tg_groups c))%nat.
      - eapply popitems_forall; [exact E|exact HI].
      - injection E as <- _. exact HI. }
    destruct ok; [|exact HF].
    destruct (load k (tg_extras c)) as [v|e] eqn:El; unfold Inv; cbn [fst tg_groups tg_extras].
    - constructor; [exact El|exact HF].
    - exact HF.
  Qed.

  (* what a lookup returns: the load of the key with the current extras, whatever
     is or is not in the cache (limit >= 1) *)
  Lemma get_result : forall L k c, Inv c -> 1 <= L -> snd (get L k c) = load k (tg_extras c).
  Proof.
    intros L k c HI HL. unfold tg_get.
    destruct (tg_lookup key group key_eqb k (tg_groups c)) as [v|] eqn:E.
    - apply lookup_in in E. unfold Inv in HI. rewrite Forall_forall in HI.
      specialize (HI _ E). cbn [fst snd] in *. symmetry. exact HI.
    - destruct (L <=? length (tg_groups c))%nat eqn:EL.
      + destruct (popitems_ok (length (tg_groups c) + 1 - L) (tg_groups c) ltac:(lia)) as (g' & -> & _).
        destruct (load k (tg_extras c)); reflexivity.
      + destruct (load k (tg_extras c)); reflexivity.
  Qed.

  Lemma inv_step : forall L k (c : cache), Inv c ->
    Inv (fst (get L k c)) /\ (1 <= L -> snd (get L k c) = load k (tg_extras c)).
  Proof. intros L k c HI. split; [apply get_inv; exact HI|apply get_result; exact HI]. Qed.

  Lemma step_inv : forall c o, Inv c -> is_add_extra key extras o = false -> Inv (step c o).
  Proof.
    intros c o HI Ho. destruct o as [L k| |e]; cbn [tg_step].
    - apply get_inv. exact HI.
    - constructor.
    - discriminate.
  Qed.

  Lemma run_no_extra : forall ops c, no_extra key extras ops = true -> Inv c ->
    Inv (run ops c) /\ tg_extras (run ops c) = tg_extras c.
  Proof.
    induction ops as [|o r IH]; intros c Hn HI; [split; [exact HI|reflexivity]|].
    cbn [no_extra forallb] in Hn. apply andb_prop in Hn. destruct Hn as [Ho Hr].
    unfold tg_run. cbn [fold_left]. fold (run r (step c o)).
    assert (Ho' : is_add_extra key extras o = false) by (destruct (is_add_extra key extras o); [discriminate|reflexivity]).
    destruct (IH (step c o) Hr (step_inv _ _ HI Ho')) as [A B]. split; [exact A|].
    rewrite B. destruct o as [L k| |e]; cbn [tg_step]; [apply get_extras|reflexivity|discriminate].
  Qed.

  (* C13 main (table-group cache): after ANY history of lookups (at any limits,
     hits, misses, evictions, failed loads) and invalidations, a lookup returns what a
     fresh process would load *)
  Theorem tg_get_pure : forall ops e0 L k,
    no_extra key extras ops = true -> 1 <= L ->
    snd (get L k (run ops (tg_init key group extras e0))) = load k e0.
  Proof.
    intros ops e0 L k Hn HL.
    destruct (run_no_extra ops _ Hn (inv_init e0)) as [HI HE].
    rewrite (get_result _ _ _ HI HL), HE. reflexivity.
  Qed.

  Lemma run_guarded : forall ops b c, guarded key extras b ops = true ->
    (b = true -> tg_groups c = []) -> Inv c ->
    Inv (run ops c) /\ tg_extras (run ops c) = extras_after key extras merge ops (tg_extras c).
  Proof.
    induction ops as [|o r IH]; intros b c Hg Hb HI; [split; [exact HI|reflexivity]|].
    unfold tg_run. cbn [fold_left]. fold (run r (step c o)).
    destruct o as [L k| |e]; cbn [guarded extras_after tg_step] in *.
    - destruct (IH false _ Hg ltac:(discriminate) (get_inv L k c HI)) as [A B].
      split; [exact A|]. rewrite B, get_extras. reflexivity.
    - destruct (IH true (tg_invalidate key group extras c) Hg ltac:(reflexivity) ltac:(constructor)) as [A B].
      split; [exact A|exact B].
    - apply andb_prop in Hg. destruct Hg as [Hb' Hg]. specialize (Hb Hb').
      assert (HI' : Inv (tg_add_extra key group extras merge e c)).
      { unfold Inv, tg_add_extra. cbn [tg_groups]. rewrite Hb. constructor. }
      destruct (IH true (tg_add_extra key group extras merge e c) Hg (fun _ => Hb) HI') as [A B].
      split; [exact A|exact B].
  Qed.

  (* with table definitions: as long as every add_extra_entries comes directly after
     an invalidate, a lookup returns the load with ALL extras added so far *)
  Theorem tg_get_pure_guarded : forall ops e0 L k,
    guarded key extras true ops = true -> 1 <= L ->
    snd (get L k (run ops (tg_init key group extras e0))) =
    load k (extras_after key extras merge ops e0).
  Proof.
    intros ops e0 L k Hg HL.
    destruct (run_guarded ops true (tg_init key group extras e0) Hg (fun _ => eq_refl) (inv_init e0)) as [HI HE].
    rewrite (get_result _ _ _ HI HL), HE. reflexivity.
  Qed.

  (* ---- size ------------------------------------------------------------------ *)
  Lemma get_size : forall L k c, 1 <= L -> length (tg_groups c) <= L ->
    length (tg_groups (fst (get L k c))) <= L.
  Proof. clear key_eqb_eq.
    intros L k c HL Hlen. unfold tg_get.
    destruct (tg_lookup key group key_eqb k (tg_groups c)); [exact Hlen|].
    destruct (L <=? length (tg_groups c))%nat eqn:EL.
    - destruct (popitems_ok (length (tg_groups c) + 1 - L) (tg_groups c) ltac:(lia)) as (g' & -> & Hg').
      destruct (load k (tg_extras c)); cbn [fst tg_groups length]; lia.
    - destruct (load k (tg_extras c)); cbn [fst tg_groups length]; lia.
  Qed.

  Theorem tg_size_bound : forall ops L c,
    forallb (limit_is key extras L) ops = true -> 1 <= L -> length (tg_groups c) <= L ->
    length (tg_groups (run ops c)) <= L.
  Proof. clear key_eqb_eq.
    induction ops as [|o r IH]; intros L c Hl HL Hc; [exact Hc|].
    cbn [forallb] in Hl. apply andb_prop in Hl. destruct Hl as [Ho Hr].
    unfold tg_run. cbn [fold_left]. fold (run r (step c o)).
    apply IH; [exact Hr|exact HL|].
    destruct o as [l k| |e]; cbn [tg_step limit_is] in *.
    - replace l with L by lia. apply get_size; assumption.
    - cbn. lia.
    - exact Hc.
  Qed.

  (* limit 0 as coded: range(len + 1) popitem() calls on len items: the cache is
     emptied and KeyError escapes; nothing is ever cached *)
  Theorem tg_limit0 : forall k c, tg_lookup key group key_eqb k (tg_groups c) = None ->
    get 0 k c = (mkTG [] (tg_extras c), Err EKey).
  Proof. clear key_eqb_eq.
    intros k c H. unfold tg_get. rewrite H. cbn [Nat.leb].
    rewrite popitems_over by lia. reflexivity.
  Qed.

  (* after a miss at limit L >= 1 the cache holds at most max(L, ...) = L items even if
     it was larger before (the limit was lowered): len + 1 - L items are dropped *)
  Theorem tg_get_shrinks : forall L k c v, 1 <= L ->
    tg_lookup key group key_eqb k (tg_groups c) = None -> load k (tg_extras c) = Ok v ->
    length (tg_groups (fst (get L k c))) = Nat.min (S (length (tg_groups c))) L.
  Proof. clear key_eqb_eq.
    intros L k c v HL Hm Hv. unfold tg_get. rewrite Hm.
    destruct (L <=? length (tg_groups c))%nat eqn:EL.
    - destruct (popitems_ok (length (tg_groups c) + 1 - L) (tg_groups c) ltac:(lia)) as (g' & -> & Hg').
      rewrite Hv. cbn [fst tg_groups length]. lia.
    - rewrite Hv. cbn [fst tg_groups length]. lia.
  Qed.
End TGProofs.

Section CTProofs.
  Variables tkey ctemplate : Type.
  Variable tkey_eqb : tkey -> tkey -> bool.
  Variable compile : tkey -> result ctemplate.
  Hypothesis tkey_eqb_eq : forall a b, tkey_eqb a b = true -> a = b.

  Notation cget := (ct_get tkey ctemplate tkey_eqb compile).
  Notation crun := (ct_run tkey ctemplate tkey_eqb compile).

  Definition CInv (c : ct_cache tkey ctemplate) : Prop :=
    Forall (fun kv => compile (fst kv) = Ok (snd kv)) c.

  Lemma ct_lookup_in : forall k c v, ct_lookup tkey ctemplate tkey_eqb k c = Some v -> In (k, v) c.
  Proof.
    intros k c v. induction c as [|[k' v'] r IH]; cbn [ct_lookup]; [discriminate|].
    destruct (tkey_eqb k k') eqn:E.
    - intros H. injection H as ->. apply tkey_eqb_eq in E. subst. left. reflexivity.
    - intros H. right. apply IH. exact H.
  Qed.

  Lemma ct_get_inv : forall m k c, CInv c -> CInv (fst (cget m k c)).
  Proof.
    intros m k c HI. unfold ct_get.
    destruct (ct_lookup tkey ctemplate tkey_eqb k c); [exact HI|].
    destruct (compile k) as [v|e] eqn:E; [|exact HI].
    destruct (0 <? m)%Z; [|exact HI]. cbn [fst]. constructor; [exact E|].
    destruct (m <=? Z.of_nat (length c))%Z; [|exact HI].
    destruct c as [|x r]; [constructor|]. cbn. inversion HI; assumption.
  Qed.

  Lemma ct_get_result : forall m k c, CInv c -> snd (cget m k c) = compile k.
  Proof.
    intros m k c HI. unfold ct_get.
    destruct (ct_lookup tkey ctemplate tkey_eqb k c) as [v|] eqn:E.
    - apply ct_lookup_in in E. unfold CInv in HI. rewrite Forall_forall in HI.
      specialize (HI _ E). symmetry. exact HI.
    - destruct (compile k); [|reflexivity]. destruct (0 <? m)%Z; reflexivity.
  Qed.

  Lemma ct_run_inv : forall m ks c, CInv c -> CInv (crun m ks c).
  Proof.
    intros m ks. induction ks as [|k r IH]; intros c HI; [exact HI|].
    unfold ct_run. cbn [fold_left]. apply IH. apply ct_get_inv. exact HI.
  Qed.

  (* C13 main (compiled-template cache): for EVERY cache_max (0, negative, 1, n) and
     every history, get_or_compile returns what compiling afresh returns *)
  Theorem ct_get_pure : forall m ks k, snd (cget m k (crun m ks [])) = compile k.
  Proof. intros. apply ct_get_result. apply ct_run_inv. constructor. Qed.

  Lemma ct_get_size : forall m k c, (Z.of_nat (length c) <= Z.max m 0)%Z ->
    (Z.of_nat (length (fst (cget m k c))) <= Z.max m 0)%Z.
  Proof. clear tkey_eqb_eq.
    intros m k c H. unfold ct_get.
    destruct (ct_lookup tkey ctemplate tkey_eqb k c); [exact H|].
    destruct (compile k); [|exact H].
    destruct (0 <? m)%Z eqn:E0; [|exact H]. cbn [fst].
    destruct (m <=? Z.of_nat (length c))%Z eqn:E1.
    - destruct c as [|x r]; cbn [popitems fst length] in *; lia.
    - cbn [length]. lia.
  Qed.

  Theorem ct_size_bound : forall m ks, (Z.of_nat (length (crun m ks [])) <= Z.max m 0)%Z.
  Proof. clear tkey_eqb_eq.
    intros m ks. assert (G : forall c, (Z.of_nat (length c) <= Z.max m 0)%Z ->
                                       (Z.of_nat (length (crun m ks c)) <= Z.max m 0)%Z).
    { induction ks as [|k r IH]; intros c H; [exact H|].
      unfold ct_run. cbn [fold_left]. apply IH. apply ct_get_size. exact H. }
    apply G. cbn. lia.
  Qed.

  (* cache_max <= 0: nothing is ever cached *)
  Theorem ct_never_cached : forall m ks, (m <= 0)%Z -> crun m ks [] = [].
  Proof. clear tkey_eqb_eq.
    intros m ks Hm. pose proof (ct_size_bound m ks) as H.
    destruct (crun m ks []); [reflexivity|]. cbn [length] in H. lia.
  Qed.
End CTProofs.

(* ---- non-vacuity: a concrete instance ------------------------------------------------ *)
Definition ex_load (k : nat) (e : nat) : result (nat * nat) := if (k =? 99)%nat then Err EOther else Ok (k, e).
Notation ex_get := (tg_get nat (nat * nat) nat Nat.eqb ex_load).
Notation ex_run := (tg_run nat (nat * nat) nat Nat.eqb ex_load Nat.add).

Lemma nat_eqb_eq : forall a b, Nat.eqb a b = true -> a = b.
Proof. intros a b H. apply Nat.eqb_eq. exact H. Qed.

(* eviction drops the MOST RECENT item: with limit 2, after 1,2 a lookup of 3 evicts 2 *)
Example ex_eviction :
  tg_keys nat (nat * nat) nat (ex_run [TGet 2 1; TGet 2 2; TGet 2 3; TGet 2 99; TGet 2 1] (tg_init nat (nat * nat) nat 0))
  = [1].
Proof. vm_compute. reflexivity. Qed.

Example ex_eviction2 :
  tg_keys nat (nat * nat) nat (ex_run [TGet 2 1; TGet 2 2; TGet 2 3] (tg_init nat (nat * nat) nat 0)) = [1; 3].
Proof. vm_compute. reflexivity. Qed.

Example ex_history_hyp :
  no_extra nat nat [TGet 2 1; TGet 2 2; TInvalidate; TGet 1 3; TGet 2 99; TGet 50 1] = true.
Proof. reflexivity. Qed.

(* without the guard the statement is false: an entry loaded before add_extra_entries
   (no invalidate) is stale *)
Example ex_stale_without_invalidate :
  let c := ex_run [TGet 5 1; TAddExtra 7] (tg_init nat (nat * nat) nat 0) in
  snd (ex_get 5 1 c) = Ok (1, 0) /\ ex_load 1 (tg_extras c) = Ok (1, 7).
Proof. vm_compute. split; reflexivity. Qed.

Example ex_guarded_hyp :
  guarded nat nat true [TGet 5 1; TInvalidate; TAddExtra 7; TGet 5 1] = true /\
  guarded nat nat true [TGet 5 1; TAddExtra 7] = false.
Proof. split; reflexivity. Qed.

Example ex_limit0 :
  ex_get 0 4 (ex_run [TGet 3 1; TGet 3 2] (tg_init nat (nat * nat) nat 0)) = (mkTG [] 0, Err EKey).
Proof. vm_compute. reflexivity. Qed.

Definition ex_compile (k : nat) : result nat := if (k =? 13)%nat then Err ELib else Ok (k * k).
Example ex_ct :
  ct_keys nat nat (ct_run nat nat Nat.eqb ex_compile 2 [1; 2; 3; 13; 1; 4] []) = [1; 4] /\
  ct_run nat nat Nat.eqb ex_compile 0 [1; 2; 3] [] = [] /\
  ct_keys nat nat (ct_run nat nat Nat.eqb ex_compile 1 [1; 2; 3; 3] []) = [3].
Proof. vm_compute. repeat split. Qed.

Lemma stale_without_invalidate :
  exists (ops : list (tg_op nat nat)),
    guarded nat nat true ops = false /\
    let c := ex_run ops (tg_init nat (nat * nat) nat 0) in
    snd (ex_get 5 1 c) <> ex_load 1 (tg_extras c).
Proof.
  exists [TGet 5 1; TAddExtra 7]. split; [reflexivity|]. vm_compute. discriminate.
Qed.
