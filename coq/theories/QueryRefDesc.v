(* QueryRefDesc.v — C16: paths WITH descendant steps.  The query model equals the
   reference search over the nested rendering (QueryRef.jdesc / jgen), nodes first and
   values afterwards, for every path whose separators are '/', '.', '>' — provided the
   rendering is saturated (attributes unfolded to the end of every chain). *)
From PBK Require Import Base Descr Walk Wire Nested NestedProofs PySlice PathParser Query QueryProofs QuerySpec
                        QueryRef QueryRefProofs QueryRefValues QueryRefJson QueryFuel.
From Coq Require Import ZifyBool ZifyNat ZifyN.

Definition memb (i : nat) (P : list nat) : bool := existsb (Nat.eqb i) P.

Lemma memb_In i P : memb i P = true <-> In i P.
Proof.
  unfold memb. rewrite existsb_exists. split.
  - intros (x & Hx & E). apply Nat.eqb_eq in E. subst x. exact Hx.
  - intros H. exists i. split; [exact H|apply Nat.eqb_refl].
Qed.

(* ---- positional walk ----------------------------------------------------------------------- *)
Lemma walk_spec {A B} (P : list nat) (visit : A -> result (list B)) : forall l i,
  walk P visit i l = collect visit (map snd (filter (fun p => memb (fst p) P) (enumerate i l))).
Proof.
  induction l as [|x l IH]; intros i; cbn [walk enumerate filter map collect]; [reflexivity|].
  cbn [fst]. fold (memb i P). rewrite IH. destruct (memb i P); cbn [map collect snd]; [reflexivity|].
  cbn [bind app]. destruct (collect visit _); reflexivity.
Qed.

Lemma walk_map {A A' B} (h : A -> A') (P : list nat) (visit : A' -> result (list B)) : forall l i,
  walk P visit i (map h l) = walk P (fun x => visit (h x)) i l.
Proof.
  induction l as [|x l IH]; intros i; cbn [walk map]; [reflexivity|]. rewrite IH. reflexivity.
Qed.

Lemma collect_s_eq {A B} (f : A -> result (list B)) l : collect_s f l = collect f l.
Proof. induction l as [|x l IH]; cbn [collect_s collect]; [reflexivity|]. rewrite IH. reflexivity. Qed.

(* strictly increasing positions *)
Fixpoint incr (P : list nat) : Prop :=
  match P with [] => True | p :: t => Forall (fun q => (p < q)%nat) t /\ incr t end.

Lemma ssorted_incr (l : list (nat * qn)) : ssorted l -> incr (map fst l).
Proof.
  induction l as [|x l IH]; cbn [ssorted map incr]; [tauto|]. intros [Hx Hl]. split; [|apply IH, Hl].
  apply Forall_forall. intros q Hq. apply in_map_iff in Hq as (y & <- & Hy).
  rewrite Forall_forall in Hx. apply Hx, Hy.
Qed.

Lemma flat_map_ext_in' {A B} (f g : A -> list B) l :
  (forall a, In a l -> f a = g a) -> flat_map f l = flat_map g l.
Proof.
  induction l as [|x l IH]; intros H; cbn [flat_map]; [reflexivity|].
  rewrite (H x (or_introl eq_refl)), IH; [reflexivity|]. intros a Ha. apply H. right. exact Ha.
Qed.

Lemma enumerate_ge {A} (l : list A) : forall i q, In q (enumerate i l) -> (i <= fst q)%nat.
Proof.
  induction l as [|x l IH]; intros i q; cbn [enumerate In]; [tauto|].
  intros [<-|H]; [cbn; lia|]. apply IH in H. lia.
Qed.

(* picking increasing positions = reading the list and keeping those positions *)
Lemma pick_incr {A} : forall (l : list A) (P : list nat) (i : nat),
  incr P -> Forall (fun p => (i <= p)%nat) P ->
  flat_map (fun p => match nth_error l (p - i) with Some x => [x] | None => [] end) P =
  map snd (filter (fun q => memb (fst q) P) (enumerate i l)).
Proof.
  induction l as [|x l IH]; intros P i Hinc Hge.
  - cbn [enumerate filter map]. induction P as [|p P IHP]; [reflexivity|]. cbn [flat_map].
    destruct (p - i)%nat; cbn [nth_error app]; apply IHP; [apply Hinc|inversion Hge; assumption| apply Hinc | inversion Hge; assumption].
  - cbn [enumerate filter map fst].
    destruct (memb i P) eqn:Hm.
    + (* the head position is selected: P = i :: P' *)
      destruct P as [|p P']; [discriminate|].
      cbn [incr] in Hinc. destruct Hinc as [Hp Hinc]. inversion Hge as [|? ? Hip HgeP]; subst.
      assert (p = i).
      { apply memb_In in Hm. destruct Hm as [E|Hin]; [exact E|]. rewrite Forall_forall in Hp. specialize (Hp i Hin). lia. }
      subst p. cbn [flat_map map snd]. replace (i - i)%nat with O by lia. cbn [nth_error app]. f_equal.
      assert (HgeS : Forall (fun q => (S i <= q)%nat) P').
      { rewrite Forall_forall in *. intros q Hq. specialize (Hp q Hq). lia. }
      rewrite (flat_map_ext_in' _ (fun p => match nth_error l (p - S i) with Some x => [x] | None => [] end)).
      2:{ intros q Hq. rewrite Forall_forall in HgeS. specialize (HgeS q Hq).
          replace (q - i)%nat with (S (q - S i)) by lia. reflexivity. }
      rewrite (IH P' (S i) Hinc HgeS). f_equal. apply filter_ext_in. intros q Hq.
      apply enumerate_ge in Hq. unfold memb. cbn [existsb].
      destruct (Nat.eqb_spec (fst q) i); [lia|reflexivity].
    + assert (HgeS : Forall (fun q => (S i <= q)%nat) P).
      { rewrite Forall_forall in *. intros q Hq. specialize (Hge q Hq).
        destruct (Nat.eq_dec q i) as [->|]; [|lia]. apply memb_In in Hq. congruence. }
      rewrite (flat_map_ext_in' _ (fun p => match nth_error l (p - S i) with Some x => [x] | None => [] end)).
      2:{ intros q Hq. rewrite Forall_forall in HgeS. specialize (HgeS q Hq).
          replace (q - i)%nat with (S (q - S i)) by lia. reflexivity. }
      apply (IH P (S i) Hinc HgeS).
Qed.

Lemma pick_walk {A B} (visit : A -> result (list B)) (P : list nat) (l : list A) :
  incr P -> collect visit (pick P l) = walk P visit 0 l.
Proof.
  intros Hinc. rewrite walk_spec. f_equal. unfold pick.
  rewrite <- (pick_incr l P 0 Hinc); [|apply Forall_forall; intros; lia].
  apply flat_map_ext. intros p. rewrite Nat.sub_0_r. reflexivity.
Qed.

(* ---- one descendant step of the implementation: filter_for_entities ------------------------- *)
Lemma existsb_fst_memb {A} (l : list (nat * A)) n :
  existsb (fun y => (fst y =? n)%nat) l = memb n (map fst l).
Proof.
  unfold memb. induction l as [|y l IH]; cbn [existsb map]; [reflexivity|]. rewrite IH, Nat.eqb_sym. reflexivity.
Qed.

Lemma memb_ext i P Q : (In i P <-> In i Q) -> memb i P = memb i Q.
Proof. intros H. apply Bool.eq_iff_eq_true. rewrite !memb_In. exact H. Qed.

Section FD.
Context (attrs : list attr) (labels : list (list char)).
Local Notation lab := (label_of labels).
Local Notation ffe := (filter_for_entities attrs labels).

Lemma existsb_kept c nodes x : In x (enumerate 0 nodes) ->
  existsb (fun y => (fst y =? fst x)%nat) (kept_of attrs labels c nodes) = is2 attrs labels c x.
Proof.
  intros Hx. apply Bool.eq_iff_eq_true. rewrite existsb_exists. unfold kept_of. split.
  - intros (y & Hy & E). apply filter_In in Hy as [HyE Hy2]. apply Nat.eqb_eq in E.
    rewrite <- (ssorted_fst_inj _ (ssorted_enumerate nodes 0) y x HyE Hx E). exact Hy2.
  - intros H2. exists x. split; [apply filter_In; split; assumption|apply Nat.eqb_refl].
Qed.

(* the positions a descendant step looks at, in document order: the selected matches and the
   composite nodes with another label *)
Theorem ffe_descend c nodes : (c_sep c =? SEP_DESCEND)%N = true ->
  ffe nodes c =
  (let* cutsel := select lab c nodes in
   Ok (filter (fun p => memb (fst p) (map fst cutsel) || is2 attrs labels c p) (enumerate 0 nodes))).
Proof.
  intros Hd. unfold select. rewrite <- (matched_labelled attrs).
  pose proof (ssorted_enumerate nodes 0) as HE.
  set (M := matched_of attrs labels c nodes).
  assert (HM : incl M (enumerate 0 nodes)) by (intros y Hy; apply filter_In in Hy as [Hy _]; exact Hy).
  assert (Hfin : forall sel : list (nat * qn), incl sel M -> NoDup (map fst sel) ->
            sort_by_idx (sel ++ kept_of attrs labels c nodes) =
            filter (fun p => memb (fst p) (map fst sel) || is2 attrs labels c p) (enumerate 0 nodes)).
  { intros sel Hincl Hnd.
    rewrite (sort_is_document_filter (enumerate 0 nodes)); [| exact HE | |].
    - apply filter_ext_in. intros x Hx. rewrite existsb_app, existsb_kept by exact Hx.
      rewrite existsb_fst_memb. reflexivity.
    - intros y Hy. apply in_app_or in Hy as [Hy|Hy]; [apply HM, Hincl, Hy|].
      apply filter_In in Hy as [Hy _]. exact Hy.
    - rewrite map_app. apply NoDup_app_intro; [exact Hnd|apply ssorted_NoDup_fst, ssorted_filter, HE|].
      intros i Hi1 Hi2. apply in_map_iff in Hi1 as (x & <- & Hx). apply in_map_iff in Hi2 as (y & Ey & Hy).
      apply Hincl in Hx. apply filter_In in Hx as [HxE Hx1]. apply filter_In in Hy as [HyE Hy2].
      assert (y = x) by (apply (ssorted_fst_inj _ HE); assumption). subst y.
      unfold is1 in Hx1. unfold is2 in Hy2. apply N.eqb_eq in Hx1. apply N.eqb_eq in Hy2. congruence. }
  destruct (c_slice c) as [k|a b st] eqn:Hs; cbn [cut bind].
  - rewrite (ffe_int_descendant attrs labels c k nodes Hs Hd). fold M. f_equal.
    assert (E : (match nth_error M (Z.to_nat k) with
                 | Some x => if (k <? Z.of_nat (length M))%Z then [x] else []
                 | None => [] end) = match nth_error M (Z.to_nat k) with Some x => [x] | None => [] end).
    { destruct (nth_error M (Z.to_nat k)) as [x|] eqn:Ex; [|reflexivity].
      assert (Z.to_nat k < length M)%nat by (apply nth_error_Some; congruence).
      destruct (Z.ltb_spec k (Z.of_nat (length M))); [reflexivity|lia]. }
    rewrite E. apply Hfin.
    + intros y Hy. destruct (nth_error M (Z.to_nat k)) as [x|] eqn:Ex; [|destruct Hy].
      destruct Hy as [<-|[]]. eapply nth_error_In; exact Ex.
    + destruct (nth_error M (Z.to_nat k)); cbn [map]; repeat constructor. intros [].
  - destruct (py_slice M a b st) as [sel|e] eqn:Ep.
    + rewrite (ffe_slice attrs labels c a b st nodes Hs). fold M. rewrite Ep. cbn [bind]. f_equal.
      destruct (py_slice_picks _ _ _ _ _ Ep) as [Hincl Hnd].
      rewrite Hfin; [|exact Hincl|apply Hnd, ssorted_NoDup_fst, ssorted_filter, HE].
      apply filter_ext_in. intros x Hx. f_equal. apply memb_ext. rewrite !in_map_iff. split.
      * intros (y & Ey & Hy). exists y. split; [exact Ey|]. apply filter_In. split; [apply Hincl, Hy|].
        apply existsb_exists. exists y. split; [exact Hy|apply Nat.eqb_refl].
      * intros (z & Ez & Hz). apply filter_In in Hz as [_ Hz]. apply existsb_exists in Hz as (y & Hy & E).
        apply Nat.eqb_eq in E. exists y. split; [lia|exact Hy].
    + rewrite (ffe_slice attrs labels c a b st nodes Hs). fold M. rewrite Ep. reflexivity.
Qed.

End FD.

(* ---- results with the nodes erased to their value index ---------------------------------------- *)
Fixpoint erase (r : qres) : ores :=
  match r with
  | RNode (QV i) => ONode (Some i)
  | RNode _ => ONode None
  | RList l => OList (map erase l)
  end.

Definition map_res {A B} (f : A -> B) (r : result A) : result B := let* x := r in Ok (f x).
Local Notation er := (map_res (map erase)).

Lemma er_collect {A} (v : A -> result (list qres)) l : er (collect v l) = collect (fun x => er (v x)) l.
Proof.
  unfold map_res. induction l as [|x l IH]; cbn [collect bind map]; [reflexivity|].
  rewrite <- IH. destruct (v x) as [a|e]; cbn [bind]; [|reflexivity].
  destruct (collect v l) as [b|e]; cbn [bind]; [rewrite map_app|]; reflexivity.
Qed.

Lemma er_bind {A} (r : result A) (f : A -> result (list qres)) : er (bind r f) = bind r (fun a => er (f a)).
Proof. destruct r; reflexivity. Qed.

Lemma erase_envelope r : map erase (envelope RList r) = envelope OList (map erase r).
Proof. destruct r; reflexivity. Qed.

Lemma er_walk {A} (P : list nat) (v : A -> result (list qres)) l i :
  er (walk P v i l) = walk P (fun x => er (v x)) i l.
Proof. rewrite !walk_spec. apply er_collect. Qed.

Lemma walk_ext_in {A B} (P : list nat) (v v' : A -> result (list B)) l : (forall x, In x l -> v x = v' x) ->
  forall i, walk P v i l = walk P v' i l.
Proof.
  induction l as [|x l IH]; intros H i; cbn [walk]; [reflexivity|].
  rewrite (H x (or_introl eq_refl)), IH; [reflexivity|]. intros y Hy. apply H. right. exact Hy.
Qed.

(* ---- the descendant step of the model, unfolded -------------------------------------------------- *)
Section MD.
Context (attrs : list attr) (labels : list (list char)).
Local Notation lab := (label_of labels).
Local Notation fsub := (filter_sub attrs labels).
Local Notation fdesc := (filter_desc attrs labels).
Local Notation fkind := (filter_kind attrs labels).
Local Notation ffe := (filter_for_entities attrs labels).
Local Notation nm := (node_matches attrs labels).

Definition qcomposite (n : qn) : bool := has_members n || has_attributes attrs n || has_factor n.

(* descend_and_proceed on one node *)
Definition visitM (k : nat) (c : comp) (rest : list comp) (x : qn) : result (list qres) :=
  if (nm x c =? 2)%N then fdesc k x (c :: rest)
  else if (nm x c =? 1)%N then proceed attrs labels k rest [x] else Ok [].

Lemma fkind_child_desc k n c rest : (c_sep c =? SEP_DESCEND)%N = true ->
  fkind (S k) true n (c :: rest) =
  if negb (has_members n) then Err EQuery else
  match n with
  | QRep _ _ nmem _ ms =>
      let mem := members_of n in
      match mem with
      | [] => Ok []
      | _ =>
        let* first := ffe (firstn nmem mem) c in
        match map fst first with
        | [] => Ok []
        | _ =>
          let* env := collect (fun ch => let* r := collect (visitM k c rest) (pick (map fst first) ch) in
                                         Ok (envelope RList r))
                              (chunk (S (length mem)) nmem mem) in
          Ok (envelope RList env)
        end
      end
  | _ => let* sel := ffe (members_of n) c in collect (visitM k c rest) (map snd sel)
  end.
Proof.
  intros Hd. rewrite fkind_eq. unfold kind_body. cbv zeta. rewrite Hd.
  destruct (negb (has_members n)); [reflexivity|].
  destruct n as [i|id|id ms|dl id nmem f ms|ms].
  1,2,3,5: (apply bind_ext; intros sel; destruct (map snd sel) as [|s0 sl] eqn:Es; [reflexivity|];
            rewrite <- Es; apply concat_res_collect).
  destruct (members_of _) as [|m0 mem]; [reflexivity|].
  apply bind_ext. intros first. destruct (map fst first) as [|i0 idxs] eqn:Ei; [reflexivity|]. rewrite <- Ei.
  rewrite (envelope_fold (fun ch => concat_res (map (visitM k c rest) (pick (map fst first) ch)))).
  f_equal. apply collect_ext. intros ch _. rewrite concat_res_collect. reflexivity.
Qed.

Lemma fkind_attr_desc k n c rest : (c_sep c =? SEP_DESCEND)%N = true ->
  fkind (S k) false n (c :: rest) =
  if negb (has_attributes attrs n || has_factor n) then Err EQuery else
  let* f := (match n with
             | QRep true _ _ fi _ => let* s := ffe [QV fi] c in Ok (map snd s)
             | _ => Ok []
             end) in
  let* a := (match n with
             | QV i => if has_attributes attrs n
                       then let* s := ffe (map QV (Query.attrs_of attrs i)) c in Ok (map snd s)
                       else Ok []
             | _ => Ok []
             end) in
  collect (visitM k c rest) (f ++ a).
Proof.
  intros Hd. rewrite fkind_eq. unfold kind_body. cbv zeta. rewrite Hd.
  destruct (negb (has_attributes attrs n || has_factor n)); [reflexivity|].
  apply bind_ext; intros f. apply bind_ext; intros a.
  destruct (f ++ a) as [|x0 xs] eqn:E; [reflexivity|]. rewrite <- E. apply concat_res_collect.
Qed.

Lemma is2_desc c p : (c_sep c =? SEP_DESCEND)%N = true ->
  is2 attrs labels c p = negb (chars_eqb (lab (snd p)) (c_id c)) && qcomposite (snd p).
Proof.
  intros Hd. unfold is2, node_matches, qcomposite. destruct (chars_eqb _ _); [reflexivity|]. rewrite Hd.
  destruct (has_members (snd p) || has_attributes attrs (snd p) || has_factor (snd p)); reflexivity.
Qed.

Lemma visitM_eq k c rest x : (c_sep c =? SEP_DESCEND)%N = true ->
  visitM k c rest x =
  if chars_eqb (lab x) (c_id c) then proceed attrs labels k rest [x]
  else if qcomposite x then fdesc k x (c :: rest) else Ok [].
Proof.
  intros Hd. unfold visitM, node_matches, qcomposite. destruct (chars_eqb _ _); [reflexivity|]. rewrite Hd.
  destruct (has_members x || has_attributes attrs x || has_factor x); reflexivity.
Qed.

End MD.

(* ---- positions ---------------------------------------------------------------------------------- *)
Lemma filter_by_positions (E : list (nat * qn)) pr : ssorted E ->
  filter pr E = filter (fun q => memb (fst q) (map fst (filter pr E))) E.
Proof.
  intros HE. apply filter_ext_in. intros q Hq. apply Bool.eq_iff_eq_true. rewrite memb_In, in_map_iff. split.
  - intros Hp. exists q. split; [reflexivity|apply filter_In; split; assumption].
  - intros (z & Ez & Hz). apply filter_In in Hz as [HzE Hz].
    rewrite <- (ssorted_fst_inj E HE z q HzE Hq Ez). exact Hz.
Qed.

Lemma in_chunks {A} n k (l : list A) x : length l = (n * k)%nat -> In x l -> exists rep, In rep (chunks n k l) /\ In x rep.
Proof.
  intros Hl Hx.
  assert (E : flat_map (fun rep => flat_map (fun y : A => [y]) rep) (chunks n k l) = l).
  { rewrite (chunks_flat (fun y : A => [y])). rewrite firstn_all2 by lia.
    clear. induction l as [|y l IH]; cbn [flat_map app]; [reflexivity|]. rewrite IH. reflexivity. }
  rewrite <- E in Hx. apply in_flat_map in Hx as (rep & Hrep & Hx). exists rep. split; [exact Hrep|].
  apply in_flat_map in Hx as (y & Hy & [<-|[]]). exact Hy.
Qed.

(* ---- heights ------------------------------------------------------------------------------------- *)
Lemma in_list_max {A} (h : A -> nat) x l : In x l -> (h x <= list_max (map h l))%nat.
Proof.
  induction l as [|y l IH]; cbn [In map list_max fold_right]; [tauto|]. intros [->|H]; [lia|].
  specialize (IH H). unfold list_max in IH. lia.
Qed.

Lemma vheight_pos v : (1 <= vheight v)%nat.
Proof. destruct v; cbn [vheight]; lia. Qed.
Lemma jheight_pos n : (1 <= jheight n)%nat.
Proof. destruct n; cbn [jheight]; try lia. apply vheight_pos. Qed.

Lemma jheight_seq id ms x : In x ms -> (jheight x < jheight (JSeqN id ms))%nat.
Proof. intros H. cbn [jheight]. pose proof (in_list_max jheight x ms H). lia. Qed.

Lemma jheight_rep id f reps rep x : In rep reps -> In x rep -> (jheight x < jheight (JRep id f reps))%nat.
Proof.
  intros Hr Hx. cbn [jheight]. pose proof (in_list_max jheight x rep Hx).
  pose proof (in_list_max (fun rep => list_max (map jheight rep)) rep reps Hr). cbv beta in *. lia.
Qed.

Lemma jheight_factor id v reps : (vheight v < jheight (JRep id (Some v) reps))%nat.
Proof. cbn [jheight]. lia. Qed.

Lemma vheight_attr i b ats a : In a ats -> (vheight a < vheight (JV i b ats))%nat.
Proof. intros H. cbn [vheight]. pose proof (in_list_max vheight a ats H). lia. Qed.

Section DS.
Context (attrs : list attr) (ia : N -> bool) (vals : list value) (labels : list (list char)).
Context (K : nat).                                   (* the depth to which the rendering unfolds attributes *)
Local Notation rn := (render_node attrs ia vals).
Local Notation rns := (render_nodes attrs ia vals).
Local Notation rv := (render_value attrs ia).
Local Notation lab := (label_of labels).
Local Notation jlab := (jlabel labels).
Local Notation fsub := (filter_sub attrs labels).
Local Notation fdesc := (filter_desc attrs labels).
Local Notation fkind := (filter_kind attrs labels).
Local Notation ffe := (filter_for_entities attrs labels).
Local Notation qcomp := (qcomposite attrs).

Section Cands.
Context (c : comp) (Hd : (c_sep c =? SEP_DESCEND)%N = true).

(* the model's filter_for_entities result is a sub-list of the candidates given by its positions *)
Lemma ffe_positions nodes first : ffe nodes c = Ok first ->
  incr (map fst first) /\ first = filter (fun q => memb (fst q) (map fst first)) (enumerate 0 nodes).
Proof.
  intros E. rewrite (ffe_descend attrs labels c nodes Hd) in E.
  destruct (select lab c nodes) as [cs|e]; cbn [bind] in E; [|discriminate]. injection E as <-.
  pose proof (ssorted_enumerate nodes 0) as HE. split.
  - apply ssorted_incr, ssorted_filter, HE.
  - apply filter_by_positions, HE.
Qed.

(* the reference's positions are the positions of the model's result *)
Lemma dpos_ffe {W} (f : W -> qn) (g : W -> jn) (ws : list W) :
  (forall w, jlab (g w) = lab (f w)) -> (forall w, In w ws -> jcomposite (g w) = qcomp (f w)) ->
  dpos labels c (map g ws) = (let* first := ffe (map f ws) c in Ok (map fst first)).
Proof.
  intros Hl Hc. unfold dpos. rewrite (ffe_descend attrs labels c _ Hd), !select_map.
  rewrite (select_ext_label (fun w => jlab (g w)) (fun w => lab (f w)) c ws Hl).
  destruct (select (fun w => lab (f w)) c ws) as [cs|e]; cbn [bind]; [|reflexivity]. f_equal.
  rewrite !enumerate_map, !filter_map_comm, !map_map. cbn [fst snd]. f_equal.
  apply filter_ext_in. intros q Hq. apply enumerate_In in Hq.
  rewrite (is2_desc attrs labels c _ Hd). cbn [snd]. rewrite Hl, (Hc _ Hq). reflexivity.
Qed.

Section Visit.
Context (k : nat) (rest : list comp) (contJ : list jn -> result (list ores)) (down : jn -> result (list ores)).
Local Notation visitQ := (visitM attrs labels k c rest).
Local Notation visitJ := (fun x => dvisit labels c contJ x (down x)).

(* a descendant step over one list of candidates *)
Lemma dlist {W} (f : W -> qn) (g : W -> jn) (ws : list W) :
  (forall w, jlab (g w) = lab (f w)) -> (forall w, In w ws -> jcomposite (g w) = qcomp (f w)) ->
  (forall w, In w ws -> er (visitQ (f w)) = visitJ (g w)) ->
  er (let* sel := ffe (map f ws) c in collect visitQ (map snd sel)) =
  (let* P := dpos labels c (map g ws) in walk P visitJ 0 (map g ws)).
Proof.
  intros Hl Hc Hv. rewrite (dpos_ffe f g ws Hl Hc).
  destruct (ffe (map f ws) c) as [first|e] eqn:Ef; cbn [bind]; [|reflexivity].
  destruct (ffe_positions _ _ Ef) as [_ Hfirst]. rewrite Hfirst at 1. rewrite <- walk_spec.
  rewrite er_walk, !walk_map. apply walk_ext_in. exact Hv.
Qed.

Lemma er_env (X : result (list qres)) :
  er (let* r := X in Ok (envelope RList r)) = (let* r := er X in Ok (envelope OList r)).
Proof. destruct X as [r|e]; cbn [bind map_res]; [rewrite erase_envelope|]; reflexivity. Qed.

(* a descendant step over the members of a replication node *)
Lemma dreps nmem nrep (ws : list wnode) :
  length ws = (nmem * nrep)%nat ->
  (forall w, In w ws -> jcomposite (rn K w) = qcomp (qn_of w)) ->
  (forall w, In w ws -> er (visitQ (qn_of w)) = visitJ (rn K w)) ->
  er (match map qn_of ws with
      | [] => Ok []
      | _ => let* first := ffe (firstn nmem (map qn_of ws)) c in
             match map fst first with
             | [] => Ok []
             | _ => let* env := collect (fun ch => let* r := collect visitQ (pick (map fst first) ch) in
                                                   Ok (envelope RList r))
                                        (chunk (S (length (map qn_of ws))) nmem (map qn_of ws)) in
                    Ok (envelope RList env)
             end
      end) =
  match chunks nmem nrep (map (rn K) ws) with
  | [] | [] :: _ => Ok []
  | rep0 :: _ =>
      let* P := dpos labels c rep0 in
      match P with
      | [] => Ok []
      | _ => let* env := collect_s (fun rep => let* r := walk P visitJ 0 rep in Ok (envelope OList r))
                                   (chunks nmem nrep (map (rn K) ws)) in
             Ok (envelope OList env)
      end
  end.
Proof.
  intros Hlen Hc Hv. destruct ws as [|w0 ws'] eqn:Ews.
  - cbn [map]. destruct nrep as [|r]; cbn [chunks]; [reflexivity|]. rewrite firstn_nil. reflexivity.
  - rewrite <- Ews in *. assert (Hne : ws <> []) by (rewrite Ews; discriminate).
    assert (Hn : (0 < nmem)%nat) by (destruct nmem; [rewrite Ews in Hlen; cbn in Hlen; lia|lia]).
    assert (Hr : exists r, nrep = S r).
    { destruct nrep as [|r]; [rewrite Ews in Hlen; cbn in Hlen; lia|]. exists r. reflexivity. }
    destruct Hr as (r & Hr).
    erewrite (rep_match (chunks nmem nrep (map (rn K) ws)) _ (firstn nmem (map (rn K) ws))).
    2:{ rewrite Hr at 1. cbn [chunks]. reflexivity. }
    2:{ rewrite Ews. destruct nmem; [lia|]. discriminate. }
    rewrite (match_cons (map qn_of ws)) by (rewrite Ews; discriminate).
    rewrite !firstn_map.
    rewrite (dpos_ffe qn_of (rn K) (firstn nmem ws) (jlab_rn attrs ia vals labels K)).
    2:{ intros w Hw. apply Hc. eapply firstn_incl; exact Hw. }
    destruct (ffe (map qn_of (firstn nmem ws)) c) as [first|e] eqn:Ef; cbn [bind map_res]; [|reflexivity].
    destruct (ffe_positions _ _ Ef) as [Hinc _].
    destruct (map fst first) as [|p0 P'] eqn:EP; [reflexivity|]. rewrite <- EP in *.
    rewrite er_env. rewrite collect_s_eq, map_length, chunk_map, chunks_map, !collect_map.
    rewrite (chunk_chunks nmem nrep (S (length ws)) ws Hn Hlen) by (rewrite Hlen; nia).
    rewrite er_collect.
    erewrite collect_ext; [reflexivity|].
    + intros rep Hrep. cbv beta. rewrite er_env. rewrite (pick_walk _ _ _ Hinc), er_walk, !walk_map.
      erewrite walk_ext_in; [reflexivity|]. intros w Hw. cbv beta. apply Hv.
      eapply chunks_incl; [exact Hrep|exact Hw].
Qed.

End Visit.
End Cands.

(* ---- saturation ------------------------------------------------------------------------------------ *)
Lemma no_chain_0 i : no_chain attrs 0 i = true -> Query.attrs_of attrs i = [].
Proof. cbn [no_chain]. destruct (Query.attrs_of attrs i); [reflexivity|discriminate]. Qed.

Lemma no_chain_S k i a : no_chain attrs (S k) i = true -> In a (Query.attrs_of attrs i) -> no_chain attrs k a = true.
Proof. cbn [no_chain]. intros H Ha. rewrite forallb_forall in H. apply H, Ha. Qed.

Lemma saturated_all k : saturated attrs k = true -> forall i, no_chain attrs k i = true.
Proof.
  intros Hs i. destruct (Query.attrs_of attrs i) as [|a ats] eqn:Ea.
  - destruct k; cbn [no_chain]; rewrite Ea; reflexivity.
  - assert (Hin : In a (Query.attrs_of attrs i)) by (rewrite Ea; left; reflexivity).
    unfold Query.attrs_of in Hin. apply in_map_iff in Hin as (x & _ & Hx). apply filter_In in Hx as [Hx Ei].
    apply N.eqb_eq in Ei. unfold saturated in Hs. rewrite forallb_forall in Hs. specialize (Hs x Hx).
    rewrite Ei in Hs. exact Hs.
Qed.

Context (HK : forall i, no_chain attrs K i = true).

(* [j] is the saturated rendering of [q] *)
Inductive dsim : qn -> jn -> Prop :=
  | dsim_node w : wf_node vals w -> dsim (qn_of w) (rn K w)
  | dsim_val k b i : no_chain attrs k i = true -> dsim (QV i) (JVal (rv k b i))
  | dsim_root ms : wf_nodes vals ms -> dsim (QRoot ms) (JSeqN 0 (rns K ms)).

Lemma composite_rv k b i : no_chain attrs k i = true -> jcomposite (JVal (rv k b i)) = qcomp (QV i).
Proof.
  intros H. unfold qcomposite. cbn [has_members has_factor has_attributes orb]. rewrite orb_false_r.
  destruct k as [|k]; cbn [render_value jcomposite].
  - rewrite (no_chain_0 i H). reflexivity.
  - change (Nested.attrs_of attrs i) with (Query.attrs_of attrs i).
    destruct (Query.attrs_of attrs i); reflexivity.
Qed.

Lemma composite_rn w : jcomposite (rn K w) = qcomp (qn_of w).
Proof.
  destruct w; cbn [render_node qn_of]; try reflexivity. apply composite_rv, HK.
Qed.

Lemma composite_dsim q j : dsim q j -> jcomposite j = qcomp q.
Proof. intros [w _|k b i H|ms _]; [apply composite_rn|apply composite_rv, H|reflexivity]. Qed.

Lemma leaf_dsim q j : dsim q j -> jleaf_o j = Ok [erase (RNode q)].
Proof.
  intros [w _|k b i _|ms _]; [|destruct (rv_idx attrs ia k b i) as (fl & ats & ->); reflexivity|reflexivity].
  destruct w; cbn [qn_of render_node]; try reflexivity.
  destruct (rv_idx attrs ia K false idx) as (fl & ats & ->). reflexivity.
Qed.


Lemma er_app2 (X Y : result (list qres)) :
  er (let* a := X in let* b := Y in Ok (a ++ b)) = (let* a := er X in let* b := er Y in Ok (a ++ b)).
Proof.
  unfold map_res. destruct X as [a|e]; cbn [bind]; [|reflexivity]. destruct Y as [b|e]; cbn [bind]; [|reflexivity].
  rewrite map_app. reflexivity.
Qed.

Lemma bind_app_nil {A} (X : result (list A)) : (let* a := X in let* b := Ok [] in Ok (a ++ b)) = X.
Proof. destruct X as [a|e]; cbn [bind]; [rewrite app_nil_r|]; reflexivity. Qed.

Lemma bind_nil_app {A} (Y : result (list A)) : (let* a := Ok [] in let* b := Y in Ok (a ++ b)) = Y.
Proof. destruct Y as [a|e]; reflexivity. Qed.

(* ---- the descendant search ------------------------------------------------------------------------- *)
Section Desc.
Context (c : comp) (Hd : (c_sep c =? SEP_DESCEND)%N = true) (rest : list comp).

Definition contO : list jn -> result (list ores) :=
  match rest with [] => collect jleaf_o | _ => collect (jgen labels jleaf_o OList rest) end.

Context (Hrest : rest <> [] -> forall q j f, dsim q j -> (2 * jheight j + 3 * length rest + 1 <= f)%nat ->
  er (fsub f q rest) = jgen labels jleaf_o OList rest j).

Lemma proceed_cont q j f : dsim q j -> (2 * jheight j + 3 * length rest + 1 <= f)%nat ->
  er (proceed attrs labels f rest [q]) = contO [j].
Proof.
  intros Hs Hf. unfold proceed, contO. destruct rest as [|c2 rest2] eqn:Er.
  - cbn [map collect]. rewrite (leaf_dsim q j Hs). reflexivity.
  - rewrite concat_res_collect, er_collect. cbn [collect].
    rewrite (Hrest ltac:(discriminate) q j f Hs Hf). reflexivity.
Qed.

Definition DescAt (h : nat) : Prop := forall j q f, (jheight j <= h)%nat -> dsim q j ->
  (2 * jheight j + 3 * length rest + 2 <= f)%nat ->
  er (fdesc f q (c :: rest)) = jdesc labels OList c contO j.

Lemma visit_agree h q j f : DescAt h -> dsim q j -> jlab j = lab q -> (jheight j <= h)%nat ->
  (2 * jheight j + 3 * length rest + 2 <= f)%nat ->
  er (visitM attrs labels f c rest q) = dvisit labels c contO j (jdesc labels OList c contO j).
Proof.
  intros IH Hs Hl Hh Hf. rewrite (visitM_eq attrs labels f c rest q Hd). unfold dvisit.
  rewrite Hl, (composite_dsim q j Hs).
  destruct (chars_eqb (lab q) (c_id c)); [apply proceed_cont; [exact Hs|lia]|].
  destruct (qcomp q); [apply IH; assumption|reflexivity].
Qed.

Lemma desc_value h k b i f : DescAt h -> no_chain attrs k i = true -> (vheight (rv k b i) <= S h)%nat ->
  (2 * vheight (rv k b i) + 3 * length rest + 2 <= f)%nat ->
  er (fdesc f (QV i) (c :: rest)) = jdesc_v labels c contO (rv k b i).
Proof.
  intros IH Hnc Hh Hf. destruct f as [|[|f2]]; [lia|lia|].
  rewrite (fdesc_eq attrs labels). cbn [has_members has_factor orb]. rewrite !orb_false_r.
  destruct k as [|k0]; cbn [render_value jdesc_v].
  - cbn [has_attributes]. rewrite (no_chain_0 i Hnc). reflexivity.
  - change (Nested.attrs_of attrs i) with (Query.attrs_of attrs i) in *.
    destruct (Query.attrs_of attrs i) as [|a ats] eqn:Ea; [cbn [has_attributes]; rewrite Ea; reflexivity|].
    assert (Hha : has_attributes attrs (QV i) = true) by (cbn [has_attributes]; rewrite Ea; reflexivity).
    rewrite Hha. cbn [negb]. rewrite bind_nil_app.
    rewrite (fkind_attr_desc attrs labels f2 (QV i) c rest Hd). rewrite Hha. cbn [orb negb bind app].
    rewrite Ea, bind_assoc.
    change (map (rv k0 true) (a :: ats)) with (rv k0 true a :: map (rv k0 true) ats).
    cbv iota. change (rv k0 true a :: map (rv k0 true) ats) with (map (rv k0 true) (a :: ats)).
    rewrite map_map.
    transitivity (let* P := dpos labels c (map (fun x : N => JVal (rv k0 true x)) (a :: ats)) in
                  walk P (fun x => dvisit labels c contO x (jdesc labels OList c contO x)) 0
                       (map (fun x : N => JVal (rv k0 true x)) (a :: ats))).
    2:{ apply bind_ext. intros P. rewrite !walk_map. reflexivity. }
    transitivity (er (let* sel := ffe (map QV (a :: ats)) c in collect (visitM attrs labels f2 c rest) (map snd sel))).
    { f_equal. }
    apply (dlist c Hd f2 rest contO (jdesc labels OList c contO) QV (fun x => JVal (rv k0 true x)) (a :: ats)).
    + intros w. apply jlab_rv.
    + intros w Hw. apply composite_rv. apply (no_chain_S k0 i w Hnc). rewrite Ea. exact Hw.
    + intros w Hw. assert (Hncw : no_chain attrs k0 w = true) by (apply (no_chain_S k0 i w Hnc); rewrite Ea; exact Hw).
      assert (Hlt : (vheight (rv k0 true w) < vheight (rv (S k0) b i))%nat).
      { cbn [render_value]. apply vheight_attr. change (Nested.attrs_of attrs i) with (Query.attrs_of attrs i).
        rewrite Ea. apply in_map. exact Hw. }
      apply (visit_agree h); [exact IH|constructor; exact Hncw|apply jlab_rv|cbn [jheight]; lia|cbn [jheight]; lia].
Qed.


(* the members of a sequence-like node (sequence, or the virtual root) *)
Lemma desc_seq h q id ms f :
  q = QSeq id ms \/ q = QRoot ms -> DescAt h -> wf_nodes vals ms ->
  (jheight (JSeqN id (rns K ms)) <= S h)%nat -> (2 * jheight (JSeqN id (rns K ms)) + 3 * length rest + 2 <= f)%nat ->
  er (fdesc f q (c :: rest)) = jdesc labels OList c contO (JSeqN id (rns K ms)).
Proof.
  intros Hq IH Hwf Hh Hf. destruct f as [|[|f2]]; [lia|lia|].
  assert (E : fdesc (S (S f2)) q (c :: rest) =
              (let* sel := ffe (map qn_of (wnodes_list ms)) c in collect (visitM attrs labels f2 c rest) (map snd sel))).
  { rewrite (fdesc_eq attrs labels). destruct Hq as [-> | ->]; cbn [has_members has_attributes has_factor orb negb];
      rewrite bind_app_nil, (fkind_child_desc attrs labels f2 _ c rest Hd); reflexivity. }
  rewrite E. cbn [jdesc]. rewrite rns_map.
  apply (dlist c Hd f2 rest contO (jdesc labels OList c contO) qn_of (rn K)).
  - intros w. apply jlab_rn.
  - intros w _. apply composite_rn.
  - intros w Hw. pose proof (jheight_seq id (map (rn K) (wnodes_list ms)) (rn K w) (in_map _ _ _ Hw)) as Hlt.
    rewrite rns_map in Hh, Hf.
    apply (visit_agree h); [exact IH|apply dsim_node; eapply wf_nodes_list; [exact Hwf|exact Hw]|apply jlab_rn|lia|lia].
Qed.

(* the members and the factor of a replication node *)
Lemma desc_rep h (dl : bool) id nmem nrep fi ms fo f :
  DescAt h -> wlength ms = (nmem * nrep)%nat -> wf_nodes vals ms ->
  fo = (if dl then Some (rv K false fi) else None) ->
  let j := JRep id fo (chunks nmem nrep (rns K ms)) in
  (jheight j <= S h)%nat -> (2 * jheight j + 3 * length rest + 2 <= f)%nat ->
  er (fdesc f (QRep dl id nmem fi ms) (c :: rest)) = jdesc labels OList c contO j.
Proof.
  intros IH Hlen Hwf Hfo j Hh Hf. destruct f as [|[|f2]]; [lia|lia|].
  rewrite (fdesc_eq attrs labels). cbn [has_members has_attributes orb negb].
  rewrite (fkind_child_desc attrs labels f2 _ c rest Hd). cbn [has_members negb members_of]. cbv zeta.
  rewrite er_app2. unfold j in *. clear j. cbn [jdesc]. rewrite rns_map in *. rewrite wlength_list in Hlen.
  rewrite (dreps c Hd f2 rest contO (jdesc labels OList c contO) nmem nrep (wnodes_list ms) Hlen).
  2:{ intros w _. apply composite_rn. }
  2:{ intros w Hw. destruct (in_chunks nmem nrep _ (rn K w) ltac:(rewrite map_length; exact Hlen) (in_map _ _ _ Hw)) as (rep & Hrep & Hx).
      pose proof (jheight_rep id fo _ rep (rn K w) Hrep Hx) as Hlt.
      apply (visit_agree h); [exact IH|apply dsim_node; eapply wf_nodes_list; [exact Hwf|exact Hw]|apply jlab_rn|lia|lia]. }
  apply bind_ext. intros A. f_equal. subst fo. destruct dl; cbn [has_factor]; [|reflexivity].
  rewrite (fkind_attr_desc attrs labels f2 _ c rest Hd). cbn [has_attributes has_factor orb negb].
  transitivity (er (let* sel := ffe (map QV [fi]) c in collect (visitM attrs labels f2 c rest) (map snd sel))).
  { f_equal. rewrite bind_assoc. apply bind_ext. intros sel. cbn [bind]. rewrite app_nil_r. reflexivity. }
  rewrite (dlist c Hd f2 rest contO (jdesc labels OList c contO) QV (fun x => JVal (rv K false x)) [fi]).
  - reflexivity.
  - intros w. apply jlab_rv.
  - intros w _. apply composite_rv, HK.
  - intros w [<-|[]]. pose proof (jheight_factor id (rv K false fi) (chunks nmem nrep (map (rn K) (wnodes_list ms)))) as Hlt.
    apply (visit_agree h); [exact IH|apply dsim_val, HK|apply jlab_rv|cbn [jheight]; lia|cbn [jheight] in *; lia].
Qed.


(* THE DESCENDANT SEARCH OF THE MODEL IS THE SEARCH OVER THE RENDERING *)
Theorem desc_sim : forall h, DescAt h.
Proof.
  induction h as [|h IH]; intros j q f Hh Hs Hf.
  - pose proof (jheight_pos j). lia.
  - destruct Hs as [w Hw|k b i Hnc|ms Hms].
    + destruct w as [id|id ms|id nmem nrep ms|id nmem fi ms|i]; cbn [qn_of render_node] in *.
      * destruct f as [|f1]; [lia|]. reflexivity.
      * apply (desc_seq h (QSeq id ms) id ms f); [left; reflexivity|exact IH|exact Hw|exact Hh|exact Hf].
      * cbn [wf_node] in Hw. destruct Hw as [Hlen Hms].
        apply (desc_rep h false id nmem (N.to_nat nrep) 0%N ms None f IH Hlen Hms eq_refl Hh Hf).
      * cbn [wf_node] in Hw. destruct Hw as [Hlen Hms].
        apply (desc_rep h true id nmem _ fi ms _ f IH Hlen Hms eq_refl Hh Hf).
      * cbn [jdesc]. apply (desc_value h K false i f IH (HK i)); [cbn [jheight] in Hh; exact Hh|cbn [jheight] in Hf; exact Hf].
    + cbn [jdesc]. apply (desc_value h k b i f IH Hnc); [cbn [jheight] in Hh; exact Hh|cbn [jheight] in Hf; exact Hf].
    + apply (desc_seq h (QRoot ms) 0%N ms f); [right; reflexivity|exact IH|exact Hms|exact Hh|exact Hf].
Qed.

End Desc.

(* ---- child and attribute steps, nodes erased ---------------------------------------------------------- *)
Lemma ref_step_er c q (cont : list qn -> result (list qres)) :
  er (ref_step attrs labels RList c q cont) = ref_step attrs labels OList c q (fun ns => er (cont ns)).
Proof.
  unfold ref_step. destruct (c_sep c =? SEP_CHILD)%N.
  - destruct q as [i|id|id ms|dl id nmem f ms|ms]; try reflexivity; try apply er_bind.
    cbv zeta. destruct (members_of _) as [|m0 mem]; [reflexivity|].
    rewrite er_bind. apply bind_ext. intros [|s0 sel]; [reflexivity|].
    rewrite er_env, er_collect. f_equal. apply collect_ext. intros rep _. apply er_env.
  - destruct (c_sep c =? SEP_ATTRIB)%N; [|reflexivity].
    destruct q as [i|id|id ms|[|] id nmem f ms|ms]; try reflexivity; try apply er_bind.
    destruct (Query.attrs_of attrs i); [reflexivity|apply er_bind].
Qed.

Definition below (j : jn) (q' : qn) (j' : jn) : Prop := dsim q' j' /\ (jheight j' < jheight j)%nat.

Lemma jstep_dsim c q j (contJ : list jn -> result (list ores)) (contT : list qn -> result (list ores)) :
  simple_comp c = true -> dsim q j ->
  (forall qs js, Forall2 (below j) qs js -> contJ js = contT qs) ->
  jstep labels OList c j contJ = ref_step attrs labels OList c q contT.
Proof.
  intros Hsc Hs Hcont.
  assert (Hsep : (c_sep c =? SEP_CHILD)%N = false -> (c_sep c =? SEP_ATTRIB)%N = true).
  { intros H. unfold simple_comp in Hsc. rewrite H in Hsc. exact Hsc. }
  assert (Hval : forall k b i, no_chain attrs k i = true -> j = JVal (rv k b i) -> q = QV i ->
            jstep labels OList c j contJ = ref_step attrs labels OList c q contT).
  { intros k b i Hnc Ej Eq. subst q. unfold jstep, ref_step.
    destruct (c_sep c =? SEP_CHILD)%N; [rewrite Ej; reflexivity|].
    rewrite (Hsep eq_refl). rewrite Ej. destruct k as [|k0]; cbn [render_value].
    - rewrite (no_chain_0 i Hnc). reflexivity.
    - change (Nested.attrs_of attrs i) with (Query.attrs_of attrs i).
      destruct (Query.attrs_of attrs i) as [|a ats] eqn:Ea; [reflexivity|].
      assert (Hm : forall (l : list jv) (X : Type) (d : X) (Kf : list jv -> X), l <> [] ->
                   match l with [] => d | a0 :: ats0 => Kf (a0 :: ats0) end = Kf l).
      { intros l X d Kf Hl. destruct l; [congruence|reflexivity]. }
      etransitivity; [apply (Hm (map (rv k0 true) (a :: ats)) _ _
                                (fun l => let* sel := select jlab c (map JVal l) in contJ (map snd sel))); discriminate|].
      cbv beta. rewrite map_map.
      apply (step_list_g labels (below j) c contJ contT Hcont QV (fun x => JVal (rv k0 true x))).
      + intros w. apply jlab_rv.
      + intros w Hw. split; [apply dsim_val; apply (no_chain_S k0 i w Hnc); rewrite Ea; exact Hw|].
        rewrite Ej. cbn [jheight render_value]. apply vheight_attr.
        change (Nested.attrs_of attrs i) with (Query.attrs_of attrs i). rewrite Ea. apply in_map. exact Hw. }
  assert (Hseq : forall id ms, wf_nodes vals ms -> j = JSeqN id (rns K ms) ->
            (let* sel := select jlab c (rns K ms) in contJ (map snd sel)) =
            (let* sel := select lab c (map qn_of (wnodes_list ms)) in contT (map snd sel))).
  { intros id ms Hms Ej. rewrite rns_map.
    apply (step_list_g labels (below j) c contJ contT Hcont qn_of (rn K)).
    - intros w. apply jlab_rn.
    - intros w Hw. split; [apply dsim_node; eapply wf_nodes_list; [exact Hms|exact Hw]|].
      rewrite Ej, rns_map. apply jheight_seq. apply in_map. exact Hw. }
  assert (Hrep : forall id fo nmem nrep ms, wlength ms = (nmem * nrep)%nat -> wf_nodes vals ms ->
            j = JRep id fo (chunks nmem nrep (rns K ms)) ->
            forall w, In w (wnodes_list ms) -> below j (qn_of w) (rn K w)).
  { intros id fo nmem nrep ms Hlen Hms Ej w Hw. split; [apply dsim_node; eapply wf_nodes_list; [exact Hms|exact Hw]|].
    rewrite Ej, rns_map. rewrite wlength_list in Hlen.
    destruct (in_chunks nmem nrep _ (rn K w) ltac:(rewrite map_length; exact Hlen) (in_map _ _ _ Hw)) as (rep & Hrep & Hx).
    apply (jheight_rep id fo _ rep (rn K w) Hrep Hx). }
  destruct Hs as [w Hw|k b i Hnc|ms Hms].
  - destruct w as [id|id ms|id nmem nrep ms|id nmem f ms|i]; cbn [qn_of] in *;
      rewrite ?rn_seq, ?rn_fixed, ?rn_delayed in *.
    + unfold jstep, ref_step. destruct (c_sep c =? SEP_CHILD)%N; [reflexivity|]. rewrite (Hsep eq_refl). reflexivity.
    + unfold jstep, ref_step. destruct (c_sep c =? SEP_CHILD)%N; [apply (Hseq id ms Hw eq_refl)|].
      rewrite (Hsep eq_refl). reflexivity.
    + cbn [wf_node] in Hw. destruct Hw as [Hlen Hms].
      unfold jstep, ref_step. destruct (c_sep c =? SEP_CHILD)%N.
      * cbn [members_of]. cbv zeta. rewrite rns_map.
        apply (step_rep_g attrs ia vals labels OList _ c contJ contT Hcont); [rewrite <- wlength_list; exact Hlen|].
        apply (Hrep id None nmem (N.to_nat nrep) ms Hlen Hms eq_refl).
      * rewrite (Hsep eq_refl). reflexivity.
    + cbn [wf_node] in Hw. destruct Hw as [Hlen Hms].
      unfold jstep, ref_step. destruct (c_sep c =? SEP_CHILD)%N.
      * cbn [members_of]. cbv zeta. rewrite rns_map.
        apply (step_rep_g attrs ia vals labels OList _ c contJ contT Hcont); [rewrite <- wlength_list; exact Hlen|].
        apply (Hrep id _ nmem _ ms Hlen Hms eq_refl).
      * rewrite (Hsep eq_refl).
        apply (step_list_g labels _ c contJ contT Hcont QV (fun x => JVal (rv K false x)) [f]).
        -- intros w. apply jlab_rv.
        -- intros w [<-|[]]. split; [apply dsim_val, HK|]. cbn [jheight]. lia.
    + apply (Hval K false i (HK i) eq_refl eq_refl).
  - apply (Hval k b i Hnc eq_refl eq_refl).
  - unfold jstep, ref_step. destruct (c_sep c =? SEP_CHILD)%N; [apply (Hseq 0%N ms Hms eq_refl)|].
    rewrite (Hsep eq_refl). reflexivity.
Qed.



Lemma sep_descend_not_child c : (c_sep c =? SEP_DESCEND)%N = true -> (c_sep c =? SEP_CHILD)%N = false.
Proof. intros H. apply N.eqb_eq in H. rewrite H. reflexivity. Qed.
Lemma sep_descend_not_attrib c : (c_sep c =? SEP_DESCEND)%N = true -> (c_sep c =? SEP_ATTRIB)%N = false.
Proof. intros H. apply N.eqb_eq in H. rewrite H. reflexivity. Qed.

Lemma leaves_dsim qs js : Forall2 dsim qs js -> collect jleaf_o js = Ok (map erase (map RNode qs)).
Proof.
  induction 1 as [|q j qs js Hqj _ IH]; cbn [collect map]; [reflexivity|].
  rewrite (leaf_dsim q j Hqj), IH. reflexivity.
Qed.

(* THE FILTERS OF THE MODEL ARE THE REFERENCE OVER THE SATURATED RENDERING (nodes erased) *)
Theorem gen_sim : forall cs, wf_path cs = true -> forall q j f, dsim q j ->
  (2 * jheight j + 3 * length cs + 1 <= f)%nat ->
  er (fsub f q cs) = jgen labels jleaf_o OList cs j.
Proof.
  induction cs as [|c rest IH]; intros Hwf q j f Hs Hf.
  - destruct f as [|f]; [lia|]. reflexivity.
  - cbn [wf_path forallb] in Hwf. apply andb_prop in Hwf as [Hc Hrest].
    specialize (IH Hrest). cbn [length] in Hf. cbn [jgen].
    destruct (simple_comp c) eqn:Hsc; cbn [orb] in Hc.
    + (* child or attribute step *)
      destruct f as [|[|k]]; [lia|lia|].
      rewrite (fsub_step_simple attrs labels k q c rest (proceed attrs labels k rest) Hsc (fun ns => eq_refl)).
      rewrite ref_step_er. symmetry. apply jstep_dsim; [exact Hsc|exact Hs|].
      intros qs js H2.
      assert (Hd2 : Forall2 dsim qs js).
      { clear -H2. induction H2 as [|a b qs js [Hab _] _ IH2]; constructor; assumption. }
      unfold proceed. destruct rest as [|c2 rest2].
      * cbn [map_res bind]. apply leaves_dsim. exact Hd2.
      * rewrite concat_res_collect, er_collect. symmetry.
        eapply collect_Forall2; [exact H2|]. intros a b [Hab Hlt]. cbv beta. apply IH; [exact Hab|].
        cbn [length] in *. lia.
    + (* descendant step *)
      destruct f as [|f1]; [lia|].
      rewrite (QueryRefProofs.fsub_eq attrs labels f1 q c rest).
      rewrite (sep_descend_not_child c Hc), (sep_descend_not_attrib c Hc).
      unfold jstep. rewrite (sep_descend_not_child c Hc), (sep_descend_not_attrib c Hc), Hc.
      apply (desc_sim c Hc rest) with (h := jheight j); [|lia|exact Hs|lia].
      intros _ q' j' f' Hs' Hf'. apply IH; assumption.
Qed.

End DS.

(* ---- the nesting of the model's results is bounded by its fuel ---------------------------------------- *)
Definition depth_le (d : nat) (r : result (list qres)) : Prop :=
  forall rs, r = Ok rs -> Forall (fun x => rdepth x <= d)%nat rs.

Lemma depth_le_mono d d' r : (d <= d')%nat -> depth_le d r -> depth_le d' r.
Proof. intros H Hr rs E. eapply Forall_impl; [|apply Hr, E]. cbv beta. intros x Hx. lia. Qed.

Lemma depth_le_ok d rs : Forall (fun x => rdepth x <= d)%nat rs -> depth_le d (Ok rs).
Proof. intros H rs' E. injection E as <-. exact H. Qed.

Lemma depth_le_err d e : depth_le d (Err e).
Proof. intros rs E. discriminate. Qed.

Lemma depth_le_bind {A} d (r : result A) (f : A -> result (list qres)) :
  (forall a, depth_le d (f a)) -> depth_le d (bind r f).
Proof. intros H. destruct r as [a|e]; cbn [bind]; [apply H|apply depth_le_err]. Qed.

Lemma depth_le_collect {A} d (g : A -> result (list qres)) l :
  (forall x, depth_le d (g x)) -> depth_le d (collect g l).
Proof. intros H rs E. eapply collect_Forall; [|exact E]. intros x r _ Er. apply (H x r Er). Qed.

Lemma depth_le_concat {A} d (g : A -> result (list qres)) l :
  (forall x, depth_le d (g x)) -> depth_le d (concat_res (map g l)).
Proof. intros H. rewrite concat_res_collect. apply depth_le_collect, H. Qed.

Lemma depth_le_app d (X Y : result (list qres)) :
  depth_le d X -> depth_le d Y -> depth_le d (let* a := X in let* b := Y in Ok (a ++ b)).
Proof.
  intros HX HY rs E. destruct X as [a|e]; cbn [bind] in E; [|discriminate].
  destruct Y as [b|e]; cbn [bind] in E; [|discriminate]. injection E as <-.
  apply Forall_app. split; [apply HX|apply HY]; reflexivity.
Qed.

Lemma depth_le_envelope d (X : result (list qres)) :
  depth_le d X -> depth_le (S d) (let* r := X in Ok (envelope RList r)).
Proof.
  intros HX rs E. destruct X as [r|e]; cbn [bind] in E; [|discriminate]. injection E as <-.
  destruct r as [|x r]; cbn [envelope]; [constructor|]. constructor; [|constructor].
  apply rdepth_list. apply HX. reflexivity.
Qed.

Section Depth.
Context (attrs : list attr) (labels : list (list char)).
Local Notation fsub := (filter_sub attrs labels).
Local Notation fdesc := (filter_desc attrs labels).
Local Notation fkind := (filter_kind attrs labels).

Lemma kind_body_depth (FS FD : RF) d : (1 <= d)%nat ->
  (forall n cs, depth_le d (FS n cs)) -> (forall n cs, depth_le d (FD n cs)) ->
  forall child n cs, depth_le (d + 2) (kind_body attrs labels FS FD child n cs).
Proof.
  intros Hd HS HD child n cs. unfold kind_body. destruct cs as [|c rest]; [apply depth_le_err|]. cbv zeta.
  assert (Hproceed : forall ns,
    depth_le d (match rest with [] => Ok (map RNode ns) | _ => concat_res (map (fun x => FS x rest) ns) end)).
  { intros ns. destruct rest.
    - apply depth_le_ok. apply Forall_forall. intros x Hx. apply in_map_iff in Hx as (y & <- & _). cbn. exact Hd.
    - apply depth_le_concat. intros x. apply HS. }
  assert (Hdescend : forall ns,
    depth_le d (concat_res (map (fun x => if (node_matches attrs labels x c =? 2)%N then FD x (c :: rest)
                                      else if (node_matches attrs labels x c =? 1)%N
                                           then match rest with [] => Ok (map RNode [x]) | _ => concat_res (map (fun x => FS x rest) [x]) end
                                           else Ok []) ns))).
  { intros ns. apply depth_le_concat. intros x. destruct (_ =? 2)%N; [apply HD|].
    destruct (_ =? 1)%N; [apply Hproceed|apply depth_le_ok; constructor]. }
  assert (Hup : forall r, depth_le d r -> depth_le (d + 2) r) by (intros r; apply depth_le_mono; lia).
  destruct child.
  - destruct (negb (has_members n)); [apply depth_le_err|].
    destruct n as [i|id|id ms|dl id nmem f ms|ms].
    1,2,3,5: (apply depth_le_bind; intros sel; destruct (map snd sel); [apply depth_le_ok; constructor|];
              apply Hup; destruct (c_sep c =? SEP_DESCEND)%N; [apply Hdescend|apply Hproceed]).
    destruct (members_of _) as [|m0 mem]; [apply depth_le_ok; constructor|].
    apply depth_le_bind. intros first. destruct (map fst first) as [|i0 idxs]; [apply depth_le_ok; constructor|].
    rewrite (envelope_fold (fun ch => if (c_sep c =? SEP_DESCEND)%N then _ else _)).
    replace (d + 2)%nat with (S (S d)) by lia.
    apply (depth_le_envelope (S d)). apply depth_le_collect. intros ch. apply depth_le_envelope.
    destruct (c_sep c =? SEP_DESCEND)%N; [apply Hdescend|apply Hproceed].
  - destruct (negb (has_attributes attrs n || has_factor n)); [apply depth_le_err|].
    apply depth_le_bind. intros f. apply depth_le_bind. intros a.
    destruct (f ++ a); [apply depth_le_ok; constructor|].
    apply Hup. destruct (c_sep c =? SEP_DESCEND)%N; [apply Hdescend|apply Hproceed].
Qed.

Lemma filter_depth : forall k,
  (forall n cs, depth_le (k + 1) (fsub k n cs)) /\ (forall n cs, depth_le (k + 1) (fdesc k n cs)) /\
  (forall child n cs, depth_le (k + 2) (fkind k child n cs)).
Proof.
  induction k as [|k (IHs & IHd & IHk)].
  - repeat split; intros; apply depth_le_err.
  - assert (Hk : forall child n cs, depth_le (S k + 2) (fkind (S k) child n cs)).
    { intros child n cs. rewrite fkind_eq. replace (S k + 2)%nat with ((k + 1) + 2)%nat by lia.
      apply kind_body_depth; [lia|exact IHs|exact IHd]. }
    repeat split.
    + intros n cs. rewrite QueryFuel.fsub_eq. destruct cs as [|c rest]; [apply depth_le_err|].
      replace (S k + 1)%nat with (k + 2)%nat by lia.
      destruct (c_sep c =? SEP_CHILD)%N; [apply IHk|]. destruct (c_sep c =? SEP_ATTRIB)%N; [apply IHk|].
      eapply depth_le_mono; [|apply IHd]. lia.
    + intros n cs. rewrite fdesc_eq. destruct (negb _); [apply depth_le_err|].
      destruct cs as [|c rest]; [apply depth_le_err|]. replace (S k + 1)%nat with (k + 2)%nat by lia.
      apply depth_le_app; [destruct (has_members n); [apply IHk|apply depth_le_ok; constructor]|].
      destruct (has_attributes attrs n || has_factor n); [apply IHk|apply depth_le_ok; constructor].
    + exact Hk.
Qed.

End Depth.

(* ---- values --------------------------------------------------------------------------------------- *)
Lemma ovalue_list l : ovalue (OList l) = (let* vs := ovalues l in Ok (VList vs)).
Proof.
  cbn [ovalue]. unfold ovalues. f_equal.
  induction l as [|x l IH]; cbn [collect]; [reflexivity|]. rewrite IH.
  destruct (ovalue x) as [v|e]; cbn [bind]; [|reflexivity].
  destruct (collect _ l) as [vs|e]; reflexivity.
Qed.

Lemma ovalue_erase : forall r, ovalue (erase r) = ref_value r.
Proof.
  induction r as [n|l IH] using qres_ind'.
  - destruct n; reflexivity.
  - cbn [erase]. rewrite ovalue_list, ref_value_list. f_equal. unfold ovalues, ref_values.
    rewrite collect_map. apply collect_ext. intros x Hx. rewrite Forall_forall in IH. rewrite (IH x Hx). reflexivity.
Qed.

(* ---- C16 for paths with descendant steps -------------------------------------------------------------- *)
Theorem query_desc_eq_reference attrs ia vals labels K fuel nodes p :
  wf_nodes vals nodes -> wf_path (p_comps p) = true -> saturated attrs K = true ->
  (2 * jheight (JSeqN 0 (render_nodes attrs ia vals K nodes)) + 3 * length (p_comps p) + 2 <= fuel)%nat ->
  process_one_subset attrs labels fuel nodes p =
  eval_json_nodes labels (render_nodes attrs ia vals K nodes) (p_comps p).
Proof.
  intros Hwf Hp Hsat Hf. pose proof (saturated_all attrs K Hsat) as HK.
  assert (Hs : dsim attrs ia vals K (QRoot nodes) (JSeqN 0 (render_nodes attrs ia vals K nodes)))
    by (constructor; exact Hwf).
  destruct fuel as [|f0]; [lia|].
  pose proof (gen_sim attrs ia vals labels K HK _ Hp _ _ (S f0) Hs ltac:(lia)) as G1.
  pose proof (gen_sim attrs ia vals labels K HK _ Hp _ _ f0 Hs ltac:(lia)) as G0.
  unfold process_one_subset, eval_json_nodes. rewrite <- G1.
  destruct (filter_sub attrs labels (S f0) (QRoot nodes) (p_comps p)) as [rs|e] eqn:E1; cbn [bind map_res]; [|reflexivity].
  (* the same nodes were already found with one unit of fuel less: their nesting is within the fuel *)
  assert (E0 : filter_sub attrs labels f0 (QRoot nodes) (p_comps p) = Ok rs).
  { destruct (filter_sub attrs labels f0 (QRoot nodes) (p_comps p)) as [rs0|e] eqn:E0.
    - rewrite <- E1. symmetry. rewrite <- E0.
      apply (filter_sub_fuel_mono attrs labels f0 (S f0)); [lia|rewrite E0; discriminate].
    - rewrite <- G1 in G0. cbn [map_res bind] in G0. discriminate. }
  pose proof (proj1 (filter_depth attrs labels f0) _ _ _ E0) as Hdepth.
  rewrite values_fold. unfold ovalues. rewrite collect_map. apply collect_ext. intros x Hx.
  rewrite Forall_forall in Hdepth. specialize (Hdepth x Hx).
  rewrite (values_of_ref x (S f0)) by lia. rewrite ovalue_erase. reflexivity.
Qed.

Theorem query_desc_eq_reference_wired ndesc vals links T nodes s ia labels K fuel p :
  wire ndesc vals links T = Ok (nodes, s) -> wf_path (p_comps p) = true -> saturated (x_attrs s) K = true ->
  (2 * jheight (JSeqN 0 (render_nodes (x_attrs s) ia vals K nodes)) + 3 * length (p_comps p) + 2 <= fuel)%nat ->
  process_one_subset (x_attrs s) labels fuel nodes p =
  eval_json_nodes labels (render_nodes (x_attrs s) ia vals K nodes) (p_comps p).
Proof.
  intros E. apply query_desc_eq_reference.
  unfold wire in E. destruct (proj2 (wire_wf ndesc vals links) T _ _ _ _ E) as (new & -> & _ & W). exact W.
Qed.
