(* BitmapProofs.v — the bitmap bookkeeping of the walker (C07): which element a
   bitmap-driven value is linked to. *)
From PBK Require Import Base Descr Walk Coder.
From Coq Require Import ZifyBool ZifyNat ZifyN.

(* ---- selection by zero bits ------------------------------------------------ *)
(* position (in the bitmap) of the k-th zero bit; flags are "bit == 0" *)
Fixpoint kth_zero (bm : list bool) (k : nat) : option nat :=
  match bm with
  | [] => None
  | true :: r => match k with O => Some O | S k' => option_map S (kth_zero r k') end
  | false :: r => option_map S (kth_zero r k)
  end.

(* the k-th selected descriptor is the one under the k-th zero bit *)
Theorem select_zero_kth bm : forall refs k,
  length refs = length bm ->
  nth_error (select_zero bm refs) k =
  match kth_zero bm k with Some i => nth_error refs i | None => None end.
Proof.
  induction bm as [|b bm IH]; intros refs k Hl.
  - destruct refs; [|discriminate]. destruct k; reflexivity.
  - destruct refs as [|x refs]; [discriminate|]. cbn [length] in Hl. injection Hl as Hl.
    destruct b; cbn [select_zero kth_zero].
    + destruct k as [|k]; [reflexivity|]. cbn [nth_error]. rewrite IH by exact Hl.
      destruct (kth_zero bm k); reflexivity.
    + rewrite IH by exact Hl. destruct (kth_zero bm k); reflexivity.
Qed.

Lemma select_zero_length bm : forall refs, length refs = length bm ->
  length (select_zero bm refs) = length (filter (fun b => b) bm).
Proof.
  induction bm as [|b bm IH]; intros refs Hl; destruct refs as [|x refs]; try discriminate; [reflexivity|].
  cbn [length] in Hl. injection Hl as Hl. destruct b; cbn [select_zero filter length]; rewrite IH; auto.
Qed.

(* as many values can be linked as there are zero bits, and no more *)
Lemma kth_zero_none bm : forall k, kth_zero bm k = None <-> (length (filter (fun b => b) bm) <= k)%nat.
Proof.
  induction bm as [|b bm IH]; intros k; cbn [kth_zero filter length]; [split; [lia|auto]|].
  destruct b; cbn [length].
  - destruct k as [|k]; [split; [discriminate|lia]|].
    destruct (kth_zero bm k) eqn:E; cbn [option_map]; split; try discriminate; try lia.
    + intros H. assert (kth_zero bm k = None) by (apply IH; lia). congruence.
    + intros _. apply IH in E. lia.
    + auto.
  - destruct (kth_zero bm k) eqn:E; cbn [option_map]; split; try discriminate; auto.
    + intros H. apply IH in H. congruence.
    + intros _. apply IH. exact E.
Qed.

(* ---- the back references: the last N plain elements before the operator -------- *)
Lemma elems_indexed_spec l : forall i idx e,
  In (idx, e) (elems_indexed i l) <->
  exists k, idx = (i + N.of_nat k)%N /\ nth_error l k = Some (DDElem e).
Proof.
  induction l as [|d l IH]; intros i idx e; cbn [elems_indexed].
  - split; [contradiction|]. intros (k & _ & H). destruct k; discriminate.
  - assert (G : In (idx, e) (elems_indexed (i + 1) l) <->
                exists k, idx = (i + N.of_nat (S k))%N /\ nth_error (d :: l) (S k) = Some (DDElem e)).
    { rewrite IH. split; intros (k & -> & H); exists k; (split; [lia|exact H]). }
    destruct d as [e0| | | |]; cbn [In].
    2-5: rewrite G; split; [intros (k & Hk & Hn); exists (S k); auto
                            |intros (k & Hk & Hn); destruct k as [|k]; [discriminate|exists k; auto]].
    split.
    + intros [H|H]; [injection H as <- <-; exists O; split; [lia|reflexivity]|].
      apply G in H as (k & Hk & Hn). exists (S k). auto.
    + intros (k & Hk & Hn). destruct k as [|k].
      * left. cbn in Hn. injection Hn as ->. f_equal. lia.
      * right. apply G. exists k. auto.
Qed.

(* collect_backrefs takes the LAST n plain elements among the first [boundary]
   decoded descriptors, keeping their order *)
Theorem backrefs_are_last_elements boundary n dd : (0 < n)%nat ->
  collect_backrefs boundary n dd =
  let E := elems_indexed 0 (firstn (N.to_nat boundary) dd) in
  skipn (length E - n) E.
Proof.
  intros Hn. unfold collect_backrefs. cbv zeta.
  set (E := elems_indexed 0 (firstn (N.to_nat boundary) dd)).
  destruct n as [|n]; [lia|].
  rewrite firstn_rev, rev_involutive. reflexivity.
Qed.

(* every back reference is a plain element that precedes the operator *)
Corollary backrefs_precede boundary n dd idx e : (0 < n)%nat ->
  In (idx, e) (collect_backrefs boundary n dd) ->
  (idx < boundary)%N /\ nth_error dd (N.to_nat idx) = Some (DDElem e).
Proof.
  intros Hn H. rewrite backrefs_are_last_elements in H by exact Hn. cbv zeta in H.
  assert (Hin : In (idx, e) (elems_indexed 0 (firstn (N.to_nat boundary) dd))).
  { rewrite <- (firstn_skipn (length (elems_indexed 0 (firstn (N.to_nat boundary) dd)) - n)).
    apply in_or_app. right. exact H. }
  apply elems_indexed_spec in Hin as (k & -> & Hk).
  assert (Hlt : (k < N.to_nat boundary)%nat).
  { assert (Hs : nth_error (firstn (N.to_nat boundary) dd) k <> None) by congruence.
    apply nth_error_Some in Hs. rewrite firstn_length in Hs. lia. }
  split; [lia|]. replace (N.to_nat (0 + N.of_nat k)) with k by lia.
  rewrite <- (firstn_skipn (N.to_nat boundary) dd).
  rewrite nth_error_app1; [exact Hk|]. rewrite firstn_length.
  assert (Hs : nth_error (firstn (N.to_nat boundary) dd) k <> None) by congruence.
  apply nth_error_Some in Hs. rewrite firstn_length in Hs. exact Hs.
Qed.

(* ---- the cursor over the selected descriptors ------------------------------------ *)
(* the k-th call of next_bitmapped after a (re)definition returns the k-th selected *)
Fixpoint next_k (k : nat) (r : regs) : result (backref * regs) :=
  match k with
  | O => next_bitmapped r
  | S k' => let* (_, r') := next_bitmapped r in next_k k' r'
  end.

Theorem kth_link_is_kth_selected l : forall k r b r',
  r_next_bm r = Some l -> next_k k r = Ok (b, r') -> nth_error l k = Some b.
Proof.
  intros k. revert l. induction k as [|k IH]; intros l r b r' Hr E; cbn [next_k] in E; unfold next_bitmapped in E; rewrite Hr in E.
  - destruct l as [|x l]; [discriminate|]. injection E as <- <-. reflexivity.
  - destruct l as [|x l]; [discriminate|]. cbn [bind] in E.
    refine (IH l (set_next_bm (Some l) r) b r' _ E). reflexivity.
Qed.

(* 237000 restarts the cursor on the same selection; 235000 forgets the back
   references so that the next definition recomputes them *)
Lemma recall_restarts {C} (P : prims C) (s s' : ws (io C)) l :
  r_bitmapped (w_r s) = Some l -> h_recall_bitmap (io_handlers P) s = Ok s' ->
  r_next_bm (w_r s') = Some l /\ r_bitmapped (w_r s') = Some l.
Proof.
  cbn [io_handlers h_recall_bitmap]. intros Hb E. rewrite Hb in E. injection E as <-. cbn. auto.
Qed.

Lemma cancel_backrefs_forgets {C} (P : prims C) (s s' : ws (io C)) :
  h_cancel_backrefs (io_handlers P) s = Ok s' ->
  r_backrefs (w_r s') = None /\ r_bitmapped (w_r s') = None.
Proof. cbn [io_handlers h_cancel_backrefs]. intros E. injection E as <-. cbn. auto. Qed.

(* build_bitmapped: with back references in force (or freshly collected) and a
   bitmap of the same length, the selection is exactly the zero-bit positions *)
Theorem build_bitmapped_selects {C} (bm : list bool) (s s' : ws (io C)) refs :
  get_backrefs (w_r s) (io_dd (w_c s)) (length bm) = Ok refs ->
  build_bitmapped bm s = Ok s' ->
  length refs = length bm /\
  r_next_bm (w_r s') = Some (select_zero bm refs) /\
  r_bitmapped (w_r s') = Some (select_zero bm refs) /\
  r_backrefs (w_r s') = Some refs.
Proof.
  intros Hg E. unfold build_bitmapped in E. rewrite Hg in E. cbn [bind] in E.
  destruct (Nat.eqb_spec (length refs) (length bm)) as [Hl|]; cbn [negb] in E; [|discriminate].
  injection E as <-. cbn. auto.
Qed.
