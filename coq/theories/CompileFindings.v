(* CompileFindings.v — what lies outside [ok_c08]: witnesses (vm_compute) that
   compiled and interpreted decoding DIFFER on templates that satisfy the
   executable reading [Compile.scoped] of the property's precondition but not
   the side condition of the theorem.  Each was replayed on the implementation
   (notes/c08_equiv.md).  Also: save / load is the identity on compiled code
   whose descriptors the tables return for their ids. *)
From PBK Require Import Base Bits Descr Walk Coder Decode Encode Column DecodeC EncodeC
  Compile CompileRun CompileProofs CompileChk CompileEquivBase CompileEquivTop.

Fixpoint nb (v : N) (n : nat) : list bool :=
  match n with O => [] | S k => nb (v / 2) k ++ [N.odd v] end.

Definition links_vals (r : result (list subset_out * list (list value) * reader)) :=
  match r with Ok (o, v, _) => Ok (map so_links o, v) | Err e => Err e end.

Definition e007002 := mkElem 7002 u_m (-1) (-40) 16.

(* D27: a marker operator while the 222000 status is "processing" (class 33 values
   are being linked).  Interpreted: the marker's element is not of class 33, so the
   status returns to "not applicable" and the 033007 that follows is an ordinary
   value.  Compiled: the compiler never processes the bitmapped element, its status
   stays "processing", and it records add_bitmap_link for the following 033007. *)
Definition T_d27 : descs :=
  dl [DElem e012001; DElem e012001; DElem e012001; DOper 222000; DOper 236000;
      DFixed 101003 (dl [DElem e031031]); DElem e033007; DOper 224255; DElem e033007].
Definition b_d27 : list bool :=
  nb 100 12 ++ nb 200 12 ++ nb 300 12 ++ [false;false;false] ++ nb 50 7 ++ nb 77 12 ++ nb 60 7 ++ repeat false 64.

Theorem compile_exec_marker_qa_refuted :
  exists T n b, Compile.scoped T = true /\ ok_c08 T = false /\
    links_vals (decode_uncompressed T n b) = Ok ([[(8, 0); (9, 1)]]%N,
       [[VDec 100 1; VDec 200 1; VDec 300 1; VInt 0; VInt 0; VInt 0; VInt 0; VInt 0; VInt 50; VDec 77 1; VInt 60]]) /\
    links_vals (decode_uncompressed_c T n b) = Ok ([[(8, 0); (9, 1); (10, 2)]]%N,
       [[VDec 100 1; VDec 200 1; VDec 300 1; VInt 0; VInt 0; VInt 0; VInt 0; VInt 0; VInt 50; VDec 77 1; VInt 60]]).
Proof. exists T_d27, 1%nat, b_d27. vm_compute. repeat split. Qed.

(* D28: a delayed replication of class 33 elements after 222000 whose factor is 0.
   Interpreted: the status stays "waiting", the next 033007 is linked.  Compiled: the
   body was compiled once, the status went on to "processing" and the 012001 that
   follows reset it: no link is recorded for the last 033007. *)
Definition T_d28 : descs :=
  dl [DElem e012001; DElem e012001; DOper 222000; DOper 236000; DFixed 101002 (dl [DElem e031031]);
      DDelayed 101000 (DElem e031001) (dl [DElem e033007]); DElem e012001; DElem e033007].
Definition b_d28 : list bool :=
  nb 100 12 ++ nb 200 12 ++ [false;false] ++ nb 0 8 ++ nb 300 12 ++ nb 60 7 ++ repeat false 64.

Theorem compile_exec_zero_count_qa_refuted :
  exists T n b, Compile.scoped T = true /\ ok_c08 T = false /\
    links_vals (decode_uncompressed T n b) = Ok ([[(8, 0)]]%N,
       [[VDec 100 1; VDec 200 1; VInt 0; VInt 0; VInt 0; VInt 0; VInt 0; VDec 300 1; VInt 60]]) /\
    links_vals (decode_uncompressed_c T n b) = Ok ([[]],
       [[VDec 100 1; VDec 200 1; VInt 0; VInt 0; VInt 0; VInt 0; VInt 0; VDec 300 1; VInt 60]]).
Proof. exists T_d28, 1%nat, b_d28. vm_compute. repeat split. Qed.

(* D29: a bitmap definition that is completed inside a replication body (the body
   holds 031031 and the descriptor that ends the definition).  Interpreted: the
   second pass is outside any definition.  Compiled: the recorded n_031031 + 1 and
   define_bitmap run again in the second pass and fail. *)
Definition T_d29 : descs :=
  dl [DElem e012001; DElem e012001; DOper 224000; DOper 236000;
      DFixed 102002 (dl [DElem e031031; DElem e012001]); DOper 224255].
Definition b_d29 : list bool :=
  nb 100 12 ++ nb 200 12 ++ [false] ++ nb 300 12 ++ [false] ++ nb 400 12 ++ nb 77 12 ++ repeat false 64.

Theorem compile_exec_bitmap_in_loop_refuted :
  exists T n b, Compile.scoped T = true /\ ok_c08 T = false /\
    links_vals (decode_uncompressed T n b) = Ok ([[(8, 1)]]%N,
       [[VDec 100 1; VDec 200 1; VInt 0; VInt 0; VInt 0; VDec 300 1; VInt 0; VDec 400 1; VDec 77 1]]) /\
    links_vals (decode_uncompressed_c T n b) = Err ELib.
Proof. exists T_d29, 1%nat, b_d29. vm_compute. repeat split. Qed.

(* D5 without a marker: 203000 inside a replication body cancels a definition made
   before the replication, and the body defines another element (the dictionary has
   the same LENGTH before and after the body, which is all [Compile.scoped] compares).
   Interpreted: in the second pass 007001 has its Table B reference value again.
   Compiled: the body was compiled with 007001 redefined and 203000 is not replayed. *)
Definition T_d5loop : descs :=
  dl [DOper 203012; DElem e007001; DOper 203255;
      DFixed 105002 (dl [DElem e007001; DOper 203000; DOper 203012; DElem e007002; DOper 203255]); DOper 203000].
Definition b_d5loop : list bool :=
  nb 5 12 ++ nb 1000 15 ++ nb 7 12 ++ nb 1000 15 ++ nb 7 12 ++ repeat false 64.

Theorem compile_exec_203000_in_loop_refuted :
  exists T n b, Compile.scoped T = true /\ ok_c08 T = false /\
    links_vals (decode_uncompressed T n b) = Ok ([[]], [[VInt 5; VInt 1005; VInt 7; VInt 600; VInt 7]]) /\
    links_vals (decode_uncompressed_c T n b) = Ok ([[]], [[VInt 5; VInt 1005; VInt 7; VInt 1005; VInt 7]]).
Proof. exists T_d5loop, 1%nat, b_d5loop. vm_compute. repeat split. Qed.

(* ---- save / load --------------------------------------------------------------------- *)
(* executable: every descriptor recorded in the compiled code is what the tables
   return for its id (fails for associated / skipped / marker pseudo descriptors: D7) *)
Definition reload_ok (lookup_b : N -> option elem) (T : descs) : bool :=
  match compile T with
  | Ok code => stmts_eqb (reload_stmts lookup_b code) code
  | Err _ => false
  end.

Theorem decode_uncompressed_l_eq lookup_b T n b :
  ok_c08 T = true -> reload_ok lookup_b T = true ->
  decode_uncompressed_l lookup_b T n b = decode_uncompressed T n b.
Proof.
  intros Hok Hr. rewrite <- (decode_uncompressed_c_eq T n b Hok).
  unfold reload_ok in Hr. unfold decode_uncompressed_l, decode_uncompressed_c.
  destruct (compile T) as [code|]; [|discriminate]. cbn [bind].
  apply stmts_eqb_sound in Hr. rewrite Hr. reflexivity.
Qed.

Definition lookup_ex (id : N) : option elem :=
  if (id =? 12001)%N then Some e012001 else if (id =? 7001)%N then Some e007001
  else if (id =? 31001)%N then Some e031001 else None.

Definition T_reload : descs :=
  dl [DElem e012001; DOper 201130; DElem e012001; DOper 201000;
      DDelayed 101000 (DElem e031001) (dl [DElem e007001; DOper 205002])].

Example reload_ok_example :
  ok_c08 T_reload = true /\ reload_ok lookup_ex T_reload = true /\
  is_ok (decode_uncompressed T_reload 1 (nb 5 12 ++ nb 9 14 ++ nb 2 8 ++ repeat false 80)) = true.
Proof. vm_compute. repeat split. Qed.
