(* NestedProofs.v — the nested JSON image of a wired tree converts back to the
   flat order (C09): utils.template_data_nested_json_to_flat_json applied to
   NestedJsonRenderer's output visits 0, 1, ..., n-1. *)
From PBK Require Import Base Descr Walk Wire Nested WireProofs.
From Coq Require Import ZifyBool ZifyNat ZifyN.

Fixpoint wlength (ns : wnodes) : nat :=
  match ns with WNil => O | WCons _ r => S (wlength r) end.

Lemma wlength_app a b : wlength (wnodes_app a b) = (wlength a + wlength b)%nat.
Proof. induction a as [|n a IH]; cbn; [reflexivity|rewrite IH; reflexivity]. Qed.

(* ---- chunking ---------------------------------------------------------------- *)
Lemma firstn_add {A} a b (l : list A) : firstn (a + b) l = firstn a l ++ firstn b (skipn a l).
Proof.
  revert l; induction a as [|a IH]; intros l; [reflexivity|].
  destruct l as [|x l]; cbn [Nat.add firstn skipn app]; [destruct b; reflexivity|].
  rewrite IH. reflexivity.
Qed.

Lemma chunks_flat {A B} (g : A -> list B) nmem nrep (l : list A) :
  flat_map (fun rep => flat_map g rep) (chunks nmem nrep l) = flat_map g (firstn (nmem * nrep) l).
Proof.
  revert l; induction nrep as [|k IH]; intros l; cbn [chunks flat_map].
  - rewrite Nat.mul_0_r. reflexivity.
  - rewrite IH. replace (nmem * S k)%nat with (nmem + nmem * k)%nat by lia.
    rewrite firstn_add, flat_map_app. reflexivity.
Qed.

Section R.
Context (attrs : list attr) (is_assoc_label : N -> bool) (vals : list value).

(* the replication nodes hold a whole number of repetitions *)
Fixpoint wf_node (n : wnode) : Prop :=
  match n with
  | WNoValue _ | WValue _ => True
  | WSeq _ ms => wf_nodes ms
  | WFixed _ nmem nrep ms => wlength ms = (nmem * N.to_nat nrep)%nat /\ wf_nodes ms
  | WDelayed _ nmem f ms => wlength ms = (nmem * count_of (nth_error vals (N.to_nat f)))%nat /\ wf_nodes ms
  end
with wf_nodes (ns : wnodes) : Prop :=
  match ns with WNil => True | WCons n r => wf_node n /\ wf_nodes r end.

Lemma wf_nodes_app a b : wf_nodes a -> wf_nodes b -> wf_nodes (wnodes_app a b).
Proof. induction a as [|n a IH]; cbn [wnodes_app wf_nodes]; [tauto|]. intros [H1 H2] Hb. split; [exact H1|apply IH; assumption]. Qed.

Lemma render_nodes_length fuel ns : length (render_nodes attrs is_assoc_label vals fuel ns) = wlength ns.
Proof. induction ns as [|n ns IH]; cbn [render_nodes length wlength]; [reflexivity|rewrite IH; reflexivity]. Qed.

End R.

Lemma flat_attrs_gen (is_assoc_label : N -> bool) (g : N -> jv) i (L : list attr) :
  (forall a, exists ats, g a = JV a (negb (is_assoc_label a)) ats) ->
  (forall o a b, In (o, a, b) L -> is_assoc_label a = b) ->
  flat_map (fun a => match a with JV ai virt _ => if virt then [] else [ai] end)
    (map g (map (fun a : attr => snd (fst a)) (filter (fun a : attr => (fst (fst a) =? i)%N) L))) =
  map (fun a : attr => snd (fst a)) (filter (fun a : attr => (fst (fst a) =? i)%N && snd a) L).
Proof.
  intros Hg. induction L as [|[[o a] b] A IH]; intros Hlab; [reflexivity|].
  assert (Hlab' : forall o a b, In (o, a, b) A -> is_assoc_label a = b) by (intros; eapply Hlab; right; eassumption).
  specialize (IH Hlab'). cbn [filter fst snd].
  pose proof (Hlab o a b (or_introl eq_refl)) as Hb.
  destruct (N.eqb_spec o i) as [_|_]; cbn [andb]; [|exact IH].
  destruct (Hg a) as [ats Ha]. cbn [map flat_map fst snd]. rewrite Ha, IH, Hb. destruct b; reflexivity.
Qed.

Lemma flat_value_render attrs is_assoc_label k i :
  (forall o a b, In (o, a, b) attrs -> is_assoc_label a = b) ->
  flat_value (render_value attrs is_assoc_label (S k) false i) = assoc_attrs_of attrs i ++ [i].
Proof.
  intros Hlab. cbn [render_value flat_value]. f_equal.
  unfold Nested.attrs_of, assoc_attrs_of. apply (flat_attrs_gen is_assoc_label); [|exact Hlab].
  intros a. destruct k; cbn [render_value andb]; eexists; reflexivity.
Qed.

Section R2.
Context (attrs : list attr) (is_assoc_label : N -> bool) (vals : list value).
Hypothesis Hlab : forall o a b, In (o, a, b) attrs -> is_assoc_label a = b.

Local Notation rn := (render_node attrs is_assoc_label vals).
Local Notation rns := (render_nodes attrs is_assoc_label vals).
Lemma rn_seq fuel id ms : rn fuel (WSeq id ms) = JSeqN id (rns fuel ms).
Proof. reflexivity. Qed.
Lemma rn_fixed fuel id nmem nrep ms :
  rn fuel (WFixed id nmem nrep ms) = JRep id None (chunks nmem (N.to_nat nrep) (rns fuel ms)).
Proof. reflexivity. Qed.
Lemma rn_delayed fuel id nmem f ms :
  rn fuel (WDelayed id nmem f ms) =
  JRep id (Some (render_value attrs is_assoc_label fuel false f))
       (chunks nmem (count_of (nth_error vals (N.to_nat f))) (rns fuel ms)).
Proof. reflexivity. Qed.
Lemma rns_cons fuel n ns : rns fuel (WCons n ns) = rn fuel n :: rns fuel ns.
Proof. reflexivity. Qed.

Lemma render_flat k :
  (forall n, wf_node vals n -> flat_jn (rn (S k) n) = flat_node attrs n) /\
  (forall ns, wf_nodes vals ns -> flat_map flat_jn (rns (S k) ns) = flat_nodes attrs ns).
Proof.
  apply wnode_wnodes_ind.
  - reflexivity.
  - intros id ms IH H. rewrite rn_seq. cbn [flat_jn flat_node]. apply IH, H.
  - intros id nmem nrep ms IH [Hl H]. rewrite rn_fixed. cbn [flat_jn flat_node app]. rewrite chunks_flat.
    rewrite firstn_all2 by (rewrite render_nodes_length; lia). apply IH, H.
  - intros id nmem f ms IH [Hl H]. rewrite rn_delayed. cbn [flat_jn flat_node].
    rewrite chunks_flat, flat_value_render by exact Hlab.
    rewrite firstn_all2 by (rewrite render_nodes_length; lia). rewrite IH by exact H. reflexivity.
  - intros i _. apply flat_value_render, Hlab.
  - reflexivity.
  - intros n IHn ns IHns [Hn Hns]. rewrite rns_cons. cbn [flat_map flat_nodes]. rewrite IHn, IHns by assumption. reflexivity.
Qed.

End R2.

(* ---- wiring produces whole repetitions ------------------------------------------ *)
Definition leaf (n : wnode) : Prop := match n with WValue _ | WNoValue _ => True | _ => False end.

Lemma leaf_wf vals n : leaf n -> wf_node vals n.
Proof. destruct n; cbn; tauto. Qed.

Ltac leaf_crush E :=
  repeat (match type of E with
          | (if ?c then _ else _) = _ => destruct c
          | (match ?x with _ => _ end) = _ => destruct x
          | bind ?r _ = _ => destruct r as [?|]; cbn [bind] in E
          end);
  try discriminate; try (injection E as <- <-; exact I).

Tactic Notation "dbind" hyp(E) "as" simple_intropattern(p) "into" ident(H) :=
  match type of E with bind ?r _ = _ => destruct r as [p|] eqn:H; cbn [bind] in E; [|discriminate] end.

Section W.
Context (ndesc : N) (vals : list value) (links : list (N * N)).

Lemma wire_element_leaf e s n s' : wire_element ndesc links e s = Ok (n, s') -> leaf n.
Proof. intros E. unfold wire_element in E. cbv zeta in E. leaf_crush E. Qed.

Lemma wire_marker_leaf m s n s' : wire_marker ndesc links m s = Ok (n, s') -> leaf n.
Proof. intros E. unfold wire_marker in E. leaf_crush E. Qed.

Lemma wire_operator_leaf id s n s' : wire_operator ndesc links id s = Ok (n, s') -> leaf n.
Proof.
  intros E. unfold wire_operator in E. cbv zeta in E.
  repeat (match type of E with
          | (if ?c then _ else _) = _ => destruct c
          | wire_marker _ _ _ _ = _ => (apply wire_marker_leaf in E; exact E)
          | (match ?x with _ => _ end) = _ => destruct x
          | bind ?r _ = _ => destruct r as [?|]; cbn [bind] in E
          end);
  try discriminate; try (injection E as <- <-; exact I).
Qed.

Definition WfAcc (k : nat) (f : wres -> result wres) : Prop :=
  forall acc s acc' s', f (acc, s) = Ok (acc', s') ->
  exists new, acc' = wnodes_app acc new /\ wlength new = k /\ wf_nodes vals new.

Lemma iter_w_wf n k f : WfAcc k f -> WfAcc (k * N.to_nat n) (iter_w n f).
Proof.
  intros Hf. unfold iter_w. induction n as [|n IH] using N.peano_ind.
  - intros acc s acc' s' E. cbn in E. injection E as <- <-. exists WNil.
    split; [symmetry; apply wnodes_app_nil|]. split; [cbn; lia|exact I].
  - intros acc s acc' s' E. rewrite N.iter_succ in E. cbv beta in E.
    match type of E with context [N.iter n ?g ?a0] => destruct (N.iter n g a0) as [[acc1 s1]|] eqn:E1 end; cbn [bind] in E; [|discriminate].
    destruct (IH _ _ _ _ E1) as (new1 & -> & L1 & W1).
    destruct (Hf _ _ _ _ E) as (new2 & -> & L2 & W2).
    exists (wnodes_app new1 new2). rewrite wnodes_app_assoc. split; [reflexivity|].
    split; [rewrite wlength_app; lia|apply wf_nodes_app; assumption].
Qed.

Theorem wire_wf :
  (forall d s n s', wire_one ndesc vals links d s = Ok (n, s') -> wf_node vals n) /\
  (forall ms, WfAcc (descs_length ms) (wire_list ndesc vals links ms)).
Proof.
  apply desc_descs_ind.
  - intros e s n s' E. cbn [wire_one] in E. apply leaf_wf. eapply wire_element_leaf; exact E.
  - intros id ms IH s n s' E. cbn [wire_one] in E.
    dbind E as [nodes s1] into E1. injection E as <- <-.
    destruct (iter_w_wf _ _ _ IH _ _ _ _ E1) as (new & -> & L & W). cbn [wnodes_app wf_node]. split; assumption.
  - intros id f _ ms IH s n s' E. cbn [wire_one] in E.
    dbind E as [fi s0] into Ev.
    destruct (nth_error vals (N.to_nat fi)) as [[z| | | |]|] eqn:Ef; cbn [count_of_value bind] in E; try discriminate.
    dbind E as [nodes s1] into E1. injection E as <- <-.
    destruct (iter_w_wf _ _ _ IH _ _ _ _ E1) as (new & -> & L & W). cbn [wnodes_app wf_node].
    rewrite Ef. cbn [count_of]. split; [lia|exact W].
  - intros id s n s' E. cbn [wire_one] in E. apply leaf_wf. eapply wire_operator_leaf; exact E.
  - intros id ms IH s n s' E. cbn [wire_one] in E.
    dbind E as [nodes s1] into E1. injection E as <- <-.
    destruct (IH _ _ _ _ E1) as (new & -> & L & W). exact W.
  - intros id s n s' E. cbn [wire_one] in E. dbind E as [i s1] into Ev. injection E as <- <-. exact I.
  - intros id s n s' E. discriminate.
  - intros acc s acc' s' E. cbn [wire_list] in E. injection E as <- <-.
    exists WNil. split; [symmetry; apply wnodes_app_nil|]. split; [reflexivity|exact I].
  - intros d IHd ds IHds acc s acc' s' E. cbn [wire_list] in E. cbv zeta in E.
    destruct (negb (x_dnp s =? 0)%Z && dnp_skips d).
    + destruct (IHds _ _ _ _ E) as (new & -> & L & W).
      exists (WCons (WNoValue (desc_id d)) new). rewrite wnodes_app_assoc. split; [reflexivity|].
      cbn [wlength descs_length wf_nodes wf_node]. split; [lia|split; [exact I|exact W]].
    + match type of E with (if ?c then _ else _) = _ => destruct c end.
      * dbind E as [i s1] into Ev.
        destruct (IHds _ _ _ _ E) as (new & -> & L & W).
        exists (WCons (WValue i) new). rewrite wnodes_app_assoc. split; [reflexivity|].
        cbn [wlength descs_length wf_nodes wf_node]. split; [lia|split; [exact I|exact W]].
      * dbind E as [n s1] into E1.
        destruct (IHds _ _ _ _ E) as (new & -> & L & W).
        exists (WCons n new). rewrite wnodes_app_assoc. split; [reflexivity|].
        cbn [wlength descs_length wf_nodes]. split; [lia|split; [eapply IHd; exact E1|exact W]].
Qed.

(* C09: NestedJsonRenderer's image of the wired tree, converted back by
   template_data_nested_json_to_flat_json, lists the flat indices 0..n-1 in order *)
Theorem nested_to_flat_render T nodes s is_assoc_label k :
  wire ndesc vals links T = Ok (nodes, s) ->
  (forall o a b, In (o, a, b) (x_attrs s) -> is_assoc_label a = b) ->
  nested_to_flat (render_nodes (x_attrs s) is_assoc_label vals (S k) nodes) = span 0 (x_next s).
Proof.
  intros E Hlab. unfold nested_to_flat.
  assert (W : wf_nodes vals nodes).
  { unfold wire in E. destruct (proj2 wire_wf T _ _ _ _ E) as (new & -> & _ & W). exact W. }
  rewrite (proj2 (render_flat (x_attrs s) is_assoc_label vals Hlab k)) by exact W.
  eapply wire_flat_order; exact E.
Qed.

End W.
