(* Descr.v — values and the descriptor tree (pybufrkit/descriptors.py).
   Shared by the template builder (Template.v), the walker (Walk.v) and the
   wiring (Wire.v).  Types only plus small observers. *)
From PBK Require Import Base.

(* ---- values as they appear in decoded_values / are given to the encoder --- *)
Inductive value :=
  | VInt (z : Z)              (* Python int *)
  | VDec (m : Z) (s : Z)      (* the exact rational m / 10^s: a decoded decimal (s <> 0) *)
  | VDyad (m : Z) (e : Z)     (* a user-supplied double m * 2^e, given exactly *)
  | VBytes (b : list byte)
  | VNone.

(* ---- Table B entry ---------------------------------------------------------- *)
Record elem := mkElem {
  e_id : N;
  e_unit : list byte;         (* the unit string, bytes of its ASCII text *)
  e_scale : Z;
  e_refval : Z;
  e_nbits : Z }.

Definition desc_F (id : N) : N := (id / 100000)%N.
Definition desc_X (id : N) : N := (id / 1000 mod 100)%N.
Definition desc_Y (id : N) : N := (id mod 1000)%N.

(* ---- the descriptor tree ---------------------------------------------------- *)
Inductive desc :=
  | DElem (e : elem)                              (* ElementDescriptor *)
  | DFixed (id : N) (ms : descs)                  (* FixedReplicationDescriptor 1XXYYY *)
  | DDelayed (id : N) (factor : desc) (ms : descs)(* DelayedReplicationDescriptor 1XX000; the
                                                     factor is whatever Table B lookup returned *)
  | DOper (id : N)                                (* OperatorDescriptor 2XXYYY *)
  | DSeq (id : N) (ms : descs)                    (* SequenceDescriptor 3XXYYY (members expanded) *)
  | DUndefElem (id : N)                           (* UndefinedElementDescriptor *)
  | DUndefSeq (id : N)                            (* UndefinedSequenceDescriptor *)
with descs :=
  | DNil
  | DCons (d : desc) (ds : descs).

Scheme desc_mut := Induction for desc Sort Prop
with descs_mut := Induction for descs Sort Prop.
Combined Scheme desc_descs_ind from desc_mut, descs_mut.

Definition desc_id (d : desc) : N :=
  match d with
  | DElem e => e_id e
  | DFixed id _ | DDelayed id _ _ | DOper id | DSeq id _ | DUndefElem id | DUndefSeq id => id
  end.

Fixpoint descs_to_list (ds : descs) : list desc :=
  match ds with DNil => [] | DCons d r => d :: descs_to_list r end.

Fixpoint descs_of_list (l : list desc) : descs :=
  match l with [] => DNil | d :: r => DCons d (descs_of_list r) end.

Fixpoint descs_app (a b : descs) : descs :=
  match a with DNil => b | DCons d r => DCons d (descs_app r b) end.

Fixpoint descs_length (ds : descs) : nat :=
  match ds with DNil => O | DCons _ r => S (descs_length r) end.

(* unit kinds, by exact string comparison as in coder.process_element_descriptor *)
Definition bytes_eqb (a b : list byte) : bool :=
  (length a =? length b)%nat && forallb (fun p => (fst p =? snd p)%N) (combine a b).

(* 'CCITT IA5', 'FLAG TABLE', 'CODE TABLE' *)
Definition UNITS_STRING : list byte := [67;67;73;84;84;32;73;65;53]%N.
Definition UNITS_FLAG_TABLE : list byte := [70;76;65;71;32;84;65;66;76;69]%N.
Definition UNITS_CODE_TABLE : list byte := [67;79;68;69;32;84;65;66;76;69]%N.

Inductive ukind := KString | KCodeFlag | KNumeric.
Definition kind_of_unit (u : list byte) : ukind :=
  if bytes_eqb u UNITS_STRING then KString
  else if bytes_eqb u UNITS_FLAG_TABLE || bytes_eqb u UNITS_CODE_TABLE then KCodeFlag
  else KNumeric.
