(* CoderSim.v — the simulation theorem instantiated for the run-time handlers
   (io_handlers): two implementations of the primitives that stay related and
   give the same feedback produce the same descriptors, links and registers. *)
From PBK Require Import Base Descr Walk Coder WalkSim.

Section IOSim.
Context {C1 C2 : Type} (P1 : prims C1) (P2 : prims C2) (R : C1 -> C2 -> Prop).

Definition Rio (a : io C1) (b : io C2) : Prop :=
  io_dd a = io_dd b /\ io_links a = io_links b /\ R (io_c a) (io_c b).

Definition simp (f1 : C1 -> result C1) (f2 : C2 -> result C2) : Prop :=
  forall c1 c2 c1', R c1 c2 -> f1 c1 = Ok c1' -> exists c2', f2 c2 = Ok c2' /\ R c1' c2'.

Hypothesis Pnumeric : forall a b c, simp (p_numeric P1 a b c) (p_numeric P2 a b c).
Hypothesis Pstring : forall a, simp (p_string P1 a) (p_string P2 a).
Hypothesis Pcodeflag : forall a b, simp (p_codeflag P1 a b) (p_codeflag P2 a b).
Hypothesis Pconstant : forall a, simp (p_constant P1 a) (p_constant P2 a).
Hypothesis Pnew_refval : forall a c1 c2 z c1', R c1 c2 -> p_new_refval P1 a c1 = Ok (z, c1') ->
  exists c2', p_new_refval P2 a c2 = Ok (z, c2') /\ R c1' c2'.
Hypothesis Pfactor : forall c1 c2 n, R c1 c2 -> p_factor P1 c1 = Ok n -> p_factor P2 c2 = Ok n.
Hypothesis Pbitmap : forall a c1 c2 bm, R c1 c2 -> p_bitmap P1 a c1 = Ok bm -> p_bitmap P2 a c2 = Ok bm.

Notation sim := (simf Rio).

Lemma sim_lift dd f1 f2 : simp f1 f2 -> sim (lift dd f1) (lift dd f2).
Proof.
  intros Hf s1 s2 s1' [Hr (Hdd & Hl & Hc)] E. unfold lift in *.
  destruct (f1 _) as [c1'|] eqn:E1; cbn [bind] in E; [|discriminate].
  cbn in E1. destruct (Hf _ _ _ Hc E1) as (c2' & E2 & Hc').
  cbn. rewrite E2. cbn [bind]. injection E as <-. eexists; split; [reflexivity|].
  split; cbn; [exact Hr|]. repeat split; cbn; congruence || assumption.
Qed.

Lemma Rst_regs_only (f : regs -> regs) (s1 : ws (io C1)) (s2 : ws (io C2)) :
  Rst Rio s1 s2 -> Rst Rio (upd_r f s1) (upd_r f s2).
Proof. apply Rst_upd. Qed.

Lemma sim_build_bitmapped bm : sim (build_bitmapped bm) (build_bitmapped bm).
Proof.
  intros s1 s2 s1' HR E. unfold build_bitmapped in *. cbv zeta in *.
  pose proof HR as [Hr (Hdd & Hl & Hc)]. rewrite <- Hr, <- Hdd.
  destruct (get_backrefs (w_r s1) (io_dd (w_c s1)) (length bm)) as [refs|];
    cbn [bind] in E |- *; [|discriminate].
  destruct (negb (length refs =? length bm)%nat); [discriminate|].
  injection E as <-. eexists; split; [reflexivity|]. repeat apply Rst_upd. exact HR.
Qed.

Theorem io_walk_sim :
  (forall d, sim (walk (io_handlers P1) io_add_link d) (walk (io_handlers P2) io_add_link d)) /\
  (forall ms, sim (walk_list (io_handlers P1) io_add_link ms) (walk_list (io_handlers P2) io_add_link ms)).
Proof.
  apply walk_sim; cbn [io_handlers h_numeric h_numeric_new_refval h_string h_codeflag h_new_refval
    h_constant h_define_bitmap h_mark_boundary h_recall_bitmap h_cancel_bitmap h_cancel_backrefs
    h_add_bitmap_link h_bitmap_def_wrap h_fixed h_delayed h_bitmapped].
  - intros; apply sim_lift, Pnumeric.
  - intros dd a b c s1 s2 s1' HR E. pose proof HR as [Hr _]. rewrite <- Hr.
    destruct (refval_lookup _ _) as [[v|]|]; try discriminate.
    eapply sim_lift; [apply Pnumeric|exact HR|exact E].
  - intros; apply sim_lift, Pstring.
  - intros; apply sim_lift, Pcodeflag.
  - (* new_refval *)
    intros dd a s1 s2 s1' [Hr (Hdd & Hl & Hc)] E.
    destruct (p_new_refval P1 a _) as [[z c1']|] eqn:E1; cbn [bind] in E; [|discriminate].
    cbn in E1. destruct (Pnew_refval _ _ _ _ _ Hc E1) as (c2' & E2 & Hc').
    cbn. rewrite E2. cbn [bind]. injection E as <-. eexists; split; [reflexivity|].
    split; cbn; [congruence|]. repeat split; cbn; congruence || assumption.
  - intros; apply sim_lift, Pconstant.
  - (* define_bitmap *)
    intros reuse s1 s2 s1' HR E. pose proof HR as [Hr (Hdd & Hl & Hc)]. rewrite <- Hr.
    destruct (p_bitmap P1 _ _) as [bm|] eqn:E1; cbn [bind] in E; [|discriminate].
    rewrite (Pbitmap _ _ _ _ Hc E1). cbn [bind].
    eapply sim_build_bitmapped; [|exact E].
    destruct reuse; [apply Rst_upd|]; exact HR.
  - (* mark boundary *)
    intros s1 s2 s1' HR E. injection E as <-. eexists; split; [reflexivity|].
    pose proof HR as [Hr (Hdd & Hl & Hc)]. unfold ndesc. rewrite <- Hdd. apply Rst_upd. exact HR.
  - intros s1 s2 s1' HR E. pose proof HR as [Hr _]. rewrite <- Hr.
    destruct (r_bitmapped (w_r s1)); [|discriminate]. injection E as <-.
    eexists; split; [reflexivity|apply Rst_upd; exact HR].
  - intros s1 s2 s1' HR E. injection E as <-. eexists; split; [reflexivity|apply Rst_upd; exact HR].
  - intros s1 s2 s1' HR E. injection E as <-. eexists; split; [reflexivity|apply Rst_upd; exact HR].
  - (* add_bitmap_link *)
    intros s1 s2 s1' HR E. pose proof HR as [Hr (Hdd & Hl & Hc)]. rewrite <- Hr.
    destruct (next_bitmapped (w_r s1)) as [[b r']|]; cbn [bind] in E |- *; [|discriminate].
    unfold io_add_link in *. injection E as <-. eexists; split; [reflexivity|].
    unfold ndesc. cbn. split; cbn; [reflexivity|]. repeat split; cbn; congruence || assumption.
  - intros f1 f2 Hf. exact Hf.
  - intros n f1 f2 Hf. apply sim_iter. exact Hf.
  - (* delayed *)
    intros f1 f2 Hf s1 s2 s1' HR E. pose proof HR as [Hr (Hdd & Hl & Hc)].
    destruct (p_factor P1 _) as [n|] eqn:E1; cbn [bind] in E; [|discriminate].
    rewrite (Pfactor _ _ _ Hc E1). cbn [bind]. eapply sim_iter; eassumption.
  - intros id f1 f2 Hf. exact Hf.
  - (* io_add_link *)
    intros idx s1 s2 s1' [Hr (Hdd & Hl & Hc)] E. unfold io_add_link in *. injection E as <-.
    eexists; split; [reflexivity|]. unfold ndesc. cbn.
    split; cbn; [exact Hr|]. repeat split; cbn; congruence || assumption.
Qed.

End IOSim.

(* ---- lifted to the loop over subsets ---------------------------------------- *)
Section SubsetsSim.
Context {C1 C2 : Type} (P1 : prims C1) (P2 : prims C2).
Context (R : C1 -> C2 -> Prop)      (* holds while a subset is processed *)
        (R0 : C1 -> C2 -> Prop).    (* holds between subsets *)
Context (sw1 : nat -> C1 -> C1) (sw2 : nat -> C2 -> C2).
Hypothesis Hwalk : forall ms,
  simf (Rio R) (walk_list (io_handlers P1) io_add_link ms) (walk_list (io_handlers P2) io_add_link ms).
Hypothesis Hsw : forall i c1 c2, R0 c1 c2 -> R (sw1 i c1) (sw2 i c2).
Hypothesis Hback : forall c1 c2, R c1 c2 -> R0 c1 c2.

Lemma run_subsets_sim T : forall n i c1 c2 acc outs c1',
  R0 c1 c2 -> run_subsets P1 T sw1 i n c1 acc = Ok (outs, c1') ->
  exists c2', run_subsets P2 T sw2 i n c2 acc = Ok (outs, c2') /\ R0 c1' c2'.
Proof.
  induction n as [|n IH]; intros i c1 c2 acc outs c1' HR E; cbn [run_subsets] in *.
  - injection E as <- <-. eauto.
  - unfold run_template in *.
    destruct (walk_list (io_handlers P1) io_add_link T _) as [s1|] eqn:E1; cbn [bind] in E; [|discriminate].
    assert (HR0 : Rst (Rio R) (mkWs regs0 (mkIo [] [] (sw1 i c1))) (mkWs regs0 (mkIo [] [] (sw2 i c2)))).
    { split; cbn; [reflexivity|]. repeat split; cbn; auto. }
    destruct (Hwalk T _ _ _ HR0 E1) as (s2 & E2 & [Hr (Hdd & Hl & Hc)]).
    rewrite E2. cbn [bind]. rewrite <- Hdd, <- Hl. eapply IH; [apply Hback|]; eassumption.
Qed.
End SubsetsSim.
