(* BitsProofs.v — theorems about Bits.v (C19 and the base of every codec proof). *)
From PBK Require Import Base Bits.
From Coq Require Import ZifyBool ZifyNat ZifyN.

Lemma length_to_bits n v : length (to_bits n v) = n.
Proof. induction n as [|k IH]; cbn [to_bits length]; congruence. Qed.

Lemma of_bits_acc_app a b acc :
  of_bits_acc acc (a ++ b) = of_bits_acc (of_bits_acc acc a) b.
Proof. revert acc; induction a as [|x a IH]; intros acc; cbn [app of_bits_acc]; auto. Qed.

Lemma of_bits_acc_shift b acc :
  of_bits_acc acc b = (acc * 2 ^ N.of_nat (length b) + of_bits_acc 0 b)%N.
Proof.
  revert acc; induction b as [|x b IH]; intros acc.
  - cbn. lia.
  - cbn [of_bits_acc length]. rewrite IH. rewrite (IH (2 * 0 + N.b2n x)%N).
    rewrite Nat2N.inj_succ, N.pow_succ_r'. lia.
Qed.

Lemma of_bits_cons x b :
  of_bits (x :: b) = (N.b2n x * 2 ^ N.of_nat (length b) + of_bits b)%N.
Proof. unfold of_bits. cbn [of_bits_acc]. rewrite of_bits_acc_shift. lia. Qed.

Lemma of_bits_nil : of_bits [] = 0%N.
Proof. reflexivity. Qed.

Lemma of_bits_app a b :
  of_bits (a ++ b) = (of_bits a * 2 ^ N.of_nat (length b) + of_bits b)%N.
Proof.
  unfold of_bits. rewrite of_bits_acc_app. apply of_bits_acc_shift.
Qed.

Lemma of_bits_lt b : (of_bits b < 2 ^ N.of_nat (length b))%N.
Proof.
  induction b as [|x b IH].
  - cbn. lia.
  - rewrite of_bits_cons. cbn [length]. rewrite Nat2N.inj_succ, N.pow_succ_r'.
    destruct x; cbn [N.b2n]; lia.
Qed.

Lemma of_bits_to_bits_mod n v : of_bits (to_bits n v) = (v mod 2 ^ N.of_nat n)%N.
Proof.
  induction n as [|k IH].
  - cbn. rewrite N.mod_1_r. reflexivity.
  - cbn [to_bits]. rewrite of_bits_cons, length_to_bits, IH.
    rewrite Nat2N.inj_succ, N.pow_succ_r', (N.mul_comm 2).
    rewrite N.mod_mul_r by (try apply N.pow_nonzero; lia).
    rewrite N.testbit_spec' . lia.
Qed.

Lemma of_bits_to_bits n v : (v < 2 ^ N.of_nat n)%N -> of_bits (to_bits n v) = v.
Proof. intros H. rewrite of_bits_to_bits_mod. apply N.mod_small, H. Qed.

Lemma to_bits_mod n v : to_bits n (v mod 2 ^ N.of_nat n) = to_bits n v.
Proof.
  assert (G : forall k, (k <= n)%nat -> to_bits k (v mod 2 ^ N.of_nat n) = to_bits k v).
  { induction k as [|k IH]; intros Hk; cbn [to_bits]; [reflexivity|].
    rewrite IH by lia. f_equal. apply N.mod_pow2_bits_low. lia. }
  apply G. lia.
Qed.

Lemma to_bits_of_bits b : to_bits (length b) (of_bits b) = b.
Proof.
  induction b as [|x b IH]; [reflexivity|].
  cbn [length to_bits]. f_equal.
  - rewrite of_bits_cons.
    apply N.b2n_inj. rewrite N.testbit_spec'.
    rewrite N.add_comm.
    rewrite N.div_add by (apply N.pow_nonzero; lia).
    rewrite N.div_small by apply of_bits_lt.
    destruct x; reflexivity.
  - rewrite <- to_bits_mod. rewrite of_bits_cons.
    rewrite N.add_comm, N.mod_add by (apply N.pow_nonzero; lia).
    rewrite N.mod_small by apply of_bits_lt. exact IH.
Qed.

Lemma to_bits_inj n v1 v2 :
  (v1 < 2 ^ N.of_nat n)%N -> (v2 < 2 ^ N.of_nat n)%N -> to_bits n v1 = to_bits n v2 -> v1 = v2.
Proof.
  intros H1 H2 E. rewrite <- (of_bits_to_bits n v1 H1), <- (of_bits_to_bits n v2 H2), E. reflexivity.
Qed.

Lemma to_bits_ones n : to_bits n (2 ^ N.of_nat n - 1) = ones n.
Proof.
  assert (G : forall k, (k <= n)%nat -> to_bits k (2 ^ N.of_nat n - 1) = ones k).
  { induction k as [|k IH]; intros Hk; [reflexivity|].
    cbn [to_bits ones repeat]. rewrite IH by lia. f_equal.
    rewrite <- N.pred_sub, <- N.ones_equiv. apply N.ones_spec_low. lia. }
  apply G; lia.
Qed.

Lemma of_bits_ones n : of_bits (ones n) = (2 ^ N.of_nat n - 1)%N.
Proof.
  rewrite <- to_bits_ones. apply of_bits_to_bits.
  assert (0 < 2 ^ N.of_nat n)%N by (apply N.neq_0_lt_0, N.pow_nonzero; lia). lia.
Qed.

Lemma to_bits_zero n : to_bits n 0 = zeros n.
Proof. induction n as [|k IH]; [reflexivity|]. cbn [to_bits zeros repeat]. rewrite IH. reflexivity. Qed.

(* ---- reader lemmas ------------------------------------------------------ *)
Lemma take_bits_app a t : take_bits (length a) (a ++ t) = Ok (a, t).
Proof.
  unfold take_bits. rewrite app_length.
  destruct (Nat.ltb_spec (length a + length t) (length a)); [lia|].
  rewrite firstn_app, Nat.sub_diag, firstn_all, firstn_O, app_nil_r.
  rewrite skipn_app, Nat.sub_diag, skipn_all, skipn_O. reflexivity.
Qed.

Lemma take_bits_short n r : (length r < n)%nat -> take_bits n r = Err EBitRead.
Proof. unfold take_bits. intros H. destruct (Nat.ltb_spec (length r) n); [reflexivity|lia]. Qed.

Lemma take_bits_ok n r b r' :
  take_bits n r = Ok (b, r') -> r = b ++ r' /\ length b = n.
Proof.
  unfold take_bits. destruct (Nat.ltb_spec (length r) n); [discriminate|].
  intros E. injection E as <- <-. split; [symmetry; apply firstn_skipn|].
  rewrite firstn_length. lia.
Qed.

(* reading is independent of what follows: the suffix is handed back untouched *)
Lemma take_bits_suffix n r b r' t :
  take_bits n r = Ok (b, r') -> take_bits n (r ++ t) = Ok (b, r' ++ t).
Proof.
  intros H. apply take_bits_ok in H as [-> <-]. rewrite <- app_assoc. apply take_bits_app.
Qed.

Lemma Z2N_pow w : (0 <= w)%Z -> N.of_nat (Z.to_nat w) = Z.to_N w.
Proof. intros. lia. Qed.

Lemma pow_Z_N w : (0 <= w)%Z -> Z.of_N (2 ^ Z.to_N w) = (2 ^ w)%Z.
Proof. intros H. rewrite N2Z.inj_pow. rewrite Z2N.id by lia. reflexivity. Qed.

Lemma take_bits_to_bits n v t : take_bits n (to_bits n v ++ t) = Ok (to_bits n v, t).
Proof. rewrite <- (length_to_bits n v) at 1. apply take_bits_app. Qed.

Lemma read_uint_to_bits w (v : N) t :
  (0 < w)%Z -> (v < 2 ^ Z.to_N w)%N ->
  read_uint w (to_bits (Z.to_nat w) v ++ t) = Ok (v, t).
Proof.
  intros Hw Hv. unfold read_uint. destruct (Z.leb_spec w 0); [lia|].
  rewrite take_bits_to_bits. cbn [bind]. rewrite of_bits_to_bits; [reflexivity|].
  rewrite Z2N_pow by lia. exact Hv.
Qed.

Lemma read_write_uint v w o o' t :
  write_uint v w o = Ok o' ->
  exists e, o' = o ++ e /\ length e = Z.to_nat w /\
            read_uint w (e ++ t) = Ok (Z.to_N v, t).
Proof.
  unfold write_uint, read_uint.
  destruct (Z.leb_spec w 0); [discriminate|].
  destruct (Z.ltb_spec v 0); [discriminate|].
  destruct (Z.leb_spec (2 ^ w) v); [discriminate|].
  intros E; injection E as <-.
  eexists; split; [reflexivity|]. split; [apply length_to_bits|].
  rewrite <- (length_to_bits (Z.to_nat w) (Z.to_N v)) at 1.
  rewrite take_bits_app. cbn [bind]. rewrite of_bits_to_bits; [reflexivity|].
  rewrite Z2N_pow by lia. apply N2Z.inj_lt. rewrite pow_Z_N by lia. lia.
Qed.

Theorem write_uint_refuses v w o :
  (exists e, write_uint v w o = Err e) <-> (w <= 0 \/ v < 0 \/ 2 ^ w <= v)%Z.
Proof.
  unfold write_uint.
  destruct (Z.leb_spec w 0); [split; eauto|].
  destruct (Z.ltb_spec v 0); [split; eauto|].
  destruct (Z.leb_spec (2 ^ w) v); [split; eauto|].
  split; [intros [e E]; discriminate|lia].
Qed.

(* never wrapped or clipped: when accepted, exactly the value's bits are appended *)
Theorem write_uint_exact v w o o' :
  write_uint v w o = Ok o' ->
  o' = o ++ to_bits (Z.to_nat w) (Z.to_N v) /\ (0 <= v < 2 ^ w)%Z /\ (0 < w)%Z.
Proof.
  unfold write_uint.
  destruct (Z.leb_spec w 0); [discriminate|].
  destruct (Z.ltb_spec v 0); [discriminate|].
  destruct (Z.leb_spec (2 ^ w) v); [discriminate|].
  intros E; injection E as <-. repeat split; lia.
Qed.

Lemma read_write_int v w o o' t :
  write_int v w o = Ok o' ->
  exists e, o' = o ++ e /\ length e = Z.to_nat w /\ read_int w (e ++ t) = Ok (v, t).
Proof.
  unfold write_int, write_bool. cbn [bind]. intros H.
  pose proof (write_uint_exact _ _ _ _ H) as (_ & Hr & Hw).
  destruct (read_write_uint _ _ _ _ t H) as (e & -> & Hl & Hrd).
  exists ((v <? 0)%Z :: e). split; [rewrite <- app_assoc; reflexivity|].
  split; [cbn [length]; lia|].
  unfold read_int. cbn [app read_bool bind]. rewrite Hrd. cbn [bind].
  f_equal. f_equal. destruct (Z.ltb_spec v 0); lia.
Qed.

(* ---- bytes ------------------------------------------------------------- *)
Lemma firstn_app_exact {A} n (a t : list A) : length a = n -> firstn n (a ++ t) = a.
Proof. intros <-. rewrite firstn_app, Nat.sub_diag, firstn_all, firstn_O, app_nil_r. reflexivity. Qed.
Lemma skipn_app_exact {A} n (a t : list A) : length a = n -> skipn n (a ++ t) = t.
Proof. intros <-. rewrite skipn_app, Nat.sub_diag, skipn_all, skipn_O. reflexivity. Qed.

Lemma length_bits_of_bytes l : length (bits_of_bytes l) = (8 * length l)%nat.
Proof. induction l as [|x l IH]; [reflexivity|]. cbn [bits_of_bytes]. rewrite app_length, length_to_bits, IH. cbn [length]. lia. Qed.

Lemma bytes_of_bits_of_bytes l t :
  forallb is_byte l = true -> bytes_of_bits (length l) (bits_of_bytes l ++ t) = l.
Proof.
  induction l as [|x l IH]; intros H; [reflexivity|].
  cbn [forallb] in H. apply andb_true_iff in H as [Hx Hl].
  cbn [length bytes_of_bits bits_of_bytes]. rewrite <- app_assoc.
  rewrite firstn_app_exact, skipn_app_exact by apply length_to_bits.
  rewrite IH by exact Hl. f_equal. apply of_bits_to_bits. unfold is_byte in Hx. cbn. lia.
Qed.

Lemma length_pad_bytes v n : length (pad_bytes v n) = n.
Proof. unfold pad_bytes. rewrite app_length, firstn_length, repeat_length. lia. Qed.

Lemma forallb_pad_bytes v n : forallb is_byte v = true -> forallb is_byte (pad_bytes v n) = true.
Proof.
  intros H. unfold pad_bytes. rewrite forallb_app. apply andb_true_iff. split.
  - rewrite forallb_forall in *. intros x Hx. apply H.
    rewrite <- (firstn_skipn n v). apply in_or_app. left. exact Hx.
  - apply forallb_forall. intros x Hx. apply repeat_spec in Hx. subst. reflexivity.
Qed.

Lemma read_write_bytes v n o o' t :
  forallb is_byte v = true -> write_bytes v n o = Ok o' ->
  exists e, o' = o ++ e /\ length e = (8 * Z.to_nat n)%nat /\
            read_bytes n (e ++ t) = Ok (pad_bytes v (Z.to_nat n), t).
Proof.
  unfold write_bytes, read_bytes. intros Hv.
  destruct (Z.ltb_spec n 0); [discriminate|].
  intros E; injection E as <-.
  eexists; split; [reflexivity|].
  split; [rewrite length_bits_of_bytes, length_pad_bytes; reflexivity|].
  rewrite <- (length_pad_bytes v (Z.to_nat n)) at 1.
  rewrite <- length_bits_of_bytes, take_bits_app. cbn [bind].
  rewrite <- (length_pad_bytes v (Z.to_nat n)) at 1.
  rewrite <- (app_nil_r (bits_of_bytes _)).
  rewrite bytes_of_bits_of_bytes by (apply forallb_pad_bytes, Hv). reflexivity.
Qed.

(* ---- arbitrary sequences of typed fields -------------------------------- *)
Lemma field_roundtrip f o o' t :
  field_ok f = true -> write_field f o = Ok o' ->
  exists e, o' = o ++ e /\ length e = field_width f /\
            read_field f (e ++ t) = Ok (field_value f, t).
Proof.
  destruct f as [w v|w v|b|b|n v]; cbn [field_ok write_field read_field field_value field_width]; intros Hok Hw.
  - destruct (read_write_uint _ _ _ _ t Hw) as (e & -> & Hl & Hr).
    exists e. rewrite Hr. cbn [bind]. auto.
  - destruct (read_write_int _ _ _ _ t Hw) as (e & -> & Hl & Hr).
    exists e. rewrite Hr. cbn [bind]. auto.
  - injection Hw as <-. exists [b]. cbn. auto.
  - injection Hw as <-. exists b. split; [reflexivity|]. split; [reflexivity|].
    unfold read_bin. destruct (Z.ltb_spec (Z.of_nat (length b)) 0); [lia|].
    rewrite Nat2Z.id, take_bits_app. reflexivity.
  - apply andb_true_iff in Hok as [_ Hb].
    destruct (read_write_bytes _ _ _ _ t Hb Hw) as (e & -> & Hl & Hr).
    exists e. rewrite Hr. cbn [bind]. auto.
Qed.

Lemma field_ok_writes f o : field_ok f = true -> exists o', write_field f o = Ok o'.
Proof.
  destruct f as [w v|w v|b|b|n v]; cbn [field_ok write_field]; intros Hok.
  - unfold write_uint.
    destruct (Z.leb_spec w 0); [exfalso; lia|]. destruct (Z.ltb_spec v 0); [exfalso; lia|].
    destruct (Z.leb_spec (2 ^ w) v); [exfalso; lia|]. eauto.
  - unfold write_int, write_bool, write_uint. cbn [bind].
    destruct (Z.leb_spec (w - 1) 0); [exfalso; lia|]. destruct (Z.ltb_spec (Z.abs v) 0); [exfalso; lia|].
    destruct (Z.leb_spec (2 ^ (w - 1)) (Z.abs v)); [exfalso; lia|]. eauto.
  - eexists; reflexivity.
  - eexists; reflexivity.
  - unfold write_bytes. destruct (Z.ltb_spec n 0); [exfalso; lia|]. eauto.
Qed.

Fixpoint fields_width (fs : list field) : nat :=
  match fs with [] => O | f :: r => (field_width f + fields_width r)%nat end.

(* C19 main theorem: any sequence of acceptable typed fields, written after any
   prefix [o] and followed by any bits [t], reads back as the same values, and
   the reader has consumed exactly what the writer produced. *)
Theorem fields_roundtrip fs : forall o t,
  forallb field_ok fs = true ->
  exists e, write_fields fs o = Ok (o ++ e) /\ length e = fields_width fs /\
            read_fields fs (e ++ t) = Ok (map field_value fs, t).
Proof.
  induction fs as [|f fs IH]; intros o t Hok.
  - exists []. cbn. rewrite app_nil_r. auto.
  - cbn [forallb] in Hok. apply andb_true_iff in Hok as [Hf Hfs].
    destruct (field_ok_writes f o Hf) as (o1 & Hw1).
    destruct (IH o1 t Hfs) as (e2 & Hw2 & Hl2 & Hr2).
    destruct (field_roundtrip f o o1 (e2 ++ t) Hf Hw1) as (e1 & -> & Hl1 & Hr1).
    exists (e1 ++ e2). cbn [write_fields read_fields fields_width map].
    rewrite Hw1. cbn [bind]. rewrite Hw2, <- !app_assoc. split; [reflexivity|].
    split; [rewrite app_length; lia|].
    rewrite Hr1. cbn [bind]. rewrite Hr2. reflexivity.
Qed.

(* ---- missing ------------------------------------------------------------- *)
Theorem missing_iff w (v : N) t :
  (1 <= w <= 64)%Z -> (v < 2 ^ Z.to_N w)%N ->
  exists x, read_uint_or_none w (to_bits (Z.to_nat w) v ++ t) = Ok (x, t) /\
            (x = None <-> (1 < w)%Z /\ v = (2 ^ Z.to_N w - 1)%N) /\
            (x <> None -> x = Some v).
Proof.
  intros Hw Hv. unfold read_uint_or_none.
  rewrite read_uint_to_bits by (try exact Hv; lia). cbn [bind].
  destruct (Z.ltb_spec 1 w).
  - destruct (Z.ltb_spec 64 w); [lia|]. unfold missing_value.
    destruct (N.eqb_spec v (2 ^ Z.to_N w - 1)).
    + eexists; split; [reflexivity|]. split; [tauto|congruence].
    + eexists; split; [reflexivity|]. split; [split; [discriminate|tauto]|reflexivity].
  - eexists; split; [reflexivity|]. split; [split; [discriminate|lia]|reflexivity].
Qed.

(* ---- in-place overwrite --------------------------------------------------- *)
Theorem set_uint_frame v w pos o o' :
  (pos + Z.to_nat w <= length o)%nat -> set_uint v w pos o = Ok o' ->
  length o' = length o /\
  firstn pos o' = firstn pos o /\
  skipn (pos + Z.to_nat w) o' = skipn (pos + Z.to_nat w) o /\
  read_uint w (skipn pos o') = Ok (Z.to_N v, skipn (pos + Z.to_nat w) o).
Proof.
  unfold set_uint. intros Hlen.
  destruct (Z.leb_spec w 0); [discriminate|].
  destruct (Z.ltb_spec v 0); [discriminate|].
  destruct (Z.leb_spec (2 ^ w) v); [discriminate|].
  intros E; injection E as <-.
  set (e := to_bits (Z.to_nat w) (Z.to_N v)).
  assert (Hle : length e = Z.to_nat w) by apply length_to_bits.
  assert (Hlf : length (firstn pos o) = pos) by (rewrite firstn_length; lia).
  repeat split.
  - rewrite !app_length, Hle, Hlf, skipn_length. lia.
  - rewrite firstn_app_exact by exact Hlf. reflexivity.
  - rewrite app_assoc. rewrite skipn_app_exact; [reflexivity|].
    rewrite app_length. lia.
  - rewrite skipn_app_exact by exact Hlf.
    unfold e. apply read_uint_to_bits; [lia|].
    apply N2Z.inj_lt. rewrite pow_Z_N by lia. lia.
Qed.

(* D1 (before the repair): a 16-bit overwrite made the stream 8 bits longer *)
Theorem set_uint_orig_refuted :
  exists v w pos o o', (pos + Z.to_nat w <= length o)%nat /\
     set_uint_orig v w pos o = Ok o' /\ length o' <> length o.
Proof.
  exists 5%Z, 16%Z, 8%nat, (zeros 32). eexists. split; [cbn; lia|].
  split; [vm_compute; reflexivity|]. vm_compute. discriminate.
Qed.

(* ---- reading past the end ------------------------------------------------- *)
Theorem read_past_end_uint w r :
  (0 < w)%Z -> (length r < Z.to_nat w)%nat -> read_uint w r = Err EBitRead.
Proof.
  intros Hw Hl. unfold read_uint. destruct (Z.leb_spec w 0); [lia|].
  rewrite take_bits_short by exact Hl. reflexivity.
Qed.

Theorem read_past_end_bool : read_bool [] = Err EBitRead.
Proof. reflexivity. Qed.

Theorem read_past_end_bin w r :
  (0 <= w)%Z -> (length r < Z.to_nat w)%nat -> read_bin w r = Err EBitRead.
Proof.
  intros Hw Hl. unfold read_bin. destruct (Z.ltb_spec w 0); [lia|].
  apply take_bits_short, Hl.
Qed.

Theorem read_past_end_bytes n r :
  (0 <= n)%Z -> (length r < 8 * Z.to_nat n)%nat -> read_bytes n r = Err EBitRead.
Proof.
  intros Hn Hl. unfold read_bytes. destruct (Z.ltb_spec n 0); [lia|].
  rewrite take_bits_short by exact Hl. reflexivity.
Qed.

Theorem read_past_end_int w r :
  (1 < w)%Z -> (length r < Z.to_nat w)%nat -> read_int w r = Err EBitRead.
Proof.
  intros Hw Hl. unfold read_int. destruct r as [|x r]; [reflexivity|].
  cbn [read_bool bind]. rewrite read_past_end_uint; [reflexivity|lia|cbn [length] in Hl; lia].
Qed.

(* a library error, in every case *)
Lemma bitread_is_lib : is_lib_err EBitRead = true.
Proof. reflexivity. Qed.

(* ---- suffix independence of single reads (base of C12) ------------------- *)
Lemma read_uint_suffix w r v r' t :
  read_uint w r = Ok (v, r') -> read_uint w (r ++ t) = Ok (v, r' ++ t).
Proof.
  unfold read_uint. destruct (Z.leb_spec w 0); [discriminate|].
  destruct (take_bits _ r) as [[b rr]|] eqn:E; cbn [bind]; [|discriminate].
  intros Hq; injection Hq as <- <-. rewrite (take_bits_suffix _ _ _ _ t E). reflexivity.
Qed.

Example fields_roundtrip_nonvacuous :
  let fs := [FUint 7 100; FInt 5 (-13); FBool true; FBin [true;false;true]; FBytes 3 [65;66]%N; FUint 64 18446744073709551615]%Z in
  forallb field_ok fs = true /\
  (let* o := write_fields fs [true] in read_fields fs (tl o ++ [false])) =
     Ok (map field_value fs, [false]).
Proof. split; vm_compute; reflexivity. Qed.
