(* TextFmtNestedTop.v — C09, nested text: nested_text_to_flat_json reads back what
   NestedTextRenderer wrote, for every message and every wired tree. *)
From PBK Require Import Base Descr Walk Wire Nested WireProofs NestedProofs
  TextFmt TextFmtSpec TextFmtStrings TextFmtProofs TextFmtBody TextFmtNested TextFmtNestedTree.
From PBK Require Script ScriptProofs.
From Coq Require Import ZifyBool ZifyNat ZifyN.

Lemma map_nth_nrange {A} (d : A) : forall l pre,
  map (fun i => nth (N.to_nat i) (pre ++ l) d) (nrange (N.of_nat (length pre)) (length l)) = l.
Proof.
  induction l as [|x l IH]; intros pre; [reflexivity|]. cbn [length nrange map]. f_equal.
  - rewrite Nat2N.id, app_nth2, Nat.sub_diag by lia. reflexivity.
  - replace (pre ++ x :: l) with ((pre ++ [x]) ++ l) by (rewrite <- app_assoc; reflexivity).
    replace (N.of_nat (length pre) + 1)%N with (N.of_nat (length (pre ++ [x]))) by (rewrite app_length; cbn; lia).
    apply IH.
Qed.

Lemma map_nth_span {A} (d : A) l : map (fun i => nth (N.to_nat i) l d) (span 0 (N.of_nat (length l))) = l.
Proof.
  unfold span. rewrite N.sub_0_r, Nat2N.id. exact (map_nth_nrange d l []).
Qed.

Section Top.
Context (repr : pyv -> str) (leval : str -> result pyv).
Local Notation cls := (classify_nested leval).

(* ---- side conditions of one subset ------------------------------------------------------------- *)
(* text conditions (about repr / literal_eval and the given descriptor texts) ... *)
Definition nsubset_text_ok (sub : nsubset) : Prop :=
  let n := N.of_nat (length (ns_vals sub)) in
  (forall i, (i < n)%N -> idx_ok repr leval sub i) /\
  attr_labels_ok (ns_dstr sub) (ns_attrs sub) = true /\
  forallb (nv_ok (ns_nvstr sub)) (nv_ids_list (ns_nodes sub)) = true.

(* ... and structural conditions (consequences of the wiring, see nsubset_of_wire) *)
Definition nsubset_tree_ok (sub : nsubset) : Prop :=
  let n := N.of_nat (length (ns_vals sub)) in
  attrs_in_range n (ns_attrs sub) = true /\ attrs_depth_ok (ns_attrs sub) = true /\
  wf_nodes (ns_vals sub) (ns_nodes sub) /\
  flat_nodes (ns_attrs sub) (ns_nodes sub) = span 0 n.

Definition nsubset_ok (sub : nsubset) : Prop := nsubset_text_ok sub /\ nsubset_tree_ok sub.

Definition nested_td_ok (td : list nsubset) : Prop := td <> [] /\ Forall nsubset_ok td.

Definition nested_param_ok (p : param (list nsubset)) : Prop :=
  match p with
  | PVal name v => pval_line_ok name (repr v) = true /\ leval (repr v) = Ok v
  | PTemplate td => nested_td_ok td
  end.

Definition nested_message_ok (m : message (list nsubset)) : Prop :=
  nolb (m_key m) = true /\ sections_shape (m_sections m) = true /\
  Forall (fun s => Forall nested_param_ok (s_params s)) (m_sections m).

(* ---- one subset ----------------------------------------------------------------------------------- *)
Theorem nested_subset_body sub k : nsubset_ok sub ->
  run_body cls (concat (nlines_list repr sub (S k) [] (ns_nodes sub))) [] = Some (map PyV (ns_vals sub)) /\
  forallb (forallb nolb) (nlines_list repr sub (S k) [] (ns_nodes sub)) = true.
Proof.
  intros [(Hidx & Hlab & Hnv) (Hrange & Hdepth & Hwf & Hflat)].
  destruct (proj2 (tree_lines repr leval sub Hidx Hrange Hlab Hdepth k) (ns_nodes sub) [] [] spaces_only_nil Hwf) as [R1 R2].
  - rewrite Hflat. apply Forall_forall. intros i Hi. apply in_span in Hi. lia.
  - exact Hnv.
  - split; [|exact R2]. rewrite R1, Hflat. cbn [app]. unfold pv, val_at.
    rewrite <- (map_map (fun i => nth (N.to_nat i) (ns_vals sub) VNone) PyV). rewrite map_nth_span. reflexivity.
Qed.

(* ---- the template-data block ------------------------------------------------------------------------ *)
Fixpoint nblocks (fuel : nat) (n i : N) (subs : list nsubset) : list (str * list str) :=
  match subs with
  | [] => []
  | sub :: r => (subset_header (i + 1) n, concat (nlines_list repr sub fuel [] (ns_nodes sub))) :: nblocks fuel n (i + 1) r
  end.

Lemma nested_td_blocks fuel n : forall subs i, nested_td_from repr fuel n i subs = block_lines (nblocks fuel n i subs).
Proof.
  induction subs as [|sub r IH]; intros i; [reflexivity|].
  cbn [nested_td_from nblocks block_lines]. rewrite IH. reflexivity.
Qed.

Lemma nblocks_ok k n : forall subs i, Forall nsubset_ok subs ->
  Forall2 (fun b v => cls (fst b) = ANew /\ run_body cls (snd b) [] = Some v)
          (nblocks (S k) n i subs) (map (map PyV) (nested_td_values subs)).
Proof.
  induction subs as [|sub r IH]; intros i H; [constructor|].
  inversion H as [|? ? Hs Hr]; subst. cbn [nblocks map nested_td_values]. constructor; [|apply IH; exact Hr].
  cbn [fst snd]. split; [apply classify_subset_header|]. apply nested_subset_body. exact Hs.
Qed.

Lemma nested_td_nolb k n : forall subs i, Forall nsubset_ok subs -> forallb nolb (nested_td_from repr (S k) n i subs) = true.
Proof.
  induction subs as [|sub r IH]; intros i H; [reflexivity|]. inversion H as [|? ? Hs Hr]; subst.
  cbn [nested_td_from forallb]. rewrite nolb_subset_header, forallb_app, IH by assumption.
  rewrite forallb_concat. rewrite (proj2 (nested_subset_body sub k Hs)). reflexivity.
Qed.

Lemma nested_td_parses k td : nested_td_ok td ->
  td_parses (nested_td_lines repr (S k)) nested_td_values cls td.
Proof.
  intros [Hne H]. unfold td_parses, nested_td_lines. split; [apply nested_td_nolb; exact H|]. split.
  - destruct td as [|sub r]; [contradiction|]. cbn [nested_td_from]. do 2 eexists. split; [reflexivity|].
    apply subset_header_prefix.
  - intros h rest Hb. rewrite nested_td_blocks. rewrite subsets_loop_block with (vs := map (map PyV) (nested_td_values td)).
    + reflexivity.
    + apply nblocks_ok. exact H.
    + exact Hb.
Qed.

(* C09, nested text: the whole rendering converts back to the flat JSON *)
Theorem nested_text_roundtrip k m : nested_message_ok m ->
  nested_text_to_flat_json leval (render_nested_text repr (S k) m) = Ok (flat_json_of nested_td_values m).
Proof.
  intros (Hk & Hs & Hp). unfold nested_text_to_flat_json, render_nested_text, subsets_nested_text_to_flat_json.
  apply message_roundtrip.
  - apply classify_section_header.
  - split; [exact Hk|]. split; [exact Hs|].
    eapply Forall_impl; [|exact Hp]. intros s Hsec. eapply Forall_impl; [|exact Hsec].
    intros [name v|td] Hq; [exact Hq|]. apply nested_td_parses. exact Hq.
Qed.

(* the template-data block alone, up to the next section header *)
Theorem nested_subsets_roundtrip k td i rest : nested_td_ok td ->
  subsets_nested_text_to_flat_json leval (nested_td_lines repr (S k) td ++ section_header i :: rest)
  = Ok (section_header i :: rest, map (map PyV) (nested_td_values td)).
Proof.
  intros H. destruct (nested_td_parses k td H) as (_ & _ & P). apply P. apply classify_section_header.
Qed.

End Top.

(* ---- the structural conditions follow from the wiring ----------------------------------------------- *)
Lemma nsubset_tree_of_wire ndesc links T s sub :
  wire ndesc (ns_vals sub) links T = Ok (ns_nodes sub, s) ->
  ns_attrs sub = x_attrs s -> x_next s = N.of_nat (length (ns_vals sub)) ->
  attrs_in_range (x_next s) (x_attrs s) = true -> attrs_depth_ok (x_attrs s) = true ->
  nsubset_tree_ok sub.
Proof.
  intros E Ha Hn Hr Hd. unfold nsubset_tree_ok. rewrite Ha, <- Hn. split; [exact Hr|]. split; [exact Hd|]. split.
  - unfold wire in E. destruct (proj2 (wire_wf ndesc (ns_vals sub) links) T _ _ _ _ E) as (new & -> & _ & W). exact W.
  - eapply wire_flat_order. exact E.
Qed.

(* the per-index condition may be given as a list *)
Lemma idx_ok_by_list repr leval sub n :
  Forall (idx_ok repr leval sub) (span 0 n) -> forall i, (i < n)%N -> idx_ok repr leval sub i.
Proof. intros H i Hi. rewrite Forall_forall in H. apply H. apply span_in. lia. Qed.
