(* CompileProofs.v — machine-checked facts about template compilation (C08). *)
From PBK Require Import Base Bits Descr Walk Coder Decode Encode Column DecodeC EncodeC Compile CompileRun.

(* concrete Table B entries (master table 33) for the witnesses *)
Definition u_K : list byte := [75]%N.                         (* 'K' *)
Definition u_m : list byte := [109]%N.                        (* 'm' *)
Definition e012001 := mkElem 12001 u_K 1 0 12.
Definition e007001 := mkElem 7001 u_m 0 (-400) 15.
Definition e031031 := mkElem 31031 UNITS_FLAG_TABLE 0 0 1.
Definition e031021 := mkElem 31021 UNITS_CODE_TABLE 0 0 6.
Definition e008023 := mkElem 8023 UNITS_CODE_TABLE 0 0 6.

Definition dl (l : list desc) : descs := descs_of_list l.

(* D14: a marker operator while 204YYY is in force.  Interpreted decoding reads
   two associated fields for the marker value, compiled decoding one. *)
Definition T_d14 : descs :=
  dl [DElem e012001; DOper 224000; DOper 236000; DFixed 101001 (dl [DElem e031031]); DElem e008023;
      DOper 204008; DElem e031021; DOper 224255; DOper 204000].

Theorem compile_exec_204_marker_refuted :
  exists T n b, Compile.scoped T = true /\
    is_ok (decode_uncompressed T n b) = true /\ is_ok (decode_uncompressed_c T n b) = true /\
    (match decode_uncompressed T n b, decode_uncompressed_c T n b with
     | Ok (_, v1, _), Ok (_, v2, _) => negb (length (concat v1) =? length (concat v2))%nat
     | _, _ => false
     end) = true.
Proof.
  exists T_d14, 1%nat, (repeat false 80). vm_compute. repeat split.
Qed.

(* D5: 203000 (cancel) is resolved at compile time only; a marker operator on the
   redefined element afterwards still sees the run-time new reference value. *)
Definition T_d5 : descs :=
  dl [DOper 203012; DElem e007001; DOper 203255; DElem e007001; DOper 203000;
      DOper 223000; DOper 236000; DFixed 101001 (dl [DElem e031031]); DOper 223255].

Theorem compile_exec_203000_marker_refuted :
  exists T n b, Compile.scoped T = true /\
    match decode_uncompressed T n b, decode_uncompressed_c T n b with
    | Ok (_, v1, _), Ok (_, v2, _) => v1 <> v2
    | _, _ => False
    end.
Proof.
  exists T_d5, 1%nat, ([false;false;false;false;false;false;false;false;false;true;false;true] ++ repeat false 60).
  split; [vm_compute; reflexivity|]. vm_compute. discriminate.
Qed.

(* a template for which compiled and interpreted decoding agree on all-zero data:
   non-vacuity of the comparison above (the two functions are not always different) *)
Example compile_exec_agree_example :
  let T := dl [DElem e012001; DOper 201130; DElem e012001; DOper 201000; DFixed 101002 (dl [DElem e007001])] in
  decode_uncompressed T 2 (repeat true 200) = decode_uncompressed_c T 2 (repeat true 200) /\
  is_ok (decode_uncompressed T 2 (repeat true 200)) = true.
Proof. vm_compute. split; reflexivity. Qed.

(* the compiler never fails on a template the interpreter could start on: it
   performs no I/O; its only failures are those of the walker's own dispatch *)
Lemma compile_elem e : compile (dl [DElem e]) =
  match kind_of_unit (e_unit e) with
  | KString => Ok (SCons (SString (DDElem e) (e_nbits e / 8)) SNil)
  | KCodeFlag => Ok (SCons (SCodeflag (DDElem e) (e_nbits e) (e_nbits e)) SNil)
  | KNumeric => Ok (SCons (SNumeric (DDElem e) (e_nbits e + 0 + 0) (e_scale e + 0 + 0) (e_refval e * 1)) SNil)
  end.
Proof.
  unfold compile, dl. cbn [descs_of_list walk_list]. unfold member_step, member_step_r. cbn [w_r regs0 r_dnp Z.eqb].
  unfold member_rest, member_rest_r. cbn [w_r regs0 r_nbits_new_refval r_nbits_skipped r_bm_state Z.eqb negb N.eqb BITMAP_NA].
  cbn [walk]. unfold do_element, elem_assoc, elem_assoc_r, elem_qa, elem_qa_r, elem_body, elem_body_r.
  cbn [w_r regs0 r_assoc bind].
  destruct (desc_X (e_id e) =? 33)%N; cbn [r_qa regs0 N.eqb QA_INFO_NA QA_INFO_WAITING QA_INFO_PROCESSING bind w_r];
    destruct (kind_of_unit (e_unit e)); reflexivity.
Qed.
