(* TextFmt.v — model of the two TEXT output formats of a decoded message and of
   their parsers (property C09).

   renderer.py : FlatTextRenderer._render_bufr_message / _render_template_data,
                 NestedTextRenderer._render_bufr_message / _render_template_data /
                 _render_template_data_nodes / _render_template_data_value_node /
                 _render_template_data_attributed_node
   utils.py    : fixed_width_repr_of_int, section_text_to_flat_json,
                 flat_text_to_flat_json, subsets_flat_text_to_flat_json,
                 nested_text_to_flat_json, subsets_nested_text_to_flat_json

   Strings are lists of code points ([list N], Python 3 [str]); [strip],
   [splitlines] and the decimal printer are those of Script.v.

   EXTERNAL (not modelled, parameters of the Section): Python's [repr] of a
   value ('{!r}') and [ast.literal_eval]; the texts of descriptors
   (str(descriptor), descriptor.name / description, _render_descriptor) are given
   per flat index / per descriptor id.  Everything the two parsers DO with a line
   (prefix tests, line[81:], strip, lstrip('.'), ' ' in line, rsplit(' ', 1),
   rfind(" b'"), split(' = '), insert(-1, v), the while loops with their index
   errors) is modelled.  Model only; proofs are in TextFmtProofs*.v. *)
From PBK Require Import Base Descr Walk Wire Nested.
From PBK Require Script.
From Coq Require String Ascii.

Definition str := list N.

(* string literals: evaluated at definition time to lists of code points *)
Fixpoint s2l (s : String.string) : str :=
  match s with
  | String.EmptyString => []
  | String.String a r => Ascii.N_of_ascii a :: s2l r
  end.

(* the string literals used below, evaluated to code points *)
Module Lit.
Import String.
Definition sp4 : str := Eval compute in s2l "    ".
Definition sub_close : str := Eval compute in s2l " ######".
Definition link_arrow : str := Eval compute in s2l " -> ".
Definition eq_sp : str := Eval compute in s2l " = ".
Definition sec_close : str := Eval compute in s2l " >>>>>>".
Definition of_ : str := Eval compute in s2l " of ".
Definition repl_close : str := Eval compute in s2l " replications ---".
Definition repl_open : str := Eval compute in s2l "# --- ".
Definition sub_open : str := Eval compute in s2l "###### subset ".
Definition hash6 : str := Eval compute in s2l "######".
Definition arrow_sp : str := Eval compute in s2l "-> ".
Definition arrow_A : str := Eval compute in s2l "-> A".
Definition arrow : str := Eval compute in s2l "->".
Definition dots4 : str := Eval compute in s2l "....".
Definition sec_open : str := Eval compute in s2l "<<<<<< section ".
Definition lt6 : str := Eval compute in s2l "<<<<<<".
End Lit.

Definition strip : str -> str := Script.strip.
Definition dec : N -> str := Script.dec_bytes.              (* '{}'.format(n), '{:d}' *)
Definition splitlines : str -> list str := Script.splitlines.
Definition nolb (s : str) : bool := forallb (fun c => negb (Script.is_linebreak c)) s.

(* ---- small Python string operations ----------------------------------------- *)
(* s.startswith(p) *)
Fixpoint prefixb (p s : str) : bool :=
  match p, s with
  | [], _ => true
  | _ :: _, [] => false
  | a :: p', b :: s' => (a =? b)%N && prefixb p' s'
  end.

(* c in s *)
Definition memc (c : N) (s : str) : bool := existsb (N.eqb c) s.

(* p in s  (substring) *)
Fixpoint occurs (p s : str) : bool :=
  prefixb p s || match s with [] => false | _ :: t => occurs p t end.

(* sep.join(lines) *)
Fixpoint join (sep : str) (ls : list str) : str :=
  match ls with
  | [] => []
  | l :: r => match r with [] => l | _ :: _ => l ++ sep ++ join sep r end
  end.

(* s.split(sep) for a non-empty separator: left to right, non-overlapping.
   [skip] characters of a separator just matched remain to be dropped; [cur] is
   the current piece, most recent character first. *)
Fixpoint split_go (sep : str) (skip : nat) (cur : str) (s : str) : list str :=
  match s with
  | [] => [rev cur]
  | c :: t =>
    match skip with
    | S k => split_go sep k cur t
    | O => if prefixb sep s then rev cur :: split_go sep (length sep - 1) [] t
           else split_go sep 0 (c :: cur) t
    end
  end.
Definition split_str (sep s : str) : list str := split_go sep 0 [] s.

(* s.lstrip('.') *)
Fixpoint lstrip_dots (s : str) : str :=
  match s with
  | c :: t => if (c =? 46)%N then lstrip_dots t else s
  | [] => []
  end.

(* s.rsplit(c, 1)[1]: the text after the last occurrence of c; None when c does not occur *)
Fixpoint after_last (c : N) (s : str) : option str :=
  match s with
  | [] => None
  | x :: t => match after_last c t with
              | Some r => Some r
              | None => if (x =? c)%N then Some t else None
              end
  end.

(* s.rfind(p) for non-empty p: the highest index at which p occurs; None for -1 *)
Fixpoint rfind (p s : str) : option nat :=
  match s with
  | [] => None
  | _ :: t => match rfind p t with
              | Some i => Some (S i)
              | None => if prefixb p s then Some O else None
              end
  end.

(* '{:W.W}'.format(s): truncated to W code points, then padded with blanks on the right *)
Definition fmt_trunc_pad (w : nat) (s : str) : str :=
  let t := firstn w s in t ++ repeat 32%N (w - length t).

(* utils.fixed_width_repr_of_int: '{:>{width}d}' (both values of pad_left give '>'),
   asterisks when the number does not fit *)
Definition fixed_width_repr_of_int (v : N) (w : nat) : str :=
  let d := dec v in
  if (w <? length d)%nat then repeat 42%N w else repeat 32%N (w - length d) ++ d.

(* l.insert(-1, v): before the last element; on an empty list it appends *)
Fixpoint insert_m1 {A} (v : A) (l : list A) : list A :=
  match l with
  | [] => [v]
  | x :: t => match t with [] => [v; x] | _ :: _ => x :: insert_m1 v t end
  end.

(* l[-1] = f(l[-1]) in place; None for the IndexError on an empty list *)
Fixpoint on_last {A} (f : A -> A) (l : list A) : option (list A) :=
  match l with
  | [] => None
  | x :: t => match t with
              | [] => Some [f x]
              | _ :: _ => match on_last f t with Some t' => Some (x :: t') | None => None end
              end
  end.

(* ---- constants ---------------------------------------------------------------- *)
Definition TEXT_SECTION_HEADER : str := Lit.lt6.
Definition TEXT_SUBSET_HEADER : str := Lit.hash6.
Definition INDENT_CHARS : str := Lit.sp4.
Definition INDENT_DOTS : str := Lit.dots4.      (* '.' * len(INDENT_CHARS) *)
Definition S_EQ : str := Lit.eq_sp.
Definition S_ARROW : str := Lit.arrow_sp.
Definition S_ARROW2 : str := Lit.arrow.
Definition S_ARROW_A : str := Lit.arrow_A.
Definition S_LINK : str := Lit.link_arrow.
Definition NL : str := [10%N].

(* ---- Python objects that appear in the text -------------------------------------- *)
(* what '{!r}' is applied to and what ast.literal_eval may give back.  [PyTup] is the
   only tuple the renderers produce: (value, [set bit numbers]) for a flag table
   element in the flat text.  [PyBool] / [PyInts] are section parameters (flags,
   unexpanded_descriptors). *)
Inductive pyv :=
  | PyV (v : value)
  | PyTup (v : value) (bits : list N)
  | PyBool (b : bool)
  | PyInts (l : list Z).

(* if isinstance(value, tuple): value = value[0] *)
Definition untuple (p : pyv) : pyv := match p with PyTup v _ => PyV v | _ => p end.

(* ---- the message as the renderers see it ------------------------------------------ *)
Inductive param (TD : Type) :=
  | PVal (name : str) (v : pyv)            (* '{} = {!r}'.format(parameter.name, parameter.value) *)
  | PTemplate (td : TD).                   (* parameter.type == PARAMETER_TYPE_TEMPLATE_DATA *)
Arguments PVal {TD} name v.
Arguments PTemplate {TD} td.

Record section (TD : Type) := mkSection { s_index : N; s_params : list (param TD) }.
Arguments mkSection {TD} s_index s_params.
Arguments s_index {TD} s.
Arguments s_params {TD} s.

(* str(bufr_message.table_group_key), the sections *)
Record message (TD : Type) := mkMessage { m_key : str; m_sections : list (section TD) }.
Arguments mkMessage {TD} m_key m_sections.
Arguments m_key {TD} m.
Arguments m_sections {TD} m.

(* the flat JSON: FlatJsonRenderer._render_bufr_message *)
Inductive item :=
  | IVal (v : pyv)
  | ITemplate (subsets : list (list pyv)).   (* decoded_values_all_subsets *)

(* ---- flat text: what one line of a subset is made of --------------------------------- *)
Record fcell := mkFcell {
  fc_dtext : str;                  (* self._render_descriptor(descriptor) *)
  fc_val : value;                  (* the decoded value *)
  fc_flag : option (list N)        (* Some bits: descriptor.unit == 'FLAG TABLE', bits = the set bit numbers *)
}.

(* if value is not None and ... unit == 'FLAG TABLE': value = (value, [...]) *)
Definition fobj (c : fcell) : pyv :=
  match fc_flag c with
  | Some bits => match fc_val c with VNone => PyV VNone | v => PyTup v bits end
  | None => PyV (fc_val c)
  end.

(* one subset of the flat text: bitmap_links and the zipped (descriptor, value) list *)
Definition fsubset := (list (N * N) * list fcell)%type.

(* ---- nested text: what one subset is made of ---------------------------------------- *)
Record nsubset := mkNsubset {
  ns_nodes : wnodes;               (* decoded_nodes *)
  ns_attrs : list attr;            (* node.attributes, as Wire keeps them *)
  ns_vals : list value;            (* decoded_values *)
  ns_dstr : N -> str;              (* str(decoded_descriptors[i]) *)
  ns_descr : N -> str;             (* the description of index i (name / marker id / class name) *)
  ns_nvstr : N -> str              (* str(node) of a no-value node, by descriptor id: '{:06d}' + ' ' + name if any *)
}.

Definition laction_err := err.
Inductive laction :=
  | ABreak                (* section header: leave the subsets loop *)
  | ANew                  (* subset header: data_all_subsets.append([]) *)
  | ASkip                 (* idxline += 1; continue *)
  | AApp (v : pyv)        (* data_all_subsets[-1].append(value) *)
  | AIns (v : pyv)        (* data_all_subsets[-1].insert(-1, value) *)
  | AErr (e : err).

Section Text.
(* EXTERNAL: '{!r}'.format(x) and ast.literal_eval *)
Context (repr : pyv -> str) (leval : str -> result pyv).

(* =========================== renderers ============================================== *)

Definition section_header (idx : N) : str :=
  Lit.sec_open ++ dec idx ++ Lit.sec_close.
Definition subset_header (i n : N) : str :=
  Lit.sub_open ++ dec i ++ Lit.of_ ++ dec n ++ Lit.sub_close.

(* ---- FlatTextRenderer._render_template_data ---------------------------------------- *)
Definition flat_line (links : list (N * N)) (idx : N) (c : fcell) : str :=
  match link_of links idx with          (* if idx in bitmap_links *)
  | Some l =>
      fixed_width_repr_of_int (idx + 1) 5 ++ [32%N] ++ fmt_trunc_pad 64 (fc_dtext c) ++ S_LINK
      ++ fixed_width_repr_of_int (l + 1) 6 ++ [32%N] ++ repr (fobj c)
  | None =>
      fixed_width_repr_of_int (idx + 1) 5 ++ [32%N] ++ fmt_trunc_pad 74 (fc_dtext c) ++ [32%N]
      ++ repr (fobj c)
  end.

Fixpoint flat_lines_from (links : list (N * N)) (idx : N) (cs : list fcell) : list str :=
  match cs with
  | [] => []
  | c :: r => flat_line links idx c :: flat_lines_from links (idx + 1) r
  end.

Fixpoint flat_td_from (n : N) (i : N) (subs : list fsubset) : list str :=
  match subs with
  | [] => []
  | (links, cs) :: r => subset_header (i + 1) n :: flat_lines_from links 0 cs ++ flat_td_from n (i + 1) r
  end.
Definition flat_td_lines (subs : list fsubset) : list str :=
  flat_td_from (N.of_nat (length subs)) 0 subs.

(* ---- NestedTextRenderer ---------------------------------------------------------------- *)
Section Nodes.
Context (sub : nsubset).

(* decoded_values[i]; the wiring keeps every index below len(decoded_values) *)
Definition val_at (i : N) : value := nth (N.to_nat i) (ns_vals sub) VNone.

(* '{}{}{} {} {!r}'.format(indent, '-> ' if is_attribute else '', descriptor, description, value) *)
Definition value_line (indent : str) (is_attr : bool) (i : N) : str :=
  indent ++ (if is_attr then S_ARROW else []) ++ ns_dstr sub i ++ [32%N] ++ ns_descr sub i ++ [32%N]
  ++ repr (PyV (val_at i)).

(* _render_template_data_value_node / _render_template_data_attributed_node; [fuel]
   bounds the depth of attributes of attributes (Nested.render_value does the same) *)
Fixpoint vlines (fuel : nat) (indent : str) (is_attr : bool) (i : N) : list str :=
  value_line indent is_attr i ::
  match fuel with
  | O => []
  | S k => flat_map (vlines k (indent ++ INDENT_CHARS) true) (attrs_of (ns_attrs sub) i)
  end.

(* '{}# --- {} of {} replications ---'.format(indent + INDENT_CHARS, ir + 1, n_repeats) *)
Definition rep_header (indent : str) (ir n : nat) : str :=
  indent ++ INDENT_CHARS ++ Lit.repl_open ++ dec (N.of_nat (S ir)) ++ Lit.of_ ++ dec (N.of_nat n)
  ++ Lit.repl_close.

(* for ir in range(n_repeats): header, then the lines of members[ir*n_members:(ir+1)*n_members];
   [cs] are the repetitions, each a list of per-member line blocks *)
Fixpoint rep_lines (indent : str) (n : nat) (ir : nat) (cs : list (list (list str))) : list str :=
  match cs with
  | [] => []
  | c :: r => rep_header indent ir n :: concat c ++ rep_lines indent n (S ir) r
  end.

(* _render_template_data_nodes: the lines of one node / per node of a member list *)
Fixpoint nlines (fuel : nat) (indent : str) (n : wnode) {struct n} : list str :=
  match n with
  | WNoValue id => [indent ++ ns_nvstr sub id]
  | WSeq id ms =>
      (indent ++ ns_nvstr sub id) :: concat (nlines_list fuel (indent ++ INDENT_CHARS) ms)
  | WFixed id nmem nrep ms =>
      (indent ++ ns_nvstr sub id)
      :: rep_lines indent (N.to_nat nrep) 0
           (chunks nmem (N.to_nat nrep) (nlines_list fuel (indent ++ INDENT_CHARS) ms))
  | WDelayed id nmem f ms =>
      let n := count_of (nth_error (ns_vals sub) (N.to_nat f)) in
      (indent ++ ns_nvstr sub id)
      :: vlines fuel (indent ++ INDENT_DOTS) false f
      ++ rep_lines indent n 0 (chunks nmem n (nlines_list fuel (indent ++ INDENT_CHARS) ms))
  | WValue i => vlines fuel indent false i
  end
with nlines_list (fuel : nat) (indent : str) (ns : wnodes) {struct ns} : list (list str) :=
  match ns with
  | WNil => []
  | WCons n r => nlines fuel indent n :: nlines_list fuel indent r
  end.

End Nodes.

Fixpoint nested_td_from (fuel : nat) (n : N) (i : N) (subs : list nsubset) : list str :=
  match subs with
  | [] => []
  | sub :: r =>
      subset_header (i + 1) n :: concat (nlines_list sub fuel [] (ns_nodes sub)) ++ nested_td_from fuel n (i + 1) r
  end.
Definition nested_td_lines (fuel : nat) (subs : list nsubset) : list str :=
  nested_td_from fuel (N.of_nat (length subs)) 0 subs.

(* ---- _render_bufr_message (the same in both text renderers) --------------------------- *)
Section Message.
Context {TD : Type} (td_lines : TD -> list str).

(* ret.extend(self._render_template_data(parameter.value).split('\n')): the template's
   lines are joined and split again before they are added *)
Definition param_lines (p : param TD) : list str :=
  match p with
  | PVal name v => [name ++ S_EQ ++ repr v]
  | PTemplate td => split_str NL (join NL (td_lines td))
  end.

Definition section_lines (s : section TD) : list str :=
  section_header (s_index s) :: flat_map param_lines (s_params s).

Definition message_lines (m : message TD) : list str :=
  m_key m :: flat_map section_lines (m_sections m).

Definition render_message (m : message TD) : str := join NL (message_lines m).

End Message.

Definition render_flat_text (m : message (list fsubset)) : str := render_message flat_td_lines m.
Definition render_nested_text (fuel : nat) (m : message (list nsubset)) : str :=
  render_message (nested_td_lines fuel) m.

(* =========================== parsers ================================================ *)

(* ---- subsets_flat_text_to_flat_json: what is done with one line ------------------------- *)
Definition classify_flat (line : str) : laction :=
  if prefixb TEXT_SECTION_HEADER line then ABreak
  else if prefixb TEXT_SUBSET_HEADER line then ANew
  else match leval (strip (skipn 81 line)) with          (* ast.literal_eval(line[81:].strip()) *)
       | Ok p => AApp (untuple p)
       | Err e => AErr e
       end.

(* ---- subsets_nested_text_to_flat_json: what is done with one line ------------------------ *)
Definition norm_line (raw : str) : str := strip (lstrip_dots (strip raw)).   (* .strip().lstrip('.').strip() *)

Definition is_quote (c : N) : bool := (c =? 34)%N || (c =? 39)%N.

(* the text handed to literal_eval *)
Definition nested_value_text (line : str) : option str :=
  let q := last line 0%N in
  if is_quote q then
    (* idxval = line.rfind(' b' + q, 0, len(line) - 1); line[idxval + 1:]   (idxval = -1: the whole line) *)
    match rfind [32%N; 98%N; q] (removelast line) with
    | Some i => Some (skipn (S i) line)
    | None => Some line
    end
  else after_last 32%N line.                               (* line.rsplit(' ', 1)[1] *)

Definition classify_nested (raw : str) : laction :=
  let line := norm_line raw in
  if prefixb TEXT_SECTION_HEADER line then ABreak
  else if prefixb TEXT_SUBSET_HEADER line then ANew
  else if prefixb [35%N] line || (prefixb S_ARROW2 line && negb (prefixb S_ARROW_A line)) || prefixb [51%N] line
  then ASkip
  else if negb (memc 32%N line) then ASkip
  else match nested_value_text line with
       | None => AErr EIndex
       | Some t =>
         match leval t with
         | Err e => AErr e
         | Ok v => if prefixb S_ARROW_A line then AIns v else AApp v
         end
       end.

(* ---- the loop both subsets_*_text_to_flat_json functions share --------------------------- *)
(* while True: line = lines[idxline] ...   (IndexError past the last line);
   the remaining lines stand for idxline *)
Fixpoint subsets_loop (classify : str -> laction) (acc : list (list pyv)) (ls : list str)
  : result (list str * list (list pyv)) :=
  match ls with
  | [] => Err EIndex
  | raw :: rest =>
    match classify raw with
    | ABreak => Ok (ls, acc)
    | ANew => subsets_loop classify (acc ++ [[]]) rest
    | ASkip => subsets_loop classify acc rest
    | AApp v => match on_last (fun l => l ++ [v]) acc with
                | Some acc' => subsets_loop classify acc' rest
                | None => Err EIndex
                end
    | AIns v => match on_last (insert_m1 v) acc with
                | Some acc' => subsets_loop classify acc' rest
                | None => Err EIndex
                end
    | AErr e => Err e
    end
  end.

Definition subsets_flat_text_to_flat_json (ls : list str) := subsets_loop classify_flat [] ls.
Definition subsets_nested_text_to_flat_json (ls : list str) := subsets_loop classify_nested [] ls.

(* ---- section_text_to_flat_json ----------------------------------------------------------- *)
Section Parse.
Context (func_subsets : list str -> result (list str * list (list pyv))).

(* the while loop; [fuel] only makes the recursion structural (func_subsets returns the
   remaining lines): the callers give more fuel than there are lines *)
Fixpoint section_loop (fuel : nat) (data : list item) (ls : list str) : result (list str * list item) :=
  match fuel with
  | O => Err EFuel
  | S k =>
    match ls with
    | [] => Ok ([], data)
    | line :: rest =>
      if prefixb TEXT_SECTION_HEADER line then Ok (ls, data)
      else if prefixb TEXT_SUBSET_HEADER line then
        let* (ls', subs) := func_subsets ls in
        section_loop k (data ++ [ITemplate subs]) ls'
      else
        match split_str S_EQ line with                    (* parameter_name, value = line.split(' = ') *)
        | [_; value] =>
          match leval value with
          | Ok p => section_loop k (data ++ [IVal p]) rest
          | Err e => Err e
          end
        | _ => Err EValue                                 (* unpacking fails *)
        end
    end
  end.

(* idxline += 1  # skip the section header *)
Definition section_text_to_flat_json (ls : list str) : result (list str * list item) :=
  section_loop (S (length ls)) [] (tl ls).

(* while idxline < len(lines): ... *)
Fixpoint text_loop (fuel : nat) (out : list (list item)) (ls : list str) : result (list (list item)) :=
  match fuel with
  | O => Err EFuel
  | S k =>
    match ls with
    | [] => Ok out
    | _ :: _ =>
      let* (ls', sec) := section_text_to_flat_json ls in
      text_loop k (out ++ [sec]) ls'
    end
  end.

(* lines = text.splitlines()[1:] *)
Definition text_to_flat_json (text : str) : result (list (list item)) :=
  let ls := tl (splitlines text) in text_loop (S (length ls)) [] ls.

End Parse.

Definition flat_text_to_flat_json (text : str) := text_to_flat_json subsets_flat_text_to_flat_json text.
Definition nested_text_to_flat_json (text : str) := text_to_flat_json subsets_nested_text_to_flat_json text.

End Text.

(* ---- the flat JSON of a message (FlatJsonRenderer) ---------------------------------------- *)
Definition item_of {TD} (tdv : TD -> list (list value)) (p : param TD) : item :=
  match p with
  | PVal _ v => IVal v
  | PTemplate td => ITemplate (map (map PyV) (tdv td))
  end.

Definition flat_json_of {TD} (tdv : TD -> list (list value)) (m : message TD) : list (list item) :=
  map (fun s => map (item_of tdv) (s_params s)) (m_sections m).

Definition fsubset_values (s : fsubset) : list value := map fc_val (snd s).
Definition flat_td_values (td : list fsubset) : list (list value) := map fsubset_values td.
Definition nested_td_values (td : list nsubset) : list (list value) := map ns_vals td.
