(* TextFmtExamples.v — concrete instances for the text round-trip theorems (C09):
   a toy repr / literal_eval pair (enough of Python's for the examples) and small
   messages that satisfy the side conditions. *)
From PBK Require Import Base Descr Walk Wire Nested TextFmt TextFmtSpec TextFmtStrings TextFmtProofs TextFmtBody TextFmtFlat.
From PBK Require Script.

(* ---- a toy repr: ints, None, bytes without quotes or escapes, (v, [bits]), bools, int lists ---- *)
Definition toy_int (z : Z) : str :=
  match z with Zneg p => 45%N :: dec (Npos p) | _ => dec (Z.to_N z) end.
Fixpoint toy_commas (l : list str) : str :=
  match l with [] => [] | x :: r => match r with [] => x | _ :: _ => x ++ [44; 32]%N ++ toy_commas r end end.
Definition toy_value (v : value) : str :=
  match v with
  | VInt z => toy_int z
  | VDec m s => toy_int m ++ [101; 45]%N ++ toy_int s           (* 15e-1 *)
  | VDyad m e => toy_int m ++ [42; 50; 42; 42]%N ++ toy_int e     (* not a literal: unused *)
  | VBytes b => [98; 39]%N ++ b ++ [39]%N                         (* b'...' *)
  | VNone => [78; 111; 110; 101]%N
  end.
Definition toy_repr (p : pyv) : str :=
  match p with
  | PyV v => toy_value v
  | PyTup v bits => [40%N] ++ toy_value v ++ [44; 32; 91]%N ++ toy_commas (map dec bits) ++ [93; 41]%N
  | PyBool true => [84; 114; 117; 101]%N
  | PyBool false => [70; 97; 108; 115; 101]%N
  | PyInts l => [91%N] ++ toy_commas (map toy_int l) ++ [93%N]
  end.

Fixpoint str_eqb (a b : str) : bool :=
  match a, b with
  | [], [] => true
  | x :: a', y :: b' => (x =? y)%N && str_eqb a' b'
  | _, _ => false
  end.

(* literal_eval on the texts of a given finite universe of objects *)
Definition toy_leval (univ : list pyv) (s : str) : result pyv :=
  match find (fun p => str_eqb (toy_repr p) s) univ with Some p => Ok p | None => Err EValue end.

Ltac ex_crush :=
  repeat match goal with
         | |- Forall _ [] => constructor
         | |- Forall _ (_ :: _) => constructor
         | |- _ /\ _ => split
         | |- True => exact I
         | |- _ <> _ => discriminate
         | |- _ = _ => vm_compute; reflexivity
         end.

(* ---- a flat text message ---------------------------------------------------------------------- *)
Definition lit (l : list N) : str := l.
(* "edition", "n_subsets", "template_data" are not needed: any names without ' = ' do *)
Definition nm_edition : str := [101;100;105;116;105;111;110]%N.
Definition nm_flag : str := [105;115;95;111;98;115]%N.
Definition nm_ids : str := [105;100;115]%N.
Definition nm_stop : str := [115;116;111;112]%N.

Definition ex_cells1 : list fcell :=
  [ mkFcell [48;48;49;48;48;49;32;66;76;79;67;75]%N (VInt 94) None;                       (* 001001 BLOCK *)
    mkFcell [48;50;48;48;48;51;32;87;88]%N (VInt 5) (Some [6; 8]%N);                       (* flag table: (5, [6, 8]) *)
    mkFcell [48;48;49;48;49;53;32;78;65;77;69]%N (VBytes [65;32;98;39;32;66]%N) None;        (* b'A b' B' *)
    mkFcell [48;51;51;48;48;55;32;37;32;67;79;78;70]%N (VInt 70) None;                     (* linked to index 0 *)
    mkFcell (repeat 88%N 100) VNone (Some []);                                             (* long text, None *)
    mkFcell [48;49;50;48;48;49]%N (VDec 2805 1) None ].
Definition ex_links1 : list (N * N) := [(3, 0)]%N.
Definition ex_cells2 : list fcell := [ mkFcell [48;48;49;48;48;49]%N (VInt (-3)) None ].

Definition ex_flat_msg : message (list fsubset) :=
  mkMessage [75;69;89]%N
    [ mkSection 0 [PVal nm_edition (PyV (VInt 4))];
      mkSection 1 [PVal nm_flag (PyBool true); PVal nm_ids (PyInts [309052; 1001]%Z)];
      mkSection 4 [PVal nm_edition (PyV (VInt 20)); PTemplate [(ex_links1, ex_cells1); ([], ex_cells2); ([], [])]];
      mkSection 5 [PVal nm_stop (PyV (VBytes [55;55;55;55]%N))] ].

Definition ex_flat_univ : list pyv :=
  [PyV (VInt 4); PyBool true; PyInts [309052; 1001]%Z; PyV (VInt 20); PyV (VBytes [55;55;55;55]%N)]
  ++ map fobj (ex_cells1 ++ ex_cells2).

Example ex_flat_ok : flat_message_ok toy_repr (toy_leval ex_flat_univ) ex_flat_msg.
Proof.
  split; [vm_compute; reflexivity|]. split; [vm_compute; reflexivity|].
  cbv [ex_flat_msg m_sections s_params ex_cells1 ex_cells2 flat_param_ok flat_td_ok fsubset_ok fcells_ok fcell_ok fst snd].
  ex_crush.
Qed.

Example ex_flat_roundtrip :
  flat_text_to_flat_json (toy_leval ex_flat_univ) (render_flat_text toy_repr ex_flat_msg)
  = Ok [ [IVal (PyV (VInt 4))];
         [IVal (PyBool true); IVal (PyInts [309052; 1001]%Z)];
         [IVal (PyV (VInt 20));
          ITemplate [ [PyV (VInt 94); PyV (VInt 5); PyV (VBytes [65;32;98;39;32;66]%N); PyV (VInt 70); PyV VNone; PyV (VDec 2805 1)];
                      [PyV (VInt (-3))]; [] ]];
         [IVal (PyV (VBytes [55;55;55;55]%N))] ].
Proof. vm_compute. reflexivity. Qed.

(* ================================ nested text ==================================================== *)
From PBK Require Import WireProofs NestedProofs TextFmtNested TextFmtNestedTree TextFmtNestedTop.

Definition xe (id : N) : desc := DElem (mkElem id [] 0 0 8).
(* 204008 031021 012001 204000 | 101000 031001 012001 | 222000 236000 101002 031031 | 033007 033007 | 001015 *)
Definition exn_T : descs :=
  DCons (DOper 204008) (DCons (xe 31021) (DCons (xe 12001) (DCons (DOper 204000)
  (DCons (DDelayed 101000 (xe 31001) (DCons (xe 12001) DNil))
  (DCons (DOper 222000) (DCons (DOper 236000) (DCons (DFixed 101002 (DCons (xe 31031) DNil))
  (DCons (xe 33007) (DCons (xe 33007) (DCons (xe 1015) DNil)))))))))).
Definition exn_vals : list value :=
  [VInt 1; VInt 3; VInt 280; VInt 2; VInt 10; VInt 11; VInt 0; VInt 0; VInt 0; VInt 0; VInt 70; VNone;
   VBytes [97;98;32;99;100]%N].
Definition exn_links : list (N * N) := [(10, 2); (11, 4)]%N.

Definition d6 (a b c d e f : N) : str := [a; b; c; d; e; f].
Definition exn_dstr (i : N) : str :=
  nth (N.to_nat i)
    [d6 48 51 49 48 50 49; d6 65 49 50 48 48 49; d6 48 49 50 48 48 49; d6 48 51 49 48 48 49;
     d6 48 49 50 48 48 49; d6 48 49 50 48 48 49; d6 50 50 50 48 48 48; d6 50 51 54 48 48 48;
     d6 48 51 49 48 51 49; d6 48 51 49 48 51 49; d6 48 51 51 48 48 55; d6 48 51 51 48 48 55;
     d6 48 48 49 48 49 53]%N [].
(* "AIR TEMP" for every index: a description with a blank *)
Definition exn_descr (i : N) : str := [65;73;82;32;84;69;77;80]%N.
(* str(node) of the no-value nodes: the six digits; a sequence would add its name *)
Definition exn_nvstr (id : N) : str :=
  if (id <? 100000)%N then [48%N] ++ dec id ++ [32; 84; 69; 77; 80]%N       (* 0xxyyy TEMP: an element *)
  else dec id.

Definition exn_sub (nodes : wnodes) (s : wst) : nsubset :=
  mkNsubset nodes (x_attrs s) exn_vals exn_dstr exn_descr exn_nvstr.

Definition exn_msg (nodes : wnodes) (s : wst) : message (list nsubset) :=
  mkMessage [75;69;89]%N
    [ mkSection 1 [PVal nm_edition (PyV (VInt 4))];
      mkSection 4 [PVal nm_edition (PyV (VInt 20)); PTemplate [exn_sub nodes s; exn_sub nodes s]];
      mkSection 5 [PVal nm_stop (PyV (VBytes [55;55;55;55]%N))] ].

Definition exn_univ : list pyv :=
  [PyV (VInt 4); PyV (VInt 20); PyV (VBytes [55;55;55;55]%N)] ++ map PyV exn_vals.

Notation exn_wired := (wire 13 exn_vals exn_links exn_T).

Example exn_wire_ok : exists nodes s, exn_wired = Ok (nodes, s) /\ x_next s = 13%N /\
  x_attrs s = [(1, 0, false); (2, 1, true); (2, 10, false); (4, 11, false)]%N.
Proof. eexists; eexists. split; [vm_compute; reflexivity|]. split; reflexivity. Qed.

(* an associated field (A12001 before 012001), a quality value linked by the bitmap to 012001 (index 2)
   and to a member of the delayed replication (index 4), a delayed replication with two repetitions,
   a fixed one; two subsets *)
Example exn_sub_ok : forall nodes s, exn_wired = Ok (nodes, s) ->
  nsubset_ok toy_repr (toy_leval exn_univ) (exn_sub nodes s).
Proof.
  intros nodes s E. vm_compute in E. injection E as <- <-.
  split.
  - split; [|split; vm_compute; reflexivity].
    apply idx_ok_by_list. unfold idx_ok. vm_compute span. ex_crush.
  - split; [vm_compute; reflexivity|]. split; [vm_compute; reflexivity|]. split; [|vm_compute; reflexivity].
    cbn. repeat split; reflexivity.
Qed.

Example exn_pvals_ok :
  (pval_line_ok nm_edition (toy_repr (PyV (VInt 4))) = true /\ toy_leval exn_univ (toy_repr (PyV (VInt 4))) = Ok (PyV (VInt 4))) /\
  (pval_line_ok nm_edition (toy_repr (PyV (VInt 20))) = true /\ toy_leval exn_univ (toy_repr (PyV (VInt 20))) = Ok (PyV (VInt 20))) /\
  (pval_line_ok nm_stop (toy_repr (PyV (VBytes [55;55;55;55]%N))) = true /\
   toy_leval exn_univ (toy_repr (PyV (VBytes [55;55;55;55]%N))) = Ok (PyV (VBytes [55;55;55;55]%N))).
Proof. repeat split; vm_compute; reflexivity. Qed.

Example exn_ok : forall nodes s, exn_wired = Ok (nodes, s) ->
  nested_message_ok toy_repr (toy_leval exn_univ) (exn_msg nodes s).
Proof.
  intros nodes s E. pose proof (exn_sub_ok nodes s E) as S1. destruct exn_pvals_ok as (P1 & P2 & P3).
  split; [vm_compute; reflexivity|]. split; [vm_compute; reflexivity|].
  cbv [exn_msg m_sections s_params].
  constructor; [constructor; [exact P1|constructor]|].
  constructor; [constructor; [exact P2|constructor; [|constructor]]|].
  - split; [discriminate|]. constructor; [exact S1|]. constructor; [exact S1|constructor].
  - constructor; [constructor; [exact P3|constructor]|constructor].
Qed.

Example exn_roundtrip : forall nodes s, exn_wired = Ok (nodes, s) ->
  nested_text_to_flat_json (toy_leval exn_univ) (render_nested_text toy_repr 3 (exn_msg nodes s))
  = Ok [ [IVal (PyV (VInt 4))];
         [IVal (PyV (VInt 20)); ITemplate [map PyV exn_vals; map PyV exn_vals]];
         [IVal (PyV (VBytes [55;55;55;55]%N))] ].
Proof. intros nodes s E. vm_compute in E. injection E as <- <-. vm_compute. reflexivity. Qed.

(* D21: an element skipped by 221YYY is printed '012001 TEMP' without a value; the parser takes
   'TEMP' for a value.  Every other side condition holds. *)
Definition exd_T : descs := DCons (DOper 221002) (DCons (xe 12001) (DCons (xe 1001) DNil)).
Definition exd_vals : list value := [VInt 7].
Definition exd_sub (nodes : wnodes) (s : wst) : nsubset :=
  mkNsubset nodes (x_attrs s) exd_vals (fun _ => d6 48 48 49 48 48 49) exn_descr exn_nvstr.
Definition exd_msg (nodes : wnodes) (s : wst) : message (list nsubset) :=
  mkMessage [75;69;89]%N
    [ mkSection 4 [PTemplate [exd_sub nodes s]]; mkSection 5 [PVal nm_stop (PyV (VInt 7))] ].

Example exd_refuted : exists nodes s,
  wire 1 exd_vals [] exd_T = Ok (nodes, s) /\ x_next s = 1%N /\
  nodes = WCons (WNoValue 221002) (WCons (WNoValue 12001) (WCons (WValue 0) WNil)) /\
  nsubset_tree_ok (exd_sub nodes s) /\
  (forall i, (i < 1)%N -> idx_ok toy_repr (toy_leval [PyV (VInt 7)]) (exd_sub nodes s) i) /\
  nv_ok exn_nvstr 221002 = true /\ nv_ok exn_nvstr 12001 = false /\
  nested_text_to_flat_json (toy_leval [PyV (VInt 7)]) (render_nested_text toy_repr 3 (exd_msg nodes s)) = Err EValue.
Proof.
  eexists; eexists. split; [vm_compute; reflexivity|]. split; [reflexivity|]. split; [reflexivity|].
  split; [|split; [|split; [|split]]]; try (vm_compute; reflexivity).
  - repeat split; vm_compute; reflexivity.
  - apply idx_ok_by_list. unfold idx_ok. vm_compute span. ex_crush.
Qed.

(* no subset at all: both renderers emit one empty line for the template data
   (''.split('\n') == ['']) and section_text_to_flat_json cannot split it at ' = ' *)
Definition exz_flat : message (list fsubset) :=
  mkMessage [75;69;89]%N [ mkSection 4 [PTemplate []]; mkSection 5 [PVal nm_stop (PyV (VInt 7))] ].
Definition exz_nested : message (list nsubset) :=
  mkMessage [75;69;89]%N [ mkSection 4 [PTemplate []]; mkSection 5 [PVal nm_stop (PyV (VInt 7))] ].

Example exz_refuted :
  sections_shape (m_sections exz_flat) = true /\
  pval_line_ok nm_stop (toy_repr (PyV (VInt 7))) = true /\
  toy_leval [PyV (VInt 7)] (toy_repr (PyV (VInt 7))) = Ok (PyV (VInt 7)) /\
  flat_text_to_flat_json (toy_leval [PyV (VInt 7)]) (render_flat_text toy_repr exz_flat) = Err EValue /\
  nested_text_to_flat_json (toy_leval [PyV (VInt 7)]) (render_nested_text toy_repr 3 exz_nested) = Err EValue /\
  flat_json_of flat_td_values exz_flat = [[ITemplate []]; [IVal (PyV (VInt 7))]].
Proof. repeat split; vm_compute; reflexivity. Qed.

From PBK Require Import TextFmtWire TextFmtC09.

Example exn_sub_wired : forall nodes s, exn_wired = Ok (nodes, s) -> nsubset_wired (exn_sub nodes s).
Proof.
  intros nodes s E. exists 13%N, exn_links, exn_T, s.
  change (wire 13 exn_vals exn_links exn_T = Ok (nodes, s) /\ x_attrs s = x_attrs s /\ x_next s = 13%N).
  split; [exact E|]. split; [reflexivity|].
  vm_compute in E. injection E as <- <-. reflexivity.
Qed.

Example exn_wired_ok : forall nodes s, exn_wired = Ok (nodes, s) ->
  nested_wired_message_ok toy_repr (toy_leval exn_univ) (exn_msg nodes s).
Proof.
  intros nodes s E. pose proof (exn_sub_ok nodes s E) as [T1 _]. destruct exn_pvals_ok as (P1 & P2 & P3).
  pose proof (exn_sub_wired nodes s E) as W.
  split; [vm_compute; reflexivity|]. split; [vm_compute; reflexivity|].
  cbv [exn_msg m_sections s_params].
  constructor; [constructor; [exact P1|constructor]|].
  constructor; [constructor; [exact P2|constructor; [|constructor]]|].
  - split; [discriminate|]. constructor; [split; [exact T1|exact W]|]. constructor; [split; [exact T1|exact W]|constructor].
  - constructor; [constructor; [exact P3|constructor]|constructor].
Qed.
