(* TextFmtExamples.v — concrete instances for the text round-trip theorems (C09):
   a toy repr / literal_eval pair (enough of Python's for the examples) and small
   messages that satisfy the side conditions. *)
From PBK Require Import Base Descr Walk Wire Nested TextFmt TextFmtSpec TextFmtStrings TextFmtProofs TextFmtBody TextFmtFlat.
From PBK Require Script.

(* ---- a toy repr: ints, None, bytes without quotes or escapes, (v, [bits]), bools, int lists ---- *)
Definition toy_int (z : Z) : str :=
  match z with Zneg p => 45%N :: dec (Npos p) | _ => dec (Z.to_N z) end.
Fixpoint toy_commas (l : list str) : str :=
  match l with [] => [] | x :: r => match r with [] => x | _ :: _ => x ++ [44; 32]%N ++ toy_commas r end end.
Definition toy_value (v : value) : str :=
  match v with
  | VInt z => toy_int z
  | VDec m s => toy_int m ++ [101; 45]%N ++ toy_int s           (* 15e-1 *)
  | VDyad m e => toy_int m ++ [42; 50; 42; 42]%N ++ toy_int e     (* not a literal: unused *)
  | VBytes b => [98; 39]%N ++ b ++ [39]%N                         (* b'...' *)
  | VNone => [78; 111; 110; 101]%N
  end.
Definition toy_repr (p : pyv) : str :=
  match p with
  | PyV v => toy_value v
  | PyTup v bits => [40%N] ++ toy_value v ++ [44; 32; 91]%N ++ toy_commas (map dec bits) ++ [93; 41]%N
  | PyBool true => [84; 114; 117; 101]%N
  | PyBool false => [70; 97; 108; 115; 101]%N
  | PyInts l => [91%N] ++ toy_commas (map toy_int l) ++ [93%N]
  end.

Fixpoint str_eqb (a b : str) : bool :=
  match a, b with
  | [], [] => true
  | x :: a', y :: b' => (x =? y)%N && str_eqb a' b'
  | _, _ => false
  end.

(* literal_eval on the texts of a given finite universe of objects *)
Definition toy_leval (univ : list pyv) (s : str) : result pyv :=
  match find (fun p => str_eqb (toy_repr p) s) univ with Some p => Ok p | None => Err EValue end.

Ltac ex_crush :=
  repeat match goal with
         | |- Forall _ [] => constructor
         | |- Forall _ (_ :: _) => constructor
         | |- _ /\ _ => split
         | |- True => exact I
         | |- _ <> _ => discriminate
         | |- _ = _ => vm_compute; reflexivity
         end.

(* ---- a flat text message ---------------------------------------------------------------------- *)
Definition lit (l : list N) : str := l.
(* "edition", "n_subsets", "template_data" are not needed: any names without ' = ' do *)
Definition nm_edition : str := [101;100;105;116;105;111;110]%N.
Definition nm_flag : str := [105;115;95;111;98;115]%N.
Definition nm_ids : str := [105;100;115]%N.
Definition nm_stop : str := [115;116;111;112]%N.

Definition ex_cells1 : list fcell :=
  [ mkFcell [48;48;49;48;48;49;32;66;76;79;67;75]%N (VInt 94) None;                       (* 001001 BLOCK *)
    mkFcell [48;50;48;48;48;51;32;87;88]%N (VInt 5) (Some [6; 8]%N);                       (* flag table: (5, [6, 8]) *)
    mkFcell [48;48;49;48;49;53;32;78;65;77;69]%N (VBytes [65;32;98;39;32;66]%N) None;        (* b'A b' B' *)
    mkFcell [48;51;51;48;48;55;32;37;32;67;79;78;70]%N (VInt 70) None;                     (* linked to index 0 *)
    mkFcell (repeat 88%N 100) VNone (Some []);                                             (* long text, None *)
    mkFcell [48;49;50;48;48;49]%N (VDec 2805 1) None ].
Definition ex_links1 : list (N * N) := [(3, 0)]%N.
Definition ex_cells2 : list fcell := [ mkFcell [48;48;49;48;48;49]%N (VInt (-3)) None ].

Definition ex_flat_msg : message (list fsubset) :=
  mkMessage [75;69;89]%N
    [ mkSection 0 [PVal nm_edition (PyV (VInt 4))];
      mkSection 1 [PVal nm_flag (PyBool true); PVal nm_ids (PyInts [309052; 1001]%Z)];
      mkSection 4 [PVal nm_edition (PyV (VInt 20)); PTemplate [(ex_links1, ex_cells1); ([], ex_cells2); ([], [])]];
      mkSection 5 [PVal nm_stop (PyV (VBytes [55;55;55;55]%N))] ].

Definition ex_flat_univ : list pyv :=
  [PyV (VInt 4); PyBool true; PyInts [309052; 1001]%Z; PyV (VInt 20); PyV (VBytes [55;55;55;55]%N)]
  ++ map fobj (ex_cells1 ++ ex_cells2).

Example ex_flat_ok : flat_message_ok toy_repr (toy_leval ex_flat_univ) ex_flat_msg.
Proof.
  split; [vm_compute; reflexivity|]. split; [vm_compute; reflexivity|].
  cbv [ex_flat_msg m_sections s_params ex_cells1 ex_cells2 flat_param_ok flat_td_ok fsubset_ok fcells_ok fcell_ok fst snd].
  ex_crush.
Qed.

Example ex_flat_roundtrip :
  flat_text_to_flat_json (toy_leval ex_flat_univ) (render_flat_text toy_repr ex_flat_msg)
  = Ok [ [IVal (PyV (VInt 4))];
         [IVal (PyBool true); IVal (PyInts [309052; 1001]%Z)];
         [IVal (PyV (VInt 20));
          ITemplate [ [PyV (VInt 94); PyV (VInt 5); PyV (VBytes [65;32;98;39;32;66]%N); PyV (VInt 70); PyV VNone; PyV (VDec 2805 1)];
                      [PyV (VInt (-3))]; [] ]];
         [IVal (PyV (VBytes [55;55;55;55]%N))] ].
Proof. vm_compute. reflexivity. Qed.
