(* Nested.v — the nested JSON image of a wired tree (renderer.NestedJsonRenderer)
   and the conversion back to the flat order (utils.
   template_data_nested_json_to_flat_json).  Values are represented by their
   flat indices. *)
From PBK Require Import Base Descr Walk Wire.

Inductive jv := JV (idx : N) (virtual : bool) (attrs : list jv).

Inductive jn :=
  | JNo (id : N)                                           (* no 'value', no 'members' *)
  | JSeqN (id : N) (ms : list jn)
  | JRep (id : N) (factor : option jv) (reps : list (list jn))
  | JVal (v : jv).

Section Render.
Context (attrs : list attr)
        (is_assoc_label : N -> bool)      (* decoded_descriptors[i] is an AssociatedDescriptor *)
        (vals : list value).

Definition attrs_of (i : N) : list N :=
  map (fun a => snd (fst a)) (filter (fun a => (fst (fst a) =? i)%N) attrs).

(* _render_template_data_value_node: attributes rendered recursively *)
Fixpoint render_value (fuel : nat) (is_attribute : bool) (i : N) : jv :=
  match fuel with
  | O => JV i (is_attribute && negb (is_assoc_label i)) []
  | S k => JV i (is_attribute && negb (is_assoc_label i)) (map (render_value k true) (attrs_of i))
  end.

Fixpoint take_nodes (n : nat) (ns : wnodes) : wnodes * wnodes :=
  match n, ns with
  | O, _ => (WNil, ns)
  | S k, WNil => (WNil, WNil)
  | S k, WCons x r => let '(a, b) := take_nodes k r in (WCons x a, b)
  end.

Definition count_of (v : option value) : nat :=
  match v with Some (VInt z) => Z.to_nat z | _ => O end.

(* members[ir * n_members : (ir + 1) * n_members] for ir in range(n_repeats) *)
Fixpoint chunks {A} (nmem nrep : nat) (l : list A) : list (list A) :=
  match nrep with
  | O => []
  | S k => firstn nmem l :: chunks nmem k (skipn nmem l)
  end.

Fixpoint render_node (fuel : nat) (n : wnode) {struct n} : jn :=
  match n with
  | WNoValue id => JNo id
  | WSeq id ms => JSeqN id (render_nodes fuel ms)
  | WFixed id nmem nrep ms =>
      JRep id None (chunks nmem (N.to_nat nrep) (render_nodes fuel ms))
  | WDelayed id nmem f ms =>
      JRep id (Some (render_value fuel false f))
           (chunks nmem (count_of (nth_error vals (N.to_nat f))) (render_nodes fuel ms))
  | WValue i => JVal (render_value fuel false i)
  end
with render_nodes (fuel : nat) (ns : wnodes) {struct ns} : list jn :=
  match ns with
  | WNil => []
  | WCons n r => render_node fuel n :: render_nodes fuel r
  end.

End Render.

(* utils.template_data_nested_json_to_flat_json, on indices *)
Definition flat_value (v : jv) : list N :=
  match v with
  | JV i _ ats =>
      flat_map (fun a => match a with JV ai virt _ => if virt then [] else [ai] end) ats ++ [i]
  end.

Fixpoint flat_jn (n : jn) : list N :=
  match n with
  | JNo _ => []
  | JSeqN _ ms => flat_map flat_jn ms
  | JRep _ f reps =>
      (match f with Some v => flat_value v | None => [] end) ++
      flat_map (fun rep => flat_map flat_jn rep) reps
  | JVal v => flat_value v
  end.

Definition nested_to_flat (l : list jn) : list N := flat_map flat_jn l.
