(* Float53Proofs.v — the integer-level facts about rounding used by C03. *)
From PBK Require Import Base Descr Float53 Decode Encode RoundTrip.
From Coq Require Import ZifyBool ZifyNat ZifyN.

(* round(x) is within one half of x, for every dyadic x = m * 2^e *)
Lemma round_half_even_bound m e : (e < 0)%Z ->
  (2 * Z.abs (round_half_even (m, e) * 2 ^ (- e) - m) <= 2 ^ (- e))%Z.
Proof.
  intros He. unfold round_half_even. destruct (Z.leb_spec 0 e); [lia|].
  set (d := (2 ^ (- e))%Z).
  assert (Hd : (0 < d)%Z) by (apply Z.pow_pos_nonneg; lia).
  pose proof (Z.div_mod m d ltac:(lia)) as Hdm.
  pose proof (Z.mod_pos_bound m d Hd) as Hr.
  set (q := (m / d)%Z) in *. set (r := (m mod d)%Z) in *.
  destruct (Z.ltb_spec (2 * r) d); [nia|].
  destruct (Z.gtb_spec (2 * r) d); [nia|].
  destruct (Z.even q); nia.
Qed.

Lemma round_half_even_exact m e : (0 <= e)%Z -> round_half_even (m, e) = (m * 2 ^ e)%Z.
Proof. intros He. unfold round_half_even. destruct (Z.leb_spec 0 e); [reflexivity|lia]. Qed.

(* an integer on the grid is its own rounding: round(k * 2^0) = k *)
Lemma round_half_even_int k : round_half_even (k, 0%Z) = k.
Proof. rewrite round_half_even_exact by lia. lia. Qed.

(* scale 0: integers are coded without any rounding and read back exactly *)
Lemma int_roundtrip_exact z refval nbits :
  (0 <= z - refval)%Z -> ~ ((1 < nbits)%Z /\ (z - refval = 2 ^ nbits - 1)%Z) ->
  exists raw, scaled_int (VInt z) 0 refval = Ok raw /\ dec_of_raw nbits raw 0 refval = VInt z.
Proof.
  intros Hz Hm. exists (z - refval)%Z. split; [reflexivity|].
  unfold dec_of_raw, numeric_value.
  destruct ((1 <? nbits)%Z && (z - refval =? 2 ^ nbits - 1)%Z) eqn:Hb; [exfalso; apply Hm; lia|].
  cbn [Z.eqb]. f_equal. lia.
Qed.

(* the value that reads back is the scaled integer the encoder computed, divided
   by 10^scale: decode(encode v) = (round(fl(v * 10^s)) - ref + ref) / 10^s *)
Lemma ghost_is_scaled_int v nbits scale refval raw :
  scaled_int v scale refval = Ok raw -> (0 <= raw)%Z ->
  ~ ((1 < nbits)%Z /\ raw = (2 ^ nbits - 1)%Z) -> scale <> 0%Z ->
  dec_of_raw nbits raw scale refval = VDec (raw + refval) scale.
Proof.
  intros _ Hr Hm Hs. unfold dec_of_raw, numeric_value.
  destruct ((1 <? nbits)%Z && (raw =? 2 ^ nbits - 1)%Z) eqn:Hb; [exfalso; apply Hm; lia|].
  destruct (Z.eqb_spec scale 0); [contradiction|]. f_equal. lia.
Qed.

(* the all-ones pattern of a field wider than one bit reads back as missing:
   the sole exception the property allows *)
Lemma allones_reads_missing nbits scale refval : (1 < nbits)%Z ->
  dec_of_raw nbits (2 ^ nbits - 1) scale refval = VNone.
Proof.
  intros Hn. unfold dec_of_raw.
  destruct (Z.ltb_spec 1 nbits); [|lia]. rewrite Z.eqb_refl. reflexivity.
Qed.

(* missing is written as all ones and reads back as missing (width 2..64) *)
Lemma missing_roundtrip nbits scale refval : (1 < nbits <= 64)%Z ->
  exists raw, missing_for nbits = Ok raw /\ dec_of_raw nbits raw scale refval = VNone.
Proof.
  intros Hn. exists (2 ^ nbits - 1)%Z. split; [|apply allones_reads_missing; lia].
  unfold missing_for. destruct (Z.ltb_spec 64 nbits); [lia|].
  destruct (Z.ltb_spec nbits (-65)); [lia|]. destruct (Z.ltb_spec nbits 0); [lia|reflexivity].
Qed.
