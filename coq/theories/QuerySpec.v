(* QuerySpec.v — C16: what one step of a data query selects.
   filter_for_entities (dataquery.py), for every node list and every component:
   the nodes whose label equals the component's id, cut by the component's slice
   (Python semantics), returned in DOCUMENT order together with their positions;
   the early return of the integer case changes nothing; on a descendant step the
   composite nodes to descend into are merged in, again in document order. *)
From PBK Require Import Base Descr Walk Wire PySlice PathParser Query QueryProofs.
From Coq Require Import ZifyBool ZifyNat ZifyN.

Section S.
Context (attrs : list attr) (labels : list (list char)).
Local Notation nm := (node_matches attrs labels).
Local Notation ffe_loop := (ffe_loop attrs labels).
Local Notation ffe := (filter_for_entities attrs labels).

Definition is1 (c : comp) (p : nat * qn) : bool := (nm (snd p) c =? 1)%N.
Definition is2 (c : comp) (p : nat * qn) : bool := (nm (snd p) c =? 2)%N.

Lemma nm_not2 c n : (c_sep c =? SEP_DESCEND)%N = false -> (nm n c =? 2)%N = false.
Proof.
  intros H. unfold node_matches. destruct (chars_eqb _ _); [reflexivity|]. rewrite H. reflexivity.
Qed.

Lemma filter_is2_nil c l : (c_sep c =? SEP_DESCEND)%N = false -> filter (is2 c) l = [].
Proof.
  intros H. induction l as [|x l IH]; [reflexivity|]. cbn [filter]. unfold is2 at 1. rewrite nm_not2 by exact H. exact IH.
Qed.

(* no early return: slices, and integers on a descendant step *)
Lemma ffe_loop_all c :
  (match c_slice c with SInt _ => (c_sep c =? SEP_DESCEND)%N = true | SSlice _ _ _ => True end) ->
  forall nodes kept matched,
  ffe_loop c nodes kept matched = inl (kept ++ filter (is2 c) nodes, matched ++ filter (is1 c) nodes).
Proof.
  intros Hc. induction nodes as [|[i n] r IH]; intros kept matched; cbn [Query.ffe_loop filter].
  - rewrite !app_nil_r. reflexivity.
  - cbv zeta. change (is1 c (i, n)) with ((nm n c =? 1)%N). change (is2 c (i, n)) with ((nm n c =? 2)%N).
    destruct (c_slice c) as [k|a b st].
    + rewrite Hc. cbn [negb andb]. rewrite IH.
      destruct (nm n c =? 2)%N, (nm n c =? 1)%N; rewrite <- ?app_assoc; reflexivity.
    + rewrite IH. destruct (nm n c =? 2)%N, (nm n c =? 1)%N; rewrite <- ?app_assoc; reflexivity.
Qed.

(* the integer case on a child / attribute step, with its early return *)
Lemma ffe_loop_int c k : c_slice c = SInt k -> (c_sep c =? SEP_DESCEND)%N = false ->
  forall nodes kept matched, (Z.of_nat (length matched) <= k)%Z ->
  ffe_loop c nodes kept matched =
  match nth_error (matched ++ filter (is1 c) nodes) (Z.to_nat k) with
  | Some x => inr x
  | None => inl (kept, matched ++ filter (is1 c) nodes)
  end.
Proof.
  intros Hs Hd. induction nodes as [|[i n] r IH]; intros kept matched Hk; cbn [Query.ffe_loop filter].
  - rewrite app_nil_r. replace (nth_error matched (Z.to_nat k)) with (@None (nat * qn)); [reflexivity|].
    symmetry. apply nth_error_None. lia.
  - cbv zeta. change (is1 c (i, n)) with ((nm n c =? 1)%N). rewrite Hs, Hd. cbn [negb andb].
    rewrite (nm_not2 c n Hd).
    destruct (nm n c =? 1)%N.
    + destruct (Z.ltb_spec k (Z.of_nat (length (matched ++ [(i, n)])))) as [Hlt|Hge].
      * rewrite rev_app_distr. cbn [rev app].
        rewrite app_length in Hlt. cbn [length] in Hlt.
        rewrite nth_error_app2 by lia. replace (Z.to_nat k - length matched)%nat with O by lia. reflexivity.
      * rewrite IH by exact Hge. rewrite <- app_assoc. reflexivity.
    + destruct (Z.ltb_spec k (Z.of_nat (length matched))); [lia|]. apply IH. exact Hk.
Qed.

(* ---- filter_for_entities ---------------------------------------------------------- *)
Definition matched_of (c : comp) (nodes : list qn) := filter (is1 c) (enumerate 0 nodes).
Definition kept_of (c : comp) (nodes : list qn) := filter (is2 c) (enumerate 0 nodes).

Theorem ffe_slice c a b st nodes : c_slice c = SSlice a b st ->
  ffe nodes c = (let* sel := py_slice (matched_of c nodes) a b st in Ok (sort_by_idx (sel ++ kept_of c nodes))).
Proof.
  intros Hs. unfold filter_for_entities. rewrite ffe_loop_all by (rewrite Hs; exact I).
  rewrite Hs. reflexivity.
Qed.

(* [k]: the k-th match (0-based), nothing when there are fewer *)
Theorem ffe_int c k nodes : c_slice c = SInt k -> (0 <= k)%Z -> (c_sep c =? SEP_DESCEND)%N = false ->
  ffe nodes c = Ok (match nth_error (matched_of c nodes) (Z.to_nat k) with Some x => [x] | None => [] end).
Proof.
  intros Hs Hk Hd. unfold filter_for_entities. rewrite (ffe_loop_int c k Hs Hd) by (cbn; lia).
  cbn [app]. fold (matched_of c nodes).
  destruct (nth_error (matched_of c nodes) (Z.to_nat k)) as [x|] eqn:E; [reflexivity|].
  rewrite Hs, E. reflexivity.
Qed.

Theorem ffe_int_descendant c k nodes : c_slice c = SInt k -> (c_sep c =? SEP_DESCEND)%N = true ->
  ffe nodes c = Ok (sort_by_idx ((match nth_error (matched_of c nodes) (Z.to_nat k) with
                                  | Some x => if (k <? Z.of_nat (length (matched_of c nodes)))%Z then [x] else []
                                  | None => [] end) ++ kept_of c nodes)).
Proof.
  intros Hs Hd. unfold filter_for_entities. rewrite ffe_loop_all by (rewrite Hs; exact Hd).
  rewrite Hs. reflexivity.
Qed.

End S.

(* ---- document order: sorting a selection = filtering the document ----------------- *)
Fixpoint ssorted (l : list (nat * qn)) : Prop :=
  match l with [] => True | x :: r => Forall (fun y => (fst x < fst y)%nat) r /\ ssorted r end.

Lemma enumerate_lower {A} (l : list A) : forall i y, In y (enumerate i l) -> (i <= fst y)%nat.
Proof.
  induction l as [|x l IH]; intros i y; cbn [enumerate In]; [tauto|].
  intros [<-|H]; [cbn; lia|]. apply IH in H. lia.
Qed.

Lemma ssorted_enumerate (l : list qn) : forall i, ssorted (enumerate i l).
Proof.
  induction l as [|x l IH]; intros i; cbn [enumerate ssorted]; [exact I|]. split; [|apply IH].
  apply Forall_forall. intros y Hy. apply enumerate_lower in Hy. cbn. lia.
Qed.

Lemma ssorted_filter f l : ssorted l -> ssorted (filter f l).
Proof.
  induction l as [|x l IH]; cbn [filter ssorted]; [tauto|]. intros [Hx Hl].
  destruct (f x); [|apply IH, Hl]. cbn [ssorted]. split; [|apply IH, Hl].
  rewrite Forall_forall in *. intros y Hy. apply filter_In in Hy as [Hy _]. apply Hx, Hy.
Qed.

Lemma ssorted_fst_inj l : ssorted l -> forall a b, In a l -> In b l -> fst a = fst b -> a = b.
Proof.
  induction l as [|x l IH]; cbn [ssorted In]; [tauto|]. intros [Hx Hl] a b [<-|Ha] [<-|Hb] E.
  - reflexivity.
  - rewrite Forall_forall in Hx. specialize (Hx _ Hb). lia.
  - rewrite Forall_forall in Hx. specialize (Hx _ Ha). lia.
  - apply IH; assumption.
Qed.

Lemma insert_ssorted x l : ssorted l -> ~ In (fst x) (map fst l) -> ssorted (insert_by_idx x l).
Proof.
  induction l as [|y l IH]; cbn [insert_by_idx ssorted map In]; intros Hs Hn.
  - split; [constructor|exact I].
  - destruct Hs as [Hy Hl]. destruct (Nat.leb_spec (fst y) (fst x)) as [Hle|Hgt]; cbn [ssorted].
    + split; [|apply IH; [exact Hl|tauto]].
      apply Forall_forall. intros z Hz. apply insert_perm in Hz as [->|Hz].
      * assert (fst y <> fst x) by tauto. lia.
      * rewrite Forall_forall in Hy. apply Hy, Hz.
    + split; [|split; assumption].
      constructor; [exact Hgt|]. rewrite Forall_forall in *. intros z Hz. specialize (Hy _ Hz). lia.
Qed.

Lemma fold_insert_ssorted l : forall acc, ssorted acc -> NoDup (map fst l) ->
  (forall x, In x l -> ~ In (fst x) (map fst acc)) ->
  ssorted (fold_left (fun a x => insert_by_idx x a) l acc).
Proof.
  induction l as [|x l IH]; intros acc Ha Hnd Hdis; cbn [fold_left]; [exact Ha|].
  cbn [map] in Hnd. apply NoDup_cons_iff in Hnd as [Hx Hnd].
  apply IH; [apply insert_ssorted; [exact Ha|apply Hdis; left; reflexivity]|exact Hnd|].
  intros z Hz Hin. apply in_map_iff in Hin as (w & Ew & Hw). apply insert_perm in Hw as [->|Hw].
  - apply Hx. rewrite Ew. apply in_map, Hz.
  - apply (Hdis z (or_intror Hz)). rewrite <- Ew. apply in_map, Hw.
Qed.

Lemma sort_ssorted l : NoDup (map fst l) -> ssorted (sort_by_idx l).
Proof. intros H. unfold sort_by_idx. apply fold_insert_ssorted; [exact I|exact H|intros x _ []]. Qed.

Lemma ssorted_unique l1 : forall l2, ssorted l1 -> ssorted l2 -> (forall y, In y l1 <-> In y l2) -> l1 = l2.
Proof.
  induction l1 as [|x r1 IH]; intros [|y r2] H1 H2 Hin.
  - reflexivity.
  - exfalso. apply (Hin y). left. reflexivity.
  - exfalso. apply (Hin x). left. reflexivity.
  - cbn [ssorted] in H1, H2. destruct H1 as [Hx H1], H2 as [Hy H2]. rewrite Forall_forall in Hx, Hy.
    assert (E : x = y).
    { destruct (proj1 (Hin x) (or_introl eq_refl)) as [E|Hxr]; [symmetry; exact E|].
      destruct (proj2 (Hin y) (or_introl eq_refl)) as [E|Hyr]; [exact E|].
      specialize (Hx _ Hyr). specialize (Hy _ Hxr). lia. }
    subst y. f_equal. apply IH; [exact H1|exact H2|].
    intros z; split; intros Hz.
    + destruct (proj1 (Hin z) (or_intror Hz)) as [E|H]; [|exact H]. subst z. specialize (Hx _ Hz). lia.
    + destruct (proj2 (Hin z) (or_intror Hz)) as [E|H]; [|exact H]. subst z. specialize (Hy _ Hz). lia.
Qed.

(* the selection, sorted by position, is the document filtered by "was selected" *)
Theorem sort_is_document_filter (E l : list (nat * qn)) :
  ssorted E -> incl l E -> NoDup (map fst l) ->
  sort_by_idx l = filter (fun x => existsb (fun y => (fst y =? fst x)%nat) l) E.
Proof.
  intros HE Hincl Hnd. apply ssorted_unique; [apply sort_ssorted, Hnd|apply ssorted_filter, HE|].
  intros y. rewrite sort_by_idx_in, filter_In, existsb_exists. split.
  - intros Hy. split; [apply Hincl, Hy|]. exists y. split; [exact Hy|apply Nat.eqb_refl].
  - intros [HyE (z & Hz & Ez)]. apply Nat.eqb_eq in Ez.
    rewrite <- (ssorted_fst_inj E HE z y (Hincl _ Hz) HyE Ez). exact Hz.
Qed.

(* ---- Python slices pick distinct positions ----------------------------------------- *)
Lemma slice_indices_mono fuel : forall i stop c, (c <> 0)%Z ->
  forall j, In j (slice_indices fuel i stop c) -> if (0 <? c)%Z then (i <= j)%Z else (j <= i)%Z.
Proof.
  induction fuel as [|f IH]; intros i stop c Hc j; cbn [slice_indices In]; [tauto|].
  destruct (if (0 <? c)%Z then (i <? stop)%Z else (stop <? i)%Z); [|intros []].
  intros [<-|H]; [destruct (0 <? c)%Z; lia|]. apply IH in H; [|exact Hc].
  destruct (Z.ltb_spec 0 c); lia.
Qed.

Lemma slice_indices_NoDup fuel : forall i stop c, (c <> 0)%Z -> NoDup (slice_indices fuel i stop c).
Proof.
  induction fuel as [|f IH]; intros i stop c Hc; cbn [slice_indices]; [constructor|].
  destruct (if (0 <? c)%Z then (i <? stop)%Z else (stop <? i)%Z); [|constructor].
  constructor; [|apply IH, Hc]. intros H. apply slice_indices_mono in H; [|exact Hc].
  destruct (Z.ltb_spec 0 c); lia.
Qed.

Lemma slice_indices_bound fuel : forall i stop c j, In j (slice_indices fuel i stop c) ->
  if (0 <? c)%Z then (j < stop)%Z else (stop < j)%Z.
Proof.
  induction fuel as [|f IH]; intros i stop c j; cbn [slice_indices In]; [tauto|].
  destruct (0 <? c)%Z eqn:Ec.
  - destruct (Z.ltb_spec i stop) as [Hlt|Hge]; [|intros []]. intros [<-|Hj]; [lia|]. apply IH in Hj. rewrite Ec in Hj. exact Hj.
  - destruct (Z.ltb_spec stop i) as [Hlt|Hge]; [|intros []]. intros [<-|Hj]; [lia|]. apply IH in Hj. rewrite Ec in Hj. exact Hj.
Qed.

Lemma slice_indices_nonneg fuel n a b c : (0 <= n)%Z -> (c <> 0)%Z ->
  forall j, In j (slice_indices fuel (fst (slice_bounds n a b c)) (snd (slice_bounds n a b c)) c) -> (0 <= j)%Z.
Proof.
  intros Hn Hc j Hj. pose proof (slice_indices_mono _ _ _ _ Hc _ Hj) as Hm.
  pose proof (slice_indices_bound _ _ _ _ _ Hj) as Hb.
  unfold slice_bounds in *. cbn [fst snd] in *.
  destruct (Z.ltb_spec 0 c) as [Hp|Hneg].
  - destruct (Z.ltb_spec c 0); [lia|]. destruct a as [x|]; [|lia].
    destruct (Z.ltb_spec x 0); lia.
  - destruct (Z.ltb_spec c 0); [|lia]. destruct b as [x|]; [|lia].
    destruct (Z.ltb_spec x 0); lia.
Qed.

Lemma pick_NoDup (l : list (nat * qn)) : NoDup (map fst l) -> forall ps, NoDup ps ->
  NoDup (map fst (flat_map (fun p => match nth_error l p with Some x => [x] | None => [] end) ps)).
Proof.
  intros Hl ps. induction ps as [|p ps IH]; intros Hps; cbn [flat_map map]; [constructor|].
  apply NoDup_cons_iff in Hps as [Hp Hps]. specialize (IH Hps).
  destruct (nth_error l p) as [x|] eqn:Ex; cbn [app]; [|exact IH].
  cbn [map]. constructor; [|exact IH].
  intros Hin. apply in_map_iff in Hin as (y & Ey & Hy). apply in_flat_map in Hy as (q & Hq & Hy).
  destruct (nth_error l q) as [z|] eqn:Ez; [|destruct Hy]. destruct Hy as [->|[]].
  assert (E1 : nth_error (map fst l) p = Some (fst x)) by (rewrite nth_error_map, Ex; reflexivity).
  assert (E2 : nth_error (map fst l) q = Some (fst x)) by (rewrite nth_error_map, Ez; cbn; rewrite Ey; reflexivity).
  assert (p = q).
  { apply (proj1 (NoDup_nth_error (map fst l)) Hl); [apply nth_error_Some; rewrite E1; discriminate|congruence]. }
  subst q. contradiction.
Qed.

Lemma py_slice_picks (l sel : list (nat * qn)) a b c : py_slice l a b c = Ok sel ->
  incl sel l /\ (NoDup (map fst l) -> NoDup (map fst sel)).
Proof.
  unfold py_slice. set (step := match c with None => 1%Z | Some x => x end).
  destruct (Z.eqb_spec step 0) as [|Hc]; [discriminate|].
  destruct (slice_bounds (Z.of_nat (length l)) a b step) as [start stop] eqn:Eb. intros E; injection E as <-.
  split.
  - intros y Hy. apply in_flat_map in Hy as (i & _ & Hy).
    destruct (nth_error l (Z.to_nat i)) as [x|] eqn:Ex; [|destruct Hy]. destruct Hy as [<-|[]].
    eapply nth_error_In; exact Ex.
  - intros Hl.
    assert (Hnn : forall j, In j (slice_indices (S (length l)) start stop step) -> (0 <= j)%Z).
    { intros j Hj. apply (slice_indices_nonneg (S (length l)) (Z.of_nat (length l)) a b step); [lia|exact Hc|].
      rewrite Eb. exact Hj. }
    pose proof (slice_indices_NoDup (S (length l)) start stop step Hc) as Hnd.
    set (idx := slice_indices (S (length l)) start stop step) in *.
    assert (Hps : NoDup (map Z.to_nat idx)).
    { clearbody idx. induction idx as [|i r IH]; [constructor|]. cbn [map].
      apply NoDup_cons_iff in Hnd as [Hi Hr]. constructor; [|apply IH; [intros j Hj; apply Hnn; right; exact Hj|exact Hr]].
      intros Hin. apply in_map_iff in Hin as (j & Ej & Hj).
      assert (0 <= i)%Z by (apply Hnn; left; reflexivity). assert (0 <= j)%Z by (apply Hnn; right; exact Hj).
      assert (i = j) by lia. subst j. contradiction. }
    pose proof (pick_NoDup l Hl _ Hps) as H.
    rewrite flat_map_concat_map, map_map, <- flat_map_concat_map in H. exact H.
Qed.

Lemma NoDup_app_intro {A} (a b : list A) : NoDup a -> NoDup b -> (forall x, In x a -> ~ In x b) -> NoDup (a ++ b).
Proof.
  induction a as [|x a IH]; intros Ha Hb Hd; cbn [app]; [exact Hb|].
  apply NoDup_cons_iff in Ha as [Hx Ha]. constructor.
  - intros Hin. apply in_app_or in Hin as [Hin|Hin]; [contradiction|]. apply (Hd x); [left; reflexivity|exact Hin].
  - apply IH; [exact Ha|exact Hb|]. intros y Hy. apply Hd. right. exact Hy.
Qed.

Lemma ssorted_NoDup_fst l : ssorted l -> NoDup (map fst l).
Proof.
  induction l as [|x l IH]; [constructor|]. cbn [ssorted map]. intros [Hx Hl]. constructor; [|apply IH, Hl].
  intros Hin. apply in_map_iff in Hin as (y & Ey & Hy). rewrite Forall_forall in Hx. specialize (Hx _ Hy). lia.
Qed.

Section S2.
Context (attrs : list attr) (labels : list (list char)).

(* a slice step: the matches cut by the slice, plus (descendant step) the composites
   to descend into, read off the document in document order *)
Theorem ffe_slice_document_order c a b st nodes sel :
  c_slice c = SSlice a b st -> py_slice (matched_of attrs labels c nodes) a b st = Ok sel ->
  filter_for_entities attrs labels nodes c =
  Ok (filter (fun x => existsb (fun y => (fst y =? fst x)%nat) (sel ++ kept_of attrs labels c nodes)) (enumerate 0 nodes)).
Proof.
  intros Hs Ep. rewrite (ffe_slice attrs labels c a b st nodes Hs), Ep. cbn [bind]. f_equal.
  pose proof (ssorted_enumerate nodes 0) as HE.
  assert (HnE : NoDup (map fst (filter (is1 attrs labels c) (enumerate 0 nodes))))
    by (apply ssorted_NoDup_fst, ssorted_filter, HE).
  destruct (py_slice_picks _ _ _ _ _ Ep) as [Hincl Hnd]. specialize (Hnd HnE).
  apply sort_is_document_filter; [exact HE| |].
  - intros y Hy. apply in_app_or in Hy as [Hy|Hy].
    + apply Hincl in Hy. apply filter_In in Hy as [Hy _]. exact Hy.
    + apply filter_In in Hy as [Hy _]. exact Hy.
  - rewrite map_app. apply NoDup_app_intro; [exact Hnd|apply ssorted_NoDup_fst, ssorted_filter, HE|].
    intros i Hi1 Hi2. apply in_map_iff in Hi1 as (x & <- & Hx). apply in_map_iff in Hi2 as (y & Ey & Hy).
    apply Hincl in Hx. apply filter_In in Hx as [HxE Hx1]. apply filter_In in Hy as [HyE Hy2].
    assert (y = x) by (apply (ssorted_fst_inj _ HE); assumption). subst y.
    unfold is1 in Hx1. unfold is2 in Hy2. apply N.eqb_eq in Hx1. apply N.eqb_eq in Hy2. congruence.
Qed.

(* hence on a child / attribute step (nothing kept) the result is the slice of the matches, in document order *)
Corollary ffe_slice_child c a b st nodes sel :
  c_slice c = SSlice a b st -> (c_sep c =? SEP_DESCEND)%N = false ->
  py_slice (matched_of attrs labels c nodes) a b st = Ok sel ->
  filter_for_entities attrs labels nodes c =
  Ok (filter (fun x => existsb (fun y => (fst y =? fst x)%nat) sel) (enumerate 0 nodes)).
Proof.
  intros Hs Hd Ep. rewrite (ffe_slice_document_order c a b st nodes sel Hs Ep).
  unfold kept_of. rewrite filter_is2_nil by exact Hd. rewrite app_nil_r. reflexivity.
Qed.

End S2.
