(* CompileEquivInv.v — the invariant of the compilation theorem and the
   statement-by-statement agreement of the run-time handlers.

   Three register files are related at every program point:
     rC  the compile-time registers (evolved by the checking compiler),
     rI  the registers of the interpreted run (walk with io_handlers),
     rE  the registers of the compiled run (exec_stmts).
   STATIC part: rI and rC agree on every register that decides control flow or
   handler arguments.  DYNAMIC part: rI and rE agree on everything the run-time
   handlers read. *)
From Coq Require Import ZifyBool ZifyNat ZifyN.
From PBK Require Import Base Descr Walk Coder Compile CompileChk CompileEquivBase.

Ltac rsimp :=
  cbn [r_nbits_offset r_scale_offset r_nbits_new_refval r_new_refvals r_assoc r_nbits_skipped r_bsr
       r_new_nbytes r_dnp r_qa r_bitmap_set r_bitmapped r_bm_state r_reuse r_n031031 r_next_bm
       r_boundary r_backrefs
       set_nbits_offset set_scale_offset set_nbits_new_refval set_new_refvals set_assoc
       set_nbits_skipped set_bsr set_new_nbytes set_dnp set_qa set_bitmap_set set_bitmapped
       set_bm_state set_reuse set_n031031 set_next_bm set_boundary set_backrefs
       upd_r set_r w_r w_c ck_code ck_ndef ck_c33 cemit_st io_dd io_links io_c keys dirty dirty_of fresh].
Ltac rsimp_in H :=
  cbn [r_nbits_offset r_scale_offset r_nbits_new_refval r_new_refvals r_assoc r_nbits_skipped r_bsr
       r_new_nbytes r_dnp r_qa r_bitmap_set r_bitmapped r_bm_state r_reuse r_n031031 r_next_bm
       r_boundary r_backrefs
       set_nbits_offset set_scale_offset set_nbits_new_refval set_new_refvals set_assoc
       set_nbits_skipped set_bsr set_new_nbytes set_dnp set_qa set_bitmap_set set_bitmapped
       set_bm_state set_reuse set_n031031 set_next_bm set_boundary set_backrefs
       upd_r set_r w_r w_c ck_code ck_ndef ck_c33 cemit_st io_dd io_links io_c keys dirty dirty_of fresh] in H.

Definition BmInv (rC : regs) : Prop :=
  r_bm_state rC = BITMAP_NA \/ r_bm_state rC = BITMAP_INDICATOR \/
  (r_bm_state rC = BITMAP_WAITING_FOR_BIT /\ r_n031031 rC = 0%Z) \/
  (r_bm_state rC = BITMAP_BIT_COUNTING /\ (1 <= r_n031031 rC)%Z).

Definition StatInv (rC : regs) (nd : nat) : Prop :=
  BmInv rC /\ (length (r_new_refvals rC) <= nd)%nat.

Record InvR (rC : regs) (nd : nat) (rI rE : regs) : Prop := mkInvR {
  sa_nbits_offset : r_nbits_offset rI = r_nbits_offset rC;
  sa_scale_offset : r_scale_offset rI = r_scale_offset rC;
  sa_nbits_new_refval : r_nbits_new_refval rI = r_nbits_new_refval rC;
  sa_keys : map fst (r_new_refvals rI) = map fst (r_new_refvals rC);
  sa_assoc : r_assoc rI = r_assoc rC;
  sa_nbits_skipped : r_nbits_skipped rI = r_nbits_skipped rC;
  sa_bsr : r_bsr rI = r_bsr rC;
  sa_new_nbytes : r_new_nbytes rI = r_new_nbytes rC;
  sa_dnp : r_dnp rI = r_dnp rC;
  sa_qa : r_qa rI = r_qa rC;
  sa_bm_state : r_bm_state rI = r_bm_state rC;
  sa_reuse : r_reuse rI = r_reuse rC;
  dy_bitmapped : r_bitmapped rE = r_bitmapped rI;
  dy_next_bm : r_next_bm rE = r_next_bm rI;
  dy_boundary : r_boundary rE = r_boundary rI;
  dy_backrefs : r_backrefs rE = r_backrefs rI;
  dy_lookup : forall id, refval_lookup id (r_new_refvals rI) <> None ->
                refval_lookup id (r_new_refvals rE) = refval_lookup id (r_new_refvals rI);
  dy_clean : dirty_of rC nd = false -> r_new_refvals rE = r_new_refvals rI;
  dy_assocE : r_assoc rE = [];
  dy_qaE : r_qa rE = QA_INFO_NA;
  dy_wait : r_bm_state rC = BITMAP_WAITING_FOR_BIT -> r_n031031 rI = 0%Z /\ r_n031031 rE = 0%Z;
  dy_count : r_bm_state rC = BITMAP_BIT_COUNTING -> r_n031031 rE = r_n031031 rI
}.

(* ---- no class 33 element among the possible back references ------------------ *)
Definition no33_ref (b : backref) : Prop := (desc_X (e_id (snd b)) =? 33)%N = false.
Definition no33_opt (o : option (list backref)) : Prop :=
  match o with Some l => Forall no33_ref l | None => True end.
Definition no33_dd (d : ddesc) : Prop := dd_c33 d = false.

Lemma In_firstn {A} (x : A) n l : In x (firstn n l) -> In x l.
Proof.
  revert l. induction n as [|n IH]; intros [|y l] Hx; cbn in *; try contradiction.
  destruct Hx as [->|Hx]; [left; reflexivity|right; apply IH; exact Hx].
Qed.

Lemma In_elems_indexed i e k l : In (i, e) (elems_indexed k l) -> In (DDElem e) l.
Proof.
  revert k. induction l as [|d l IH]; intros k Hx; cbn in *; [contradiction|].
  destruct d; try (right; eapply IH; exact Hx).
  cbn in Hx. destruct Hx as [Hx|Hx]; [left; congruence|right; eapply IH; exact Hx].
Qed.

Lemma In_collect_backrefs i e b n dd : In (i, e) (collect_backrefs b n dd) -> In (DDElem e) dd.
Proof.
  unfold collect_backrefs. intros Hx. apply in_rev in Hx.
  assert (Hy : In (i, e) (rev (elems_indexed 0 (firstn (N.to_nat b) dd)))).
  { destruct n; [exact Hx|]. eapply In_firstn; exact Hx. }
  apply in_rev in Hy. apply In_elems_indexed in Hy. eapply In_firstn; exact Hy.
Qed.

Lemma In_select_zero x bm refs : In x (select_zero bm refs) -> In x refs.
Proof.
  revert refs. induction bm as [|b bm IH]; intros [|y refs] Hx; cbn in *; try contradiction.
  destruct b; [destruct Hx as [->|Hx]; [left; reflexivity|right; apply IH; exact Hx]|right; apply IH; exact Hx].
Qed.

Section Inv.
Context {C : Type} (P : prims C).
Notation st := (ws (io C)).
Notation H := (io_handlers P).
Notation exec := (exec_stmts P true).

Definition NoC33 (s : st) : Prop :=
  Forall no33_dd (io_dd (w_c s)) /\ no33_opt (r_backrefs (w_r s)) /\
  no33_opt (r_bitmapped (w_r s)) /\ no33_opt (r_next_bm (w_r s)).

Definition Inv (sC : ws cks) (sI sE : st) : Prop :=
  w_c sI = w_c sE /\ InvR (w_r sC) (ck_ndef (w_c sC)) (w_r sI) (w_r sE) /\
  (ck_c33 (w_c sC) = false -> NoC33 sI).

Lemma NoC33_upd (f : regs -> regs) (s : st) :
  r_backrefs (f (w_r s)) = r_backrefs (w_r s) -> r_bitmapped (f (w_r s)) = r_bitmapped (w_r s) ->
  r_next_bm (f (w_r s)) = r_next_bm (w_r s) -> NoC33 s -> NoC33 (upd_r f s).
Proof.
  intros E1 E2 E3 (Hd & H1 & H2 & H3). unfold NoC33. cbn [upd_r w_r w_c]. rewrite E1, E2, E3. auto.
Qed.

(* what a compile step [resC] from [sC] promises about the interpreted step [fI] *)
Definition simc_at (sC : ws cks) (resC : result (ws cks)) (fI : st -> result st) : Prop :=
  forall sC', resC = Ok sC' -> StatInv (w_r sC) (ck_ndef (w_c sC)) ->
  exists code, ck_code (w_c sC') = stmts_app (ck_code (w_c sC)) code /\
    StatInv (w_r sC') (ck_ndef (w_c sC')) /\
    forall sI sE, Inv sC sI sE -> agree (Inv sC') (fI sI) (exec code sE).

Definition simc (fC : ws cks -> result (ws cks)) (fI : st -> result st) : Prop :=
  forall sC, simc_at sC (fC sC) fI.

Lemma simc_at_ret sC : simc_at sC (Ok sC) (fun s => Ok s).
Proof.
  intros sC' E HS. injection E as <-. exists SNil. split; [symmetry; apply stmts_app_nil_r|].
  split; [exact HS|]. intros sI sE HI. exact HI.
Qed.

Lemma simc_at_err sC e fI : simc_at sC (Err e) fI.
Proof. intros sC' E. discriminate. Qed.

Lemma simc_at_bind sC resC fC2 gI1 gI2 :
  simc_at sC resC gI1 -> simc fC2 gI2 ->
  simc_at sC (bind resC fC2) (fun s => bind (gI1 s) gI2).
Proof.
  intros H1 H2 sC' E HS. destruct resC as [sC1|]; cbn [bind] in E; [|discriminate].
  destruct (H1 _ eq_refl HS) as (c1 & Ec1 & HS1 & A1).
  destruct (H2 sC1 sC' E HS1) as (c2 & Ec2 & HS2 & A2).
  exists (stmts_app c1 c2). split; [rewrite Ec2, Ec1, stmts_app_assoc; reflexivity|].
  split; [exact HS2|]. intros sI sE HI. rewrite exec_stmts_app.
  eapply agree_bind; [apply A1; exact HI|exact A2].
Qed.

Lemma simc_at_extI sC resC fI fI' :
  (forall sI sE, Inv sC sI sE -> fI sI = fI' sI) -> simc_at sC resC fI' -> simc_at sC resC fI.
Proof.
  intros Hx Hs sC' E HS. destruct (Hs sC' E HS) as (code & Ec & HS' & A).
  exists code. split; [exact Ec|]. split; [exact HS'|].
  intros sI sE HI. rewrite (Hx _ _ HI). apply A. exact HI.
Qed.

(* a register update performed by the walker itself, on both sides; it never
   touches the back reference bookkeeping *)
Definition keeps_refs (f : regs -> regs) : Prop :=
  forall r, r_backrefs (f r) = r_backrefs r /\ r_bitmapped (f r) = r_bitmapped r /\ r_next_bm (f r) = r_next_bm r.

Lemma simc_at_upd (f : regs -> regs) sC :
  keeps_refs f ->
  (StatInv (w_r sC) (ck_ndef (w_c sC)) ->
   StatInv (f (w_r sC)) (ck_ndef (w_c sC)) /\
   forall rI rE, InvR (w_r sC) (ck_ndef (w_c sC)) rI rE -> InvR (f (w_r sC)) (ck_ndef (w_c sC)) (f rI) rE) ->
  simc_at sC (Ok (upd_r f sC)) (fun s => Ok (upd_r f s)).
Proof.
  intros Hk HSf sC' E HS. injection E as <-. exists SNil. destruct (HSf HS) as [HS' HIf].
  split; [symmetry; apply stmts_app_nil_r|]. split; [exact HS'|].
  intros sI sE (Hc & HR & HN). cbn [agree exec_stmts]. split; [exact Hc|]. split; [apply HIf; exact HR|].
  intros X. destruct (Hk (w_r sI)) as (K1 & K2 & K3). apply NoC33_upd; auto.
Qed.

(* a recorded run-time handler call: the same function on both run-time states *)
Definition dyn_ok (sC sC' : ws cks) (g : st -> result st) : Prop :=
  forall sI sE, Inv sC sI sE -> agree (Inv sC') (g sI) (g sE).

Lemma simc_at_emit sC x g :
  (forall s, exec_stmt P true x s = g s) -> dyn_ok sC (cemit_st x sC) g -> simc_at sC (cemit x sC) g.
Proof.
  intros Hx Hg sC' E HS. unfold cemit in E. injection E as <-. exists (SCons x SNil).
  split; [reflexivity|]. split; [exact HS|].
  intros sI sE HI. rewrite exec_stmts_one, Hx. exact (Hg _ _ HI).
Qed.

(* ---- the handlers that only touch the client state -------------------------- *)
Lemma lift_agree x dd f sC : stmt_c33 x = dd_c33 dd -> dyn_ok sC (cemit_st x sC) (lift dd f).
Proof.
  intros Hx sI sE (Hc & HR & HN). unfold lift, push_dd, with_c. rewrite Hc. rsimp.
  destruct (f (io_c (w_c sE))) as [c|e]; cbn [bind agree]; [|reflexivity].
  split; [reflexivity|]. split; [exact HR|]. rsimp. rewrite Hx. intros X.
  destruct (dd_c33 dd) eqn:Ed; [discriminate|]. destruct (HN X) as (Hd & H1 & H2 & H3).
  unfold NoC33. rsimp. rewrite <- Hc. split; [|auto].
  apply Forall_app. split; [exact Hd|]. constructor; [exact Ed|constructor].
Qed.

Lemma lookup_keys id (l1 l2 : list (N * option Z)) :
  map fst l1 = map fst l2 -> refval_lookup id l1 = None -> refval_lookup id l2 = None.
Proof.
  revert l2. induction l1 as [|[k v] l1 IH]; intros [|[k2 v2] l2] E; cbn in E; try discriminate; [auto|].
  injection E as -> E. cbn [refval_lookup]. destruct (k2 =? id)%N; [discriminate|]. apply IH; exact E.
Qed.

Lemma numeric_nr_agree dd a b c sC :
  refval_lookup (dd_id dd) (r_new_refvals (w_r sC)) <> None ->
  dyn_ok sC (cemit_st (SNumericNR dd a b c) sC) (h_numeric_new_refval H dd a b c).
Proof.
  intros Hk sI sE HI. pose proof HI as (Hc & HR & HN). cbn [io_handlers h_numeric_new_refval].
  assert (Hn : refval_lookup (dd_id dd) (r_new_refvals (w_r sI)) <> None).
  { intros E. apply Hk. eapply lookup_keys; [exact (sa_keys _ _ _ _ HR)|exact E]. }
  rewrite (dy_lookup _ _ _ _ HR _ Hn).
  destruct (refval_lookup (dd_id dd) (r_new_refvals (w_r sI))) as [[v|]|]; cbn [agree]; try reflexivity.
  apply (lift_agree (SNumericNR dd a b c)); [reflexivity|exact HI].
Qed.

(* handlers that push no descriptor: the class 33 flag of the compiler is unchanged *)
Lemma mark_agree sC : dyn_ok sC (cemit_st SMark sC) (h_mark_boundary H).
Proof.
  intros sI sE (Hc & HR & HN). cbn [io_handlers h_mark_boundary agree]. unfold ndesc. rewrite Hc.
  split; [exact Hc|]. split; [rsimp; destruct HR; constructor; rsimp; auto|].
  rsimp. intros X. apply NoC33_upd; try reflexivity. apply HN. exact X.
Qed.

Lemma recall_agree sC : dyn_ok sC (cemit_st SRecall sC) (h_recall_bitmap H).
Proof.
  intros sI sE (Hc & HR & HN). cbn [io_handlers h_recall_bitmap]. rewrite (dy_bitmapped _ _ _ _ HR).
  destruct (r_bitmapped (w_r sI)) as [l|] eqn:Eb; cbn [agree]; [|reflexivity].
  split; [exact Hc|]. split; [rsimp; destruct HR; constructor; rsimp; auto|].
  rsimp. intros X. destruct (HN X) as (Hd & H1 & H2 & H3). unfold NoC33. rsimp.
  rewrite Eb in *. auto.
Qed.

Lemma cancel_agree sC : dyn_ok sC (cemit_st SCancelBitmap sC) (h_cancel_bitmap H).
Proof.
  intros sI sE (Hc & HR & HN). cbn [io_handlers h_cancel_bitmap agree].
  split; [exact Hc|]. split; [rsimp; destruct HR; constructor; rsimp; auto|].
  rsimp. intros X. apply NoC33_upd; try reflexivity. apply HN. exact X.
Qed.

Lemma cancel_br_agree sC : dyn_ok sC (cemit_st SCancelBackrefs sC) (h_cancel_backrefs H).
Proof.
  intros sI sE (Hc & HR & HN). cbn [io_handlers h_cancel_backrefs agree].
  split; [exact Hc|]. split; [rsimp; destruct HR; constructor; rsimp; auto|].
  rsimp. intros X. destruct (HN X) as (Hd & H1 & H2 & H3). unfold NoC33. rsimp. cbn [no33_opt]. auto.
Qed.

Lemma add_link_agree sC : dyn_ok sC (cemit_st SAddLink sC) (h_add_bitmap_link H).
Proof.
  intros sI sE (Hc & HR & HN). cbn [io_handlers h_add_bitmap_link]. unfold next_bitmapped.
  rewrite (dy_next_bm _ _ _ _ HR).
  destruct (r_next_bm (w_r sI)) as [[|b rest]|] eqn:En; cbn [bind agree]; try reflexivity.
  unfold io_add_link, ndesc. rsimp. rewrite Hc. split; [reflexivity|].
  split; [destruct HR; constructor; rsimp; auto|].
  intros X. destruct (HN X) as (Hd & H1 & H2 & H3). unfold NoC33. rsimp. rewrite <- Hc.
  rewrite En in H3. cbn [no33_opt] in *. inversion H3; subst. auto.
Qed.

Lemma build_bitmapped_agree bm sC : dyn_ok sC sC (build_bitmapped bm).
Proof.
  intros sI sE (Hc & HR & HN). unfold build_bitmapped, get_backrefs.
  rewrite (dy_backrefs _ _ _ _ HR), (dy_boundary _ _ _ _ HR), Hc.
  match goal with |- agree _ (bind ?r _) _ => destruct r as [refs|e] eqn:Er end; cbn [bind agree]; [|reflexivity].
  cbv zeta. destruct (negb (length refs =? length bm)%nat); cbn [agree]; [reflexivity|].
  split; [exact Hc|]. split; [rsimp; destruct HR; constructor; rsimp; auto|].
  intros X. destruct (HN X) as (Hd & H1 & H2 & H3). unfold NoC33. rsimp.
  assert (Hrefs : Forall no33_ref refs).
  { destruct (r_backrefs (w_r sI)) as [[|b0 l0]|] eqn:Eb.
    - destruct (N.of_nat (length (io_dd (w_c sE))) <? r_boundary (w_r sI))%N; [discriminate|].
      injection Er as <-. apply Forall_forall. intros [i e] Hx. apply In_collect_backrefs in Hx.
      rewrite <- Hc in Hx. rewrite Forall_forall in Hd. exact (Hd _ Hx).
    - injection Er as <-. exact H1.
    - destruct (N.of_nat (length (io_dd (w_c sE))) <? r_boundary (w_r sI))%N; [discriminate|].
      injection Er as <-. apply Forall_forall. intros [i e] Hx. apply In_collect_backrefs in Hx.
      rewrite <- Hc in Hx. rewrite Forall_forall in Hd. exact (Hd _ Hx). }
  assert (Hsel : Forall no33_ref (select_zero bm refs)).
  { apply Forall_forall. intros x Hx. apply In_select_zero in Hx. rewrite Forall_forall in Hrefs. auto. }
  cbn [no33_opt]. auto.
Qed.

Lemma define_bitmap_agree reuse sC :
  r_bm_state (w_r sC) = BITMAP_BIT_COUNTING ->
  dyn_ok sC (cemit_st (SDefineBitmap reuse) sC) (h_define_bitmap H reuse).
Proof.
  intros Hbm sI sE (Hc & HR & HN). cbn [io_handlers h_define_bitmap].
  rewrite (dy_count _ _ _ _ HR Hbm), Hc.
  destruct (p_bitmap P (r_n031031 (w_r sI)) (io_c (w_c sE))) as [bm|e]; cbn [bind agree]; [|reflexivity].
  destruct reuse.
  - apply (build_bitmapped_agree bm sC). split; [exact Hc|].
    split; [rsimp; destruct HR; constructor; rsimp; auto|].
    intros X. apply NoC33_upd; try reflexivity. apply HN. exact X.
  - apply (build_bitmapped_agree bm sC). split; [exact Hc|]. split; [exact HR|exact HN].
Qed.

Lemma new_refval_simc nzf dd a sC :
  simc_at sC (h_new_refval (chk_handlers nzf) dd a sC) (h_new_refval H dd a).
Proof.
  intros sC' E HS. cbn [chk_handlers h_new_refval] in E. injection E as <-.
  exists (SCons (SNewRefval dd a) SNil). split; [reflexivity|].
  split; [destruct HS as [HB HL]; split; [exact HB|rsimp; unfold refval_set; cbn [length]; lia]|].
  intros sI sE (Hc & HR & HN). rewrite exec_stmts_one. cbn [exec_stmt].
  cbn [io_handlers h_new_refval]. unfold push_dd, with_c. rsimp. rewrite Hc.
  destruct (p_new_refval P a (io_c (w_c sE))) as [[v c]|e]; cbn [bind agree]; [|reflexivity].
  split; [reflexivity|]. split.
  - rsimp. destruct HR. constructor; rsimp; auto.
    + unfold refval_set. cbn [map fst]. congruence.
    + intros id. unfold refval_set. cbn [refval_lookup].
      destruct (dd_id dd =? id)%N; [reflexivity|]. apply dy_lookup0.
    + unfold refval_set, dirty_of. cbn [length Nat.eqb]. intros Hd.
      rewrite dy_clean0; [reflexivity|exact Hd].
  - rsimp. intros X. destruct (dd_c33 dd) eqn:Ed; [discriminate|].
    destruct (HN X) as (Hd & H1 & H2 & H3). unfold NoC33. rsimp. rewrite <- Hc. split; [|auto].
    apply Forall_app. split; [exact Hd|]. constructor; [exact Ed|constructor].
Qed.

End Inv.
