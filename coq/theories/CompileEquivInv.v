(* CompileEquivInv.v — the invariant of the compilation theorem and the
   statement-by-statement agreement of the run-time handlers.

   Three register files are related at every program point:
     rC  the compile-time registers (evolved by the checking compiler),
     rI  the registers of the interpreted run (walk with io_handlers),
     rE  the registers of the compiled run (exec_stmts).
   STATIC part: rI and rC agree on every register that decides control flow or
   handler arguments.  DYNAMIC part: rI and rE agree on everything the run-time
   handlers read. *)
From Coq Require Import ZifyBool ZifyNat ZifyN.
From PBK Require Import Base Descr Walk Coder Compile CompileChk CompileEquivBase.

Ltac rsimp :=
  cbn [r_nbits_offset r_scale_offset r_nbits_new_refval r_new_refvals r_assoc r_nbits_skipped r_bsr
       r_new_nbytes r_dnp r_qa r_bitmap_set r_bitmapped r_bm_state r_reuse r_n031031 r_next_bm
       r_boundary r_backrefs
       set_nbits_offset set_scale_offset set_nbits_new_refval set_new_refvals set_assoc
       set_nbits_skipped set_bsr set_new_nbytes set_dnp set_qa set_bitmap_set set_bitmapped
       set_bm_state set_reuse set_n031031 set_next_bm set_boundary set_backrefs
       upd_r set_r w_r w_c ck_code ck_ndef io_dd io_links io_c keys dirty dirty_of fresh].
Ltac rsimp_in H :=
  cbn [r_nbits_offset r_scale_offset r_nbits_new_refval r_new_refvals r_assoc r_nbits_skipped r_bsr
       r_new_nbytes r_dnp r_qa r_bitmap_set r_bitmapped r_bm_state r_reuse r_n031031 r_next_bm
       r_boundary r_backrefs
       set_nbits_offset set_scale_offset set_nbits_new_refval set_new_refvals set_assoc
       set_nbits_skipped set_bsr set_new_nbytes set_dnp set_qa set_bitmap_set set_bitmapped
       set_bm_state set_reuse set_n031031 set_next_bm set_boundary set_backrefs
       upd_r set_r w_r w_c ck_code ck_ndef io_dd io_links io_c keys dirty dirty_of fresh] in H.

Definition BmInv (rC : regs) : Prop :=
  r_bm_state rC = BITMAP_NA \/ r_bm_state rC = BITMAP_INDICATOR \/
  (r_bm_state rC = BITMAP_WAITING_FOR_BIT /\ r_n031031 rC = 0%Z) \/
  (r_bm_state rC = BITMAP_BIT_COUNTING /\ (1 <= r_n031031 rC)%Z).

Definition StatInv (rC : regs) (nd : nat) : Prop :=
  BmInv rC /\ (length (r_new_refvals rC) <= nd)%nat.

Record InvR (rC : regs) (nd : nat) (rI rE : regs) : Prop := mkInvR {
  sa_nbits_offset : r_nbits_offset rI = r_nbits_offset rC;
  sa_scale_offset : r_scale_offset rI = r_scale_offset rC;
  sa_nbits_new_refval : r_nbits_new_refval rI = r_nbits_new_refval rC;
  sa_keys : map fst (r_new_refvals rI) = map fst (r_new_refvals rC);
  sa_assoc : r_assoc rI = r_assoc rC;
  sa_nbits_skipped : r_nbits_skipped rI = r_nbits_skipped rC;
  sa_bsr : r_bsr rI = r_bsr rC;
  sa_new_nbytes : r_new_nbytes rI = r_new_nbytes rC;
  sa_dnp : r_dnp rI = r_dnp rC;
  sa_qa : r_qa rI = r_qa rC;
  sa_bm_state : r_bm_state rI = r_bm_state rC;
  sa_reuse : r_reuse rI = r_reuse rC;
  dy_bitmapped : r_bitmapped rE = r_bitmapped rI;
  dy_next_bm : r_next_bm rE = r_next_bm rI;
  dy_boundary : r_boundary rE = r_boundary rI;
  dy_backrefs : r_backrefs rE = r_backrefs rI;
  dy_lookup : forall id, refval_lookup id (r_new_refvals rI) <> None ->
                refval_lookup id (r_new_refvals rE) = refval_lookup id (r_new_refvals rI);
  dy_clean : dirty_of rC nd = false -> r_new_refvals rE = r_new_refvals rI;
  dy_assocE : r_assoc rE = [];
  dy_qaE : r_qa rE = QA_INFO_NA;
  dy_wait : r_bm_state rC = BITMAP_WAITING_FOR_BIT -> r_n031031 rI = 0%Z /\ r_n031031 rE = 0%Z;
  dy_count : r_bm_state rC = BITMAP_BIT_COUNTING -> r_n031031 rE = r_n031031 rI
}.

Section Inv.
Context {C : Type} (P : prims C).
Notation st := (ws (io C)).
Notation H := (io_handlers P).
Notation exec := (exec_stmts P true).

Definition Inv (sC : ws cks) (sI sE : st) : Prop :=
  w_c sI = w_c sE /\ InvR (w_r sC) (ck_ndef (w_c sC)) (w_r sI) (w_r sE).

(* what a compile step [resC] from [sC] promises about the interpreted step [fI] *)
Definition simc_at (sC : ws cks) (resC : result (ws cks)) (fI : st -> result st) : Prop :=
  forall sC', resC = Ok sC' -> StatInv (w_r sC) (ck_ndef (w_c sC)) ->
  exists code, ck_code (w_c sC') = stmts_app (ck_code (w_c sC)) code /\
    StatInv (w_r sC') (ck_ndef (w_c sC')) /\
    forall sI sE, Inv sC sI sE -> agree (Inv sC') (fI sI) (exec code sE).

Definition simc (fC : ws cks -> result (ws cks)) (fI : st -> result st) : Prop :=
  forall sC, simc_at sC (fC sC) fI.

Lemma simc_at_ret sC : simc_at sC (Ok sC) (fun s => Ok s).
Proof.
  intros sC' E HS. injection E as <-. exists SNil. split; [symmetry; apply stmts_app_nil_r|].
  split; [exact HS|]. intros sI sE HI. exact HI.
Qed.

Lemma simc_at_err sC e fI : simc_at sC (Err e) fI.
Proof. intros sC' E. discriminate. Qed.

Lemma simc_at_bind sC resC fC2 gI1 gI2 :
  simc_at sC resC gI1 -> simc fC2 gI2 ->
  simc_at sC (bind resC fC2) (fun s => bind (gI1 s) gI2).
Proof.
  intros H1 H2 sC' E HS. destruct resC as [sC1|]; cbn [bind] in E; [|discriminate].
  destruct (H1 _ eq_refl HS) as (c1 & Ec1 & HS1 & A1).
  destruct (H2 sC1 sC' E HS1) as (c2 & Ec2 & HS2 & A2).
  exists (stmts_app c1 c2). split; [rewrite Ec2, Ec1, stmts_app_assoc; reflexivity|].
  split; [exact HS2|]. intros sI sE HI. rewrite exec_stmts_app.
  eapply agree_bind; [apply A1; exact HI|exact A2].
Qed.

Lemma simc_at_extI sC resC fI fI' :
  (forall sI sE, Inv sC sI sE -> fI sI = fI' sI) -> simc_at sC resC fI' -> simc_at sC resC fI.
Proof.
  intros Hx Hs sC' E HS. destruct (Hs sC' E HS) as (code & Ec & HS' & A).
  exists code. split; [exact Ec|]. split; [exact HS'|].
  intros sI sE HI. rewrite (Hx _ _ HI). apply A. exact HI.
Qed.

(* a register update performed by the walker itself, on both sides *)
Lemma simc_at_upd (f : regs -> regs) sC :
  (StatInv (w_r sC) (ck_ndef (w_c sC)) ->
   StatInv (f (w_r sC)) (ck_ndef (w_c sC)) /\
   forall rI rE, InvR (w_r sC) (ck_ndef (w_c sC)) rI rE -> InvR (f (w_r sC)) (ck_ndef (w_c sC)) (f rI) rE) ->
  simc_at sC (Ok (upd_r f sC)) (fun s => Ok (upd_r f s)).
Proof.
  intros HSf sC' E HS. injection E as <-. exists SNil. destruct (HSf HS) as [HS' HIf].
  split; [symmetry; apply stmts_app_nil_r|]. split; [exact HS'|].
  intros sI sE [Hc HR]. cbn [agree exec_stmts]. split; [exact Hc|]. apply HIf. exact HR.
Qed.

(* a recorded run-time handler call: the same function on both run-time states *)
Definition dyn_ok (sC : ws cks) (g : st -> result st) : Prop :=
  forall sI sE, Inv sC sI sE -> agree (Inv sC) (g sI) (g sE).

Lemma simc_at_emit sC x g :
  (forall s, exec_stmt P true x s = g s) -> dyn_ok sC g -> simc_at sC (cemit x sC) g.
Proof.
  intros Hx Hg sC' E HS. unfold cemit in E. injection E as <-. exists (SCons x SNil).
  split; [reflexivity|]. split; [exact HS|].
  intros sI sE HI. rewrite exec_stmts_one, Hx. exact (Hg _ _ HI).
Qed.

(* ---- the handlers that only touch the client state -------------------------- *)
Lemma lift_agree dd f sC : dyn_ok sC (lift dd f).
Proof.
  intros sI sE [Hc HR]. unfold lift, push_dd, with_c. rewrite Hc. rsimp.
  destruct (f (io_c (w_c sE))) as [c|e]; cbn [bind agree]; [|reflexivity].
  split; [reflexivity|exact HR].
Qed.

Lemma lookup_keys id (l1 l2 : list (N * option Z)) :
  map fst l1 = map fst l2 -> refval_lookup id l1 = None -> refval_lookup id l2 = None.
Proof.
  revert l2. induction l1 as [|[k v] l1 IH]; intros [|[k2 v2] l2] E; cbn in E; try discriminate; [auto|].
  injection E as -> E. cbn [refval_lookup]. destruct (k2 =? id)%N; [discriminate|]. apply IH; exact E.
Qed.

Lemma numeric_nr_agree dd a b c sC :
  refval_lookup (dd_id dd) (r_new_refvals (w_r sC)) <> None ->
  dyn_ok sC (h_numeric_new_refval H dd a b c).
Proof.
  intros Hk sI sE HI. pose proof HI as [Hc HR]. cbn [io_handlers h_numeric_new_refval].
  assert (Hn : refval_lookup (dd_id dd) (r_new_refvals (w_r sI)) <> None).
  { intros E. apply Hk. eapply lookup_keys; [exact (sa_keys _ _ _ _ HR)|exact E]. }
  rewrite (dy_lookup _ _ _ _ HR _ Hn).
  destruct (refval_lookup (dd_id dd) (r_new_refvals (w_r sI))) as [[v|]|]; cbn [agree]; try reflexivity.
  apply lift_agree. exact HI.
Qed.

Lemma mark_agree sC : dyn_ok sC (h_mark_boundary H).
Proof.
  intros sI sE [Hc HR]. cbn [io_handlers h_mark_boundary agree]. unfold ndesc. rewrite Hc.
  split; [exact Hc|]. rsimp. destruct HR. constructor; rsimp; auto.
Qed.

Lemma recall_agree sC : dyn_ok sC (h_recall_bitmap H).
Proof.
  intros sI sE [Hc HR]. cbn [io_handlers h_recall_bitmap]. rewrite (dy_bitmapped _ _ _ _ HR).
  destruct (r_bitmapped (w_r sI)); cbn [agree]; [|reflexivity].
  split; [exact Hc|]. rsimp. destruct HR. constructor; rsimp; auto.
Qed.

Lemma cancel_agree sC : dyn_ok sC (h_cancel_bitmap H).
Proof.
  intros sI sE [Hc HR]. cbn [io_handlers h_cancel_bitmap agree].
  split; [exact Hc|]. rsimp. destruct HR. constructor; rsimp; auto.
Qed.

Lemma cancel_br_agree sC : dyn_ok sC (h_cancel_backrefs H).
Proof.
  intros sI sE [Hc HR]. cbn [io_handlers h_cancel_backrefs agree].
  split; [exact Hc|]. rsimp. destruct HR. constructor; rsimp; auto.
Qed.

Lemma add_link_agree sC : dyn_ok sC (h_add_bitmap_link H).
Proof.
  intros sI sE [Hc HR]. cbn [io_handlers h_add_bitmap_link]. unfold next_bitmapped.
  rewrite (dy_next_bm _ _ _ _ HR).
  destruct (r_next_bm (w_r sI)) as [[|b rest]|]; cbn [bind agree]; try reflexivity.
  unfold io_add_link, ndesc. rsimp. rewrite Hc. split; [reflexivity|].
  destruct HR. constructor; rsimp; auto.
Qed.

Lemma build_bitmapped_agree bm sC : dyn_ok sC (build_bitmapped bm).
Proof.
  intros sI sE [Hc HR]. unfold build_bitmapped, get_backrefs.
  rewrite (dy_backrefs _ _ _ _ HR), (dy_boundary _ _ _ _ HR), Hc.
  match goal with |- agree _ (bind ?r _) _ => destruct r as [refs|e] end; cbn [bind agree]; [|reflexivity].
  cbv zeta. destruct (negb (length refs =? length bm)%nat); cbn [agree]; [reflexivity|].
  split; [exact Hc|]. rsimp. destruct HR. constructor; rsimp; auto.
Qed.

Lemma define_bitmap_agree reuse sC :
  r_bm_state (w_r sC) = BITMAP_BIT_COUNTING -> dyn_ok sC (h_define_bitmap H reuse).
Proof.
  intros Hbm sI sE [Hc HR]. cbn [io_handlers h_define_bitmap].
  rewrite (dy_count _ _ _ _ HR Hbm), Hc.
  destruct (p_bitmap P (r_n031031 (w_r sI)) (io_c (w_c sE))) as [bm|e]; cbn [bind agree]; [|reflexivity].
  destruct reuse.
  - apply build_bitmapped_agree. split; [exact Hc|]. rsimp. destruct HR. constructor; rsimp; auto.
  - apply build_bitmapped_agree. split; [exact Hc|exact HR].
Qed.

Lemma new_refval_simc nzf dd a sC :
  simc_at sC (h_new_refval (chk_handlers nzf) dd a sC) (h_new_refval H dd a).
Proof.
  intros sC' E HS. cbn [chk_handlers h_new_refval] in E. injection E as <-.
  exists (SCons (SNewRefval dd a) SNil). split; [reflexivity|].
  split; [destruct HS as [HB HL]; split; [exact HB|rsimp; unfold refval_set; cbn [length]; lia]|].
  intros sI sE [Hc HR]. rewrite exec_stmts_one. cbn [exec_stmt].
  cbn [io_handlers h_new_refval]. unfold push_dd, with_c. rsimp. rewrite Hc.
  destruct (p_new_refval P a (io_c (w_c sE))) as [[v c]|e]; cbn [bind agree]; [|reflexivity].
  split; [reflexivity|]. rsimp. destruct HR. constructor; rsimp; auto.
  - unfold refval_set. cbn [map fst]. congruence.
  - intros id. unfold refval_set. cbn [refval_lookup].
    destruct (dd_id dd =? id)%N; [reflexivity|]. apply dy_lookup0.
  - unfold refval_set, dirty_of. cbn [length Nat.eqb]. intros Hd.
    rewrite dy_clean0; [reflexivity|exact Hd].
Qed.

End Inv.
